"""C19 - PyImath arrays: read-only protection, index/tuple checks, view lifetimes, buffer protocol (decided parts).

All rules run on facts extracted by tools/pyrules from the type-checked PyImath translation units (every
function the build instantiates): CFG skeletons with atomic branch conditions, storage uses classified by what is
finally done with the lvalue, constructions, bindings with their call policies, call graph.

R19.tmp     no statement constructs an exception object and discards it (a `throw` that was forgotten)
R19.acc     constructors of Writable*Access cannot complete when !array.writable()
R19.wguard  every mutable use of X._ptr[...] (write, non-const method, escape into a non-const parameter or return) in
            a class with a _writable flag is unreachable when X's flag is false; fresh local arrays are exempt;
            the unchecked_* accessors are exempt by name and every one of their call sites is checked instead
R19.wprop   _writable is initialised from the aliased source's flag (or false), a const-pointer source gives false,
            views built from another array's storage pass the source's flag; _writable is assigned nowhere else
R19.inv     a constructor that allocates fresh storage leaves _indices null
R19.own     a constructor that refers to another array's storage (_ptr(src._ptr), _table(src._table)) takes that array's
            owner as well (_handle / _tableHandle / _refcount from the same source)
R19.alias   a local array made from a reference-to-const array parameter (shallow copy: shared storage) is never used for mutable
            access
R19.shape2d a FixedArray2D member reading another 2-D array at its own counters has compared both extents (match_dimension or
            other.len(), a Vec2) on every path to the access
R19.tuple   PyTuple_GetItem(x,k) is unreachable unless PyTuple_Check(x) and PyTuple_Size(x)==N>k held
R19.life    a binding whose target returns a view of self's storage without sharing the handle carries a policy that
            keeps self alive for the result's lifetime (custodian 0 = result, ward 1 = self)
R19.buf     no C++ exception can leave a PyBufferProcs callback; memcpy into a fresh array is gated by a size test and
            an element-type test; numBytes() = product(shape) x itemsize; AtomicSize(T) x Width(T) = sizeof(T)
R19.order2d FixedArray2D: a 1-D sequence walked by a running counter in a two-level nest addresses element (inner, outer)
R19.str     StringTableT::_table is mutated only by insert inside intern, only when the string is absent
R19.idx     (checks/c19ir.py, on the IR) canonical_index variants = Python index semantics on every cone of the (i, L) plane; getitem,
            extract_slice_indices, and the element loops of getslice / setitem_scalar / setitem_vector address (start + k*step) * stride
"""
import re, os
from engine.report import HOLDS, VIOLATED, UNDECIDED
from engine import build
from . import pyfacts

FAMILY = ('FixedArray', 'FixedVArray')
UNCHECKED = {'unchecked_index': 'documented escape hatch: no writable check by design; R19.wguard checks every call site instead',
             'unchecked_direct_index': 'documented escape hatch: no writable check by design; R19.wguard checks every call site instead'}

def flag_keys(obj):
    """condition texts that test the writable flag of the object `obj` (objKind string)"""
    if obj == 'this': return ['_writable', 'writable()', 'this->_writable', 'this->writable()']
    name = obj.split(':', 1)[1] if ':' in obj else obj
    return ['%s.writable()' % name, '%s._writable' % name, '%s->writable()' % name, '%s->_writable' % name]

def flag_exprs(obj):
    return flag_keys(obj)

def sname(fn):
    """Class::method without template arguments"""
    n = fn.short()
    return n.replace('PyImath::', '').replace('(anonymous namespace)::', '')

# ------------------------------------------------------------------------------------------------ rules
def rule_tmp(fx, out):
    n = 0
    for f in fx.fns:
        for e in f.events:
            if e['k'] == 'discard':
                out.append(('R19.tmp', 'discard@%s' % sname(f), VIOLATED, 'an object of type %s is constructed and discarded (missing throw?): %s' % (e['type'], e['text'][:120]), e['loc']))
        n += 1
    return n

def rule_acc(fx, out):
    n = 0
    seen = set()
    for f in fx.fns:
        if not f.get('ctor') or f.get('copy_ctor'): continue
        cls = f.get('cls', '')
        if not re.match(r'^Writable\w*Access$', cls) or f.get('outer_cls') not in FAMILY: continue
        oid = 'acc:%s::%s' % (f.get('outer_cls', ''), cls)
        if (oid, f.get('inst')) in seen: continue
        seen.add((oid, f.get('inst')))
        n += 1
        p = f['params'][0]['name'] if f['params'] else None
        keys = flag_keys('param:%s' % p)
        present = [k for k in keys if k in f.conds()]
        if not present:
            out.append(('R19.acc', oid, VIOLATED, 'the constructor never tests %s.writable()' % p, f['loc'])); continue
        if f.normal_exit({k: False for k in present}):
            out.append(('R19.acc', oid, VIOLATED, 'the constructor completes normally when %s.writable() is false (the access object is granted for a read-only array)' % p, f['loc']))
        else:
            out.append(('R19.acc', oid, HOLDS, 'no normal exit when %s is false' % present[0], f['loc']))
    return n

def rule_wguard(fx, out):
    nsite = 0
    verdict = {}          # (fn short, use loc) -> (status, detail)
    for f in fx.fns:
        cons = {e['loc']: e for e in f.events if e['k'] == 'construct'}
        for e in f.events:
            is_store = e['k'] == 'store' and e.get('guarded_cls')
            is_call = e['k'] == 'call' and e.get('storage_call')
            if not (is_store or is_call): continue
            obj = e['obj'] if is_store else e.get('objKind', 'expr:?')
            if is_call and obj.startswith('expr:'): obj = 'param:' + e.get('obj', '?')
            text = e['text'] if is_store else '%s.%s()' % (e.get('obj', '?'), e['name'].split('::')[-1])
            if is_store and obj == 'this' and (f.get('ctor') or f.get('dtor') or f.get('copy_assign')): continue
            if obj.startswith('local:'): continue        # storage of an array constructed in this very function
            for u in e.get('uses', []):
                if u['kind'] == 'read': continue
                nsite += 1
                key = (sname(f), text, u['how'] + ('>' + u.get('callee', '').split('<')[0].split('::')[-1] if u.get('callee') else '')); L = u['loc']
                if u['kind'] == 'unknown':
                    verdict.setdefault(key, (UNDECIDED, 'use of %s not classified (%s)' % (text, u['how']), L)); continue
                keys = [k for k in flag_keys(obj) if k in f.conds()]
                unreachable = bool(keys) and not f.reaches(u, {k: False for k in keys})
                if unreachable:
                    verdict.setdefault(key, (HOLDS, 'unreachable when %s is false' % keys[0], L)); continue
                # escape into an array-family constructor that receives the source's flag
                c = cons.get(u['loc'])
                if u['kind'] == 'escape' and c is not None and c['cls'] in FAMILY and 'writable' in c['pnames']:
                    wi = c['pnames'].index('writable')
                    warg = c['args'][wi] if wi < len(c['args']) else ''
                    if not c['defaulted'][wi] and (warg in flag_exprs(obj) or warg == 'false'):
                        verdict.setdefault(key, (HOLDS, 'view constructed with writable = %s' % warg, L)); continue
                    verdict[key] = (VIOLATED, 'a view of %s is constructed with writable = %s instead of the source\'s flag' % (text, 'default (true)' if c['defaulted'][wi] else warg), L); continue
                if u['kind'] == 'escape' and u['how'] == 'return' and f.name.split('::')[-1] in UNCHECKED and is_store:
                    verdict.setdefault(key, (HOLDS, 'exempt by name: ' + UNCHECKED[f.name.split('::')[-1]], L)); continue
                if f.name.split('::')[-1] == 'buffer' and f.get('cls', '').endswith('BufferAPI') and obj.startswith('member:'):
                    # the pointer is handed to the buffer protocol together with readonly = !writable()
                    member = obj.split(':', 1)[1]
                    rets = [x['text'] for g in fx.fns if g.get('cls_q') == f.get('cls_q') and g.name.split('::')[-1] == 'readOnly' for x in g.events if x['k'] == 'return']
                    passed = any(x['k'] == 'fieldw' and x['field'] == 'readonly' and x['rhs'].endswith('readOnly()') for g in fx.fns if g.name.split('::')[-1].startswith('getbuffer') for x in g.events)
                    if rets and all(r == '!%s.writable()' % member for r in rets) and passed:
                        verdict.setdefault(key, (HOLDS, 'exported through the buffer protocol with readonly = !%s.writable()' % member, L)); continue
                    verdict[key] = (VIOLATED, 'the data pointer of %s is exported without the check and readOnly() is %s' % (member, rets or 'missing'), L); continue
                verdict[key] = (VIOLATED, '%s of %s (%s) is reachable with the writable flag of %s false%s' % (u['kind'], text, u['how'], obj, '' if keys else ' (the flag is never tested in this function)'), L)
    for (fn, text, how), (st, det, loc) in sorted(verdict.items()):
        out.append(('R19.wguard', 'wguard:%s#%s(%s)' % (fn, text, how), st, det, loc))
    return nsite

def rule_wprop(fx, out):
    n = 0
    seen = set()
    for f in fx.fns:
        if not f.get('cls_has_writable'): continue
        cls = f.get('cls')
        if f.get('ctor'):
            if f.key in seen: continue
            seen.add(f.key)
            inits = {i['field']: i['text'] for i in f.get('inits', [])}
            if '_writable' not in inits and '_ptr' not in inits: continue
            n += 1
            oid = 'wprop:%s(%s)' % (cls, ','.join(p['type'].replace('PyImath::', '') for p in f['params']))
            ptr = inits.get('_ptr', ''); w = inits.get('_writable')
            m = re.match(r'^(\w+)\._ptr$', ptr)
            if w is None:
                out.append(('R19.wprop', oid, VIOLATED, '_writable is not initialised', f['loc'])); continue
            if m:
                src = m.group(1)
                ok = w in ('false', '%s._writable' % src, '%s.writable()' % src)
                ptype = next((p['type'] for p in f['params'] if p['name'] == src), '')
                if ok and ptype.startswith('const') and not f.get('copy_ctor') and w != 'false':
                    ok = False; why = 'a view of a const source must be read-only'
                else: why = 'aliases %s._ptr but _writable(%s)' % (src, w)
                out.append(('R19.wprop', oid, HOLDS if ok else VIOLATED, ('_ptr(%s), _writable(%s)' % (ptr, w)) if ok else why, f['loc']))
            elif 'const_cast' in ptr:
                out.append(('R19.wprop', oid, HOLDS if w == 'false' else VIOLATED, '_ptr(%s), _writable(%s)' % (ptr, w) if w == 'false' else 'storage received through a pointer to const but _writable(%s)' % w, f['loc']))
            else:
                # pointer parameter (caller decides) or fresh allocation
                cp = next((p for p in f['params'] if p['name'] == ptr), None)
                if cp is not None and 'const' in cp['type'].split('*')[0]:
                    out.append(('R19.wprop', oid, HOLDS if w == 'false' else VIOLATED, 'const pointer source, _writable(%s)' % w, f['loc']))
                else:
                    out.append(('R19.wprop', oid, HOLDS, '_ptr(%s) (%s), _writable(%s)' % (ptr, 'caller-provided pointer' if cp else 'fresh storage', w), f['loc']))
        # who may assign _writable
        for e in f.events:
            if e['k'] == 'fieldw' and e['field'] == '_writable':
                n += 1
                oid = 'wassign:%s@%s' % (sname(f), e['rhs'])
                if f.get('ctor'): ok = True
                elif f.get('copy_assign'):
                    ok = bool(re.match(r'^\w+\._writable$', e['rhs'])) and any(x['k'] == 'fieldw' and x['field'] == '_ptr' and x['rhs'] == e['rhs'].split('.')[0] + '._ptr' for x in f.events)
                else: ok = e['rhs'] == 'false'
                out.append(('R19.wprop', oid, HOLDS if ok else VIOLATED, '_writable = %s in %s' % (e['rhs'], sname(f)), e['loc']))
    return n

def rule_inv(fx, out):
    n = 0; seen = set()
    for f in fx.fns:
        if not f.get('ctor') or not f.get('cls_has_writable') or f.key in seen: continue
        rec = fx.records.get(f.get('cls_q'))
        inits = {i['field']: i['text'] for i in f.get('inits', [])}
        idx_written = ('_indices' in inits and not re.match(r'^(\w+)?(\(\))?$', inits['_indices'])) or any(e['k'] == 'fieldw' and e['field'] == '_indices' and e['obj'] == 'this' for e in f.events)
        if not idx_written: continue
        seen.add(f.key); n += 1
        oid = 'inv:%s(%s)' % (f.get('cls'), ','.join(p['type'].replace('PyImath::', '') for p in f['params']))
        ptr = inits.get('_ptr', '')
        reassigned = [e for e in f.events if e['k'] == 'fieldw' and e['field'] == '_ptr' and e['obj'] == 'this']
        aliases = bool(re.match(r'^\w+\._ptr$', ptr)) and not reassigned
        if aliases:
            src = ptr.split('.')[0]
            okidx = inits.get('_indices', '%s._indices' % src) == '%s._indices' % src or any(e['k'] == 'fieldw' and e['field'] == '_indices' for e in f.events)
            out.append(('R19.inv', oid, HOLDS, '_indices set on a view that aliases %s\'s storage' % src, f['loc']))
        else:
            out.append(('R19.inv', oid, VIOLATED, '_indices is set although _ptr is %s: the index table addresses the source\'s unmasked storage, not the compact copy of _length elements' % ('re-pointed to fresh storage (%s)' % reassigned[0]['rhs'] if reassigned else ptr), f['loc']))
    return n

def rule_shape2d(fx, out):
    """R19.shape2d: a FixedArray2D member that reads another 2-D array at the destination's counters (other(i, j)) has made sure
    the two shapes agree in *both* extents first: match_dimension(other), or a comparison of other.len() - a Vec2, so both
    extents - that the element access cannot be reached without, or (constructors) a destination sized from other.len().
    Equal element counts are not enough: a 3x2 source would be read out of bounds along one axis."""
    n = 0; seen = set()
    for f in fx.fns:
        if f.get('cls') != 'FixedArray2D' or f.key in seen: continue
        ps = [p['name'] for p in f['params'] if 'FixedArray2D' in p['type']]
        if not ps: continue
        acc = {}
        for e in f.events:
            if e['k'] == 'call' and e['name'].endswith('operator()') and e.get('objKind', '').startswith('param:'):
                acc.setdefault(e['objKind'].split(':', 1)[1], []).append(e)
        if not acc: continue
        seen.add(f.key)
        inits = {i['field']: i['text'] for i in f.get('inits', [])}
        for P_ in ps:
            if P_ not in acc: continue
            n += 1
            oid = 'shape2d:%s#%s' % (sname(f), P_)
            md = [e for e in f.events if e['k'] == 'call' and e['name'].split('::')[-1] == 'match_dimension' and e.get('args') and e['args'][0] == P_]
            if md and all(f.dominates(md[0]['block'], e['block'], md[0]['idx'], e['idx']) for e in acc[P_]):
                out.append(('R19.shape2d', oid, HOLDS, 'match_dimension(%s) precedes every element access' % P_, f['loc'])); continue
            if f.get('ctor') and re.search(r'\b%s\.len\(\)' % re.escape(P_), inits.get('_length', '')):
                out.append(('R19.shape2d', oid, HOLDS, 'the new array is sized from %s.len()' % P_, f['loc'])); continue
            conds = [c for c in f.conds() if re.match(r'^%s\.len\(\)\s*==' % re.escape(P_), c) and '*' not in c and 'totalLen' not in c]
            ok = bool(conds) and all(not f.reaches(e, {conds[0]: False}) for e in acc[P_])
            if ok:
                out.append(('R19.shape2d', oid, HOLDS, 'element access unreachable unless %s' % conds[0], f['loc']))
            else:
                out.append(('R19.shape2d', oid, VIOLATED, '%s(i, j) is read at the destination\'s counters, but no comparison of the 2-D length %s.len() (both extents) guards it%s: a source of another shape with the same number of elements is read with the wrong pitch and out of bounds' % (P_, P_, (' - only %s' % [c for c in f.conds() if P_ in c][:2]) if [c for c in f.conds() if P_ in c] else ''), acc[P_][0]['loc']))
    return n

ALIASFAM = ('FixedArray', 'FixedVArray', 'FixedArray2D', 'FixedMatrix', 'StringArrayT')

def rule_alias(fx, out):
    """R19.alias: the copy constructor of the array classes is shallow, so a local made from a parameter shares the parameter's
    storage.  A local made from a parameter that is a reference to const must not be used for mutable access (non-const
    member call, element store): that would modify an operand the signature promises to read only - and the result would be a
    view of that operand instead of a new array."""
    n = 0; seen = set()
    for f in fx.fns:
        if f.key in seen: continue
        ptypes = {p['name']: p['type'] for p in f['params']}
        aliases = {}
        for e in f.events:
            if e['k'] != 'vardecl' or e.get('cls') not in ALIASFAM: continue
            init = e.get('init', '')
            m = re.match(r'^%s\s*[({]\s*(\w+)\s*[)}]$' % re.escape(e['name']), init) or re.match(r'^(\w+)$', init)
            if not m or m.group(1) not in ptypes: continue
            pt = ptypes[m.group(1)]
            if not any(c in pt for c in ALIASFAM): continue
            aliases[e['name']] = (m.group(1), pt, e['loc'])
        if not aliases: continue
        seen.add(f.key)
        for name, (src, pt, loc) in aliases.items():
            n += 1
            oid = 'alias:%s#%s(%s)' % (sname(f), name, src)
            is_const = pt.strip().startswith('const ')
            muts = []
            for e in f.events:
                if e['k'] == 'call' and e.get('objKind') == 'local:' + name and not e.get('const') and e.get('key') and not e['name'].split('::')[-1].startswith('~'):
                    muts.append((e['name'].split('::')[-1], e['loc']))
                if e['k'] == 'store' and e.get('obj') == 'local:' + name and any(u['kind'] != 'read' for u in e.get('uses', [])):
                    muts.append(('store ' + e.get('text', ''), e['loc']))
            if is_const and muts:
                out.append(('R19.alias', oid, VIOLATED, '%s is a shallow copy of the parameter %s (%s): it shares that array\'s storage, and %s gives mutable access to it - the operand is modified and the result is a view of it, not a new array' % (name, src, pt, ', '.join(sorted(set(m_ for m_, _ in muts)))[:120]), muts[0][1]))
            else:
                out.append(('R19.alias', oid, HOLDS, 'shallow copy of %s (%s): %s' % (src, pt, 'read-only use' if not muts else 'mutable use of a copy of a non-const operand, checked by that object\'s own flag'), loc))
    return n

OWNED = {'FixedArray': ('_ptr', '_handle'), 'FixedVArray': ('_ptr', '_handle'), 'FixedArray2D': ('_ptr', '_handle'),
         'StringArrayT': ('_table', '_tableHandle'), 'FixedMatrix': ('_ptr', '_refcount')}

def rule_own(fx, out):
    """R19.own: a constructor that makes the new object refer to another object's storage (P(src.P)) also takes that object's
    owner (H(src.H)): the handle / reference count is what keeps the storage alive once the source is gone"""
    n = 0; seen = set()
    for f in fx.fns:
        if not f.get('ctor'): continue
        cls = f.get('cls')
        if cls not in OWNED or f.key in seen: continue
        seen.add(f.key)
        P_, H_ = OWNED[cls]
        inits = {i['field']: i['text'] for i in f.get('inits', [])}
        ptr = inits.get(P_)
        if ptr is None: continue
        m = re.match(r'^(\w+)(\.|->)%s$' % re.escape(P_), ptr)
        if not m: continue            # caller-provided pointer (its handle, if any, is a separate parameter) or fresh storage
        src = m.group(1)
        n += 1
        oid = 'own:%s(%s)' % (cls, ','.join(p['type'].replace('PyImath::', '') for p in f['params']))
        h = inits.get(H_)
        hw = [e for e in f.events if e['k'] == 'fieldw' and e['field'] == H_ and e['obj'] == 'this']
        if h is None and not hw:
            out.append(('R19.own', oid, VIOLATED, '%s(%s) refers to %s\'s storage but %s is left empty: nothing keeps that storage alive once %s is destroyed (dangling view)' % (P_, ptr, src, H_, src), f['loc'])); continue
        txt = h if h is not None else hw[0]['rhs']
        if re.search(r'\b%s(\.|->)%s\b' % (re.escape(src), re.escape(H_)), txt):
            out.append(('R19.own', oid, HOLDS, '%s(%s), %s(%s)' % (P_, ptr, H_, txt), f['loc']))
        else:
            out.append(('R19.own', oid, VIOLATED, '%s(%s) refers to %s\'s storage but %s is initialised from %s, not from %s.%s' % (P_, ptr, src, H_, txt, src, H_), f['loc']))
    return n

def rule_tuple(fx, out):
    n = 0; seen = set()
    for f in fx.fns:
        calls = [e for e in f.events if e['k'] == 'call' and e['name'] == 'PyTuple_GetItem']
        if not calls or f.key in seen: continue
        seen.add(f.key)
        for e in calls:
            n += 1
            x = e['args'][0]; k = e['args'][1]
            oid = 'tuple:%s#%s[%s]' % (sname(f), x, k)
            ck = 'PyTuple_Check(%s)' % x
            sizes = [c for c in f.conds() if c.startswith('PyTuple_Size(%s)==' % x)]
            if ck not in f.conds():
                out.append(('R19.tuple', oid, VIOLATED, 'PyTuple_GetItem(%s,%s) without a PyTuple_Check(%s) in %s (its siblings check and raise TypeError)' % (x, k, x, sname(f)), e['loc'])); continue
            if f.reaches(e, {ck: False}):
                out.append(('R19.tuple', oid, VIOLATED, 'PyTuple_GetItem(%s,%s) is reachable when PyTuple_Check(%s) fails' % (x, k, x), e['loc'])); continue
            okn = False
            for s in sizes:
                try: N = int(s.split('==')[1])
                except ValueError: continue
                if int(k) < N and not f.reaches(e, {s: False}): okn = True
            out.append(('R19.tuple', oid, HOLDS if okn else VIOLATED, 'dominated by %s and a size test' % ck if okn else 'no dominating PyTuple_Size(%s) == N > %s test' % (x, k), e['loc']))
    return n

GOOD_LIFE = re.compile(r'return_internal_reference<1>|with_custodian_and_ward_postcall<0, 1>')
def rule_life(fx, out):
    """targets that return a view into self built without the handle"""
    n = 0
    viewers = {}
    for f in fx.fns:
        for e in f.events:
            if e['k'] != 'store' and not e.get('storage_call'): continue
            obj = e.get('obj') if e['k'] == 'store' else e.get('objKind', '')
            cons = {c['loc']: c for c in f.events if c['k'] == 'construct'}
            for u in e.get('uses', []):
                c = cons.get(u['loc'])
                if u['kind'] == 'escape' and c is not None and c['cls'] in FAMILY + ('FixedMatrix', 'FixedArray2D') and 'handle' not in c['pnames'] and (c.get('returned') or c.get('new')):
                    viewers[f.key] = (f, c)
                if u['kind'] == 'escape' and (u['how'] == 'return' or u.get('callee', '').endswith('::applyWritable')):
                    viewers.setdefault(f.key, (f, None))
    seen = set()
    for f in fx.fns:
        for e in f.events:
            b = e.get('bind')
            if not b: continue
            for t in b['targets']:
                if t['key'] not in viewers: continue
                vf, c = viewers[t['key']]
                oid = 'life:%s->%s' % (b['py'], sname(vf))
                pol = ' '.join(b['policies'])
                if (oid, pol) in seen: continue
                seen.add((oid, pol)); n += 1
                copies = re.search(r'copy_const_reference|copy_non_const_reference|return_by_value', pol) and not GOOD_LIFE.search(pol)
                if c is None and copies:
                    out.append(('R19.life', oid, HOLDS, 'result copied (%s)' % pol[:80], e['loc'])); continue
                if GOOD_LIFE.search(pol):
                    out.append(('R19.life', oid, HOLDS, 'self kept alive for the result (%s)' % (GOOD_LIFE.search(pol).group(0)), e['loc']))
                else:
                    what = 'a %s over self\'s storage without the handle' % c['cls'] if c else 'a reference into self\'s storage'
                    out.append(('R19.life', oid, VIOLATED, '%s returns %s but is bound with policy [%s]: nothing keeps self alive while the result is reachable (custodian must be the result, 0, and the ward self, 1)' % (sname(vf), what, pol or 'default'), e['loc']))
    return n

def closure_throw(fx, rootkey, limit=4000):
    """shortest call path from rootkey to an uncaught throw, over resolved PyImath callees (virtual calls: every overrider)"""
    from collections import deque
    q = deque([(rootkey, [])]); seen = {rootkey}
    while q:
        k, path = q.popleft()
        for f in fx.by_key.get(k, [])[:2]:
            for e in f.events:
                if e['k'] == 'throw' and not e.get('in_try'):
                    return path + [(sname(f), e['loc'], 'throw %s' % e['type'])]
                if e['k'] == 'call' and e['name'].endswith('throw_error_already_set'):
                    return path + [(sname(f), e['loc'], 'throw_error_already_set()')]
            for e in f.events:
                if e['k'] != 'call': continue
                tgt = []
                if e.get('key'): tgt.append(e['key'])
                if e.get('virtual') and e.get('key'): tgt += list(fx.overriders(e['key']))
                for t in tgt:
                    if t not in seen and t in fx.by_key:
                        seen.add(t); q.append((t, path + [(sname(f), e['loc'], 'calls ' + e['name'].split('::')[-1])]))
            for e in f.events:
                if e['k'] == 'construct' and e.get('ctorKey') in fx.by_key and e['ctorKey'] not in seen:
                    seen.add(e['ctorKey']); q.append((e['ctorKey'], path + [(sname(f), e['loc'], 'constructs ' + e['cls'])]))
        if len(seen) > limit: break
    return None

def product_factors(text):
    text = text.strip()
    while text.startswith('(') and text.endswith(')'): text = text[1:-1]
    parts = []; depth = 0; cur = ''
    for ch in text:
        if ch in '(<[': depth += 1
        if ch in ')>]': depth -= 1
        if ch == '*' and depth == 0: parts.append(cur); cur = ''
        else: cur += ch
    parts.append(cur)
    return [p.strip() for p in parts]

def canon_factor(p):
    p = re.sub(r'^Py_ssize_t\((.*)\)$', r'\1', p)
    if re.search(r'(^|\.|>)len\(\)$', p) or p == 'length': return 'len'
    if re.search(r'(^|\.|>)stride\(\)$', p) or p == 'interleave': return 'stride'
    if p.endswith('atomicSize()'): return 'atomic'
    if p.startswith('FixedArrayWidth<') and p.endswith('::value'): return 'width'
    return p

def rule_buf(fx, out):
    n = 0
    # (i) callbacks
    roots = {}
    for v in fx.vars:
        for t in v['targets']: roots[t['key']] = t['name']
    for k, nm_ in sorted(roots.items()):
        n += 1
        short = re.sub(r'<.*', '', nm_).split('::')[-1]
        oid = 'buf.nothrow:%s' % short
        if k not in fx.by_key:
            out.append(('R19.buf', oid, UNDECIDED, 'callback %s not found among the analysed functions' % nm_, k)); continue
        p = closure_throw(fx, k)
        if p is None: out.append(('R19.buf', oid, HOLDS, 'no throw reachable in the resolved call graph', k))
        else: out.append(('R19.buf', oid, VIOLATED, 'a C++ exception can leave this C callback: ' + ' -> '.join('%s (%s)' % (a, c) for a, b, c in p), p[-1][1]))
    # (ii) memcpy into array storage
    seen = set()
    for f in fx.fns:
        for e in f.events:
            if e['k'] == 'call' and e['name'] in ('memcpy', 'std::memcpy') and f.key not in seen:
                seen.add(f.key); n += 1
                size = e['args'][2] if len(e['args']) > 2 else ''
                oid = 'buf.copy:%s' % sname(f)
                gates = []
                for c in f.conds():
                    for v in (True, False):
                        if not f.reaches(e, {c: v}): gates.append(c)
                sizegate = [c for c in gates if size and size in c]
                typegate = [c for c in gates if re.search(r'itemsize|PyFormat|format\b.*(==|strcmp)', c) and not re.search(r"format\[0\]==", c)]
                bad = []
                if not sizegate: bad.append('the byte count %s is not compared with the size of the allocation' % size)
                else:
                    # "rejecting buffers whose size does not match": the copy must be unreachable for a smaller AND for a larger
                    # byte count - an equality gate (or both strict orders), not a one-sided bound
                    eq = [c for c in sizegate if '==' in c and not f.reaches(e, {c: False})]
                    lt_ = [c for c in sizegate if re.search(r'(?<![<>=!])<(?![<=])', c)]; gt_ = [c for c in sizegate if re.search(r'(?<![<>=!-])>(?![>=])', c)]
                    if not eq and not (lt_ and gt_):
                        bad.append('the byte count %s is only bounded on one side (%s): a buffer of a different size is accepted and %s' % (size, sizegate[0], 'part of the array is left uninitialised' if gt_ else 'copied past the allocation'))
                if not typegate: bad.append('the element type / item size of the source buffer is not compared with the array\'s')
                out.append(('R19.buf', oid, VIOLATED if bad else HOLDS, '; '.join(bad) if bad else 'gated by %s and %s' % (sizegate[0], typegate[0]), e['loc']))
    # (iii) numBytes vs shape x itemsize
    shp = {}
    for f in fx.fns:
        if f.get('ctor') and f.get('cls') == 'BufferAPI':
            for e in f.events:
                if e['k'] == 'elemw' and e['field'] == 'shape': shp[e['index']] = e['rhs']
    if shp:
        base_expect = sorted(canon_factor(p) for k in sorted(shp) for p in product_factors(shp[k])) + ['atomic']
        seen = set()
        for f in fx.fns:
            if f.name.split('::')[-1] == 'numBytes' and f.key not in seen and f.get('cls', '').endswith('BufferAPI'):
                seen.add(f.key); n += 1
                # how this class instantiates (length, interleave) and its members
                ctors = [g for g in fx.fns if g.get('ctor') and not g.get('copy_ctor') and g.get('cls_q') == f.get('cls_q')]
                inits = {i_['field']: i_['text'] for g in ctors for i_ in g.get('inits', [])}
                def args_of(t):
                    m = re.match(r'^[\w:<> ]*\((.*)\)$', t)
                    inner = m.group(1) if m else t
                    out_, depth, cur = [], 0, ''
                    for ch in inner:
                        if ch in '(<[': depth += 1
                        if ch in ')>]': depth -= 1
                        if ch == ',' and depth == 0: out_.append(cur); cur = ''
                        else: cur += ch
                    return [x.strip() for x in out_ + [cur]]
                bargs = args_of(inits.get('<base>', ''))
                sub = {}
                if len(bargs) == 2: sub = {'len': canon_factor(bargs[0]), 'stride': canon_factor(bargs[1])}
                def canon2(p):
                    p = re.sub(r'^Py_ssize_t\((.*)\)$', r'\1', p.strip())
                    m = re.match(r'^(\w+)\.size\(\)$', p)
                    if m and m.group(1) in inits:
                        a_ = args_of(inits[m.group(1)])
                        if len(a_) == 1: return canon_factor(a_[0])
                    return canon_factor(p)
                expect = sorted(x for x in (sub.get(t, t) for t in base_expect) if x != '1')
                rets = [e['text'] for e in f.events if e['k'] == 'return']
                got = sorted(x for x in (canon2(p) for p in product_factors(rets[0])) if x != '1') if rets else []
                ok = got == expect and len(bargs) == 2
                out.append(('R19.buf', 'buf.len:%s::numBytes' % f.get('cls'), HOLDS if ok else VIOLATED,
                            'numBytes = %s = product(shape) x itemsize' % '*'.join(got) if ok else 'numBytes() = %s but shape x itemsize = %s (view.len must equal product(shape) x itemsize)' % ('*'.join(got), '*'.join(expect)), f['loc']))
    else:
        out.append(('R19.buf', 'buf.len', UNDECIDED, 'BufferAPI constructor / shape assignments not found', ''))
    # (iii-b) getbuffer fills the Py_buffer from the BufferAPI object it created: the item size is the size of one *component*
    # (atomicSize), which is what shape (n, width) and the format character describe; len, buf and readonly come from the same object
    want_fields = {'itemsize': r'^\w+->atomicSize\(\)$', 'len': r'^\w+->numBytes\(\)$', 'buf': r'^\w+->buffer\(\)$', 'readonly': r'^\w+->readOnly\(\)$'}
    seen = set()
    for f in fx.fns:
        if not f.name.split('::')[-1].startswith('getbuffer') or f.key in seen: continue
        fw = {e['field']: e['rhs'] for e in f.events if e['k'] == 'fieldw' and e['field'] in want_fields}
        if not fw: continue
        seen.add(f.key); n += 1
        badf = [(k, fw.get(k)) for k, rx in want_fields.items() if k not in fw or not re.match(rx, fw[k].replace(' ', ''))]
        out.append(('R19.buf', 'buf.fields:%s' % sname(f), VIOLATED if badf else HOLDS,
                    ('view->%s = %s; the exported view must take it from the BufferAPI object (%s), otherwise len != product(shape) x itemsize or the consumer strides through components of the wrong size' % (badf[0][0], badf[0][1], want_fields[badf[0][0]].strip('^$').replace('\\', ''))) if badf else
                    'itemsize = atomicSize(), len = numBytes(), buf = buffer(), readonly = readOnly() of the same BufferAPI object', f['loc']))
    # (iv) traits tables
    tr = {}
    for s in fx.specs: tr.setdefault(s['arg'], {})[s['trait']] = s
    for arg, d in sorted(tr.items()):
        if 'FixedArrayAtomicSize' in d and 'FixedArrayWidth' in d:
            n += 1
            a, w = d['FixedArrayAtomicSize'].get('value'), d['FixedArrayWidth'].get('value'); sz = d['FixedArrayWidth'].get('sizeof')
            dim = d.get('FixedArrayDimension', {}).get('value')
            ok = a is not None and w is not None and a * w == sz and (dim is None or (dim == 1) == (w == 1))
            out.append(('R19.buf', 'buf.traits:%s' % arg, HOLDS if ok else VIOLATED, 'atomic %s x width %s = sizeof %s' % (a, w, sz) if ok else 'FixedArrayAtomicSize<%s> = %s, FixedArrayWidth = %s, but sizeof(%s) = %s (dimension %s)' % (arg, a, w, arg, sz, dim), d['FixedArrayAtomicSize']['loc']))
    return n

def rule_str(fx, out):
    n = 0; seen = set()
    for f in fx.fns:
        if f.get('cls') != 'StringTableT' or f.key in seen: continue
        seen.add(f.key)
        muts = [e for e in f.events if e['k'] == 'fieldw' and e['field'] == '_table']
        meth = f.name.split('::')[-1]
        for e in muts:
            n += 1
            oid = 'str:%s:%s' % (meth, e['how'])
            if e['how'] in ('call:get', 'call:size', 'call:find', 'call:begin', 'call:end'): n -= 1; continue     # accessors of the container
            if meth != 'intern' or e['how'] != 'call:insert':
                out.append(('R19.str', oid, VIOLATED, '_table is mutated by %s in %s (only intern may insert)' % (e['how'], meth), e['loc'])); continue
            absent = [c for c in f.conds() if re.match(r'^it==\w+\.end\(\)$', c)]
            ok = absent and not f.reaches(e, {absent[0]: False})
            rets = [x['text'] for x in f.events if x['k'] == 'return']
            ok2 = any(r.startswith('it->') for r in rets)
            out.append(('R19.str', oid, HOLDS if (ok and ok2) else VIOLATED, 'insert only when the string is absent; the existing index is returned otherwise' if (ok and ok2) else 'insert is reachable when the string is already present, or the existing index is not returned', e['loc']))
    # an index is only meaningful in the table of the array it was read from
    seen2 = set()
    for f in fx.fns:
        if not f.get('cls', '').startswith('StringArrayT') or f.key in seen2: continue
        seen2.add(f.key)
        pnames = [p_['name'] for p_ in f['params']]
        for e in f.events:
            if e['k'] != 'call' or not e['name'].endswith('::lookup') or not e['args']: continue
            a0 = e['args'][0]; recv = (e.get('obj') or '').replace(' ', '')
            m = re.match(r'^(\w+)\[', a0)
            want = None
            if m and m.group(1) in pnames: want = '%s._table' % m.group(1)
            elif a0.startswith('(*this)[') or a0.startswith('getitem('): want = '_table'
            if want is None: continue
            n += 1
            out.append(('R19.str', 'str:lookup:%s(%s)' % (sname(f), a0), HOLDS if recv == want else VIOLATED,
                        'index %s resolved in %s' % (a0, recv) if recv == want else 'the index %s is looked up in %s, but it was read from an array whose strings live in %s (another table numbers its strings differently)' % (a0, recv or '?', want), e['loc']))
    return n

def rule_order2d(fx, out):
    """FixedArray2D: wherever a 1-D sequence is walked with a running counter inside a two-level loop nest, the 2-D
    element addressed is (inner variable, outer variable): the linear order is x-fastest (row-major), as in the storage
    formula _ptr[stride.x*(j*stride.y+i)], in getslice and in the masked forms"""
    n = 0; seen = set()
    def incvars(txt): return re.findall(r'(?:\+\+|--)\s*(\w+)|(\w+)\s*(?:\+\+|--)', txt or '')
    for f in fx.fns:
        if f.get('cls') != 'FixedArray2D' or f.key in seen: continue
        loops = [l for l in f['loops'] if 'inc' in l]
        nests = []
        for idx, l in enumerate(loops):
            if l['depth'] == 0:
                inner = [m for m in loops[idx + 1:] if m['depth'] == 1]
                nxt0 = [k for k, m in enumerate(loops[idx + 1:]) if m['depth'] == 0]
                if nxt0: inner = [m for m in loops[idx + 1: idx + 1 + nxt0[0]] if m['depth'] == 1]
                if inner: nests.append((l, inner[0]))
        if not nests: continue
        seen.add(f.key)
        for outer, inner in nests:
            ov = [a or b for a, b in incvars(outer['inc'])]; iv = [a or b for a, b in incvars(inner['inc'])]
            counters = set()
            for sb in inner.get('subs', []):
                toks = set(re.findall(r'[A-Za-z_]\w*', sb['index']))
                if len(toks) == 1 and not (toks & set(ov[:1])) and not (toks & set(iv[:1])): counters |= toks
            counters &= set(ov + iv) | set(t_ for sb in inner.get('subs', []) for t_ in re.findall(r'([A-Za-z_]\w*)\+\+', sb['index']))
            if not counters or not ov or not iv: continue
            o_, i_ = ov[0], iv[0]
            n += 1
            bad = None
            for e in f.events:
                if e['k'] == 'call' and e['name'].endswith('operator()') and len(e['args']) >= 3:
                    xs = set(re.findall(r'[A-Za-z_]\w*', e['args'][1])); ys = set(re.findall(r'[A-Za-z_]\w*', e['args'][2]))
                    if (o_ in xs or i_ in ys) and not (i_ in xs and o_ in ys):
                        bad = 'element (%s, %s) is addressed while the 1-D sequence is walked with counter %s in a nest with outer variable %s and inner variable %s: the sequence is consumed column-major, transposed with respect to storage, getslice and the masked forms' % (e['args'][1], e['args'][2], sorted(counters)[0], o_, i_)
            out.append(('R19.order2d', 'order2d:%s@%s' % (sname(f), outer['loc'].rsplit(':', 2)[-2] if False else sname(f) + '/' + o_ + i_), VIOLATED if bad else HOLDS, bad or 'running counter %s: x index from the inner variable %s, y index from the outer variable %s' % (sorted(counters)[0], i_, o_), outer['loc']))
    return n

def _top_factors(txt):
    """factors of a product at the top level of an expression text rendered from the AST (outer parentheses removed)"""
    t = txt.replace(' ', '')
    while t.startswith('(') and t.endswith(')'):
        d = 0; ok = True
        for i, ch in enumerate(t):
            d += ch == '('; d -= ch == ')'
            if d == 0 and i < len(t) - 1: ok = False; break
        if not ok: break
        t = t[1:-1]
    out = []; d = 0; cur = ''
    for ch in t:
        if ch in '([': d += 1
        if ch in ')]': d -= 1
        if d == 0 and ch in '+-/%?:<>=&|' : return [t]          # not a product at the top level
        if d == 0 and ch == '*': out.append(cur); cur = ''
        else: cur += ch
    out.append(cur)
    return out

def rule_stride(fx, out):
    """element k of a FixedArray / FixedVArray lives at _ptr[k * _stride] (component views such as V3fArray.x have stride 3):
    every subscript of an array's own storage pointer in the array classes and their helpers is a product with that array's
    _stride at the top level of the index (a local initialised with such a product counts).  Storage of another, freshly
    constructed array (`f._ptr[i]`, stride 1) is not the subject."""
    n = 0; seen = set()
    for f in fx.fns:
        if f.key in seen: continue
        cls = f.get('cls') or ''
        for e in f.events:
            if e['k'] != 'store': continue
            txt = e.get('text', '').replace(' ', '')
            m = re.match(r'^((?:\w+\.)?)_ptr\[', txt)
            if not m or e.get('cls') not in ('FixedArray', 'FixedVArray'): continue
            owner = m.group(1)                      # '' (this) or '_a.' (size helper of a FixedVArray)
            if owner not in ('', '_a.'): continue
            seen.add(f.key); n += 1
            idx = e.get('index', '')
            vdecl = {v['name']: v.get('init', '') for v in f.events if v['k'] == 'vardecl'}
            def has_stride(t, depth=0):
                fs = _top_factors(t)
                if any(x in (owner + '_stride', '_stride', 'this->_stride') for x in fs): return True
                if len(fs) == 1 and re.match(r'^\w+$', fs[0]) and fs[0] in vdecl and vdecl[fs[0]] and depth < 3: return has_stride(vdecl[fs[0]], depth + 1)
                return False
            ok = has_stride(idx)
            out.append(('R19.stride', 'stride:%s#%s@%s' % (sname(f), txt[:40], e.get('uses', [{}])[0].get('loc', '').split(':')[-2] if e.get('uses') else e.get('idx')), HOLDS if ok else VIOLATED,
                        'index %s is a multiple of the array\'s stride' % idx if ok else 'the storage pointer is subscripted with %s, which is not multiplied by the array\'s _stride: on a strided view (V3fArray.x, Box3fArray.max, ...) this is a different element - of a neighbouring component' % idx,
                        (e.get('uses') or [{}])[0].get('loc') or f['loc']))
    return n

RULES = [('stride', rule_stride), ('order2d', rule_order2d), ('tmp', rule_tmp), ('acc', rule_acc), ('wguard', rule_wguard), ('wprop', rule_wprop), ('inv', rule_inv), ('own', rule_own), ('alias', rule_alias), ('shape2d', rule_shape2d), ('tuple', rule_tuple), ('life', rule_life), ('buf', rule_buf), ('str', rule_str)]

def emit(rep, out):
    seen = {}
    for rule, oid, st, det, where in out:
        k = (rule, oid)
        if k in seen:
            # several instantiations of one pattern: the worst verdict wins
            rank = {HOLDS: 0, UNDECIDED: 1, VIOLATED: 2}
            if rank[st] <= rank[seen[k][2]]: continue
        seen[k] = (rule, oid, st, det, where)
    ids = {}
    for rule, oid, st, det, where in seen.values():
        full = oid if ids.setdefault(oid, rule) == rule else '%s[%s]' % (oid, rule)
        rep.ob(full, rule, st, det, where)

def main(rep, ws, tier):
    repo = build.REPO
    # the extractor must recognise one instance of every construct the rules look for
    pos = pyfacts.positive_examples(ws)
    pout = []
    for name, fnc in RULES: fnc(pos, pout)
    fired = set(r for r, oid, st, det, w in pout if st == VIOLATED)
    quiet = set(r for r, oid, st, det, w in pout if st == HOLDS)
    need = {'R19.stride', 'R19.tmp', 'R19.acc', 'R19.wguard', 'R19.wprop', 'R19.inv', 'R19.own', 'R19.alias', 'R19.tuple', 'R19.life', 'R19.buf', 'R19.str'}
    if need - fired:
        rep.fail_incomplete('positive examples (selftest/pyrules_pos.cpp) no longer fire for %s' % sorted(need - fired))
    if (need - {'R19.tmp'}) - quiet:
        rep.fail_incomplete('negative examples (selftest/pyrules_pos.cpp) no longer pass for %s' % sorted((need - {'R19.tmp'}) - quiet))
    rep.extra['positive_examples'] = {'fired': sorted(fired), 'quiet': sorted(quiet)}
    fx = pyfacts.load(ws, repo, rep, max_inst=2 if tier == 'quick' else 12)
    out = []
    counts = {}
    for name, fnc in RULES:
        counts[name] = fnc(fx, out)
    # in-place operators on a masked reference with a right-hand side of the unmasked length: which element of the right-hand
    # side meets element k of the view (shared with C20, where it is R20.len)
    from . import c20 as _c20
    out2 = []
    counts['maskrhs'] = _c20.rule_unmasked(fx, out2)
    out += [('R19.idx', oid, st, det, w) for (_r, oid, st, det, w) in out2]
    emit(rep, out)
    from . import c19ir
    nidx = c19ir.main_idx(rep, ws)
    rep.floor('index-arithmetic obligations (IR)', nidx, 12)
    floors = {'stride': 20, 'shape2d': 6, 'acc': 2, 'wguard': 40, 'wprop': 15, 'inv': 3, 'own': 6, 'tuple': 8, 'life': 3, 'buf': 20, 'str': 5, 'order2d': 3}
    for k, v in floors.items():
        rep.floor('R19.%s instances' % k, counts.get(k, 0), v)
    rep.floor('functions analysed for discarded exception objects', counts.get('tmp', 0), 3000)
    rep.trusted[:] = ['clang 14 front end (AST, CFG) through tools/pyrules', 'Boost.Python / CPython headers as installed']
    rep.assumptions += ['boost::python::extract<T>::operator() after a successful check() and operator new do not throw',
                        'only functions that the build instantiates are analysed (template members that no translation unit uses are not compiled into the module either)']
    rep.undecided_clauses += ['element selection of FixedArray2D / FixedMatrix / FixedVArray slices and of masks (FixedArray index and slice arithmetic is decided by R19.idx; CPython\'s own PySlice_AdjustIndices is trusted)',
                              'validity of a variable-array row view after the row is resized',
                              'component views (.x, .r, ...) taken from a masked reference']
