"""C20 - vectorised PyImath operations under any task partition (decided parts).

Facts come from tools/pyrules (see checks/pyfacts.py); every rule is a shape rule over the functions the build instantiates.

R20.range   every override of Task::execute(start,end) consists of local declarations and exactly one top-level loop
            for (v = start; v < end; ++v); the three-argument base forwards to the two-argument form
R20.index   inside that loop every subscript of a member that is written is exactly [v]; members are never assigned;
            every other member subscript is a read; (the only accumulator task, ExtendByTask, is accepted by name
            with its four side conditions checked)  =>  writes of different indices are disjoint, so the result does
            not depend on the partition of [0,len), on the order of the sub-ranges or on their running concurrently
R20.index   (cont.) a local declared outside the loop is assigned in every iteration before it is read (no scratch state carried
            from index i-1 to i, hence none across a sub-range boundary)
R20.same    the generic VectorizedOperationN / VoidOperationN bodies apply Op::apply once per index to every
            accessor at [v] (masked in-place variant: the argument at the raw index of v)
R20.same    (cont.) every op_* functor of the operator / vector / quaternion / matrix families is one forwarding expression
            whose structure (operator opcode, operand order, callee - emitted by tools/pyrules) is the operation its name denotes
R20.len     at every dispatchTask(task, n) every array handed to the task is covered by a dominating
            match_dimension / measure_arguments / len() == n test that throws, is the array n was taken from, or was
            freshly constructed with n elements; measure_arguments measures every argument and match_lengths throws
            on unequal vectorised lengths
R20.wr      in VectorizedFunction/MemberFunction::apply the masked accessor of x is constructed only where
            any_masked(x) holds and the direct one only where it does not; results are accessed through Writable*Access,
            arguments through ReadOnly*Access; every normal return of apply passes through a dispatchTask
R20.dispatch dispatchTask(task, length) runs the task over [0, length) exactly once on every path (pool dispatch xor inline
            execute): run counts propagated over its control-flow skeleton
R20.elem    array-valued operations written as a plain loop read their argument arrays only at the loop index (no element-0
            attribute hoisted out of the loop)
R20.acc     (checks/c20ir.py, on the IR) element i of a Direct accessor is storage[i * stride], of a Masked accessor
            storage[indices[i] * stride] - what FixedArray::operator[] designates; accessor constructors take storage, stride and
            index table from the array and complete only on an array of their kind (writable ones only on a writable array)
R20.gil     nothing reachable from an execute() (worker threads run without the GIL) and nothing after a
            PY_IMATH_LEAVE_PYTHON in the same function calls the Python C API or boost::python
"""
import re
from collections import deque
from engine.report import HOLDS, VIOLATED, UNDECIDED
from engine import build
from . import pyfacts
from .c19 import sname

ACCUMULATORS = {'ExtendByTask': 'accumulates into boxes[tid]: accepted when (a) the container is sized by workers() in the only caller, (b) tid is used for nothing else, (c) the combine step is Box::extendBy (exact min/max, decided by C13), (d) its two-argument execute throws'}

def loopvar_ok(l, start='start', end='end'):
    v = l.get('var')
    if not v: return False
    init = (l.get('var_init') or '').replace(' ', '')
    cond = (l.get('cond') or '').replace(' ', '')
    inc = (l.get('inc') or '').replace(' ', '')
    return init == start and cond == '%s<%s' % (v, end) and inc in ('++' + v, v + '++')

def rule_range_index(fx, out):
    n = 0; seen = set()
    for f in fx.fns:
        if not f.get('cls_task') or f.name.split('::')[-1] != 'execute' or f.key in seen: continue
        seen.add(f.key); n += 1
        cls = f.get('cls'); oid = '%s::execute/%d' % (cls, len(f['params']))
        pn = [p['name'] for p in f['params']]
        if cls == 'Task':
            calls = [e for e in f.events if e['k'] == 'call' and e['name'].endswith('Task::execute')]
            ok = len(f['params']) == 3 and len(calls) == 1 and calls[0]['args'][:2] == pn[:2] and not f['loops']
            out.append(('R20.range', oid, HOLDS if ok else VIOLATED, 'forwards (start,end) to the two-argument form' if ok else 'the three-argument base does not forward its range unchanged', f['loc'])); continue
        if cls in ACCUMULATORS and len(pn) == 2:
            ok = any(e['k'] == 'throw' for e in f.events) and not f['loops'] and not f.normal_exit()
            out.append(('R20.range', oid, HOLDS if ok else VIOLATED, 'two-argument form of the accumulator task only throws' if ok else 'the accumulator task can run without a thread id', f['loc'])); continue
        top = [t['cls'] for t in f['top']]
        l0 = [l for l in f['loops'] if l.get('depth') == 0]
        other = [l for l in f['loops'] if 'other_loop' in l and l.get('depth') == 0]
        bad = None
        if len(l0) != 1 or other or 'init' not in l0[0]: bad = '%d top-level loops' % len(l0)
        elif not loopvar_ok(l0[0], pn[0], pn[1]): bad = 'the loop is for (%s; %s; %s), not for (v = %s; v < %s; ++v)' % (l0[0].get('init'), l0[0].get('cond'), l0[0].get('inc'), pn[0], pn[1])
        elif any(t not in ('DeclStmt', 'ForStmt') for t in top): bad = 'statements other than local declarations beside the loop: %s' % [t for t in top if t not in ('DeclStmt', 'ForStmt')]
        out.append(('R20.range', oid, VIOLATED if bad else HOLDS, bad or 'single loop over [%s,%s)' % (pn[0], pn[1]), f['loc']))
        if bad: continue
        # ---- index discipline
        v = l0[0]['var']; subs = l0[0]['subs']
        msubs = [s_ for s_ in subs if s_['baseKind'].startswith('member:')]
        written = set(s_['base'] for s_ in msubs if s_['write'])
        problems = []
        for s_ in msubs:
            if s_['unknown']: problems.append('use of %s[%s] not classified' % (s_['base'], s_['index']))
            idx = s_['index'].replace(' ', '')
            if s_['write'] and idx != v:
                if cls in ACCUMULATORS and idx == (pn[2] if len(pn) > 2 else ''): continue
                problems.append('%s[%s] is written at an index other than the loop variable %s' % (s_['base'], s_['index'], v))
            elif not s_['write'] and idx != v and s_['base'] in written:
                problems.append('%s is written at [%s] and read at [%s]' % (s_['base'], v, s_['index']))
        for e in f.events:
            if e['k'] == 'fieldw' and e['obj'] == 'this': problems.append('member %s is modified (%s)' % (e['field'], e['how']))
            if e['k'] == 'vardecl' and 'static' in e.get('type', '').split(): problems.append('static local %s' % e['name'])
        # ---- scratch state: a local declared outside the loop must be overwritten in every iteration before it is read
        body_entry = None
        for b in f.blocks.values():
            if b.get('cond', '').replace(' ', '') == (l0[0].get('cond') or '').replace(' ', '') and len(b['succ']) == 2:
                body_entry = b['succ'][0] if b.get('pol', True) else b['succ'][1]
        lrefs = [e for e in f.events if e['k'] == 'lref']
        if lrefs and body_entry is None:
            problems.append('loop body not located in the CFG (locals declared outside the loop cannot be checked)')
        for e in lrefs:
            if e['kind'] == 'kill' or body_entry is None: continue
            # loop-invariant locals (initialised before the loop, never modified inside it) carry no state
            if not any(k['name'] == e['name'] and k['kind'] in ('kill', 'rmw', 'unknown') and f.dominates(body_entry, k['block']) for k in lrefs): continue
            if not f.dominates(body_entry, e['block']): continue            # use outside the loop
            kills = [k for k in lrefs if k['name'] == e['name'] and k['kind'] == 'kill' and f.dominates(body_entry, k['block'])
                     and (f.dominates(k['block'], e['block'], k['idx'], e['idx']) if k['block'] != e['block'] else k['idx'] < e['idx'] or True and k['loc'] < e['loc'])]
            # several kills on different branches jointly covering the use: accept when every path from the body entry to the use passes a kill
            if not kills:
                kb = set(k['block'] for k in lrefs if k['name'] == e['name'] and k['kind'] == 'kill' and f.dominates(body_entry, k['block']))
                seenb = set(); st_ = [body_entry]; reach_unkilled = False
                while st_:
                    b_ = st_.pop()
                    if b_ in seenb or b_ not in f.blocks: continue
                    seenb.add(b_)
                    if b_ == e['block']: reach_unkilled = True; break
                    if b_ in kb: continue
                    for s_ in f.blocks[b_]['succ']:
                        if s_ is not None and s_ >= 0 and f.dominates(body_entry, s_): st_.append(s_)
                if reach_unkilled or e['block'] in kb and False:
                    problems.append('local %s (declared outside the loop) is %s at %s on a path of the iteration that has not assigned it: its value is carried over from the previous index, so the result depends on where the range is cut' % (e['name'], 'read' if e['kind'] == 'read' else 'updated in place', e['loc'].rsplit('/', 1)[-1]))
            if e['kind'] == 'unknown': problems.append('use of local %s not classified (%s)' % (e['name'], e['how']))
        if cls in ACCUMULATORS:
            # side conditions of the accepted accumulator
            tid = pn[2]
            uses_tid = [s_ for s_ in subs if tid in re.findall(r'\w+', s_['index'])]
            if any(s_['base'] != 'boxes' for s_ in uses_tid): problems.append('tid indexes something other than the per-thread accumulator')
            callers = [g for g in fx.fns if any(e['k'] == 'construct' and e['cls'] == cls for e in g.events) and not g.get('cls_task')]
            sized = all(any(e['k'] == 'vardecl' and e['name'] == 'boxes' and re.search(r'\bnumBoxes\b|workers\(\)', e['init']) for e in g.events) and
                        any(e['k'] == 'vardecl' and e['name'] == 'numBoxes' and e['init'] == 'workers()' for e in g.events) for g in callers)
            if not callers or not sized: problems.append('the accumulator container is not sized by workers() in every caller')
            comb = [e for e in f.events if e['k'] == 'call' and e.get('objKind', '').startswith('member:boxes') is False and e['name'].endswith('::extendBy')]
            if not any(e['k'] == 'call' and e['name'].endswith('::extendBy') for e in f.events): problems.append('the accumulation step is not Box::extendBy')
        out.append(('R20.index', oid, VIOLATED if problems else HOLDS, '; '.join(problems[:3]) if problems else '%d member subscripts, writes only at [%s]%s' % (len(msubs), v, ' (accumulator: ' + ACCUMULATORS[cls][:40] + '...)' if cls in ACCUMULATORS else ''), f['loc']))
        # ---- generic operations apply Op::apply once per index
        if re.match(r'^Vectorized(Masked)?(Void)?Operation\d$', cls or ''):
            applies = [e for e in f.events if e['k'] == 'call' and e['name'].endswith('::apply')]
            accessors = sorted(set(s_['base'] for s_ in msubs))
            okargs = len(applies) == 1 and all(re.match(r'^\w+\[\w+\]$', a) for a in applies[0]['args'])
            used = set(re.match(r'^(\w+)\[', a).group(1) for a in applies[0]['args'] if re.match(r'^(\w+)\[', a)) if applies else set()
            fields = [x['name'] for x in (fx.records.get(f.get('cls_q')) or {}).get('fields', [])]
            allacc = set(a for a in accessors)
            ok = okargs and (used | written) >= allacc
            out.append(('R20.same', '%s::execute' % cls, HOLDS if ok else VIOLATED, 'one Op::apply per index over %s' % sorted(used | written) if ok else 'the body is not a single Op::apply over every accessor at the loop index (%s)' % [a['args'] for a in applies], f['loc']))
    return n

ARR = re.compile(r'Fixed(V?Array|Array2D|Matrix)|Access\b')
def rule_len(fx, out):
    n = 0; seen = set()
    for f in fx.fns:
        ds = [e for e in f.events if e['k'] == 'call' and e['name'] == 'PyImath::dispatchTask']
        if not ds or f.key in seen: continue
        seen.add(f.key)
        ptypes = {p['name']: p['type'] for p in f['params']}
        vdecl = {e['name']: e for e in f.events if e['k'] == 'vardecl'}
        cons_by_var = {}
        for e in f.events:
            if e['k'] == 'construct' and e.get('var'): cons_by_var.setdefault(e['var'], []).append(e)
        def is_array(name):
            if name in ptypes: return bool(re.search(r'FixedArray|FixedVArray|FixedMatrix|FixedArray2D', ptypes[name])) or 'arg' in ptypes[name] and '_type' in ptypes[name]
            return False
        for d in ds:
            n += 1
            task, L = d['args'][0], d['args'][1]
            oid = 'len:%s@%s' % (sname(f), L if len(ds) == 1 else '%s#b%d' % (L, d['block']))
            tcons = [c for c in cons_by_var.get(task, []) if f.dominates(c['block'], d['block'], c['idx'], d['idx'])]
            if not tcons:
                out.append(('R20.len', oid, UNDECIDED, 'construction of %s not found before the dispatch' % task, d['loc'])); continue
            tc = tcons[-1]
            # arrays that are certainly of length L here
            covered = set()
            def base_of(x):
                m = re.match(r'^\*?(\w+)$', x.strip()); return m.group(1) if m else None
            linit = vdecl[L]['init'] if L in vdecl else L
            m = re.match(r'^(?:\(size_t\)|size_t\(|static_cast<size_t>\()?\(?(\w+)\.len\(\)\)?\)?$', linit)
            if m: covered.add(m.group(1))
            for e in f.events:
                if e['k'] != 'call' or not f.dominates(e['block'], d['block'], e['idx'], d['idx']): continue
                nm = e['name'].split('::')[-1]
                if nm == 'match_dimension' and (len(e['args']) < 2 or e['args'][1] in ('', 'true')):
                    covered.add(e.get('obj')); covered.add(e['args'][0])
                if nm == 'match_dimension' and len(e['args']) >= 2 and e['args'][1] == 'false':
                    # non-strict: lengths equal, or the argument has the receiver's unmasked length (masked in-place form)
                    covered.add(e.get('obj')); covered.add(e['args'][0] + '?')
                if nm == 'measure_arguments':
                    for a in e['args']: covered.add(a)
            # gating tests  X.len() == L
            for c in f.conds():
                # atoms of compound tests too: if (!(a.len() == n && b.len() == n ...)) throw
                for m2 in re.finditer(r'(\w+)\.len\(\)==(\w+)', c):
                    if m2.group(2) == L and not f.reaches(d, {m2.group(0): False}): covered.add(m2.group(1))
            # fresh locals of L elements
            for name, cl in cons_by_var.items():
                for c in cl:
                    if c['cls'] in ('FixedArray', 'FixedVArray') and c['args'] and c['args'][0].replace(' ', '') in (L, 'Py_ssize_t(%s)' % L, '(Py_ssize_t)%s' % L): covered.add(name)
            for name, vd in vdecl.items():
                if vd['init'].startswith('new ') and re.search(r'\((?:Py_ssize_t\()?%s\)?[,)]' % re.escape(L), vd['init']): covered.add(name)
                if re.search(r'create_uninitalized_return_value<.*>::apply\(%s\)' % re.escape(L), vd['init']): covered.add(name)
            # accessors stand for the array they were built from
            acc_of = {}
            for name, cl in cons_by_var.items():
                for c in cl:
                    if c['cls'].endswith('Access') and c['args']: acc_of[name] = base_of(c['args'][0])
            for name, vd in vdecl.items():
                m3 = re.match(r'^getArrayAccess<.*>\((\w+)\)$', vd['init'])
                if m3: acc_of[name] = m3.group(1)
            problems = []
            narr = 0
            for a, pt in zip(tc['args'], tc['ptypes']):
                b = base_of(a)
                if b is None: continue
                src = acc_of.get(b, b)
                arrayish = bool(ARR.search(pt)) or b in acc_of
                if not arrayish: continue
                narr += 1
                if src in covered: continue
                if src + '?' in covered: continue
                problems.append('%s (task argument %s) is not related to the dispatched length %s by match_dimension / measure_arguments / a len() test, nor freshly allocated with it' % (src, a, L))
            if L in vdecl or re.match(r'^\w+\.len\(\)$', L) or L in ptypes: pass
            else: problems.append('dispatched length %s is not a local or a len()' % L)
            out.append(('R20.len', oid, VIOLATED if problems else HOLDS, '; '.join(problems[:2]) if problems else '%d array arguments of %s covered (%s)' % (narr, tc['cls'], ', '.join(sorted(x for x in covered if x))), d['loc']))
    # measure_arguments / match_lengths
    seenm = set()
    for f in fx.fns:
        nm = f.name.split('::')[-1]
        if nm.startswith('measure_arguments') and f.key not in seenm:
            seenm.add(f.key); n += 1
            ps = [p['name'] for p in f['params']]
            meas = [e['args'][0] for e in f.events if e['k'] == 'call' and re.search(r'measure_argument<.*>::apply$', e['name']) and e['args']]
            ml = [e for e in f.events if e['k'] == 'call' and e['name'].endswith('match_lengths')]
            ok = sorted(meas) == sorted(ps) and len(ml) == len(ps) - 1
            # ... as a left fold: every match_lengths combines the running length with the next argument's measurement,
            # so that a scalar in the middle does not separate two arrays
            vd = [e for e in f.events if e['k'] == 'vardecl' and re.search(r'measure_argument<.*>::apply\(%s\)$' % re.escape(ps[0]), e['init'])]
            run_ = vd[0]['name'] if vd else None
            rets = [e['text'] for e in f.events if e['k'] == 'return']
            if len(ps) > 1:
                nxt = [re.sub(r'^measure_argument<.*>::apply\((\w+)\)$', r'\1', e['args'][1]) if len(e['args']) > 1 else '?' for e in ml]
                ok = ok and run_ is not None and all(e['args'] and e['args'][0] == run_ for e in ml) and sorted(nxt) == sorted(ps[1:]) and rets == ['%s.first' % run_]
            out.append(('R20.len', 'measure_arguments/%d' % len(ps), HOLDS if ok else VIOLATED, 'every argument measured, %d match_lengths' % len(ml) if ok else 'measures %s of %s with %d match_lengths' % (meas, ps, len(ml)), f['loc']))
        if nm == 'match_lengths' and f.key not in seenm:
            seenm.add(f.key); n += 1
            cs = f.conds()
            ne = [c for c in cs if re.match(r'^len1\.first==len2\.first$', c)]
            sc = {c: False for c in cs if re.match(r'^len[12]\.second==false$', c)}
            ok = bool(ne) and len(sc) == 2 and not f.normal_exit(dict(sc, **{ne[0]: False}))
            out.append(('R20.len', 'match_lengths', HOLDS if ok else VIOLATED, 'throws when two vectorised lengths differ' if ok else 'two vectorised arguments of different length are accepted', f['loc']))
    return n

def rule_wr(fx, out):
    n = 0; seen = set()
    for f in fx.fns:
        if f.name.split('::')[-1] != 'apply' or not re.search(r'Vectorized\w*Function\d', f.name) or f.key in seen: continue
        ds = [e for e in f.events if e['k'] == 'call' and e['name'] == 'PyImath::dispatchTask']
        if not ds: continue
        seen.add(f.key); n += 1
        oid = 'wr:%s' % sname(f)
        problems = []
        vdecl = {e['name']: e for e in f.events if e['k'] == 'vardecl'}
        for name, vd in vdecl.items():
            m = re.match(r'^getArrayAccess<(\w+)>\((\w+)\)$', vd['init'])
            if not m: continue
            ty, arg = m.group(1), m.group(2)
            key = 'any_masked(%s)' % arg
            if 'masked' in ty and 'direct' not in ty:
                if key not in f.conds() or f.reaches(vd, {key: False}): problems.append('masked accessor of %s is built where any_masked(%s) may be false' % (arg, arg))
            elif 'direct' in ty and arg not in ('retval',) and key in f.conds():
                if f.reaches(vd, {key: True}): problems.append('direct accessor of %s is built where any_masked(%s) holds' % (arg, arg))
        # accessor classes of results and arguments
        for e in f.events:
            if e['k'] == 'construct' and e.get('var') and e['cls'].endswith('Access') and e['args']:
                isres = e['args'][0] in ('retval', 'array') and False
        # task construction: first accessor is the destination
        for e in f.events:
            if e['k'] == 'construct' and re.match(r'^Vectorized\w*Operation\d$', e['cls']) and e.get('var'):
                if not e['ptypes'] or 'Writable' not in re.sub(r'<.*', '', e['ptypes'][0].split('::')[-1]) and 'Writable' not in e['ptypes'][0] and 'result_access_type' not in e['ptypes'][0]:
                    problems.append('the destination of %s is accessed through %s' % (e['cls'], e['ptypes'][0] if e['ptypes'] else '?'))
        # every normal return passes through a dispatch
        dblocks = set(d['block'] for d in ds)
        seenb = set(); stack = [f.entry]; leak = False
        while stack:
            b = stack.pop()
            if b in seenb or b in dblocks or b not in f.blocks: continue
            seenb.add(b)
            blk = f.blocks[b]
            if blk.get('leave') in ('throw', 'noreturn'): continue
            for s_ in blk['succ']:
                if s_ == f.exit: leak = True
                elif s_ is not None and s_ >= 0: stack.append(s_)
        if leak: problems.append('a path returns without dispatching the operation (one combination of argument kinds is not handled)')
        out.append(('R20.wr', oid, VIOLATED if problems else HOLDS, '; '.join(sorted(set(problems))[:2]) if problems else '%d dispatch sites, accessor kinds follow any_masked()' % len(ds), f['loc']))
    return n

PYAPI = re.compile(r'^(Py(?!Imath)[A-Z_]|_Py|boost::python::)')
PYAPI_OK = re.compile(r'^boost::python::(detail::|converter::|type_id|objects::)?$')
def rule_gil(fx, out):
    n = 0
    def closure(rootkey):
        q = deque([(rootkey, [])]); seen = {rootkey}
        while q:
            k, path = q.popleft()
            for g in fx.by_key.get(k, [])[:2]:
                for e in g.events:
                    if e['k'] != 'call': continue
                    if PYAPI.match(e['name']) and not e.get('macro') == 'assert':
                        return path + [(sname(g), e['loc'], e['name'])]
                    tg = [e['key']] if e.get('key') else []
                    if e.get('virtual') and e.get('key'): tg += list(fx.overriders(e['key']))
                    for t in tg:
                        if t not in seen and t in fx.by_key: seen.add(t); q.append((t, path + [(sname(g), e['loc'], e['name'].split('::')[-1])]))
                for e in g.events:
                    if e['k'] == 'construct' and e.get('ctorKey') in fx.by_key and e['ctorKey'] not in seen:
                        seen.add(e['ctorKey']); q.append((e['ctorKey'], path + [(sname(g), e['loc'], 'constructs ' + e['cls'])]))
            if len(seen) > 5000: break
        return None
    seen = set()
    for f in fx.fns:
        if f.get('cls_task') and f.name.split('::')[-1] == 'execute' and f.key not in seen:
            seen.add(f.key); n += 1
            p = closure(f.key)
            out.append(('R20.gil', 'gil:%s::execute/%d' % (f.get('cls'), len(f['params'])), HOLDS if p is None else VIOLATED,
                        'no Python C API / boost::python call reachable' if p is None else 'worker threads run execute() without the GIL but it reaches ' + ' -> '.join('%s (%s)' % (a, c) for a, b, c in p), f['loc'] if p is None else p[-1][1]))
    # released region in the dispatching function
    seen = set()
    for f in fx.fns:
        rel = [e for e in f.events if e['k'] == 'vardecl' and e.get('cls') == 'PyReleaseLock']
        if not rel or f.key in seen: continue
        seen.add(f.key); n += 1
        r = rel[0]; bad = None
        for e in f.events:
            if e['k'] == 'call' and f.dominates(r['block'], e['block'], r['idx'], e['idx']) and e is not r:
                if PYAPI.match(e['name']): bad = (e['loc'], e['name']); break
                if e.get('key'):
                    p = closure(e['key'])
                    if p: bad = (p[-1][1], '%s -> %s' % (e['name'].split('::')[-1], ' -> '.join(c for a, b, c in p))); break
        out.append(('R20.gil', 'gil-region:%s' % sname(f), VIOLATED if bad else HOLDS, 'after PY_IMATH_LEAVE_PYTHON the function reaches %s' % bad[1] if bad else 'no Python API use while the GIL is released', bad[0] if bad else f['loc']))
    return n

def _bare(ty):
    ty = re.sub(r'\b(const|volatile|class|struct)\b', '', ty).replace('&', '').replace(' ', '')
    return re.sub(r'(PyImath|Imath(_\d+_\d+)?)::', '', ty)

def rule_taskmembers(fx, out):
    """R20.same (task members): a Task keeps what it was given - a member initialised from a constructor parameter has that
    parameter's type (reference or copy), never a converted copy: a Matrix44<double> argument stored as Matrix44<float> makes
    every element be computed in another precision than the scalar binding uses"""
    n = 0; seen = set()
    for f in fx.fns:
        if not f.get('ctor') or not f.get('cls_task') or f.get('copy_ctor'): continue
        k = (f.key, tuple(p['type'] for p in f['params']))
        if k in seen: continue
        seen.add(k)
        ptypes = {p['name']: p['type'] for p in f['params']}
        for i in f.get('inits', []):
            src = i['text']
            m_ = re.match(r'^%s\s*[({]\s*(\w+)\s*[)}]$' % re.escape(i['field']), src)
            if m_: src = m_.group(1)
            if src not in ptypes or not i.get('ftype'): continue
            i = dict(i, text=src)
            n += 1
            a, b = _bare(i['ftype']), _bare(ptypes[i['text']])
            oid = 'taskmember:%s::%s(%s)' % (f.get('cls'), i['field'], b[:60])
            if a == b or a.rstrip('*') == b.rstrip('*'):
                out.append(('R20.same', oid, HOLDS, 'member %s holds its argument unconverted (%s)' % (i['field'], i['ftype']), f['loc']))
            else:
                out.append(('R20.same', oid, VIOLATED, 'member %s of the task is a %s but is initialised from the argument %s of type %s: a converted copy - the elements are then computed from other operand values (another precision) than the scalar binding, which works on the argument itself' % (i['field'], i['ftype'], i['text'], ptypes[i['text']]), f['loc']))
    return n

def rule_regorder(fx, out):
    """R20.same (registration order): Boost.Python tries the overloads of one name in reverse order of registration and converts a
    Python float to the first parameter type that accepts it - a C++ float accepts it silently.  Where one functor is registered
    for a list of element types (boost::mpl::for_each over a type vector), double therefore has to come after float, so that a
    call with Python floats reaches the double overload: otherwise every all-scalar call computes in single precision while
    the array forms and the C++ library compute in double."""
    n = 0; seen = set()
    for f in fx.fns:
        for e in f.events:
            if e['k'] != 'call' or not e['name'].endswith('mpl::for_each') or not e.get('targs'): continue
            if not any(x in f.name for x in ('register', 'Register')) and 'PyImath::detail' in f.name: continue
            seq = e['targs'][0]
            m = re.match(r'^boost::mpl::vector\d*<(.*)>$', seq)
            if not m: continue
            tys = [t_.strip() for t_ in m.group(1).split(',')]
            if 'float' not in tys or 'double' not in tys: continue
            if (f.key, e['loc']) in seen: continue
            seen.add((f.key, e['loc'])); n += 1
            ok = tys.index('double') > tys.index('float')
            out.append(('R20.same', 'regorder:%s@%s' % (sname(f), e['loc'].rsplit(':', 2)[-2]), HOLDS if ok else VIOLATED,
                        'registered for %s: the double overload comes last and is tried first' % tys if ok else
                        'the overloads are registered for %s: the float overload is registered last, is tried first and accepts a Python float - all-scalar calls then compute in single precision, unlike the array forms and the library' % tys, e['loc']))
    return n

def rule_strcmp(fx, out):
    """R20.same (string comparisons): StringArray ==/!= with a scalar string compares table indices when the string is interned and
    otherwise fills the result with the constant the element-wise comparison would give - 0 for ==, 1 for != (a result left at
    its zero initialisation is right for == only)"""
    n = 0; seen = set()
    for f in fx.fns:
        nm = f.name.split('::')[-1]
        if nm not in ('operator==', 'operator!=') or 'StringArray' not in f.key or f.key in seen: continue
        if len(f['params']) != 2 or 'StringArrayT' not in f['params'][0]['type'] or 'StringArrayT' in f['params'][1]['type']: continue
        seen.add(f.key); n += 1
        op = nm[-2:]
        ifs = [t_.get('shape', '') for t_ in f['top'] if t_['cls'] == 'IfStmt']
        oid = 'strcmp:StringArray %s scalar' % op
        if len(ifs) != 1:
            out.append(('R20.same', oid, VIOLATED, 'expected one test whether the string is interned, found %d conditionals' % len(ifs), f['loc'])); continue
        sh = ifs[0].replace('{', '').replace('}', '')
        m = re.fullmatch(r'I\(M\(hasString,D\(\w+\),P1\),(?:V\(\w+\);)?L\(i0,B\(=,B\(\[\],D\((\w+)\),i0\),B\((==|!=),B\(\[\],P0,i0\),D\(\w+\)\)\)\)(?:,L\(i0,B\(=,B\(\[\],D\(\1\),i0\),I\((\d+)\)\)\))?\)', sh)
        if not m:
            out.append(('R20.same', oid, VIOLATED, 'the comparison has the structure %s; expected: interned -> r[i] = (a[i] %s index), otherwise r[i] = %d' % (sh[:160], op, 1 if op == '!=' else 0), f['loc'])); continue
        want = 1 if op == '!=' else 0
        if m.group(2) != op:
            out.append(('R20.same', oid, VIOLATED, 'operator%s compares the indices with %s' % (op, m.group(2)), f['loc']))
        elif m.group(3) is None and want != 0:
            out.append(('R20.same', oid, VIOLATED, 'when the string is not in the table the result is left at its zero initialisation; no element equals an absent string, so != has to give 1 for every element', f['loc']))
        elif m.group(3) is not None and int(m.group(3)) != want:
            out.append(('R20.same', oid, VIOLATED, 'when the string is not in the table every element is set to %s, the element-wise %s gives %d' % (m.group(3), op, want), f['loc']))
        else:
            out.append(('R20.same', oid, HOLDS, 'interned: index comparison; absent: constant %d' % want, f['loc']))
    return n

def rule_shared(fx, out):
    """R20.shared: nothing reachable from a Task::execute override writes an object with static storage duration (a global,
    a static member, a function-local static): sub-ranges run concurrently on worker threads, so such a write is a data race
    and makes an element's result depend on what the other threads are doing.  (Initialisation of a `static const` local is
    done once by the language under a guard and is not a write in this sense.)"""
    n = 0
    def closure(rootkey):
        q = deque([(rootkey, [])]); seen = {rootkey}
        while q:
            k, path = q.popleft()
            for g in fx.by_key.get(k, [])[:2]:
                for e in g.events:
                    if e['k'] == 'staticw' and e['how'].startswith('write'):
                        return path + [(sname(g), e['loc'], '%s %s (%s)' % ('function-local static' if e.get('local') else 'static', e['name'].split('::')[-1], e['type']))]
                for e in g.events:
                    if e['k'] == 'call':
                        tg = [e['key']] if e.get('key') else []
                        if e.get('virtual') and e.get('key'): tg += list(fx.overriders(e['key']))
                        for t in tg:
                            if t not in seen and t in fx.by_key: seen.add(t); q.append((t, path + [(sname(g), e['loc'], e['name'].split('::')[-1])]))
                    elif e['k'] == 'construct' and e.get('ctorKey') in fx.by_key and e['ctorKey'] not in seen:
                        seen.add(e['ctorKey']); q.append((e['ctorKey'], path + [(sname(g), e['loc'], 'constructs ' + e['cls'])]))
            if len(seen) > 5000: break
        return None
    seen = set()
    # the per-element functors (static apply of the op structs) are what the vectorised execute() bodies call through their Op
    # template parameter; only a sample of those instantiations is analysed, so every functor is a root of its own
    for f in fx.fns:
        if f.name.split('::')[-1] == 'apply' and f.get('static') and f.get('cls') and f.key not in seen:
            seen.add(f.key); n += 1
            p = closure(f.key)
            out.append(('R20.shared', 'shared:%s::apply' % f.get('cls'), HOLDS if p is None else VIOLATED,
                        'nothing reachable writes an object with static storage duration' if p is None else
                        'the per-element functor runs concurrently on worker threads but reaches a write of the ' + ' -> '.join('%s (%s)' % (a, c) for a, b, c in p) + ': a data race, and the value one element sees depends on the other threads', f['loc'] if p is None else p[-1][1]))
    for f in fx.fns:
        if f.get('cls_task') and f.name.split('::')[-1] == 'execute' and f.key not in seen:
            seen.add(f.key); n += 1
            p = closure(f.key)
            out.append(('R20.shared', 'shared:%s::execute/%d' % (f.get('cls'), len(f['params'])), HOLDS if p is None else VIOLATED,
                        'nothing reachable writes an object with static storage duration' if p is None else
                        'execute() runs concurrently on worker threads but reaches a write of the ' + ' -> '.join('%s (%s)' % (a, c) for a, b, c in p) + ': a data race, and the value one element sees depends on the other threads', f['loc'] if p is None else p[-1][1]))
    return n

OPFILES = ('PyImathOperators.h', 'PyImathVecOperators.h', 'PyImathQuatOperators.h', 'PyImathMatrix44.cpp')
def _b(op, a='P0', b='P1'): return 'R(B(%s,%s,%s))' % (op, a, b)
# the repository's own naming: functor -> the one C++ operation of the element type it forwards to (structure of the body as
# emitted by tools/pyrules: operators by opcode, parameters by position, callees by name)
OPSHAPE = {
    'op_add': _b('+'), 'op_sub': _b('-'), 'op_rsub': _b('-', 'P1', 'P0'), 'op_mul': _b('*'), 'op_div': _b('/'), 'op_mod': _b('%'),
    'op_eq': _b('=='), 'op_ne': _b('!='), 'op_lt': _b('<'), 'op_gt': _b('>'), 'op_le': _b('<='), 'op_ge': _b('>='),
    'op_neg': 'R(U(-,P0))',
    'op_iadd': 'B(+=,P0,P1)', 'op_isub': 'B(-=,P0,P1)', 'op_imul': 'B(*=,P0,P1)', 'op_idiv': 'B(/=,P0,P1)', 'op_imod': 'B(%=,P0,P1)',
    'op_pow': r'R\(C\((std::)?pow,P0,P1\)\)', 'op_rpow': r'R\(C\((std::)?pow,P1,P0\)\)', 'op_ipow': r'B\(=,P0,C\((std::)?pow,P0,P1\)\)',
    'op_vecDot': 'R(M(dot,P0,P1))', 'op_vec2Cross': 'R(M(cross,P0,P1))', 'op_vec3Cross': 'R(M(cross,P0,P1))',
    'op_vecLength': 'R(M(length,P0))', 'op_vecLength2': 'R(M(length2,P0))',
    'op_vecNormalize': 'M(normalize,P0)', 'op_vecNormalizeExc': 'M(normalizeExc,P0)', 'op_vecNormalized': 'R(M(normalized,P0))', 'op_vecNormalizedExc': 'R(M(normalizedExc,P0))',
    'op_quatDot': 'R(M(euclideanInnerProduct,P0,P1))', 'op_quatNormalize': 'M(normalize,P0)', 'op_quatNormalized': 'R(M(normalized,P0))',
    'op_quatSlerp': r'R\(C\(Imath_\d+_\d+::slerpShortestArc,P0,P1,P2\)\)',
    'op_multDirMatrix': 'M(multDirMatrix,P0,P1,P2)', 'op_multVecMatrix': 'M(multVecMatrix,P0,P1,P2)',
}

def rule_ops(fx, out):
    """the per-element functors of the operator / method families are a single forwarding expression (operator, member
    or free function of the element type): the array form then runs the very C++ function the scalar binding of the same
    name is bound to, so the two agree bit for bit"""
    n = 0; seen = set()
    for f in fx.fns:
        m = re.search(r'\b(op_\w+)\b', f.name)
        if not m or f.name.split('::')[-1] != 'apply' or f.key in seen: continue
        if not any(f.key.split(':')[0].endswith(x) for x in OPFILES): continue
        seen.add(f.key); n += 1
        top = [t['cls'] for t in f['top']]
        calls = [e for e in f.events if e['k'] == 'call' and not re.search(r'operator (float|double|int|bool)|::operator\s*\w+$', e['name'])]
        straight = len(f.blocks) <= 3 and not any('cond' in b for b in f.blocks.values())
        single = len(top) == 1 and top[0] in ('ReturnStmt', 'CompoundAssignOperator', 'BinaryOperator', 'CXXMemberCallExpr', 'CXXOperatorCallExpr', 'CallExpr', 'ExprWithCleanups')
        ok = straight and single and len(calls) <= 1
        want = OPSHAPE.get(m.group(1))
        if ok and want is not None:
            got = ' ; '.join(t_.get('shape', '?') for t_ in f['top'])
            same = (re.fullmatch(want, got) is not None) if want.startswith('R\\(') or want.startswith('B\\(') else (got == want)
            if not same:
                out.append(('R20.same', 'op:%s' % m.group(1), VIOLATED, 'the functor body has the structure %s; %s is the operation %s of the element type (operands in that order), which is what the scalar binding runs' % (got[:80], m.group(1), want.replace('\\', '')[:60]), f['loc']))
                continue
        what = (calls[0]['name'].split('::')[-1] if calls else (f.events and [e['text'] for e in f.events if e['k'] == 'return'] or ['operator'])[0])
        out.append(('R20.same', 'op:%s' % m.group(1), HOLDS if ok else VIOLATED,
                    'forwards to %s' % what if ok else 'the functor body is not a single forwarding expression (%s; %d blocks, %d calls): the array form no longer runs the C++ function the scalar binding runs' % (top, len(f.blocks), len(calls)), f['loc']))
    return n

OPSYM = {'add': '+', 'sub': '-', 'mul': '*', 'div': '/'}

def expected_loop(name):
    """the element loop a hand-written array helper must be, from its name (result r, parameters P0, P1, loop indices)"""
    E1 = lambda x: 'B([],%s,i0)' % x
    E2 = lambda x: 'B((),%s,i1,i0)' % x
    R1 = r'B\(\[\],D\(\w+\),i0\)'; R2 = r'B\(\(\),D\(\w+\),i1,i0\)'
    esc = re.escape
    m = re.match(r'^(Vec[234]|Quat)_(cross|dot)_\1Array$', name)
    if m: return 'L\\(i0,B\\(=,%s,%s\\)\\)' % (R1, esc('M(%s,P0,%s)' % (m.group(2), E1('P1')))), 'r[i] = P0.%s(P1[i])' % m.group(2)
    m = re.match(r'^(Vec[234])_mulTArray$', name)
    if m: return 'L\\(i0,B\\(=,%s,%s\\)\\)' % (R1, esc('B(*,P0,%s)' % E1('P1'))), 'r[i] = P0 * P1[i]'
    m = re.match(r'^Color4Array_(i?)(add|sub|mul|div|rsub|neg)(Color|T|ArrayT)?$', name)
    if m:
        inpl, op, suf = m.group(1), m.group(2), m.group(3)
        rhs = 'P1' if suf in ('Color', 'T') else E2('P1')
        if op == 'neg':
            return 'L\\(i0,L\\(i1,B\\(=,%s,%s\\)\\)\\)' % (R2, esc('U(-,%s)' % E2('P0'))), 'r(i,j) = -P0(i,j)'
        if op == 'rsub':
            return 'L\\(i0,L\\(i1,B\\(=,%s,%s\\)\\)\\)' % (R2, esc('B(-,%s,%s)' % (rhs, E2('P0')))), 'r(i,j) = P1 - P0(i,j)'
        sym = OPSYM[op]
        if inpl:
            return esc('L(i0,L(i1,B(%s=,%s,%s)))' % (sym, E2('P0'), rhs)), 'P0(i,j) %s= %s' % (sym, 'P1' if rhs == 'P1' else 'P1(i,j)')
        return 'L\\(i0,L\\(i1,B\\(=,%s,%s\\)\\)\\)' % (R2, esc('B(%s,%s,%s)' % (sym, E2('P0'), rhs))), 'r(i,j) = P0(i,j) %s %s' % (sym, 'P1' if rhs == 'P1' else 'P1(i,j)')
    # FixedArray2D / FixedMatrix operator helpers: the functor applied to element (i, j) of every array operand, scalar last
    # (first for the reflected forms)
    m = re.match(r'^apply_(array2d|matrix)_(array2d|matrix|scalar)?_?(unary|binary|ibinary)_(r?)op$', name)
    if m:
        kind, second, ar, refl = m.group(1), m.group(2), m.group(3), m.group(4)
        if kind == 'array2d': el = lambda x: esc('B((),%s,i1,i0)' % x); R_ = R2
        else: el = lambda x: esc('M(element,%s,i0,i1)' % x); R_ = r'M\(element,D\(\w+\),i0,i1\)'
        OP = r'C\(PyImath::op_\w+(<[^()]*>)?::apply,'
        if ar == 'unary':
            return 'L\\(i0,L\\(i1,B\\(=,%s,%s%s\\)\\)\\)\\)' % (R_, OP, el('P0')), 'r(i,j) = Op(P0(i,j))'
        b = 'P1' if second == 'scalar' else None
        a1 = el('P0'); a2 = esc('P1') if b else el('P1')
        args = (a2 + ',' + a1) if refl else (a1 + ',' + a2)
        if ar == 'ibinary':
            return 'L\\(i0,L\\(i1,%s%s\\)\\)\\)' % (OP, args), 'Op(P0(i,j), %s) in place' % ('P1' if b else 'P1(i,j)')
        return 'L\\(i0,L\\(i1,B\\(=,%s,%s%s\\)\\)\\)\\)' % (R_, OP, args), 'r(i,j) = Op(%s)' % ('P1, P0(i,j)' if refl else 'P0(i,j), ' + ('P1' if b else 'P1(i,j)'))
    m = re.match(r'^mult(Dir|Vec)Matrix(22|33)_array$', name)
    if m: return esc('L(i0,M(mult%sMatrix,P0,%s,B([],D(dst),i0)))' % (m.group(1), E1('P1'))).replace('D\\(dst\\)', r'D\(\w+\)'), 'P0.mult%sMatrix(P1[i], dst[i])' % m.group(1)
    m = re.match(r'^inverse(22|33|44)_array$', name)
    if m: return 'L\\(i0,B\\(=,%s,%s\\)\\)' % (R1, esc('M(inverse,%s,P1)' % E1('P0'))), 'dst[i] = P0[i].inverse(P1)'
    m = re.match(r'^invert(22|33|44)_array$', name)
    if m: return esc('L(i0,M(invert,%s,P1))' % E1('P0')), 'P0[i].invert(P1)'
    return None

def rule_loops(fx, out):
    """hand-written element loops (helpers that do not go through the vectorised functors): the loop body is the one operation
    its name states, on element (i[,j]) of every array operand, operands in the order of the scalar binding of the same name"""
    n = 0; seen = set()
    for f in fx.fns:
        nm = f.name.split('::')[-1].split('<')[0]
        exp = expected_loop(nm)
        if exp is None or f.key in seen: continue
        seen.add(f.key); n += 1
        want, human = exp
        loops = [t_.get('shape', '?') for t_ in f['top'] if t_['cls'] == 'ForStmt']
        oid = 'loop:%s' % nm
        if len(loops) != 1:
            out.append(('R20.same', oid, VIOLATED, '%d top-level loops; expected the single element loop %s' % (len(loops), human), f['loc'])); continue
        got = loops[0].replace('{', '').replace('}', '')
        if re.fullmatch(want, got):
            out.append(('R20.same', oid, HOLDS, human, f['loc']))
        else:
            out.append(('R20.same', oid, VIOLATED, 'the element loop is %s; the name and the scalar binding say %s (operands in that order, each array operand at the loop index)' % (got[:120], human), f['loc']))
    return n

def rule_unmasked(fx, out):
    """where an argument is accepted because its length equals the *unmasked* length of a masked array (X.len() ==
    Y.unmaskedLength()), element k of the masked view is element raw_ptr_index(k) of the argument: the task built on that
    branch must be one whose execute() maps the index through raw_ptr_index"""
    n = 0
    mapping = set(); tasks = set()
    for f in fx.fns:
        if f.name.split('::')[-1] == 'execute' and f.get('cls'):
            tasks.add(f['cls'])
            if any(e['k'] == 'call' and e['name'].endswith('raw_ptr_index') for e in f.events): mapping.add(f['cls'])
    seen = set()
    for f in fx.fns:
        if f.key in seen: continue
        cs = [c for c in f.conds() if 'unmaskedLength()' in c and '.len()' in c and '==' in c]
        if not cs: continue
        seen.add(f.key)
        C = cs[0]
        for e in f.events:
            if e['k'] != 'construct' or e.get('cls') not in tasks: continue
            if f.reaches(e, {C: False}) or not f.reaches(e, {C: True}): continue
            n += 1
            ok = e['cls'] in mapping
            out.append(('R20.len', 'unmasked:%s@%s' % (sname(f), e['loc'].rsplit(':', 2)[-2]), HOLDS if ok else VIOLATED,
                        'task %s maps the index through raw_ptr_index' % e['cls'] if ok else
                        'on the branch %s the task %s indexes the argument with the position in the masked view; the argument has the unmasked length, so element k must be taken at raw_ptr_index(k)' % (C, e['cls']), e['loc']))
    return n

def rule_dispatch(fx, out):
    """dispatchTask(task, length) runs the task over [0, length) exactly once on every path: either it hands the whole range
    to the installed pool (WorkerPool::dispatch(task, length)) or it executes it inline (task.execute(0, length, ...)) - never
    neither (elements left uncomputed) and never both (an in-place operation applied twice).  Decided on the function's
    control-flow skeleton: the set of possible numbers of runs is propagated along the edges; at the exit it must be {1}."""
    n = 0
    for f in fx.fns:
        if f.name not in ('PyImath::dispatchTask',) and not (f.name.endswith('::dispatchTask_bad') or f.name.endswith('::dispatchTask_good')): continue
        n += 1
        runs = {}
        bad = None
        for e in f.events:
            if e['k'] != 'call': continue
            nm = e['name'].split('::')[-1]
            if nm == 'dispatch' and 'WorkerPool' in e['name']:
                if [a.replace(' ', '') for a in e.get('args', [])] != ['task', 'length']: bad = 'the pool is handed (%s), not (task, length)' % ', '.join(e.get('args', []))
                runs[e['block']] = runs.get(e['block'], 0) + 1
            elif nm == 'execute' and 'Task' in e['name']:
                a = [x.replace(' ', '') for x in e.get('args', [])]
                if a[:2] != ['0', 'length']: bad = 'the inline run covers (%s), not [0, length)' % ', '.join(e.get('args', []))
                runs[e['block']] = runs.get(e['block'], 0) + 1
        # forward propagation of the possible run counts (capped at 2)
        cnt = {f.entry: {0}}; work = [f.entry]
        while work:
            b = work.pop()
            blk = f.blocks.get(b)
            if blk is None: continue
            outc = set(min(2, c + runs.get(b, 0)) for c in cnt[b])
            if blk.get('leave') in ('throw', 'noreturn'): continue
            for s_ in blk['succ']:
                if s_ is None or s_ < 0: continue
                if not outc <= cnt.get(s_, set()):
                    cnt[s_] = cnt.get(s_, set()) | outc; work.append(s_)
        at_exit = cnt.get(f.exit, set())
        if not bad and at_exit != {1}:
            bad = ('on some path the task is run twice (handed to the pool and executed inline as well): an in-place operation is applied twice' if 2 in at_exit else
                   'on some path the task is not run at all' if 0 in at_exit else 'no path reaches the exit')
        out.append(('R20.dispatch', sname(f), VIOLATED if bad else HOLDS, bad or 'every path runs the task over [0, length) exactly once (pool dispatch or inline execute)', f['loc']))
    return n

def rule_elem(fx, out):
    """array-valued operations written as a plain loop (`for i: result[i] = f(a[i], b[i])`): the element at position i is computed
    from the argument elements at position i - every subscript of a *parameter* array in a function that returns an array is
    the induction variable of one of its loops.  A constant subscript (`e[0]`, a per-array attribute hoisted out of the loop)
    makes position i depend on another element, which the scalar binding applied to element i alone cannot reproduce."""
    n = 0; seen = set()
    for f in fx.fns:
        if f.key in seen: continue
        loops = f.get('loops') or []
        if not loops: continue
        if not any(e['k'] == 'construct' and e.get('returned') and e.get('cls') in ('FixedArray', 'FixedVArray', 'FixedArray2D', 'FixedMatrix') for e in f.events): continue
        ivs = set(l.get('var') for l in loops if l.get('var'))
        subs = [e for e in f.events if e['k'] == 'call' and re.search(r'Fixed(V?Array)<.*>::(operator\[\]|direct_index|unchecked_index|getitem)$', e['name']) and str(e.get('objKind', '')).startswith('param:')]
        if not subs: continue
        seen.add(f.key); n += 1
        bad = None
        for e in subs:
            idx = e['args'][-1].replace(' ', '')
            if idx in ivs: continue
            if re.match(r'^-?\d+[uUlL]*$', idx): bad = 'argument array %s is read at the constant position %s: the result at every position depends on that one element (an attribute taken from element %s is applied to all)' % (e['obj'], idx, idx); break
        out.append(('R20.elem', 'elem:%s' % sname(f), VIOLATED if bad else HOLDS, bad or '%d subscripts of argument arrays, each at the loop index' % len(subs), f['loc']))
    return n

FUNOP_COMPOSED = {'rotationXYZWithUpDir': ('extractEulerXYZ', 'rotationMatrixWithUpDir'), 'bias': ('log', 'log', 'pow'), 'gain': ('apply', 'apply')}

def rule_funops(fx, out):
    """the per-element functors of the function bindings (PyImathFunOperators.h: `divp_op`, `lerp_op`, `sin_op`, ...): `X_op::apply` is
    one return statement whose only call is the library (or <cmath>) function X - the array form and the scalar binding of the
    same name then both return what the C++ library returns.  The three composed functors are listed with their callees."""
    n = 0; seen = set()
    for f in fx.fns:
        if 'PyImathFunOperators.h' not in f.key or f.name.split('::')[-1] != 'apply' or f.key in seen: continue
        m = re.search(r'\b(\w+)_op\b', f.name)
        if not m: continue
        seen.add(f.key); n += 1
        nm = m.group(1)
        calls = [e['name'].split('::')[-1] for e in f.events if e['k'] == 'call' and not re.search(r'operator (float|double|int|bool)$', e['name'])]
        ns = [e['name'] for e in f.events if e['k'] == 'call']
        if nm in FUNOP_COMPOSED:
            ok = tuple(calls) == FUNOP_COMPOSED[nm]
            det = 'composed of %s' % ', '.join(calls) if ok else 'calls %s, expected %s' % (calls, list(FUNOP_COMPOSED[nm]))
        else:
            top = [t['cls'] for t in f['top']]
            ok = top == ['ReturnStmt'] and calls == [nm] and all(x.startswith('Imath') or x.startswith('std::') for x in ns)
            det = 'returns %s' % ns[0] if ok else 'the body of %s_op::apply is not `return %s(...)` (statements %s, calls %s): the binding no longer returns what the C++ library function returns' % (nm, nm, top, ns)
        out.append(('R20.same', 'funop:%s' % nm, HOLDS if ok else VIOLATED, det, f['loc']))
    return n

RULES = [('funops', rule_funops), ('elem', rule_elem), ('dispatch', rule_dispatch), ('range', rule_range_index), ('len', rule_len), ('wr', rule_wr), ('gil', rule_gil), ('shared', rule_shared), ('taskmembers', rule_taskmembers), ('regorder', rule_regorder), ('strcmp', rule_strcmp), ('ops', rule_ops), ('loops', rule_loops), ('unmasked', rule_unmasked)]

def main(rep, ws, tier):
    repo = build.REPO
    from .c19 import emit
    pos = pyfacts.positive_examples(ws)
    pout = []
    for name, fnc in RULES: fnc(pos, pout)
    fired = set(r for r, oid, st, det, w in pout if st == VIOLATED)
    quiet = set(r for r, oid, st, det, w in pout if st == HOLDS)
    need = {'R20.range', 'R20.index', 'R20.len', 'R20.gil', 'R20.shared', 'R20.dispatch', 'R20.elem'}
    if need - fired: rep.fail_incomplete('positive examples (selftest/pyrules_pos.cpp) no longer fire for %s' % sorted(need - fired))
    if need - quiet: rep.fail_incomplete('negative examples (selftest/pyrules_pos.cpp) no longer pass for %s' % sorted(need - quiet))
    rep.extra['positive_examples'] = {'fired': sorted(fired), 'quiet': sorted(quiet)}
    fx = pyfacts.load(ws, repo, rep, max_inst=2 if tier == 'quick' else 12)
    out = []; counts = {}
    for name, fnc in RULES: counts[name] = fnc(fx, out)
    emit(rep, out)
    from . import c20ir
    nacc = c20ir.main_access(rep, ws)
    rep.floor('element accessor members (operator[] and constructors)', nacc, 9)
    rep.floor('function-binding functors', counts['funops'], 25)
    rep.floor('dispatchTask definitions', counts['dispatch'], 1)
    rep.floor('array-valued loop functions (element independence)', counts['elem'], 15)
    rep.floor('Task::execute overrides', counts['range'], 35)
    rep.floor('dispatchTask sites + length helpers', counts['len'], 60)
    rep.floor('vectorised apply functions', counts['wr'], 8)
    rep.floor('GIL obligations', counts['gil'], 40)
    rep.floor('StringArray scalar comparisons', counts['strcmp'], 2)
    rep.floor('float/double registration lists', counts['regorder'], 1)
    rep.floor('task members initialised from constructor arguments', counts['taskmembers'], 60)
    rep.floor('execute overrides and element functors checked for shared static state', counts['shared'], 100)
    rep.floor('operator functors', counts['ops'], 30)
    rep.floor('unmasked-length branches', counts['unmasked'], 2)
    rep.floor('hand-written element loops', counts['loops'], 30)
    rep.trusted[:] = ['clang 14 front end (AST, CFG) through tools/pyrules', 'Boost.Python / CPython headers as installed']
    rep.assumptions += ['accessor operator[] reads/writes exactly the element of its index (R19.wguard covers the writable ones)',
                        'the WorkerPool calls execute() only with sub-ranges of [0, length) (its implementation is supplied by the host application)']
    rep.undecided_clauses += ['numerical agreement between an array method and the scalar binding where they call different C++ functions',
                              'that every exported vectorised name is registered with the Op of the same name as the scalar binding',
                              'aliasing between the destination and an argument array read at a different (masked) index']
