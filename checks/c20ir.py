"""C20, element accessors of the vectorised operations decided on the compiler's IR.

R20.acc  every vectorised task reads its arguments and writes its result through FixedArray<T>::ReadOnlyDirectAccess /
         WritableDirectAccess / ReadOnlyMaskedAccess / WritableMaskedAccess.  Element i of an accessor is
             storage[i * stride]                 (direct)
             storage[indices[i] * stride]        (masked)
         - the element FixedArray::operator[] (i) itself designates - and an accessor built from an array takes storage,
         stride and index table from that array.  The value graph of each operator[] is compared with the graph of that
         formula written over the accessor's own members (same translation unit, -fno-access-control), the address for the
         writable forms; the constructors' stores are compared member by member with the array's members, and the writable
         ones cannot complete on a read-only array, the direct / masked ones on an array of the other kind.
"""
import os
from engine import build, vg, term as T
from engine.report import HOLDS, VIOLATED, UNDECIDED

SRC = '''#include <PyImathFixedArray.h>
#include <new>
#include <cstddef>
using namespace PyImath;
typedef FixedArray<int> FA;
typedef FA::ReadOnlyDirectAccess RDA; typedef FA::WritableDirectAccess WDA;
typedef FA::ReadOnlyMaskedAccess RMA; typedef FA::WritableMaskedAccess WMA;
extern "C" {
void w_rd(int& o, const RDA& x, const size_t& i) { o = x[i]; }
void w_rd_ref(int& o, const RDA& x, const size_t& i) { o = x._ptr[i * x._stride]; }
void w_wd(int*& o, WDA& x, const size_t& i) { o = &x[i]; }
void w_wd_ref(int*& o, WDA& x, const size_t& i) { o = &x._ptr[i * x._stride]; }
void w_rm(int& o, const RMA& x, const size_t& i) { o = x[i]; }
void w_rm_ref(int& o, const RMA& x, const size_t& i) { o = x._ptr[x._indices[i] * x._stride]; }
void w_wm(int*& o, WMA& x, const size_t& i) { o = &x[i]; }
void w_wm_ref(int*& o, WMA& x, const size_t& i) { o = &x._ptr[x._indices[i] * x._stride]; }
void w_arr(int& o, const FA& a, const size_t& i) { o = a[i]; }
void w_arr_ref(int& o, const FA& a, const size_t& i) { o = a._ptr[(a._indices ? a._indices[i] : i) * a._stride]; }
void w_mk_rd(RDA* o, const FA& a) { new (o) RDA(a); }
void w_mk_wd(WDA* o, FA& a) { new (o) WDA(a); }
void w_mk_rm(RMA* o, const FA& a) { new (o) RMA(a); }
void w_mk_wm(WMA* o, FA& a) { new (o) WMA(a); }
void w_off(size_t* o) {
  o[0] = offsetof(FA, _ptr); o[1] = offsetof(FA, _stride); o[2] = offsetof(FA, _indices); o[3] = offsetof(FA, _writable);
  o[4] = offsetof(RDA, _ptr); o[5] = offsetof(RDA, _stride); o[6] = offsetof(WDA, _ptr);
  o[7] = offsetof(RMA, _ptr); o[8] = offsetof(RMA, _stride); o[9] = offsetof(RMA, _indices); o[10] = offsetof(WMA, _ptr);
}
}
'''

def _returning(n):
    """the value on the non-aborting paths (the index assertions of boost::shared_array are not part of the formula)"""
    if n.op == 'ite':
        a, b = _returning(n.args[1]), _returning(n.args[2])
        if a is None: return b
        if b is None: return a
        return T.ite(n.args[0], a, b)
    if n.op in ('abort', 'throw'): return None
    return n

def _strip(n):
    while n.op == 'ptrcast': n = n.args[0]
    return n

def main_access(rep, ws):
    where = 'src/python/PyImath/PyImathFixedArray.h'
    extra = ['-I' + os.path.join(build.REPO, 'src', 'python', 'PyImath'), '-I/usr/include/python3.11', '-fno-access-control', '-Wno-invalid-offsetof']
    try:
        bc = ws.compile('c20ir', SRC, extra=extra)
        mod = ws.irx(bc, opaque=('N5boost12shared_arrayImEC', 'N5boost12shared_arrayImED'), prefixes=('w_',))
    except build.BuildError as e:
        rep.ob('element accessors', 'R20.acc', UNDECIDED, str(e)[:300], where); return 0
    I = vg.Interp(mod); n = 0
    # ---- operator[]
    for nm, what, ty, formula in (('w_rd', 'ReadOnlyDirectAccess::operator[]', 'i32', '_ptr[i * _stride]'), ('w_wd', 'WritableDirectAccess::operator[]', 'ptr', '&_ptr[i * _stride]'),
                                  ('w_rm', 'ReadOnlyMaskedAccess::operator[]', 'i32', '_ptr[_indices[i] * _stride]'), ('w_wm', 'WritableMaskedAccess::operator[]', 'ptr', '&_ptr[_indices[i] * _stride]'),
                                  ('w_arr', 'FixedArray::operator[]', 'i32', '_ptr[(masked ? _indices[i] : i) * _stride]')):
        n += 1
        try:
            sz = 4 if ty == 'i32' else 8
            got = _returning(I.run(nm).out('a0', 0, sz, ty)); want = _returning(I.run(nm + '_ref').out('a0', 0, sz, ty))
            if got is None or want is None: raise vg.Unsupported('no returning path')
            ok = got is want or T.equiv(got, want, 50000)
            if not ok and nm == 'w_arr':
                # the library form asserts i < length on the masked arm; compare arm by arm on the masked / unmasked cells
                conds = [c for c in _conds(got) | _conds(want) if c.op == 'ptrcmp']
                ok = bool(conds)
                for c in conds:
                    for v in (True, False):
                        g, w = _returning(T.resolve(got, {c: v})), _returning(T.resolve(want, {c: v}))
                        g, w = _drop_guards(g), _drop_guards(w)
                        if not (g is w or T.equiv(g, w, 50000)): ok = False
            rep.ob(what, 'R20.acc', HOLDS if ok else VIOLATED, 'element i is %s' % formula if ok else
                   'element i is %s, expected %s = %s' % (T.show(got, 6)[:200], formula, T.show(want, 6)[:200]), where)
        except (vg.Unsupported, KeyError, OverflowError) as e:
            rep.ob(what, 'R20.acc', UNDECIDED, repr(e)[:300], where)
    # ---- constructors
    try:
        So = I.run('w_off')
        off = [T.signed(So.out('a0', 8 * k, 8, 'i64')) for k in range(11)]
    except (vg.Unsupported, KeyError, AttributeError) as e:
        rep.ob('accessor constructors', 'R20.acc', UNDECIDED, 'member offsets: %r' % e, where); return n
    FA_ptr, FA_stride, FA_ind, FA_wr, RD_ptr, RD_stride, WD_ptr, RM_ptr, RM_stride, RM_ind, WM_ptr = off
    null_test = lambda c: c.op == 'ptrcmp' and any(a.op == 'ptr' and 'null' in str(a.attr) for a in c.args) and any(_strip(a) is T.inp('a1', FA_ind, 8, 'ptr') or (a.op == 'in' and a.attr[:2] == ('a1', FA_ind)) for a in c.args)
    for nm, what, masked, writable, fields in (
            ('w_mk_rd', 'ReadOnlyDirectAccess(array)', False, False, [(RD_ptr, FA_ptr, '_ptr'), (RD_stride, FA_stride, '_stride')]),
            ('w_mk_wd', 'WritableDirectAccess(array)', False, True, [(RD_ptr, FA_ptr, '_ptr (base)'), (RD_stride, FA_stride, '_stride'), (WD_ptr, FA_ptr, '_ptr')]),
            ('w_mk_rm', 'ReadOnlyMaskedAccess(array)', True, False, [(RM_ptr, FA_ptr, '_ptr'), (RM_stride, FA_stride, '_stride')]),
            ('w_mk_wm', 'WritableMaskedAccess(array)', True, True, [(RM_ptr, FA_ptr, '_ptr (base)'), (RM_stride, FA_stride, '_stride'), (WM_ptr, FA_ptr, '_ptr')])):
        n += 1
        try:
            S = I.run(nm); bad = None
            tc = S.throw_cond()
            nulls = [c for c in _conds(tc) if null_test(c)]
            if not nulls and all(any(x.op == 'in' and x.attr[0] == 'a1' and x.attr[1] == FA_wr for x in _nodes(c)) for c in _conds(tc)):
                # nothing but (at most) the writable flag decides whether construction completes
                rep.ob(what, 'R20.acc', VIOLATED, 'the constructor completes on %s array: its throw condition (%s) does not depend on the array being a masked reference' % ('an unmasked' if masked else 'a masked', T.show(tc, 3)[:80]), where); continue
            if len(nulls) != 1: raise vg.Unsupported('the masked-reference test is not recognised in %s' % T.show(tc, 4)[:120])
            nc = nulls[0]                    # _indices == nullptr
            # construction completes only on an array of the accessor's kind ...
            wrong = _b3(tc, {nc: masked})
            if wrong is not True: bad = 'the constructor can complete on %s array (throw condition there: %s)' % ('an unmasked' if masked else 'a masked', T.show(wrong, 3)[:80])
            right = _residual(tc, {nc: not masked})
            # ... and, for the writable forms, only on a writable one
            wr = [c for c in _conds(right) if any(x.op == 'in' and x.attr[0] == 'a1' and x.attr[1] == FA_wr for x in _nodes(c))]
            if not bad and writable:
                if len(wr) != 1: bad = 'construction from a read-only array is not rejected (throw condition %s)' % T.show(right, 3)[:80]
                else:
                    # the test is  (writable & 1) == 0  -> throw
                    vals = {v: _b3(tc, {nc: not masked, wr[0]: v}) for v in (True, False)}
                    c0 = wr[0]
                    zero_means_ro = c0.op == 'icmp' and c0.attr == 'eq'
                    thr_ro = vals[True] if zero_means_ro else vals[False]; thr_w = vals[False] if zero_means_ro else vals[True]
                    if thr_ro is not True: bad = 'construction from a read-only array completes'
                    elif thr_w is not False: bad = 'construction from a writable array of the right kind throws'
            if not bad and not writable and _b3(tc, {nc: not masked}) is not False: bad = 'construction from an array of the right kind throws (%s)' % T.show(right, 3)[:60]
            # members
            if not bad:
                asg = {nc: not masked}
                if writable and wr: asg[wr[0]] = not (wr[0].op == 'icmp' and wr[0].attr == 'eq')
                for ao, fo, name in fields:
                    v = _strip(_returning(T.resolve(S.out('a0', ao, 8, 'i64'), asg)))
                    v = _through_copy(v, ao)
                    if not (v.op == 'in' and v.attr[0] == 'a1' and v.attr[1] == fo):
                        bad = 'member %s is initialised with %s, not with the array\'s %s' % (name, T.show(v, 3)[:80], name.split()[0]); break
                if not bad and masked:
                    # the index table: shared_array copy-constructed from the array's
                    v = _returning(T.resolve(S.out('a0', RM_ind, 8, 'i64'), asg))
                    calls = [x for x in _nodes(v) if x.op == 'callmem' or (x.op == 'call' and 'shared_array' in str(x.attr))]
                    okc = False
                    for x in calls:
                        for y in [x] + list(x.args):
                            if y.op == 'call' and 'shared_arrayImEC' in str(y.attr):
                                ps = [a for a in y.args if a.op == 'ptr']
                                if len(ps) >= 2 and str(ps[0].attr) == 'a0' and T.signed(ps[0].args[0]) == RM_ind and str(ps[1].attr) == 'a1' and T.signed(ps[1].args[0]) == FA_ind: okc = True
                    if not okc: bad = 'member _indices is not copy-constructed from the array\'s _indices (%s)' % T.show(v, 4)[:120]
            rep.ob(what, 'R20.acc', VIOLATED if bad else HOLDS, bad or 'completes only on a %s%s array; members taken from the array' % ('writable, ' if writable else '', 'masked' if masked else 'unmasked'), where)
        except (vg.Unsupported, KeyError, OverflowError, AttributeError, IndexError) as e:
            rep.ob(what, 'R20.acc', UNDECIDED, repr(e)[:300], where)
    return n

def _b3(n, asg):
    """three-valued truth of a boolean term under an assignment of its atoms"""
    if n is T.TRUE: return True
    if n is T.FALSE: return False
    if n in asg: return asg[n]
    if n.op == 'not':
        r = _b3(n.args[0], asg); return None if r is None else (not r)
    if n.op == 'ite':
        c = _b3(n.args[0], asg)
        if c is True: return _b3(n.args[1], asg)
        if c is False: return _b3(n.args[2], asg)
        a, b = _b3(n.args[1], asg), _b3(n.args[2], asg)
        return a if (a is not None and a == b) else None
    if n.op in ('and', 'or') and n.ty == 'i1':
        a, b = _b3(n.args[0], asg), _b3(n.args[1], asg)
        if n.op == 'and': return False if (a is False or b is False) else (True if (a is True and b is True) else None)
        return True if (a is True or b is True) else (False if (a is False and b is False) else None)
    return None

def _residual(n, asg):
    """the term with the assigned atoms folded away (boolean structure only)"""
    r = _b3(n, asg)
    if r is not None: return T.TRUE if r else T.FALSE
    if n.op == 'ite':
        c = _b3(n.args[0], asg)
        if c is True: return _residual(n.args[1], asg)
        if c is False: return _residual(n.args[2], asg)
    if n.op == 'not': return T.bool_not(_residual(n.args[0], asg))
    return n

def _through_copy(v, ao):
    """a member stored before the (opaque) shared_array copy constructor ran is read back through that call's memory: the
    constructor receives &_indices only, so the members stored earlier are the ones found in its input memory"""
    seen = 0
    while v.op == 'sel' and seen < 4:
        seen += 1
        m = v.args[0]
        if m.op != 'callmem': break
        inner = m.args[0]
        mems = [a for a in inner.args if a.op == 'mem']
        found = None
        for mm in mems:
            a = list(mm.args[1:])
            for k in range(0, len(a) - 1, 2):
                if a[k].op == 'const' and T.signed(a[k]) == ao: found = a[k + 1]
        if found is None: break
        v = _strip(found)
    return v

def _nodes(n):
    seen = set(); st = [n]; out = []
    while st:
        x = st.pop()
        if x.id in seen: continue
        seen.add(x.id); out.append(x); st.extend(x.args)
    return out

def _conds(n):
    return set(x.args[0] for x in _nodes(n) if x.op == 'ite') | ({n} if n.op in ('ptrcmp', 'icmp') else set()) | set(x for x in _nodes(n) if x.op in ('ptrcmp', 'icmp') )

def _drop_guards(n):
    """the value with every remaining integer range assertion taken as passed"""
    if n is None: return n
    for _ in range(6):
        cs = [x.args[0] for x in _nodes(n) if x.op == 'ite' and x.args[0].op == 'icmp']
        if not cs: break
        asg = {}
        for c in cs:
            for v in (True, False):
                r = _returning(T.resolve(n, {c: v}))
                if r is None: asg[c] = not v
        if not asg: break
        n = T.resolve(n, asg)
    return n
