"""C09 - transform builders act as documented; in-place forms pre-multiply (D-poly with sin/cos, sqrt atoms).

R09.set    set* matrices equal the documented matrices (generated from the doc comments' definitions)
R09.pre    in-place translate/scale/shear/rotate(44) == set*(arg) * M ; rotate(22/33) == M * setRotation
R09.rot    rotation builders are orthonormal with determinant +1 modulo sin^2+cos^2=1, |unit axis|=1
R09.frame  alignZAxisWithTargetDir / rotationMatrixWithUpDir / computeLocalFrame / firstFrame...:
           orthonormal right-handed frames on the generic path and on every degenerate-input path
           nextFrame (Mi = I, unit tangents): rotation carrying ti onto tj and pi onto pj; general Mi: Mi * that matrix;
           lastFrame = Mi * translate(pj - pi); firstFrame: x axis = unit tangent, y axis normal to the three points, origin pi
R09.range  every vector whose length a frame builder takes is of degree <= 1 in the direction arguments (no needless loss of range)
R09.point  translation() returns the translation row
"""
import itertools
from fractions import Fraction
from engine import term as T, agg, build, vg, poly as P, polycheck as PC
from engine.agg import ELEM, TU
from engine.report import HOLDS, VIOLATED, UNDECIDED
from .common import Analysed, fn_where, narrowing
from .c05 import det, matmul, sum_p, ONE

HDR = agg.HEADER + '#include <ImathFrame.h>\n'

def gen(t):
    E = ELEM[t][0]
    tu = TU('c09_' + t, header=HDR)
    M = {d: 'Matrix%d%d<%s>' % (d, d, E) for d in (2, 3, 4)}
    V = {n: 'Vec%d<%s>' % (n, E) for n in (2, 3, 4)}
    S6 = 'Shear6<%s>' % E
    def add(name, params, body, **meta):
        tu.add('w_' + name, params, body, **meta)
    # --- set* (result in a0, parameter a1[, a2])
    add('M44_setTranslation', '%s& m, const %s& t' % (M[4], V[3]), 'm.setTranslation(t);', kind='set', d=4, spec='translation')
    add('M44_setScaleT', '%s& m, const %s& s' % (M[4], E), 'm.setScale(s);', kind='set', d=4, spec='scaleT')
    add('M44_setScaleV', '%s& m, const %s& s' % (M[4], V[3]), 'm.setScale(s);', kind='set', d=4, spec='scaleV')
    add('M44_setShearV', '%s& m, const %s& h' % (M[4], V[3]), 'm.setShear(h);', kind='set', d=4, spec='shearV3')
    add('M44_setShear6', '%s& m, const %s& h' % (M[4], S6), 'm.setShear(h);', kind='set', d=4, spec='shear6')
    add('M44_setEulerAngles', '%s& m, const %s& r' % (M[4], V[3]), 'm.setEulerAngles(r);', kind='set', d=4, spec='euler')
    add('M44_setAxisAngle', '%s& m, const %s& ax, const %s& ang' % (M[4], V[3], E), 'm.setAxisAngle(ax, ang);', kind='set', d=4, spec='axisangle')
    add('M33_setTranslation', '%s& m, const %s& t' % (M[3], V[2]), 'm.setTranslation(t);', kind='set', d=3, spec='translation')
    add('M33_setScaleT', '%s& m, const %s& s' % (M[3], E), 'm.setScale(s);', kind='set', d=3, spec='scaleT')
    add('M33_setScaleV', '%s& m, const %s& s' % (M[3], V[2]), 'm.setScale(s);', kind='set', d=3, spec='scaleV')
    add('M33_setShearS', '%s& m, const %s& h' % (M[3], E), 'm.setShear(h);', kind='set', d=3, spec='shearS')
    add('M33_setShearV', '%s& m, const %s& h' % (M[3], V[2]), 'm.setShear(h);', kind='set', d=3, spec='shearV2')
    add('M33_setRotation', '%s& m, const %s& r' % (M[3], E), 'm.setRotation(r);', kind='set', d=3, spec='rot2d')
    add('M22_setRotation', '%s& m, const %s& r' % (M[2], E), 'm.setRotation(r);', kind='set', d=2, spec='rot2d')
    add('M22_setScaleT', '%s& m, const %s& s' % (M[2], E), 'm.setScale(s);', kind='set', d=2, spec='scaleT')
    add('M22_setScaleV', '%s& m, const %s& s' % (M[2], V[2]), 'm.setScale(s);', kind='set', d=2, spec='scaleV')
    # --- in-place (matrix a0 in/out)
    add('M44_translate', '%s& m, const %s& t' % (M[4], V[3]), 'm.translate(t);', kind='pre', d=4, spec='translation')
    add('M44_scale', '%s& m, const %s& s' % (M[4], V[3]), 'm.scale(s);', kind='pre', d=4, spec='scaleV')
    add('M44_shearV', '%s& m, const %s& h' % (M[4], V[3]), 'm.shear(h);', kind='pre', d=4, spec='shearV3')
    add('M44_shear6', '%s& m, const %s& h' % (M[4], S6), 'm.shear(h);', kind='pre', d=4, spec='shear6')
    add('M44_rotate', '%s& m, const %s& r' % (M[4], V[3]), 'm.rotate(r);', kind='pre', d=4, spec='euler')
    add('M33_translate', '%s& m, const %s& t' % (M[3], V[2]), 'm.translate(t);', kind='pre', d=3, spec='translation')
    add('M33_scale', '%s& m, const %s& s' % (M[3], V[2]), 'm.scale(s);', kind='pre', d=3, spec='scaleV')
    add('M33_shearS', '%s& m, const %s& h' % (M[3], E), 'm.shear(h);', kind='pre', d=3, spec='shearS')
    add('M33_shearV', '%s& m, const %s& h' % (M[3], V[2]), 'm.shear(h);', kind='pre', d=3, spec='shearV2')
    add('M33_rotate', '%s& m, const %s& r' % (M[3], E), 'm.rotate(r);', kind='post', d=3, spec='rot2d')
    add('M22_rotate', '%s& m, const %s& r' % (M[2], E), 'm.rotate(r);', kind='post', d=2, spec='rot2d')
    add('M22_scale', '%s& m, const %s& s' % (M[2], V[2]), 'm.scale(s);', kind='pre', d=2, spec='scaleV')
    add('M44_translation', '%s& o, const %s& m' % (V[3], M[4]), 'o = m.translation();', kind='trow', d=4)
    add('M33_translation', '%s& o, const %s& m' % (V[2], M[3]), 'o = m.translation();', kind='trow', d=3)
    # --- frames
    add('alignZ', '%s& m, const %s& t, const %s& u' % (M[4], V[3], V[3]), 'alignZAxisWithTargetDir(m, t, u);', kind='frame', rows='align')
    add('rotWithUp', '%s& m, const %s& f, const %s& t, const %s& u' % (M[4], V[3], V[3], V[3]), 'm = rotationMatrixWithUpDir(f, t, u);', kind='frame', rows='rotup')
    add('localFrame', '%s& m, const %s& p, const %s& x, const %s& n' % (M[4], V[3], V[3], V[3]), 'm = computeLocalFrame(p, x, n);', kind='frame', rows='local')
    add('firstFrame', '%s& m, const %s& a, const %s& b, const %s& c' % (M[4], V[3], V[3], V[3]), 'm = firstFrame(a, b, c);', kind='frame', rows='first')
    add('nextFrameI', '%s& m, const %s& p, const %s& q, %s& ti, %s& tj' % (M[4], V[3], V[3], V[3], V[3]), '%s I; m = nextFrame(I, p, q, ti, tj);' % M[4], kind='next', rows='nextI')
    add('nextFrameM', '%s& m, const %s& Mi, const %s& p, const %s& q, %s& ti, %s& tj' % (M[4], M[4], V[3], V[3], V[3], V[3]), 'm = nextFrame(Mi, p, q, ti, tj);', kind='next', rows='nextM')
    add('lastFrame', '%s& m, const %s& Mi, const %s& p, const %s& q' % (M[4], M[4], V[3], V[3]), 'm = lastFrame(Mi, p, q);', kind='next', rows='last')
    # addOffset: Scale(s) * [Rotation(r in degrees) with translation row t] * inMat * ref, through the builders decided above
    add('addOffset', '%s& o, const %s& in, const %s& t, const %s& r, const %s& s, const %s& ref' % (M[4], M[4], V[3], V[3], V[3], M[4]), 'o = addOffset(in, t, r, s, ref);', kind='compose', of='addOffset_ref')
    add('addOffset_ref', '%s& o, const %s& in, const %s& t, const %s& r, const %s& s, const %s& ref' % (M[4], M[4], V[3], V[3], V[3], M[4]),
        '%s O; %s rr(r); rr *= %s(M_PI / 180.0); O.setEulerAngles(rr); O[3][0] = t.x; O[3][1] = t.y; O[3][2] = t.z; %s S; S.setScale(s); o = S * O * in * ref;' % (M[4], V[3], E, M[4]), kind='aux')
    return tu

def trig(name, x, lt):
    return T.call(name, [x], lt)

def spec_matrix(m, sym, ctx, t, argbase='a1'):
    """documented matrix as list of rows of Poly (den = 1), built from the parameter at argbase"""
    d = m['d']; k = m['spec']; lt = ELEM[t][2]
    I = [[P.pconst(1 if i == j else 0) for j in range(d)] for i in range(d)]
    if k == 'translation':
        tv = sym.vec(argbase, d - 1)
        for j in range(d - 1): I[d - 1][j] = tv[j]
        return I
    if k == 'scaleT':
        s = sym.s(argbase, 0)
        n = d if d == 2 else d - 1
        for i in range(n): I[i][i] = s
        return I
    if k == 'scaleV':
        n = d if d == 2 else d - 1
        sv = sym.vec(argbase, n)
        for i in range(n): I[i][i] = sv[i]
        return I
    ax = {'x': 0, 'y': 1, 'z': 2}
    def shear(pairs):
        # "shear a for each b coord. by a factor f": row vector p -> p*S, a' = a + f*b  =>  S[b][a] = f
        for a, b, f in pairs: I[ax[b]][ax[a]] = f
        return I
    if k == 'shearV3':
        h = sym.vec(argbase, 3)
        return shear([('x', 'y', h[0]), ('x', 'z', h[1]), ('y', 'z', h[2])])
    if k == 'shear6':
        h = sym.vec(argbase, 6)   # xy xz yz yx zx zy
        return shear([('x', 'y', h[0]), ('x', 'z', h[1]), ('y', 'z', h[2]), ('y', 'x', h[3]), ('z', 'x', h[4]), ('z', 'y', h[5])])
    if k == 'shearS':
        return shear([('x', 'y', sym.s(argbase, 0))])
    if k == 'shearV2':
        h = sym.vec(argbase, 2)
        return shear([('x', 'y', h[0]), ('y', 'x', h[1])])
    def cs(node):
        c = ctx.rat(trig('cos', node, lt))[0]; s = ctx.rat(trig('sin', node, lt))[0]
        return c, s
    if k == 'rot2d':
        c, s = cs(agg.scalar_in(argbase, t))
        I[0][0] = c; I[0][1] = s; I[1][0] = P.pneg(s); I[1][1] = c
        return I
    if k == 'euler':
        # row-vector convention, x applied first: R = Rx * Ry * Rz
        ang = [agg.slot_in(argbase, i, t) for i in range(3)]
        (cx, sx), (cy, sy), (cz, sz) = cs(ang[0]), cs(ang[1]), cs(ang[2])
        Z, O = P.pconst(0), P.pconst(1)
        Rx = [[O, Z, Z, Z], [Z, cx, sx, Z], [Z, P.pneg(sx), cx, Z], [Z, Z, Z, O]]
        Ry = [[cy, Z, P.pneg(sy), Z], [Z, O, Z, Z], [sy, Z, cy, Z], [Z, Z, Z, O]]
        Rz = [[cz, sz, Z, Z], [P.pneg(sz), cz, Z, Z], [Z, Z, O, Z], [Z, Z, Z, O]]
        return matmul(matmul(Rx, Ry), Rz)
    raise KeyError(k)

def regular_premises(terms):
    """premises that select the generic path of length()/normalized(): squared length not tiny,
    length not zero.  Returns {cond: bool} or raises Undecided on an unexpected condition."""
    pre = {}
    for tm in terms:
        for c in P.all_conds(tm):
            if c in pre: continue
            if c.op == 'fcmp' and c.attr == 'olt' and c.args[1].op == 'const' and 0 < T.const_value(c.args[1]) < Fraction(1, 10 ** 30):
                pre[c] = False      # dot < 2*min : the tiny-vector path (C08)
            elif c.op == 'fcmp' and c.attr == 'oeq' and any(a.op == 'const' and T.const_value(a) == 0 for a in c.args):
                pre[c] = False      # length == 0 : null vector (degenerate input)
            elif P.abs_idiom(T.ite(c, T.TRUE, T.FALSE)) is not None:
                pass
    return pre

def ortho_check(ctx, rows3, want_det=1):
    """rows3: 3x3 of Rat.  R R^T = I and det = +1"""
    n = len(rows3)
    for i in range(n):
        for j in range(n):
            acc = (P.pconst(0), ONE)
            for k in range(n):
                acc = ctx.radd(acc, ctx.rmul(rows3[i][k], rows3[j][k]))
            if not ctx.requal(acc, (P.pconst(1 if i == j else 0), ONE)):
                return 'row %d . row %d = %s, expected %d' % (i, j, P.show_rat(acc, ctx)[:200], 1 if i == j else 0)
    # determinant by cofactor expansion on Rats
    def rdet(m):
        if len(m) == 2:
            return ctx.radd(ctx.rmul(m[0][0], m[1][1]), (P.pneg(ctx.rmul(m[0][1], m[1][0])[0]), ctx.rmul(m[0][1], m[1][0])[1]))
        acc = (P.pconst(0), ONE)
        for j in range(len(m)):
            minor = [[m[r][c] for c in range(len(m)) if c != j] for r in range(1, len(m))]
            term = ctx.rmul(m[0][j], rdet(minor))
            if j % 2: term = (P.pneg(term[0]), term[1])
            acc = ctx.radd(acc, term)
        return acc
    dt = rdet(rows3)
    if not ctx.requal(dt, (P.pconst(want_det), ONE)):
        return 'determinant = %s, expected %d' % (P.show_rat(dt, ctx)[:200], want_det)
    return None

def main(rep, ws, tier):
    from .c05 import Sym
    types = 'f' if tier == 'quick' else 'fd'
    tus = [gen(t) for t in types]
    an = Analysed(ws, tus, rep)
    for tu, t in zip(tus, types):
        R = an[tu]
        E, sz, lt = ELEM[t]
        for name, m in tu.meta.items():
            oid = '%s<%s>' % (name[2:], E)
            S = R.get(name)
            kind = m['kind']
            if kind == 'aux': continue
            rule = {'set': 'R09.set', 'pre': 'R09.pre', 'post': 'R09.pre', 'trow': 'R09.point', 'frame': 'R09.frame', 'next': 'R09.frame', 'compose': 'R09.pre'}[kind]
            if S is None:
                rep.ob(oid, rule, UNDECIDED, R.err.get(name, 'not analysed')); continue
            where = fn_where(S.fn)
            if any(e.kind != 'ret' for e in S.exits) and not (kind == 'frame' and all(e.kind in ('ret', 'throw') for e in S.exits)):
                rep.ob(oid, rule, VIOLATED, 'unexpected exits %s' % [e.kind for e in S.exits], where); continue
            try:
                if kind == 'compose':
                    Sr = R.get('w_' + m['of'])
                    if Sr is None:
                        rep.ob(oid, rule, UNDECIDED, R.err.get('w_' + m['of'], 'reference composition not analysed'), where); continue
                    ctx = P.Ctx(); bad = None
                    for i in range(16):
                        a_, b_ = ctx.rat(S.out('a0', i * sz, sz, lt)), ctx.rat(Sr.out('a0', i * sz, sz, lt))
                        if not ctx.requal(a_, b_):
                            bad = 'entry [%d][%d] is %s; Scale(s) * [Rotation(r deg) | t] * inMat * ref has %s' % (i // 4, i % 4, P.show_rat(a_, ctx)[:160], P.show_rat(b_, ctx)[:160]); break
                    rep.ob(oid, rule, VIOLATED if bad else HOLDS, bad or 'Scale(s) * [Rotation(r in degrees), translation row t] * inMat * ref, entry by entry (the builders are decided by R09.set, the products by C05)', where)
                    continue
                if kind == 'trow':
                    d = m['d']
                    outs = [S.out('a0', i * sz, sz, lt) for i in range(d - 1)]
                    ok = all(outs[j] is agg.slot_in('a1', (d - 1) * d + j, t) for j in range(d - 1))
                    rep.ob(oid, rule, HOLDS if ok else VIOLATED, '' if ok else 'returns %s' % [T.show(o) for o in outs], where)
                    continue
                if kind in ('set', 'pre', 'post'):
                    d = m['d']
                    outs = [S.out('a0', i * sz, sz, lt) for i in range(d * d)]
                    if m['spec'] == 'axisangle':
                        for _ in range(10):
                            pre = regular_premises(outs)
                            if not pre: break
                            outs = [T.resolve(o, pre) for o in outs]
                    if m['spec'] == 'axisangle':
                        from .common import bare_length_uses
                        raw = [S.out('a0', i * sz, sz, lt) for i in range(d * d)]
                        nl, bl = bare_length_uses(raw, [agg.slot_in('a1', i, t) for i in range(3)], lt)
                        rep.ob(oid + '#unit-axis', 'R09.rot', VIOLATED if (bl or nl == 0) else HOLDS,
                               ('the axis is divided by a bare sqrt(axis.axis) (%s): for a tiny non-zero axis the squared length underflows and the rotation degenerates; Vec3::length() / normalized() must be used' % T.show(bl[0], 3)[:120]) if bl else
                               ('no sqrt(axis.axis) found' if nl == 0 else 'the axis length is taken through Vec3::length() (tiny-length branch present)'), where)
                    bad = None; ncase = 0; rot_done = False
                    for asg, res in PC.live_cases(outs):
                        ctx, contra = PC.ctx_for(asg)
                        if contra: continue
                        ncase += 1
                        sym = Sym(ctx, t)
                        got = [ctx.rat(x) for x in res]
                        if m['spec'] == 'axisangle':
                            # Rodrigues: R = c I + (1-c) u u^T + s K, u = axis/|axis|  (row-vector convention)
                            a = [agg.slot_in('a1', i, t) for i in range(3)]
                            dot = T.binop('fadd', T.binop('fadd', T.binop('fmul', a[0], a[0], lt), T.binop('fmul', a[1], a[1], lt), lt), T.binop('fmul', a[2], a[2], lt), lt)
                            ln = ctx.rat(T.call('sqrt', [dot], lt))
                            u = [ctx.rdiv(ctx.rat(x), ln) for x in a]
                            ang = agg.scalar_in('a2', t)
                            c = ctx.rat(trig('cos', ang, lt)); s = ctx.rat(trig('sin', ang, lt))
                            omc = ctx.radd((P.pconst(1), ONE), (P.pneg(c[0]), c[1]))
                            K = [[None, u[2], (P.pneg(u[1][0]), u[1][1])], [(P.pneg(u[2][0]), u[2][1]), None, u[0]], [u[1], (P.pneg(u[0][0]), u[0][1]), None]]
                            spec = []
                            for i in range(4):
                                for j in range(4):
                                    if i == 3 or j == 3:
                                        spec.append((P.pconst(1 if i == j else 0), ONE)); continue
                                    e = ctx.rmul(omc, ctx.rmul(u[i], u[j]))
                                    if i == j: e = ctx.radd(e, c)
                                    else: e = ctx.radd(e, ctx.rmul(s, K[i][j]))
                                    spec.append(e)
                        else:
                            sm = spec_matrix(m, sym, ctx, t)
                            if kind == 'set':
                                spec = [(ctx.reduce(sm[i][j]), ONE) for i in range(d) for j in range(d)]
                            else:
                                Min = sym.mat('a0', d)
                                pm = matmul(sm, Min) if kind == 'pre' else matmul(Min, sm)
                                spec = [(ctx.reduce(pm[i][j]), ONE) for i in range(d) for j in range(d)]
                        for i, (g, sp) in enumerate(zip(got, spec)):
                            if not ctx.requal(g, sp):
                                bad = 'entry [%d][%d]%s: found %s, documented %s' % (i // d, i % d, (' when ' + PC.show_asg(asg)) if asg else '', P.show_rat(g, ctx)[:300], P.show_rat(sp, ctx)[:300]); break
                        if bad: break
                        # R09.rot for rotation builders
                        if kind == 'set' and m['spec'] in ('rot2d', 'euler', 'axisangle') and not rot_done:
                            rot_done = True
                            n3 = 2 if m['spec'] == 'rot2d' else 3
                            rows = [[got[i * d + j] for j in range(n3)] for i in range(n3)]
                            e = ortho_check(ctx, rows)
                            rep.ob(oid + '#orthonormal', 'R09.rot', VIOLATED if e else HOLDS, e or 'R R^T = I and det R = +1 modulo sin^2+cos^2=1' + (', |axis| > 0' if m['spec'] == 'axisangle' else ''), where)
                    if ncase == 0: bad = 'no feasible case'
                    rep.ob(oid, rule, VIOLATED if bad else HOLDS, bad or ('%d case(s)' % ncase), where,
                           sample=None if bad else '%s [0][0] = %s' % (oid, T.show(outs[0], 4)[:300]))
                    continue
                if kind == 'frame':
                    # the range rule first: a builder that fails it is reported for that, and the scenario
                    # enumeration (which can be long on an unrecognised rescaling) is not needed for a verdict
                    n0 = sum(1 for o in rep.obs if o['status'] == VIOLATED)
                    check_range(rep, oid, S, t, where)
                    if sum(1 for o in rep.obs if o['status'] == VIOLATED) == n0:
                        check_frame(rep, oid, S, m, t, where)
                        if m['rows'] == 'first': check_first_axes(rep, oid, S, t, where)
                if kind == 'next':
                    check_next(rep, oid, S, m, t, where, R)
                    if m['rows'] == 'nextI': check_range(rep, oid, S, t, where)
            except (P.NotPoly, PC.Undecided, vg.Unsupported, OverflowError) as e:
                rep.ob(oid, rule, UNDECIDED, str(e), where)
    narrowing(rep, ws, [gen('d')], 'R09.prec')
    rep.floor('transform builder instances', sum(1 for o in rep.obs if o['rule'] in ('R09.set', 'R09.pre')), 28 * len(types))
    rep.assumptions += ['exact real arithmetic (D-poly); sin/cos/sqrt are atoms with sin^2+cos^2=1 and sqrt(x)^2=x', 'generic path of length(): squared length not subnormal (C08 decides length itself)']
    rep.undecided_clauses += ['behaviour for nearly parallel directions (numeric)', 'orthonormality "to rounding"']

def tiny_cond(c):
    return c.op == 'fcmp' and c.attr == 'olt' and c.args[1].op == 'const' and 0 < T.const_value(c.args[1]) < Fraction(1, 10 ** 30)

def frame_scenarios(rows, t):
    """input scenarios named by the property: generic, zero directions, exactly parallel pairs"""
    E, sz, lt = ELEM[t]
    lam = T.arg(90, lt)
    def vec(base): return [agg.slot_in(base, i, t) for i in range(3)]
    def zero(ctx, base):
        for x in vec(base): ctx.lin[ctx.key(x)] = {}
    def parallel(ctx, b1, b2):          # b2 = lambda * b1
        for x, y in zip(vec(b1), vec(b2)):
            ctx.lin[ctx.key(y)] = P.pmul(P.patom(ctx.key(lam)), P.patom(ctx.key(x)))
    def axis(ctx, base, k):             # base = (tau along axis k)
        for i, x in enumerate(vec(base)):
            if i != k: ctx.lin[ctx.key(x)] = {}
    sc = [('generic', lambda ctx: None)]
    if rows == 'align':      # (result, targetDir a1, upDir a2)
        sc += [('target = 0', lambda c: zero(c, 'a1')), ('up = 0', lambda c: zero(c, 'a2')), ('target = up = 0', lambda c: (zero(c, 'a1'), zero(c, 'a2'))),
               ('up parallel to target', lambda c: parallel(c, 'a1', 'a2')),
               ('target along x, up parallel', lambda c: (axis(c, 'a1', 0), parallel(c, 'a1', 'a2'))),
               ('target along z, up = 0', lambda c: (axis(c, 'a1', 2), zero(c, 'a2'))),
               ('target along y, up = 0', lambda c: (axis(c, 'a1', 1), zero(c, 'a2')))]
    elif rows == 'rotup':    # (result, from a1, to a2, up a3); the axis-aligned scenarios first: they are cheap and carry the documented-axes rule
        sc = [('from along z', lambda c: axis(c, 'a1', 2))] + sc
        sc += [('to = 0', lambda c: zero(c, 'a2')), ('up = 0', lambda c: zero(c, 'a3')), ('up parallel to to', lambda c: parallel(c, 'a2', 'a3')),
               ('to along x, up parallel', lambda c: (axis(c, 'a2', 0), parallel(c, 'a2', 'a3'))), ('from along y', lambda c: axis(c, 'a1', 1)),
               ('from along x', lambda c: axis(c, 'a1', 0))]
    return sc

FLT_MAX = Fraction(2 ** 128 - 2 ** 104)
DBL_MAX = Fraction(2 ** 1024 - 2 ** 971)

def abstract_exponents(outs):
    """A frame depends on the directions of its arguments only, so it has to come out right whatever power of two the
    arguments are rescaled by: the binary exponent read by frexp becomes a free integer (R09.range decides, separately,
    that the exponent used is that of the vector being rescaled), and a rescaling that is skipped for a non-finite or
    zero magnitude (m > 0 && m <= max) is taken, the arguments of a scenario being finite and its zero vectors replaced
    before."""
    fe = {}
    seen = set(); st = list(outs)
    while st:
        x = st.pop()
        if x.id in seen: continue
        seen.add(x.id); st.extend(x.args)
        if x.op == 'call' and x.attr == 'frexp_exp' and x not in fe:
            fe[x] = T.arg(200 + len(fe), x.ty)
    if not fe: return outs
    for _ in range(8):      # a guard may only become recognisable once an earlier one is resolved
        pre = {}
        for o in outs:
            for c in P.all_conds(o):
                v = magnitude_test(c, scaled=True)
                if v is not None: pre[c] = v
        if not pre: break
        outs = [T.resolve(o, pre) for o in outs]
    fe = {}
    seen = set(); st = list(outs)
    while st:
        x = st.pop()
        if x.id in seen: continue
        seen.add(x.id); st.extend(x.args)
        if x.op == 'call' and x.attr == 'frexp_exp' and x not in fe:
            fe[x] = T.arg(200 + len(fe), x.ty)
    memo = {}
    return [T.subst(o, fe, memo) for o in outs]

_MAXABS = {}
def is_max_abs(m, scaled=False):
    """m is max(|x|,|y|,|z|) of the three components of one vector argument, computed by selections only (no
    arithmetic, so it is finite and non-zero whenever the vector is): evaluated on every sign/order pattern."""
    r = _MAXABS.get((m.id, scaled))
    if r is not None: return r[1]
    class No(Exception): pass
    scale = []
    def ev(x, env):
        if x.op == 'in': return env[x]
        if scaled and x.op == 'call' and x.attr == 'ldexp':
            # components already rescaled by one common power of two: the same selection, a positive factor apart
            if not scale: scale.append(x.args[1])
            if scale[0] is not x.args[1]: raise No()
            return ev(x.args[0], env)
        if x.op == 'const':
            v = T.const_value(x)
            if isinstance(v, str): raise No()
            return v
        if x.op == 'call' and 'fabs' in str(x.attr) and len(x.args) == 1: return abs(ev(x.args[0], env))
        if x.op == 'ite': return ev(x.args[1], env) if ev(x.args[0], env) else ev(x.args[2], env)
        if x.op == 'fcmp' and x.attr in ('olt', 'ole', 'ogt', 'oge', 'oeq', 'one', 'une'):
            p, q = ev(x.args[0], env), ev(x.args[1], env)
            return {'olt': p < q, 'ole': p <= q, 'ogt': p > q, 'oge': p >= q, 'oeq': p == q, 'one': p != q, 'une': p != q}[x.attr]
        if x.op == 'not': return not ev(x.args[0], env)
        raise No()
    def arith(c):
        st = [c]; seen = set()
        while st:
            x = st.pop()
            if x.id in seen: continue
            seen.add(x.id)
            if scaled and x.op == 'call' and x.attr == 'ldexp':
                st.append(x.args[0]); continue
            st.extend(x.args)
            if x.op in ('fadd', 'fmul', 'fdiv') or (x.op == 'call' and 'fabs' not in str(x.attr)): return True
        return False
    def one(m):
        del scale[:]
        ins = []
        st = [m]; seen = set()
        while st:
            x = st.pop()
            if x.id in seen: continue
            seen.add(x.id)
            if scaled and x.op == 'call' and x.attr == 'ldexp':
                st.append(x.args[0]); continue
            st.extend(x.args)
            if x.op == 'in' and x not in ins: ins.append(x)
        try:
            if not ins: return ev(m, {}) > 0          # a replacement direction such as (0,1,0)
            if len(ins) != 3 or len({i.attr[0] for i in ins}) != 1: return False
            for vals in itertools.product((-3, -2, -1, 0, 1, 2, 3), repeat=3):
                if ev(m, dict(zip(ins, vals))) != max(abs(v) for v in vals): return False
        except No:
            return False
        return True
    # conditions that are not selections among the components (is the vector null?) are split on: either way the
    # magnitude has to be that of the vector then in use
    def split(m, depth):
        outer = [c for c in P.all_conds(m) if arith(c)]
        if not outer: return one(m)
        if depth > 6: return False
        c = min(outer, key=T.size)      # innermost first: the comparisons among components come last
        return split(T.resolve(m, {c: True}), depth + 1) and split(T.resolve(m, {c: False}), depth + 1)
    ok = split(m, 0)
    _MAXABS[(m.id, scaled)] = (m, ok)
    return ok

def magnitude_test(c, scaled=False):
    """m > 0 / m <= max for m a maximum of |components| that feeds a frexp: True for a finite non-zero vector.
    scaled: m may be taken of components that one earlier power-of-two rescaling has been applied to (for the frame
    identities, where either branch is the same frame over the reals; not for the range rule)."""
    if c.op != 'fcmp': return None
    a, b = c.args
    def mag(x):
        return x.op != 'const' and is_max_abs(x, scaled)
    if c.attr == 'ogt' and b.op == 'const' and T.const_value(b) == 0 and a.op != 'const' and mag(a): return True
    if c.attr == 'olt' and a.op == 'const' and T.const_value(a) == 0 and b.op != 'const' and mag(b): return True
    if c.attr == 'ole' and b.op == 'const' and T.const_value(b) in (FLT_MAX, DBL_MAX) and mag(a): return True
    return None

def documented_axes(ctx, kind, rows, t):
    """the axes the frame builders document, for directions that are neither zero nor parallel.
    alignZAxisWithTargetDir(target, up): the z row is parallel to target, the x row is perpendicular to target and up
    (so the y row lies in their plane).  rotationMatrixWithUpDir(from, to, up): from is carried onto a multiple of to, and the
    image of the world up axis (0,1,0) lies in the plane of to and up (it is perpendicular to to x up)."""
    def vec(base): return [(ctx.reduce(P.patom(ctx.key(agg.slot_in(base, i, t)))), ONE) for i in range(3)]
    def neg(r): return (P.pneg(r[0]), r[1])
    def dot(a, b):
        acc = (P.pconst(0), ONE)
        for x, y in zip(a, b): acc = ctx.radd(acc, ctx.rmul(x, y))
        return acc
    def cross(a, b):
        return [ctx.radd(ctx.rmul(a[1], b[2]), neg(ctx.rmul(a[2], b[1]))), ctx.radd(ctx.rmul(a[2], b[0]), neg(ctx.rmul(a[0], b[2]))), ctx.radd(ctx.rmul(a[0], b[1]), neg(ctx.rmul(a[1], b[0])))]
    if kind == 'align':
        tg, up = vec('a1'), vec('a2')
        if not all(ctx.rzero(c) for c in cross(rows[2], tg)): return 'the z axis row is not parallel to the target direction'
        if not ctx.rzero(dot(rows[0], tg)) or not ctx.rzero(dot(rows[0], up)): return 'the x axis row is not perpendicular to both the target and the up direction (the y axis leaves their plane)'
        return None
    fr, to, up = vec('a1'), vec('a2'), vec('a3')
    img = [dot(fr, [rows[i][j] for i in range(3)]) for j in range(3)]          # from * M
    if not all(ctx.rzero(c) for c in cross(img, to)): return 'the image of fromDir is not parallel to toDir'
    if not ctx.rzero(dot(rows[1], cross(to, up))): return 'the image of the world up axis (0,1,0) does not lie in the plane of toDir and upDir: the result is a rotation taking fromDir to toDir, but with the wrong twist about toDir'
    return None

def check_frame(rep, oid, S, m, t, where):
    E, sz, lt = ELEM[t]
    outs = [S.out('a0', i * sz, sz, lt) for i in range(16)]
    outs = abstract_exponents(outs)
    ncase = 0; bad = None; detail = []
    for scname, setup in frame_scenarios(m['rows'], t):
        ctx = P.Ctx()
        setup(ctx)
        def premise(c):
            if tiny_cond(c):
                # squared length below 2*min: false on C08's generic domain, unless the squared length is identically zero
                try:
                    if ctx.rzero(ctx.rat(c.args[0])): return True
                except P.NotPoly:
                    pass
                return False
            return None
        def enum(c):
            return c.op == 'fcmp' and c.attr in ('olt', 'ole')
        try:
            for asg, res in PC.generic_cases(outs, ctx, enumerate_cond=enum, premise=premise):
                if any(r.op == 'throw' for r in res):
                    continue
                ncase += 1
                got = [ctx.rat(x) for x in res]
                rows = [[got[i * 4 + j] for j in range(3)] for i in range(3)]
                e = ortho_check(ctx, rows)
                if not e:
                    last = [got[3], got[7], got[11], got[15]]
                    if not (ctx.rzero(last[0]) and ctx.rzero(last[1]) and ctx.rzero(last[2]) and ctx.requal(last[3], (P.pconst(1), ONE))):
                        e = 'last column is not (0,0,0,1)'
                if not e and m['rows'] in ('align', 'rotup') and (scname == 'generic' or scname.startswith('from along')):
                    e = documented_axes(ctx, m['rows'], rows, t)
                if e:
                    bad = 'scenario "%s": %s' % (scname, e); break
            detail.append(scname)
        except (P.NotPoly, PC.Undecided) as e:
            rep.ob(oid, 'R09.frame', UNDECIDED, 'scenario "%s": %s' % (scname, e), where); return
        if bad: break
    rep.ob(oid, 'R09.frame', VIOLATED if bad else HOLDS, bad or '%d cases over scenarios %s: orthonormal, right-handed, affine' % (ncase, detail), where)

def _unit(ctx, base, t):
    ks = [ctx.key(agg.slot_in(base, i, t)) for i in range(3)]
    ctx.rules[ks[2]] = P.psub(P.psub(P.pconst(1), P.ppow(P.patom(ks[0]), 2)), P.ppow(P.patom(ks[1]), 2))

def _inverse_trig_hooks(ctx):
    """cos(acos a) = a, sin(acos a) = sqrt(1-a^2), sin(asin a) = a, cos(asin a) = sqrt(1-a^2); acos >= 0"""
    inv = {}; orig = ctx.call
    def call(n):
        nm = str(n.attr).rstrip('f') if str(n.attr) in ('acosf', 'asinf', 'cosf', 'sinf') else n.attr
        if nm in ('acos', 'asin') and len(n.args) == 1:
            r = orig(n)
            (mono, c_), = r[0].items(); k = mono[0][0]
            inv[k] = (nm, ctx.rat(n.args[0]))
            if nm == 'acos' or (n.args[0].op == 'call' and n.args[0].attr == 'sqrt'): ctx.positive.add(k)
            return r
        if nm in ('cos', 'sin') and len(n.args) == 1:
            a = ctx.rat(n.args[0])
            if a[1] == ONE and len(a[0]) == 1:
                (mono, c_), = a[0].items()
                if c_ == 1 and len(mono) == 1 and mono[0][1] == 1 and mono[0][0] in inv:
                    fn_, x = inv[mono[0][0]]
                    if (fn_, nm) in (('acos', 'cos'), ('asin', 'sin')): return x
                    one_m = ctx.radd((P.pconst(1), ONE), (P.pneg(ctx.rmul(x, x)[0]), ctx.rmul(x, x)[1]))
                    return ctx.rdiv(ctx.sqrt_poly(one_m[0]), ctx.sqrt_poly(one_m[1]))
        return orig(n)
    ctx.call = call

def check_next(rep, oid, S, m, t, where, R):
    """nextFrame / lastFrame.  With Mi = I and unit tangents (they are normalised first):  the linear part is a rotation
    carrying ti onto tj, the previous point is carried onto the current one, the matrix is affine;  for a general Mi the
    result is Mi times that matrix;  lastFrame is Mi * translate(pj - pi)."""
    E, sz, lt = ELEM[t]
    outs = [S.out('a0', i * sz, sz, lt) for i in range(16)]
    kind = m['rows']
    def vec(ctx, base): return [(ctx.reduce(P.patom(ctx.key(agg.slot_in(base, i, t)))), ONE) for i in range(3)]
    def mat(ctx, base): return [[(ctx.reduce(P.patom(ctx.key(agg.slot_in(base, i * 4 + j, t)))), ONE) for j in range(4)] for i in range(4)]
    def neg(r): return (P.pneg(r[0]), r[1])
    if kind == 'last':
        ctx = P.Ctx()
        got = [ctx.rat(x) for x in outs]
        Mi = mat(ctx, 'a1'); p, q = vec(ctx, 'a2'), vec(ctx, 'a3')
        d = [ctx.radd(q[i], neg(p[i])) for i in range(3)]
        bad = None
        for i in range(4):
            for j in range(4):
                # translate(d) = I with last row (d,1); Mi * Tr: column j<3: Mi[i][j] + Mi[i][3]*d[j]; column 3: Mi[i][3]
                want = Mi[i][3] if j == 3 else ctx.radd(Mi[i][j], ctx.rmul(Mi[i][3], d[j]))
                if not ctx.requal(got[i * 4 + j], want): bad = 'entry [%d][%d] = %s, Mi * translate(pj - pi) has %s' % (i, j, P.show_rat(got[i * 4 + j], ctx)[:120], P.show_rat(want, ctx)[:120]); break
            if bad: break
        rep.ob(oid, 'R09.frame', VIOLATED if bad else HOLDS, bad or 'Mi * translate(pj - pi)', where); return
    tb, ub = ('a3', 'a4') if kind == 'nextI' else ('a4', 'a5')
    pb, qb = ('a1', 'a2') if kind == 'nextI' else ('a2', 'a3')
    ctx = P.Ctx(); ctx.cancel = True
    _unit(ctx, tb, t); _unit(ctx, ub, t)
    _inverse_trig_hooks(ctx)
    ti, tj = vec(ctx, tb), vec(ctx, ub)
    dotp = (P.pconst(0), ONE)
    for i in range(3): dotp = ctx.radd(dotp, ctx.rmul(ti[i], tj[i]))
    def bounded(X):
        """X^2 + Y^2 = 1 for Y the dot product or the cross-product length of the unit tangents: |X| <= 1"""
        try: x = ctx.rat(X)
        except P.NotPoly: return False
        one_m = ctx.radd((P.pconst(1), ONE), neg(ctx.rmul(x, x)))
        d2 = ctx.rmul(dotp, dotp)
        return ctx.requal(one_m, d2) or ctx.requal(one_m, ctx.radd((P.pconst(1), ONE), neg(d2)))
    def premise(c):
        if tiny_cond(c): return False
        if c.op == 'fcmp' and c.attr in ('oeq', 'une', 'one') and any(z.op == 'const' and T.const_value(z) == 0 for z in c.args): return c.attr != 'oeq'   # lengths / angle non-zero
        if c.op == 'fcmp' and c.attr in ('olt', 'ole'):
            a_, b_ = c.args
            for k_, lo in ((a_, True), (b_, False)):
                if k_.op == 'const' and abs(T.const_value(k_)) == 1:
                    other = b_ if lo else a_
                    if not bounded(other): return None
                    v = T.const_value(k_)
                    # lo: const < X ; else: X < const          (|X| < 1 on the generic cell)
                    return (v == -1) if lo else (v == 1)
        return None
    def enum(c): return False
    ncase = 0; bad = None
    for asg, res in PC.generic_cases(outs, ctx, enumerate_cond=enum, premise=premise):
        ncase += 1
        got = [ctx.rat(x) for x in res]
        if kind == 'nextI':
            rows = [[got[i * 4 + j] for j in range(3)] for i in range(3)]
            e = ortho_check(ctx, rows)
            if not e:
                for j in range(3):
                    acc = (P.pconst(0), ONE)
                    for i in range(3): acc = ctx.radd(acc, ctx.rmul(ti[i], rows[i][j]))
                    if not ctx.requal(acc, tj[j]): e = 'the previous tangent is not carried onto the current one: (ti * R)[%d] = %s' % (j, P.show_rat(acc, ctx)[:140]); break
            if not e:
                p, q = vec(ctx, pb), vec(ctx, qb)
                for j in range(3):
                    acc = got[12 + j]
                    for i in range(3): acc = ctx.radd(acc, ctx.rmul(p[i], rows[i][j]))
                    if not ctx.requal(acc, q[j]): e = 'the previous point is not carried onto the current one (component %d)' % j; break
            if not e and not (ctx.rzero(got[3]) and ctx.rzero(got[7]) and ctx.rzero(got[11]) and ctx.requal(got[15], (P.pconst(1), ONE))): e = 'last column is not (0,0,0,1)'
            if e: bad = e; break
        else:
            SI = R.get('w_nextFrameI')
            if SI is None: raise vg.Unsupported('nextFrameI not analysed')
            ren = {agg.slot_in('a1', i, t): agg.slot_in('a2', i, t) for i in range(3)}
            ren.update({agg.slot_in('a2', i, t): agg.slot_in('a3', i, t) for i in range(3)})
            ren.update({agg.slot_in('a3', i, t): agg.slot_in('a4', i, t) for i in range(3)})
            ren.update({agg.slot_in('a4', i, t): agg.slot_in('a5', i, t) for i in range(3)})
            base_ = [T.subst(SI.out('a0', i * sz, sz, lt), ren) for i in range(16)]
            for asg2, res2 in PC.generic_cases(base_, ctx, enumerate_cond=enum, premise=premise):
                X = [ctx.rat(x) for x in res2]
                Mi = mat(ctx, 'a1')
                for i in range(4):
                    for j in range(4):
                        acc = (P.pconst(0), ONE)
                        for k in range(4): acc = ctx.radd(acc, ctx.rmul(Mi[i][k], X[k * 4 + j]))
                        if not ctx.requal(got[i * 4 + j], acc): bad = 'entry [%d][%d] is not that of Mi * nextFrame(I, ...)' % (i, j); break
                    if bad: break
                break
            if bad: break
    if ncase == 0: bad = 'no feasible case'
    rep.ob(oid, 'R09.frame', VIOLATED if bad else HOLDS, bad or ('rotation carrying ti onto tj and pi onto pj, affine (unit tangents, generic turn)' if kind == 'nextI' else 'Mi * nextFrame(I, ...)'), where)

def check_first_axes(rep, oid, S, t, where):
    """firstFrame, generic points: x axis = (pj - pi)/|pj - pi|, y axis perpendicular to pk - pi, origin pi"""
    E, sz, lt = ELEM[t]
    outs = [S.out('a0', i * sz, sz, lt) for i in range(16)]
    for _ in range(10):
        pre = regular_premises(outs)
        if not pre: break
        outs = [T.resolve(o, pre) for o in outs]
    ctx = P.Ctx(); ctx.cancel = True
    def vec(base): return [(ctx.reduce(P.patom(ctx.key(agg.slot_in(base, i, t)))), ONE) for i in range(3)]
    def neg(r): return (P.pneg(r[0]), r[1])
    pi_, pj_, pk_ = vec('a1'), vec('a2'), vec('a3')
    bad = None
    try:
        for asg, res in PC.generic_cases([o for o in outs if o.op != 'throw'], ctx, premise=lambda c: False if tiny_cond(c) else None, enumerate_cond=lambda c: False):
            if any(r.op == 'throw' for r in res): continue
            got = [ctx.rat(x) for x in res]
            d = [ctx.radd(pj_[i], neg(pi_[i])) for i in range(3)]; e_ = [ctx.radd(pk_[i], neg(pi_[i])) for i in range(3)]
            l2 = (P.pconst(0), ONE)
            for i in range(3): l2 = ctx.radd(l2, ctx.rmul(d[i], d[i]))
            ln = ctx.rdiv(ctx.sqrt_poly(l2[0]), ctx.sqrt_poly(l2[1]))
            for j in range(3):
                if not ctx.requal(ctx.rmul(got[j], ln), d[j]): bad = 'x axis is not the unit tangent (pj - pi)/|pj - pi| (component %d)' % j; break
                if not ctx.requal(got[12 + j], pi_[j]): bad = 'origin is not pi (component %d)' % j; break
            if not bad:
                acc = (P.pconst(0), ONE)
                for j in range(3): acc = ctx.radd(acc, ctx.rmul(got[4 + j], e_[j]))
                if not ctx.rzero(acc): bad = 'y axis is not perpendicular to pk - pi'
            break
    except (P.NotPoly, PC.Undecided) as e:
        rep.ob(oid + '#axes', 'R09.frame', UNDECIDED, str(e)[:300], where); return
    rep.ob(oid + '#axes', 'R09.frame', VIOLATED if bad else HOLDS, bad or 'x axis = unit tangent, y axis normal to the plane of the three points, origin pi', where)

def check_range(rep, oid, S, t, where):
    """R09.range: a frame builder is scale-invariant in its direction arguments, but its intermediate vectors are not: a
    vector whose components are homogeneous of degree k in the arguments has a squared length of degree 2k, which
    overflows for arguments near max^(1/2k) and flushes to zero near min^(1/2k).  Every vector whose length is taken must
    therefore be of degree <= 1 (a direction times unit vectors), the same range as Vec3::length() itself (C08)."""
    E, sz, lt = ELEM[t]
    outs = [S.out('a0', i * sz, sz, lt) for i in range(16)]
    for _ in range(12):
        pre = regular_premises(outs)
        if not pre: break
        outs = [T.resolve(o, pre) for o in outs]
    # a rescaling guarded by "magnitude finite and non-zero" is taken for the finite arguments the rule is about
    for _ in range(8):
        pre = {}
        for o in outs:
            for c in P.all_conds(o):
                if magnitude_test(c): pre[c] = True
        if not pre: break
        outs = [T.resolve(o, pre) for o in outs]
    memo = {}
    foreign = []
    def bases(n):
        r = set(); st_ = [n]; sn_ = set()
        while st_:
            y = st_.pop()
            if y.id in sn_: continue
            sn_.add(y.id); st_.extend(y.args)
            if y.op == 'in': r.add(y.attr[0])
        return r
    def degree(n):
        r = memo.get(n.id)
        if r is not None: return r
        op = n.op
        if op == 'in': r = Fraction(1)
        elif op in ('const', 'arg'): r = Fraction(0)
        elif op == 'fadd': r = max(degree(a) for a in n.args)
        elif op == 'fmul': r = sum(degree(a) for a in n.args)
        elif op == 'fdiv': r = degree(n.args[0]) - degree(n.args[1])
        elif op in ('fneg', 'absi', 'fpext', 'fptrunc'): r = degree(n.args[0])
        elif op == 'call' and n.attr == 'sqrt': r = degree(n.args[0]) / 2
        elif op == 'call' and n.attr == 'ldexp':
            # x * 2^(-e) with e the binary exponent of a quantity M of the arguments (frexp): degree(x) - degree(M),
            # provided M is a magnitude of the very argument x comes from (each direction scales on its own)
            kx = n.args[1]; sgn = 1
            if kx.op == 'sub' and kx.args[0].op == 'const' and T.const_value(kx.args[0]) == 0: kx = kx.args[1]; sgn = -1
            fe = None
            st_ = [kx]; sn_ = set()
            while st_:
                y = st_.pop()
                if y.id in sn_: continue
                sn_.add(y.id); st_.extend(y.args)
                if y.op == 'call' and y.attr == 'frexp_exp': fe = y; break
            r = degree(n.args[0])
            if fe is not None:
                bx, bm = bases(n.args[0]), bases(fe.args[0])
                if bx == bm and is_max_abs(fe.args[0]): r = r + sgn * degree(fe.args[0])
                else: foreign.append((sorted(bx), sorted(bm)))
        elif op == 'call' and 'fabs' in str(n.attr): r = degree(n.args[0])
        elif op == 'ite': r = max(degree(n.args[1]), degree(n.args[2]))
        else: r = Fraction(0)
        memo[n.id] = r
        return r
    degs = {}
    seen = set(); st = list(outs)
    while st:
        x = st.pop()
        if x.id in seen: continue
        seen.add(x.id); st.extend(x.args)
        if x.op == 'call' and x.attr == 'sqrt':
            d = degree(x.args[0])
            degs[d] = degs.get(d, 0) + 1
    # a scale-dependent quantity compared with an absolute non-zero constant (other than the tiny-length threshold of length()
    # itself): the frame would then change under a uniform scaling of the arguments, although it depends on directions only
    thr = []
    for o in outs:
        for c in P.all_conds(o):
            if c.op != 'fcmp' or c in [t_[0] for t_ in thr]: continue
            for ci, xi in ((0, 1), (1, 0)):
                k, x = c.args[ci], c.args[xi]
                if k.op != 'const' or x.op == 'const': continue
                v = T.const_value(k)
                if isinstance(v, str) or v == 0 or abs(v) < Fraction(1, 10 ** 30) or abs(v) >= FLT_MAX: continue
                d = degree(x)
                if d != 0: thr.append((c, float(v), d))
    if thr:
        c, v, d = thr[0]
        rep.ob(oid + '#range[threshold]', 'R09.range', VIOLATED, 'a quantity of homogeneity degree %s in the arguments is compared with the absolute constant %g (%s): the outcome of the test, and with it the frame, changes when all arguments are scaled by a common factor, although only their directions matter' % (d, v, T.show(c, 3)[:120]), where)
        return
    if not degs:
        rep.ob(oid + '#range', 'R09.range', UNDECIDED, 'no length computation found', where); return
    big = sorted(d for d in degs if d > 2)
    if not big:
        rep.ob(oid + '#range', 'R09.range', HOLDS, 'every vector whose length is taken is of degree <= 1 in the arguments (%d length computations)' % sum(degs.values()), where)
    for d in big:
        rep.ob(oid + '#range[degree %s]' % (d / 2), 'R09.range', VIOLATED,
               'the length of a vector of degree %s in the direction arguments is taken (%d site(s)): its squared length has degree %s, so it overflows to inf (the axis comes back as 0 or NaN) once the arguments exceed about max^(1/%s) although the result only depends on their directions%s'
               % (d / 2, degs[d], d, d, ('; a component of argument %s is rescaled by the binary exponent of argument %s, which bounds nothing' % ('/'.join(foreign[0][0]), '/'.join(foreign[0][1]))) if foreign else ''), where)

def show_bits(enum, bits):
    return ', '.join('%s=%s' % (T.show(c, 2)[:60], 'T' if b else 'F') for c, b in zip(enum, bits))
