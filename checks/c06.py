"""C06 - matrix inversion: true inverse or a clean singular outcome.

R06.adj     every non-singular leaf X of inverse()/gjInverse() satisfies X*M = I and M*X = I as
            rational-function identities (under the equalities on the leaf's own path)
R06.sing    every other leaf is the identity matrix (singular / overflow-guard exits); a Gauss-Jordan singular exit is
            taken only when the whole pivot column is zero (the pivot size, a compare/negate/select term, is
            evaluated on every signed order type of its candidates)
R06.guard   on the |det| < 1 path every slot divided by the determinant is guarded on that path by the
            STRICT overflow test |s| < |det|/min of the same slot (strictness also excludes det == 0); the |det| >= 1 path divides the same slots
R06.inplace invert()/gjInvert() leave exactly the value graph of inverse()/gjInverse()
R06.affine  the affine fast path and the general path are both exact inverses (unique), hence agree
"""
from fractions import Fraction
from engine import term as T, agg, build, vg, poly as P, polycheck as PC
from engine.agg import ELEM, TU
from engine.report import HOLDS, VIOLATED, UNDECIDED
from .common import Analysed, fn_where, joint, narrowing
from .c05 import Sym, matmul, ONE

def gen(t):
    E = ELEM[t][0]
    tu = TU('c06_' + t)
    for d in (2, 3, 4):
        M = 'Matrix%d%d<%s>' % (d, d, E)
        fns = ['inverse'] + (['gjInverse'] if d > 2 else [])
        for f in fns:
            tu.add('w_%s%d' % (f, d), '%s& o, const %s& m' % (M, M), 'o = m.%s();' % f, d=d, fn=f, kind='value')
            tu.add('w_%sB%d' % (f, d), '%s& o, const %s& m' % (M, M), 'o = m.%s(false);' % f, d=d, fn=f + '(false)', kind='value')
            ip = {'inverse': 'invert', 'gjInverse': 'gjInvert'}[f]
            tu.add('w_%s%d' % (ip, d), '%s& m' % M, 'm.%s();' % ip, d=d, fn=ip, kind='inplace', of='w_%s%d' % (f, d))
    return tu

def is_identity(leaf, d):
    return leaf.op == 'tuple' and all(a.op == 'const' and T.const_value(a) == (1 if i // d == i % d else 0) for i, a in enumerate(leaf.args))

def check_leaf(leaf, lits, d, t, max_conds=10):
    """X*M = I and M*X = I for one leaf (values may still contain pivot-selection conditionals)"""
    asg0 = dict(lits)
    ncases = 0
    seen = set()
    for asg, res in PC.live_cases(list(leaf.args), premises=None, max_conds=max_conds):
        full = dict(asg0); full.update(asg)
        ctx, contra = PC.ctx_for(full, cancel=True)
        if contra: continue
        key = (tuple(r.id for r in res), tuple(sorted((k, tuple(sorted(v.items()))) for k, v in ctx.lin.items())))
        if key in seen: continue      # another assignment of the pivot tests selects the same computation
        seen.add(key)
        ncases += 1
        sym = Sym(ctx, t)
        M = sym.mat('a1', d)
        X = [[ctx.rat(res[i * d + j]) for j in range(d)] for i in range(d)]
        for (A, B, nm) in ((X, None, 'X*M'), (None, X, 'M*X')):
            for i in range(d):
                for j in range(d):
                    acc = (P.pconst(0), ONE)
                    for k in range(d):
                        if nm == 'X*M': term = ctx.rmul(X[i][k], (M[k][j], ONE))
                        else: term = ctx.rmul((M[i][k], ONE), X[k][j])
                        acc = ctx.radd(acc, term)
                    if not ctx.requal(acc, (P.pconst(1 if i == j else 0), ONE)):
                        return '(%s)[%d][%d] = %s, expected %d%s' % (nm, i, j, P.show_rat(acc, ctx)[:240], 1 if i == j else 0,
                                                                    (' when ' + PC.show_asg(asg)[:200]) if asg else ''), ncases
    return None, ncases

def pivot_zero_only_if_all_zero(P, ncand=None):
    """P is the Gauss-Jordan pivot size: a compare/negate/select term over the candidate entries of the column.
    Its value depends only on the signed order type of the candidates, so it is evaluated on every assignment of
    the candidates to {-k..k}:  P == 0 must imply that every candidate is 0 (a zero column: the matrix is singular).
    Returns None or a counterexample description."""
    import itertools
    leaves = []; seen = set()
    def collect(x):
        if x.id in seen: return
        seen.add(x.id)
        if x.op in ('ite', 'fcmp', 'fneg', 'absi', 'not'):
            for a in x.args: collect(a)
        elif x.op == 'const': pass
        else: leaves.append(x)
    collect(P)
    if ncand is not None: ncand.append(len(leaves))
    if not leaves or len(leaves) > 4: return 'pivot size depends on %d opaque values' % len(leaves) if len(leaves) > 4 else None
    k = len(leaves)
    def ev(x, env, memo):
        r = memo.get(x.id)
        if r is not None: return r
        if x.op == 'const': r = T.const_value(x) if x.ty != 'i1' else bool(x.attr[1])
        elif x.op == 'ite': r = ev(x.args[1], env, memo) if ev(x.args[0], env, memo) else ev(x.args[2], env, memo)
        elif x.op == 'not': r = not ev(x.args[0], env, memo)
        elif x.op == 'fneg': r = -ev(x.args[0], env, memo)
        elif x.op == 'absi': r = abs(ev(x.args[0], env, memo))
        elif x.op == 'fcmp':
            a, b = ev(x.args[0], env, memo), ev(x.args[1], env, memo)
            r = {'olt': a < b, 'ole': a <= b, 'oeq': a == b, 'one': a != b}[x.attr]
        else: r = env[x.id]
        memo[x.id] = r
        return r
    for vals in itertools.product(range(-k, k + 1), repeat=k):
        env = {l.id: Fraction(v) for l, v in zip(leaves, vals)}
        if ev(P, env, {}) == 0 and any(v != 0 for v in vals):
            return 'the pivot size evaluates to 0 for column candidates %s: the matrix is reported singular although a candidate pivot is non-zero' % (list(vals),)
    return None

GUARD_NOTES = []

def guard_check(leaf, lits, d, lt):
    """R06.guard for one non-singular leaf on the |det| < 1 side"""
    d_lits = dict(lits)
    missing = []
    divided = 0
    for k, v in enumerate(leaf.args):
        if v.op == 'fneg': v = v.args[0]
        if v.op != 'fdiv': continue
        num, den = v.args
        divided += 1
        # guard:  |num| < |den| / min   (any orientation / abs idiom variant)
        ok = False
        def is_abs_of(x, y):
            if x.op != 'absi': return False
            z = x.args[0]
            if z.op == 'fneg': z = z.args[0]
            return z is y
        def is_scaled_abs_den(x):
            # |den| / C  or  |den| * (1/C): the quotient is accepted when |num/den| < 1/C.  "Singular" is a quotient that would
            # overflow, so 1/C has to lie within a small factor of the largest finite value: max/8 <= 1/C <= max
            C = None
            if x.op == 'fdiv' and is_abs_of(x.args[0], den) and x.args[1].op == 'const': C = T.const_value(x.args[1])
            elif x.op == 'fmul' and any(a.op == 'const' for a in x.args) and any(is_abs_of(a, den) for a in x.args):
                k = [a for a in x.args if a.op == 'const'][0]; kv = T.const_value(k)
                C = (1 / Fraction(kv)) if (not isinstance(kv, str) and kv != 0) else None
            if C is None or isinstance(C, str) or C <= 0: return False
            mx = Fraction(2 ** 128 - 2 ** 104) if lt == 'float' else Fraction(2 ** 1024 - 2 ** 971)
            if not (mx / 8 <= 1 / Fraction(C) <= mx):
                GUARD_NOTES.append('the overflow guard accepts a quotient only below %.3g; the largest finite value is %.3g, so well-defined inverses are reported singular (or overflowing ones accepted)' % (float(1 / Fraction(C)), float(mx)))
                return False
            return True
        for c, val in lits:
            if c.op == 'fcmp' and c.attr in ('olt', 'ole'):
                a, b = c.args
                # the test must be STRICT: |s| < |det|/min also excludes det == 0 (otherwise 0/0 on an exactly singular matrix)
                if val is True and c.attr == 'olt' and is_abs_of(a, num) and is_scaled_abs_den(b): ok = True; break     # |s| < mr
                if val is False and c.attr == 'ole' and is_abs_of(b, num) and is_scaled_abs_den(a): ok = True; break    # !(mr <= |s|)
        if not ok:
            missing.append(k)
    return divided, missing

def main(rep, ws, tier):
    types = 'f' if tier == 'quick' else 'fd'
    tus = [gen(t) for t in types]
    an = Analysed(ws, tus, rep)
    for tu, t in zip(tus, types):
        R = an[tu]; E, sz, lt = ELEM[t]
        Js = {}
        generic_ok = set()      # leaf tuples verified with no path substitution: the identity specialises to every path
        order = sorted(tu.meta.items(), key=lambda kv: (kv[1]['kind'] != 'value', kv[1]['fn'] != 'gjInverse'))
        for name, m in order:
            S = R.get(name)
            d = m['d']
            oid = 'Matrix%d%d<%s>::%s' % (d, d, E, m['fn'])
            if S is None:
                rep.ob(oid, 'R06.adj', UNDECIDED, R.err.get(name, '')); continue
            where = fn_where(S.fn)
            if any(e.kind != 'ret' for e in S.exits):
                rep.ob(oid, 'R06.sing', VIOLATED, 'the non-throwing form has exits %s' % [e.kind for e in S.exits], where); continue
            base = 'a1' if m['kind'] == 'value' else 'a0'
            try:
                J = joint(S, [('a0', i * sz, sz, lt) for i in range(d * d)])
            except (vg.Unsupported, OverflowError) as e:
                rep.ob(oid, 'R06.adj', UNDECIDED, str(e), where); continue
            Js[name] = J
            if m['kind'] == 'inplace':
                ref = Js.get(m['of'])
                if ref is None:
                    rep.ob(oid, 'R06.inplace', UNDECIDED, 'value form not analysed', where); continue
                ren = dict((agg.slot_in('a1', i, t), agg.slot_in('a0', i, t)) for i in range(d * d))
                r2 = T.subst(ref, ren)
                same = r2 is J
                if not same:
                    try: same = T.equiv(r2, J, 100000)
                    except OverflowError: same = None
                rep.ob(oid, 'R06.inplace', HOLDS if same else (UNDECIDED if same is None else VIOLATED),
                       '' if same else 'the in-place form does not leave the value graph of the value-returning form', where)
                continue
            lv = T.leaves(J, 100000)
            nsing = 0; ninv = 0; bad = None; badg = None; ncases = 0; und = None; badp = None; npiv = 0
            div_sets = {}; det_leaves = set()
            for lits, leaf in lv:
                if is_identity(leaf, d):
                    nsing += 1
                    if m['fn'].startswith('gj') and badp is None:
                        zs = [c for c, v in lits if v is True and c.op == 'fcmp' and c.attr == 'oeq' and any(a.op == 'const' and T.const_value(a) == 0 for a in c.args)]
                        if not zs: badp = 'a singular exit is not behind a pivot == 0 test'
                        else:
                            c = zs[-1]; Pv = c.args[1] if (c.args[0].op == 'const') else c.args[0]
                            npiv += 1
                            nc_ = []
                            badp = pivot_zero_only_if_all_zero(Pv, nc_)
                            # elimination step = number of pivot tests already passed on this path; at step i < d-1 the pivot is
                            # searched among all d - i entries of column i on and below the diagonal, afterwards it is the diagonal entry
                            step = sum(1 for c2, v2 in lits if v2 is False and c2.op == 'fcmp' and c2.attr == 'oeq' and any(a.op == 'const' and T.const_value(a) == 0 for a in c2.args))
                            want = d - step if step <= d - 2 else 1
                            if badp is None and nc_ and nc_[0] != want:
                                badp = 'the singular exit of elimination step %d looks at %d candidate(s) of its column; %d entries lie on and below the diagonal, so a matrix whose only non-zero candidates are in the rows left out is reported singular' % (step, nc_[0], want)
                    continue
                if leaf.op != 'tuple':
                    bad = 'unexpected leaf %s' % T.show(leaf, 2); break
                def guard_of_leaf():
                    nonlocal badg
                    divided, missing = guard_check(leaf, lits, d, lt)
                    big = any(c.op == 'fcmp' and c.attr == 'ole' and c.args[0].op == 'const' and T.const_value(c.args[0]) == 1 and v is True for c, v in lits)
                    if not big and missing and badg is None:
                        badg = 'slot(s) %s are divided by the determinant on the |det| < 1 path without the overflow guard of the same slot' % ['[%d][%d]' % (k // d, k % d) for k in missing]
                        if GUARD_NOTES: badg += ': ' + GUARD_NOTES[0]
                    key = tuple(sorted(k for k, v in enumerate(leaf.args) if (v.args[0] if v.op == 'fneg' else v).op == 'fdiv'))
                    div_sets.setdefault(tuple(c for c, v in lits if c.op == 'fcmp' and c.attr == 'oeq'), {}).setdefault(big, set()).add(key)
                if leaf.id in generic_ok:
                    ninv += 1
                    # the same value on another path, or in the bool overload: its guard is a property of the path.  A determinant
                    # path is one that has compared |det| with 1 (the Gauss-Jordan leaves reached through inverse() have not)
                    detpath = any(c.op == 'fcmp' and any(a.op == 'const' and T.const_value(a) == 1 for a in c.args) and any(a.op == 'absi' for a in c.args) for c, v in lits)
                    if m['fn'].startswith('inverse') and (leaf.id in det_leaves or detpath): guard_of_leaf()
                    continue
                try:
                    e, nc = check_leaf(leaf, lits, d, t, max_conds=12)
                except (PC.Undecided, P.NotPoly) as ex:
                    und = str(ex); continue
                ncases += nc
                if not e and not any(PC.eq_subst(c, v) for c, v in lits):
                    generic_ok.add(leaf.id)
                if e:
                    bad = e + ' on the path ' + ', '.join('%s=%s' % (T.show(c, 2)[:50], v) for c, v in lits[:8]); break
                ninv += 1
                if m['fn'].startswith('inverse'):
                    det_leaves.add(leaf.id)
                    guard_of_leaf()
            if bad:
                rep.ob(oid, 'R06.adj', VIOLATED, bad, where)
            elif und and ninv == 0:
                rep.ob(oid, 'R06.adj', UNDECIDED, und, where)
            elif ninv == 0:
                rep.ob(oid, 'R06.adj', VIOLATED, 'no leaf of the result is an inverse', where)
            else:
                rep.ob(oid, 'R06.adj', HOLDS, '%d non-singular leaves (%d cases): X*M = I and M*X = I%s' % (ninv, ncases, ('; ' + und) if und else ''), where,
                       sample='%s: %d inverse leaves, %d singular (identity) leaves' % (oid, ninv, nsing))
            rep.ob(oid + '#singular', 'R06.sing', HOLDS if nsing > 0 and not bad else VIOLATED,
                   '%d singular exits, each stores the identity' % nsing if nsing else 'no singular exit returns the identity', where, nontrivial=False)
            if m['fn'].startswith('gj'):
                rep.ob(oid + '#singular-iff', 'R06.sing', VIOLATED if badp else HOLDS, badp or '%d singular exits: the pivot size is 0 only when every candidate of the column is 0 (signed order types enumerated)' % npiv, where)
            if m['fn'].startswith('inverse'):
                incons = [k for k, v in div_sets.items() if len(v) == 2 and v[True] != v[False] and not (v[False] <= v[True] or v[True] <= v[False])]
                rep.ob(oid + '#guard', 'R06.guard', VIOLATED if (badg or incons) else HOLDS, badg or ('the two scaling branches divide different slot sets' if incons else ''), where)
        # R06.affine: follows from R06.adj on both branches (inverse is unique)
        for d in (3, 4):
            oid = 'Matrix%d%d<%s>::inverse' % (d, d, E)
            st = [o['status'] for o in rep.obs if o['id'] == oid and o['rule'] == 'R06.adj']
            if st:
                rep.ob(oid + '#affine', 'R06.affine', st[0], 'affine fast path and general path are both exact inverses on their own domains; the inverse is unique, so they agree where both apply', nontrivial=False)
    narrowing(rep, ws, [gen('d')], 'R06.prec')
    rep.floor('inverse functions', sum(1 for o in rep.obs if o['rule'] == 'R06.adj'), 5 * len(types))
    rep.assumptions += ['exact real arithmetic (D-poly)', 'a leaf\'s path equalities (x[i][n] == 0 ...) are used as substitutions for that leaf']
    rep.undecided_clauses += ['error bound in terms of cond(M) x epsilon', 'absence of inf/NaN below cond 1/eps^2', 'pivot choice quality (tmp > pivotsize) and the numeric thresholds of the overflow guard']
