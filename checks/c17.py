"""C17 - scalar, root-finding and colour utilities (decided part).

R17.ord    abs, sign, clamp, cmp, cmpt, iszero, equal on every weak ordering of their operands (D-ord)
R17.poly   lerp, ulerp (both arms), lerpfactor (inverts lerp; guarded path returns 0), equalWith*Error
R17.floor  floor/ceil/trunc over the cells {x >= 0, x < 0} x {fractional part = 0, > 0} with symbolic
           integer part: equal the mathematical functions wherever int(x) is defined (|x| < 2^31)
R17.div    divs/mods/divp/modp over sign cells with x = +-X, y = +-Y, X = Q*Y + R: truncating division,
           x = y*div + mod, and 0 <= modp < |y|
R17.next   succ*/pred* = isfinite(x) ? nextafter(x, +-inf) : x ; finitef/finited = exponent field not all ones
R17.col    Vec3 / Color4 colour overloads: same value graph on r,g,b, alpha passes through; integer element
           types are scaled by exactly numeric_limits<T>::max() in double; packed channel slices
R17.roots  degenerate leading coefficients delegate to the lower-degree solver; quadratic uses the stable q form
           solveNormalizedCubic, cell D > 0: n = 1 and the value is a root (cube-root atom W^3 = sgn*(-q/2 + sqrt D));
           cell D < 0 (p = -3 rho^2, q = -2 rho^3 cos 3phi): n = 3 and the values have the elementary symmetric functions (0, p, -q);
           double-root cell D = 0, p != 0: n = 2 and {simple root, double root}, both signs of q
           (complex callees replaced by their C99 / libstdc++ definitions on that cell)
"""
from fractions import Fraction
from engine import term as T, agg, build, vg, ordd, poly as P, polycheck as PC, bits as B
from engine.agg import ELEM, TU
from engine.report import HOLDS, VIOLATED, UNDECIDED
from .common import Analysed, fn_where, joint, explain_diff, narrowing

HDR = '#include <ImathFun.h>\n#include <ImathMath.h>\n#include <ImathRoots.h>\n#include <ImathColorAlgo.h>\nusing namespace IMATH_INTERNAL_NAMESPACE;\n'

def gen(t):
    E = ELEM[t][0]
    tu = TU('c17_' + t, header=HDR)
    a = tu.add
    a('w_abs', '%s& o, const %s& x' % (E, E), 'o = IMATH_INTERNAL_NAMESPACE::abs(x);', k='abs')
    a('w_sign', 'int& o, const %s& x' % E, 'o = IMATH_INTERNAL_NAMESPACE::sign(x);', k='sign')
    a('w_clamp', '%s& o, const %s& x, const %s& l, const %s& h' % (E, E, E, E), 'o = IMATH_INTERNAL_NAMESPACE::clamp(x, l, h);', k='clamp')
    a('w_cmp', 'int& o, const %s& x, const %s& y' % (E, E), 'o = cmp(x, y);', k='cmp')
    a('w_cmpt', 'int& o, const %s& x, const %s& y, const %s& t' % (E, E, E), 'o = cmpt(x, y, t);', k='cmpt')
    a('w_iszero', 'bool& o, const %s& x, const %s& t' % (E, E), 'o = iszero(x, t);', k='iszero')
    a('w_equal', 'bool& o, const %s& x, const %s& y, const %s& t' % (E, E, E), 'o = equal(x, y, t);', k='equal')
    # mixed operand types: the difference is formed, and its magnitude taken, in the common type of the two operands
    for ta, tb in (('int', 'double'), ('double', 'int'), ('float', 'double'), ('double', 'float'), ('int', 'float'), ('short', 'double')):
        a('w_equal_%s_%s' % (ta, tb), 'bool& o, const %s& x, const %s& y, const double& t' % (ta, tb), 'o = equal(x, y, t);', k='equalmix', ta=ta, tb=tb)
    a('w_lerp', '%s& o, const %s& x, const %s& y, const %s& t' % (E, E, E, E), 'o = IMATH_INTERNAL_NAMESPACE::lerp(x, y, t);', k='lerp')
    a('w_ulerp', '%s& o, const %s& x, const %s& y, const %s& t' % (E, E, E, E), 'o = ulerp(x, y, t);', k='ulerp')
    a('w_lerpfactor', '%s& o, const %s& m, const %s& x, const %s& y' % (E, E, E, E), 'o = lerpfactor(m, x, y);', k='lerpfactor')
    a('w_eqabs', 'bool& o, const %s& x, const %s& y, const %s& e' % (E, E, E), 'o = equalWithAbsError(x, y, e);', k='eqabs')
    a('w_eqrel', 'bool& o, const %s& x, const %s& y, const %s& e' % (E, E, E), 'o = equalWithRelError(x, y, e);', k='eqrel')
    a('w_floor', 'int& o, const %s& x' % E, 'o = IMATH_INTERNAL_NAMESPACE::floor(x);', k='floor')
    a('w_ceil', 'int& o, const %s& x' % E, 'o = IMATH_INTERNAL_NAMESPACE::ceil(x);', k='ceil')
    a('w_trunc', 'int& o, const %s& x' % E, 'o = IMATH_INTERNAL_NAMESPACE::trunc(x);', k='trunc')
    if t == 'f':
        for f in ('divs', 'mods', 'divp', 'modp'):
            a('w_' + f, 'int& o, const int& x, const int& y', 'o = %s(x, y);' % f, k=f)
        a('w_finitef', 'bool& o, const float& x', 'o = IMATH_INTERNAL_NAMESPACE::finitef(x);', k='finite', w=32, mask=0x7f800000)
        a('w_finited', 'bool& o, const double& x', 'o = IMATH_INTERNAL_NAMESPACE::finited(x);', k='finite', w=64, mask=0x7ff0000000000000)
    return tu

def bool_of(x):
    if x.op == 'ite': return T.ite(x.args[0], bool_of(x.args[1]), bool_of(x.args[2]))
    if x.op == 'const': return T.TRUE if x.attr[1] & 1 else T.FALSE
    if x.op == 'zext' and x.args[0].ty == 'i1': return x.args[0]
    raise vg.Unsupported('boolean of shape %s' % x.op)

def ord_check(rep, oid, where, term, spec, links=()):
    try:
        per, total, leaves, conds = ordd.all_envs([term], links)
    except ordd.NotOrd as e:
        rep.ob(oid, 'R17.ord', UNDECIDED, str(e), where); return
    n = 0
    for env in ordd.iter_envs(per):
        n += 1
        g = ordd.ev(term, env)
        def R(node): return ordd.rank(node, env)
        e = spec(R)
        if isinstance(e, bool): ok = g is e or g == e
        elif isinstance(e, tuple): ok = g.op == 'const' and T.signed(g) == e[1]
        else: ok = ordd.rank(g, env) == e
        if not ok:
            rep.ob(oid, 'R17.ord', VIOLATED, 'result %s on the ordering %s; the definition gives %s' % (g if isinstance(g, bool) else T.show(g, 3), sorted((env[l.id], T.show(l, 2)) for l in leaves if l.id in env), e), where); return
    rep.ob(oid, 'R17.ord', HOLDS, '%d orderings, exhaustive' % n, where, sample='%s = %s' % (oid, T.show(term, 4)[:200]))

# ---------------------------------------------------------------- floor / ceil / trunc cells

class Lin:
    """integer-valued linear form a*q + b"""
    def __init__(s, a, b): s.a, s.b = a, b
    def __neg__(s): return Lin(-s.a, -s.b)
    def __add__(s, o): return Lin(s.a + o.a, s.b + o.b)
    def __eq__(s, o): return (s.a, s.b) == (o.a, o.b)
    def __repr__(s): return '%d*q%+d' % (s.a, s.b)

def cell_int_eval(term, x, neg, frac):
    """evaluate an int-valued term on x = +-(q + f), q a symbolic non-negative integer, f = 0 or in (0,1).
    reals are ('r', sign, Lin-of-integer-part, has_frac) with value sign*(L + f)"""
    def real(n):
        if n is x: return (-1 if neg else 1, Lin(1, 0), frac)
        if n.op == 'fneg':
            s, L, f = real(n.args[0]); return (-s, L, f)
        if n.op == 'sitofp':
            v = integer(n.args[0])
            # sign folded into the linear form: value = v, no fraction
            return (1, v, False)
        if n.op in ('fpext', 'fptrunc'): return real(n.args[0])
        if n.op == 'const':
            v = T.const_value(n)
            if v == 0: return (1, Lin(0, 0), False)
        raise KeyError('real %s' % n.op)
    def integer(n):
        if n.op == 'fptosi':
            s, L, f = real(n.args[0])
            return L if s > 0 else -L            # truncation toward zero
        if n.op == 'const': return Lin(0, T.signed(n))
        if n.op == 'sub':
            return integer(n.args[0]) + (-integer(n.args[1]))
        if n.op == 'add':
            return integer(n.args[0]) + integer(n.args[1])
        if n.op == 'zext' or n.op == 'sext':
            if n.args[0].ty == 'i1':
                return (Lin(0, 1 if n.op == 'zext' else -1)) if boolean(n.args[0]) else Lin(0, 0)
            return integer(n.args[0])
        if n.op == 'ite':
            return integer(n.args[1]) if boolean(n.args[0]) else integer(n.args[2])
        if n.op == 'xor' and any(a.op == 'const' and T.signed(a) == -1 for a in n.args):
            v = integer([a for a in n.args if not (a.op == 'const' and T.signed(a) == -1)][0]); return Lin(-v.a, -v.b - 1)        # ~v = -v - 1
        raise KeyError('int %s' % n.op)
    def boolean(n):
        if n is T.TRUE: return True
        if n is T.FALSE: return False
        if n.op == 'not': return not boolean(n.args[0])
        if n.op == 'ite': return boolean(n.args[1]) if boolean(n.args[0]) else boolean(n.args[2])
        if n.op == 'fcmp':
            (s1, L1, f1), (s2, L2, f2) = real(n.args[0]), real(n.args[1])
            # compare s1*(L1+f1) with s2*(L2+f2) where q >= 0 generic (q large enough to dominate constants is NOT assumed:
            # only forms with equal q-coefficient are compared)
            def val(s, L, f): return (s * L.a, s * L.b, s * (1 if f else 0))
            a, b = val(s1, L1, f1), val(s2, L2, f2)
            if a[0] != b[0]:
                # one side is +-(q+f), the other a constant (comparison with 0): sign decides when q+f > 0
                if b == (0, 0, 0) or a == (0, 0, 0):
                    # x compared with 0: x = s*(q+f); by the cell, x >= 0 iff not neg (q + f may be 0 only when not neg)
                    xs = a if b == (0, 0, 0) else b
                    positive = xs[0] > 0 or (xs[0] == 0 and (xs[1], xs[2]) > (0, 0))
                    negative = xs[0] < 0
                    lt = negative if b == (0, 0, 0) else positive      # a < b
                    le = lt or (not positive and not negative)
                    if n.attr == 'olt': return lt
                    if n.attr == 'ole':
                        # x >= 0 cell includes x == 0; treat 0 <= x as true exactly on the non-negative cell
                        return (not negative) if a == (0, 0, 0) else (negative)
                raise KeyError('incomparable')
            d = (a[1] - b[1], a[2] - b[2])      # integer part difference, fractional difference in {-1,0,1} (times f)
            # value difference = d0 + d1*f with f in (0,1) when frac
            if d[1] == 0: diff = d[0]
            else:
                # d0 + d1*f : sign determined when d0 and d1 agree or d0 == 0
                if d[0] == 0: diff = d[1]
                elif d[0] > 0 and d[1] < 0: diff = 1 if d[0] >= 1 else None
                elif d[0] < 0 and d[1] > 0: diff = -1 if d[0] <= -1 else None
                else: diff = d[0]
                if diff is None: raise KeyError('undetermined')
            if n.attr == 'olt': return diff < 0
            if n.attr == 'ole': return diff <= 0
            if n.attr == 'oeq': return diff == 0
            if n.attr == 'one': return diff != 0
        raise KeyError('bool %s' % n.op)
    return integer(term)

def check_floor(rep, oid, S, kind, t, where):
    E, sz, lt = ELEM[t]
    o = S.out('a0', 0, 4, 'i32')
    x = T.inp('a1', 0, sz, lt)
    bad = None; n = 0
    for neg in (False, True):
        for frac in (False, True):
            try:
                v = cell_int_eval(o, x, neg, frac)
            except KeyError as e:
                rep.ob(oid, 'R17.floor', UNDECIDED, 'outside the cell evaluator: %s' % e, where); return
            # x = s*(q+f)
            if kind == 'floor': want = Lin(1, 0) if not neg else (Lin(-1, 0) if not frac else Lin(-1, -1))
            elif kind == 'ceil': want = (Lin(1, 0) if not frac else Lin(1, 1)) if not neg else Lin(-1, 0)
            else: want = Lin(1, 0) if not neg else Lin(-1, 0)
            n += 1
            if v != want:
                bad = '%s(x) for x %s with %s fractional part evaluates to %r, the mathematical value is %r (q = integer part of |x|)' % (kind, '< 0' if neg else '>= 0', 'a non-zero' if frac else 'zero', v, want); break
        if bad: break
    rep.ob(oid, 'R17.floor', VIOLATED if bad else HOLDS, bad or '%d cells (sign x fractional part), symbolic integer part' % n, where, sample='%s = %s' % (oid, T.show(o, 5)[:300]))

# ---------------------------------------------------------------- divs / mods / divp / modp

def check_div(rep, oid, S, kind, where):
    o = S.out('a0', 0, 4, 'i32')
    x, y = T.inp('a1', 0, 4, 'i32'), T.inp('a2', 0, 4, 'i32')
    # polynomial ring over symbols X, Y, Q, R ; X = Q*Y + R
    ctx = P.Ctx()
    X, Y, Q, R = (P.patom(-(i + 1)) for i in range(4))
    names = {-1: 'X', -2: 'Y', -3: 'Q', -4: 'R'}
    def show(p):
        if not p: return '0'
        return ' + '.join('%s%s' % ('' if c == 1 else ('-' if c == -1 else '%s*' % c), '*'.join(names[k] + ('^%d' % e if e > 1 else '') for k, e in m) or '1') for m, c in sorted(p.items())).replace('-1', '-1')
    bad = None; ncell = 0; undecided = None
    for sx in (1, -1):
        for sy in (1, -1):
            for rcell in ('top', 'mid', 'zero'):
                # remainder cells: R = 0 ; 1 <= R <= Y-2 ; R = Y-1 >= 1
                rzero = rcell == 'zero'
                xv = P.pscale(X, sx); yv = P.pscale(Y, sy)
                Rv = {} if rzero else (P.psub(Y, P.pconst(1)) if rcell == 'top' else R)
                subX = P.padd(P.pmul(Q, Y), Rv)          # X = Q*Y + R
                def norm(p):
                    # substitute X
                    out = {}
                    for m, c in p.items():
                        term = P.pconst(c)
                        for k, e in m:
                            base = subX if k == -1 else (Rv if k == -4 else P.patom(k))
                            term = P.pmul(term, P.ppow(base, e))
                        out = P.padd(out, term)
                    return out
                def ev(n):
                    if n is x: return xv
                    if n is y: return yv
                    if n.op == 'const': return P.pconst(T.signed(n))
                    if n.op == 'sub': return P.psub(ev(n.args[0]), ev(n.args[1]))
                    if n.op == 'add': return P.padd(ev(n.args[0]), ev(n.args[1]))
                    if n.op == 'mul': return P.pmul(ev(n.args[0]), ev(n.args[1]))
                    if n.op == 'xor' and any(a.op == 'const' and T.signed(a) == -1 for a in n.args):
                        other = [a for a in n.args if not (a.op == 'const' and T.signed(a) == -1)][0]
                        return P.psub(P.pneg(ev(other)), P.pconst(1))
                    if n.op == 'call' and n.attr == 'abs':
                        v = norm(ev(n.args[0]))
                        if v == Y or v == P.pneg(Y): return Y
                        if v == norm(X) or v == P.pneg(norm(X)): return X
                        raise KeyError('abs of %s' % show(v))
                    if n.op == 'ite':
                        return ev(n.args[1]) if cond(n.args[0]) else ev(n.args[2])
                    if n.op in ('sdiv', 'srem'):
                        a, b = norm(ev(n.args[0])), norm(ev(n.args[1]))
                        # divisor must be +-Y
                        if b == Y: sb = 1
                        elif b == P.pneg(Y): sb = -1
                        else: raise KeyError('divisor %s' % show(b))
                        # numerator = s * (alpha*Y + rho) with rho in {R, R-1, Y-1, 0, -1...}: find alpha by exact division of (a - rho)
                        for sa in (1, -1):
                            an = P.pscale(a, sa)
                            cands = [({}, True), (P.psub(Y, P.pconst(1)), True)]
                            if rcell == 'mid': cands = [(R, True), (P.psub(R, P.pconst(1)), True), (P.padd(R, P.pconst(1)), True)] + cands
                            if rcell == 'top': cands = cands + [(P.psub(Y, P.pconst(2)), True)]      # Y >= 2 in this cell
                            for rho, lo_ok in cands:
                                if not lo_ok: continue
                                rest = P.psub(an, rho)
                                alpha = P.pdivexact(rest, Y) if rest else {}
                                if alpha is None: continue
                                # alpha must be a non-negative combination (Q, Q+1, 0, 1 ...) - sign known by construction
                                if any(c < 0 for c in alpha.values()): continue
                                if n.op == 'sdiv':
                                    return P.pscale(alpha, sa * sb)
                                return P.pscale(rho, sa)
                        raise KeyError('numerator %s is not of the form +-(k*Y + r), 0 <= r < Y' % show(a))
                    raise KeyError('int %s' % n.op)
                def cond(c):
                    if c is T.TRUE: return True
                    if c is T.FALSE: return False
                    if c.op == 'not': return not cond(c.args[0])
                    if c.op == 'icmp':
                        a, b = c.args
                        # sign tests on x / y
                        def sgn(n):
                            if n is x: return sx
                            if n is y: return sy
                            if n.op == 'const': return (T.signed(n) > 0) - (T.signed(n) < 0)
                            return None
                        sa, sb2 = sgn(a), sgn(b)
                        if sa is not None and sb2 is not None and (a.op == 'const' or b.op == 'const'):
                            k = T.signed(b) if b.op == 'const' else T.signed(a)
                            # x (sign sx, magnitude >= 0, for sx = -1 magnitude >= 1) compared with constant k in {0, -1}
                            var_first = b.op == 'const'
                            s = sa if var_first else sb2
                            if c.attr == 'slt':
                                if var_first: return s < 0 if k == 0 else (s < 0 and k == 0)
                                else: return (s > 0) if k == -1 else (s > 0 and False)
                    raise KeyError('condition %s' % T.show(c, 3))
                try:
                    v = norm(ev(o))
                except KeyError as e:
                    undecided = 'cell (x %s 0, y %s 0, remainder %s): %s' % ('>=' if sx > 0 else '<', '>' if sy > 0 else '<', rcell, e)
                    continue
                ncell += 1
                xs, ys = norm(xv), norm(yv)
                if kind == 'divs': want = P.pscale(Q, sx * sy)
                elif kind == 'mods': want = P.pscale(Rv, sx)
                elif kind == 'divp':
                    # floor-type quotient with non-negative remainder: x = y*d + m, 0 <= m < |y|
                    if sx > 0: want = P.pscale(Q, sy)
                    else: want = P.pscale(P.padd(Q, {} if rzero else P.pconst(1)), -sy)
                else:
                    want = Rv if sx > 0 else ({} if rzero else norm(P.psub(Y, R)))
                want = norm(want)
                if v != want:
                    bad = 'for x %s 0, y %s 0, remainder %s: %s evaluates to %s, the definition gives %s (X=|x|, Y=|y|, X = Q*Y + R)' % ('>=' if sx > 0 else '<', '>' if sy > 0 else '<', {'zero': '= 0', 'mid': 'in [1, |y|-2]', 'top': '= |y|-1'}[rcell], kind, show(v), show(want)); break
            if bad: break
        if bad: break
    det = {'divs': 'sign(x)sign(y)*floor(|x|/|y|): truncating division', 'mods': 'sign(x)*(|x| mod |y|): x = y*divs + mods',
           'divp': 'x = y*divp + modp with the quotient rounded so that the remainder is non-negative', 'modp': 'R or |y| - R: 0 <= modp < |y|'}[kind]
    if not bad and undecided:
        rep.ob(oid, 'R17.div', UNDECIDED, undecided, where); return
    rep.ob(oid, 'R17.div', VIOLATED if bad else HOLDS, bad or '%d sign/remainder cells: %s' % (ncell, det), where, sample='%s = %s' % (oid, T.show(o, 5)[:300]))

def main(rep, ws, tier):
    types = 'f' if tier == 'quick' else 'fd'
    tus = [gen(t) for t in types]
    an = Analysed(ws, tus, rep)
    for tu, t in zip(tus, types):
        R = an[tu]; E, sz, lt = ELEM[t]
        X = lambda b: T.inp(b, 0, sz, lt)
        for name, m in tu.meta.items():
            k = m['k']; oid = '%s<%s>' % (name[2:], E) if k not in ('divs', 'mods', 'divp', 'modp', 'finite') else name[2:]
            S = R.get(name)
            if S is None:
                rep.ob(oid, 'R17.ord', UNDECIDED, R.err.get(name, '')); continue
            where = fn_where(S.fn)
            try:
                if k == 'abs':
                    o = S.out('a0', 0, sz, lt); x = X('a1')
                    ok = o.op == 'absi' and o.args[0] is x
                    rep.ob(oid, 'R17.ord', HOLDS if ok else VIOLATED, '(x > 0) ? x : -x' if ok else 'abs is %s' % T.show(o, 3), where)
                elif k == 'sign':
                    o = S.out('a0', 0, 4, 'i32'); x = X('a1'); z = T.const_fp(lt, 0)
                    ord_check(rep, oid, where, o, lambda Rk: ('i', 1 if Rk(x) > Rk(z) else (-1 if Rk(x) < Rk(z) else 0)))
                elif k == 'clamp':
                    o = S.out('a0', 0, sz, lt); x, l, h = X('a1'), X('a2'), X('a3')
                    ord_check(rep, oid, where, o, lambda Rk: Rk(l) if Rk(x) < Rk(l) else (Rk(h) if Rk(x) > Rk(h) else Rk(x)), links=[(x, l), (x, h)])
                elif k in ('cmp', 'cmpt'):
                    o = S.out('a0', 0, 4, 'i32'); x, y = X('a1'), X('a2')
                    d = T.binop('fsub', x, y, lt); z = T.const_fp(lt, 0)
                    leaves, conds = ordd.collect([o])
                    ar = [l for l in leaves if l.op in ordd.ARITH]
                    if not all(l is d or (l.op == 'absi' and l.args[0] is d) for l in ar):
                        rep.ob(oid, 'R17.ord', VIOLATED, 'compares %s, expected the difference a - b' % [T.show(l, 3) for l in ar], where); continue
                    # |d| and d are related: evaluate with d as the variable and |d| derived
                    def spec_eval(dsign, within):
                        return 0 if (k == 'cmpt' and within) else dsign
                    bad = None
                    absd = T.mk('absi', 'pos_olt', (d,), lt)
                    tt = X('a3') if k == 'cmpt' else None
                    for dsign in (-1, 0, 1):
                        for within in ((True, False) if k == 'cmpt' else (False,)):
                            if k == 'cmpt' and dsign == 0 and not within and False: continue
                            env = {d.id: dsign, z.id: 0}
                            for l in leaves:
                                if l.op == 'absi': env[l.id] = abs(dsign)
                            if tt is not None:
                                env[tt.id] = abs(dsign) if within else abs(dsign) - 1
                                if not within and dsign == 0: continue     # |d| = 0 <= t false means t < 0: allowed, result cmp = 0
                            g = ordd.ev(o, env)
                            want = spec_eval(dsign, within)
                            if not (g.op == 'const' and T.signed(g) == want):
                                bad = 'for sign(a-b) = %d%s the result is %s, expected %d' % (dsign, (', |a-b| <= t' if within else ', |a-b| > t') if k == 'cmpt' else '', T.show(g, 2), want); break
                        if bad: break
                    rep.ob(oid, 'R17.ord', VIOLATED if bad else HOLDS, bad or 'sign of a - b%s' % (', 0 within tolerance' if k == 'cmpt' else ''), where)
                elif k in ('iszero', 'equal', 'eqabs'):
                    o = bool_of(S.out('a0', 0, 1, 'i8'))
                    if k == 'iszero': v = X('a1'); tol = X('a2')
                    else: v = T.binop('fsub', X('a1'), X('a2'), lt); tol = X('a3')
                    # result must be  |v| <= tol  (eqabs: ((x > y) ? x - y : y - x) <= e)
                    ok = False
                    if o.op == 'fcmp' and o.attr == 'ole' and o.args[1] is tol:
                        l = o.args[0]
                        if l.op == 'absi' and (l.args[0] is v or l.args[0] is T.fneg(v)): ok = True
                        if l.op == 'ite':
                            # (x > y) ? x - y : y - x
                            c, a_, b_ = l.args
                            if {a_.id, b_.id} == {v.id, T.fneg(v).id} or {a_.id, b_.id} == {v.id, T.binop('fsub', X('a2'), X('a1'), lt).id}: ok = True
                    rep.ob(oid, 'R17.poly' if k == 'eqabs' else 'R17.ord', HOLDS if ok else VIOLATED, '|%s| <= tolerance' % ('a' if k == 'iszero' else 'a - b') if ok else 'predicate is %s' % T.show(o, 4)[:200], where)
                elif k in ('equalmix', 'iszeromix'):
                    if t != types[0]: continue              # element-type independent: once
                    oid = name[2:]
                    o = bool_of(S.out('a0', 0, 1, 'i8'))
                    TY = {'int': ('i32', 4), 'short': ('i16', 2), 'float': ('float', 4), 'double': ('double', 8)}
                    RANK = ['short', 'int', 'float', 'double']
                    def operand(base, ty, common):
                        lt_, sz_ = TY[ty]
                        x = T.inp(base, 0, sz_, lt_)
                        if ty == 'short' and common == 'int': x = T.cast('sext', x, 'i16', 'i32'); lt_ = 'i32'; ty = 'int'
                        if ty == common: return x
                        return T.cast('sitofp' if lt_.startswith('i') else 'fpext', x, lt_, TY[common][0])
                    tol = T.inp('a3' if k == 'equalmix' else 'a2', 0, 8, 'double')
                    if k == 'equalmix':
                        common = max(m['ta'], m['tb'], key=RANK.index)
                        if common == 'short': common = 'int'
                        clt = TY[common][0]
                        va, vb = operand('a1', m['ta'], common), operand('a2', m['tb'], common)
                        v = T.binop('fsub', va, vb, clt); vr = T.binop('fsub', vb, va, clt)
                    else:
                        common = m['ta']; clt = TY[common][0]
                        v = operand('a1', m['ta'], common); vr = None
                    ok = False; l = None
                    if o.op == 'fcmp' and o.attr == 'ole' and o.args[1] is tol:
                        l = o.args[0]
                        # the magnitude, widened to the tolerance's type after it is taken
                        while l.op in ('fpext', 'sitofp'): l = l.args[0]
                        if l.op == 'absi' and (l.args[0] is v or l.args[0] is T.fneg(v) or l.args[0] is vr) and l.ty == clt: ok = True
                    rep.ob(oid, 'R17.ord', HOLDS if ok else VIOLATED, '|%s| <= tolerance, magnitude taken in %s' % ('a' if vr is None else 'a - b', common) if ok else
                           'predicate is %s; expected |%s| <= t with the difference and its magnitude in the operands\' common type %s' % (T.show(o, 5)[:200], T.show(v, 3), common), where)
                elif k == 'eqrel':
                    o = bool_of(S.out('a0', 0, 1, 'i8'))
                    x, y, e = X('a1'), X('a2'), X('a3')
                    ok = o.op == 'fcmp' and o.attr == 'ole' and o.args[1].op == 'fmul' and any(a is e for a in o.args[1].args) and any(a.op == 'absi' and a.args[0] is x for a in o.args[1].args)
                    rep.ob(oid, 'R17.poly', HOLDS if ok else VIOLATED, '|a - b| <= e * |a|' if ok else 'predicate is %s' % T.show(o, 4)[:200], where)
                elif k in ('lerp', 'ulerp'):
                    o = S.out('a0', 0, sz, lt); x, y, tt = X('a1'), X('a2'), X('a3')
                    bad = None; n = 0
                    for asg, (res,) in PC.live_cases([o]):
                        ctx, contra = PC.ctx_for(asg)
                        n += 1
                        A, Bb, Tt = (P.patom(ctx.key(v)) for v in (x, y, tt))
                        want = P.padd(P.pmul(A, P.psub(P.pconst(1), Tt)), P.pmul(Bb, Tt))
                        if not ctx.requal(ctx.rat(res), (want, P.pconst(1))):
                            bad = 'arm %s computes %s, expected a*(1-t) + b*t' % (PC.show_asg(asg), P.show_rat(ctx.rat(res), ctx)); break
                    if not bad and k == 'ulerp':
                        # ... and what makes it usable for unsigned T: on each arm the difference that is formed is the non-negative
                        # one under that arm's condition (a - b where a > b, b - a otherwise)
                        def diffs(z):
                            out_ = []; seen_ = set(); st_ = [z]
                            while st_:
                                y_ = st_.pop()
                                if y_.id in seen_: continue
                                seen_.add(y_.id); st_.extend(y_.args)
                                if y_.op == 'fadd' and len(y_.args) == 2:
                                    for p_, q_ in ((0, 1), (1, 0)):
                                        if y_.args[q_].op == 'fneg' and {y_.args[p_], y_.args[q_].args[0]} == {x, y}: out_.append((y_.args[p_], y_.args[q_].args[0]))
                                if y_.op == 'sub' and set(y_.args) == {x, y}: out_.append((y_.args[0], y_.args[1]))
                            return out_
                        nd = 0
                        for asg, (res,) in PC.live_cases([o]):
                            for big_, small_ in diffs(res):
                                nd += 1
                                okd = False
                                for c, v in asg.items():
                                    if c.op in ('fcmp', 'icmp') and set(c.args) == {x, y}:
                                        lt_first = c.attr in ('olt', 'ole', 'slt', 'sle', 'ult', 'ule')      # args[0] < args[1] when true
                                        strict = c.attr in ('olt', 'ogt', 'slt', 'sgt', 'ult', 'ugt')
                                        lo, hi = (c.args[0], c.args[1]) if lt_first else (c.args[1], c.args[0])
                                        if not v: lo, hi = hi, lo            # negation: the other one is at least as large
                                        if hi is big_ and lo is small_: okd = True
                                if not okd:
                                    bad = 'on the arm %s the difference %s - %s is formed, which is negative there: for unsigned T it wraps around (ulerp exists to avoid exactly this)' % (PC.show_asg(asg), T.show(big_, 2), T.show(small_, 2)); break
                            if bad: break
                        if not bad and nd == 0: bad = 'no difference of the end points found on the arms'
                    if not bad and k == 'lerp':
                        # ... in the convex *form* of its definition: each end point enters through one product with a weight that
                        # does not mention the end points; a + (b-a)*t is the same polynomial but cancels for |a| >> |b| at t = 1,
                        # overflows for finite end points of opposite sign and wraps for unsigned T
                        def mentions(z, leaves_):
                            seen_ = set(); st_ = [z]
                            while st_:
                                y_ = st_.pop()
                                if y_.id in seen_: continue
                                seen_.add(y_.id)
                                if any(y_ is l for l in leaves_): return True
                                st_.extend(y_.args)
                            return False
                        top = o
                        while top.op in ('fptrunc', 'fpext', 'sitofp', 'fptosi', 'uitofp', 'fptoui') and top.args: top = top.args[0]
                        terms = list(top.args) if top.op == 'fadd' else []
                        used = []
                        for tm in terms:
                            if tm.op == 'fmul' and len(tm.args) == 2:
                                for e_, w_ in ((tm.args[0], tm.args[1]), (tm.args[1], tm.args[0])):
                                    while e_.op in ('fpext', 'sitofp', 'uitofp') and e_.args: e_ = e_.args[0]
                                    if (e_ is x or e_ is y) and not mentions(w_, (x, y)): used.append(e_)
                        if len(terms) != 2 or sorted(u.id for u in used) != sorted((x.id, y.id)):
                            bad = 'the result is polynomially a*(1-t) + b*t but is not computed as the sum of the two end point * weight products of the definition (%s): lerp(a, b, 1) is then b only up to the cancellation in a + (b - a)' % T.show(top, 4)[:140]
                    rep.ob(oid, 'R17.poly', VIOLATED if bad else HOLDS, bad or '%d arm(s) equal a*(1-t) + b*t%s' % (n, ' in the convex form of the definition' if k == 'lerp' else ''), where)
                elif k == 'lerpfactor':
                    o = S.out('a0', 0, sz, lt); mm, x, y = X('a1'), X('a2'), X('a3')
                    lv = T.leaves(o, 64)
                    zero = [l for _, l in lv if l.op == 'const' and T.const_value(l) == 0]
                    quo = [l for _, l in lv if l.op == 'fdiv']
                    bad = None
                    if len(set(q.id for q in quo)) != 1 or not zero or len(zero) + len(quo) != len(lv):
                        bad = 'expected exits n/d and 0, found %s' % [T.show(l, 3) for _, l in lv]
                    else:
                        ctx = P.Ctx()
                        r = ctx.rat(quo[0])
                        M_, A, Bb = (P.patom(ctx.key(v)) for v in (mm, x, y))
                        if not ctx.requal(r, (P.psub(M_, A), P.psub(Bb, A))):
                            bad = 'quotient is %s, expected (m - a)/(b - a)' % P.show_rat(r, ctx)
                        else:
                            # lerp(a, b, f) = m
                            back = ctx.radd((P.pmul(A, P.psub(P.psub(Bb, A), P.psub(M_, A))), P.psub(Bb, A)), ctx.rmul((Bb, P.pconst(1)), r))
                            if not ctx.requal(back, (M_, P.pconst(1))):
                                bad = 'lerp(a, b, lerpfactor(m, a, b)) = %s, expected m' % P.show_rat(back, ctx)
                    if not bad:
                        # the quotient is formed only where it cannot overflow: |d| > 1 or |n| < max*|d| (magnitudes on both sides)
                        q = quo[0]; nn, dd = q.args
                        def is_abs(x, y): return x.op in ('absi', 'call') and x.args and (x.args[0] is y or (x.args[0].op == 'fneg' and x.args[0].args[0] is y))
                        for lits, leaf in lv:
                            if leaf is not q: continue
                            ok = False
                            for c, v in lits:
                                if c.op != 'fcmp' or c.attr not in ('olt', 'ole'): continue
                                l_, r_ = c.args
                                if v is True and c.attr == 'olt' and l_.op == 'const' and T.const_value(l_) == 1 and is_abs(r_, dd): ok = True          # 1 < |d|
                                if v is False and c.attr == 'ole' and r_.op == 'const' and T.const_value(r_) == 1 and is_abs(l_, dd): ok = True       # !(|d| <= 1)
                                if v is True and c.attr == 'olt' and is_abs(l_, nn) and r_.op == 'fmul' and any(is_abs(z, dd) for z in r_.args) and any(z.op == 'const' for z in r_.args): ok = True
                            if not ok:
                                bad = 'the quotient n/d is formed on a path guarded only by %s: neither |d| > 1 nor |n| < max*|d| (with magnitudes on both sides) holds there, so it can overflow instead of returning 0' % ', '.join('%s=%s' % (T.show(c, 3)[:60], v) for c, v in lits)
                    rep.ob(oid, 'R17.poly', VIOLATED if bad else HOLDS, bad or 'n/d = (m-a)/(b-a) inverts lerp, formed only where |d| > 1 or |n| < max*|d|; the guarded exit returns 0', where)
                elif k in ('floor', 'ceil', 'trunc'):
                    check_floor(rep, oid, S, k, t, where)
                elif k in ('divs', 'mods', 'divp', 'modp'):
                    check_div(rep, oid, S, k, where)
                elif k == 'finite':
                    o = bool_of(S.out('a0', 0, 1, 'i8'))
                    w = m['w']; mask = m['mask']
                    c = o.args[0] if o.op == 'not' else o
                    ok = False
                    if c.op == 'icmp' and c.attr in ('eq', 'ult'):
                        av = [a for a in c.args if a.op == 'and']
                        cs = [a for a in c.args if a.op == 'const']
                        if av and cs and any(z.op == 'const' and z.attr[1] == mask for z in av[0].args) and any(z.op == 'bitcast' or (z.op == 'in' and z.attr[0] == 'a1') for z in av[0].args):
                            if c.attr == 'eq' and cs[0].attr[1] == mask and o.op == 'not': ok = True
                            if c.attr == 'ult' and cs[0].attr[1] == mask and o.op != 'not': ok = True
                    rep.ob(oid, 'R17.next', HOLDS if ok else VIOLATED, 'exponent field (mask %#x) not all ones' % mask if ok else 'predicate is %s' % T.show(o, 4)[:200], where)
            except (vg.Unsupported, ordd.NotOrd, P.NotPoly, PC.Undecided) as e:
                rep.ob(oid, 'R17.ord', UNDECIDED, str(e), where)
    check_next(rep, ws)
    check_colour(rep, ws, tier)
    check_roots(rep, ws)
    check_cubic_double_root(rep, ws)
    check_cubic_generic(rep, ws)
    narrowing(rep, ws, [gen('d')], 'R17.prec', floor=3)
    rep.floor('utility obligations', len(rep.obs), 30)
    rep.assumptions += ['solveNormalizedCubic cells: csqrt / clog / pow / exp / cos / sin / __divdc3 / __muldc3 replaced by their C99 Annex G / libstdc++ definitions on the cell; the double constants nearest 1/3 and sqrt(3) read as 1/3 and sqrt(3)', 'NaN-free operands for the order rules', 'exact real arithmetic for lerp identities', 'no intermediate negation overflows in divs/mods/divp/modp (the property\'s proviso)', '|x| < 2^31 for floor/ceil/trunc (int(x) defined)']
    rep.undecided_clauses += ['accuracy of the root solvers', 'rgb<->hsv round trip (run-time arithmetic)']

def check_next(rep, ws):
    bc = ws.compile_file('c17_fun', build.REPO + '/src/Imath/ImathFun.cpp')
    mod = ws.irx(bc, prefixes=('_ZN9Imath',))
    I = vg.Interp(mod)
    for nm, up, ty in (('succf', True, 'float'), ('predf', False, 'float'), ('succd', True, 'double'), ('predd', False, 'double')):
        f = [n for n in I.funcs if nm in n]
        where = 'src/Imath/ImathFun.cpp (%s)' % nm
        if not f:
            rep.ob(nm, 'R17.next', UNDECIDED, 'function not found', where); continue
        S = I.run(f[0]); r = S.ret(); x = T.arg(0, ty)
        bad = None
        if r.op != 'ite':
            bad = 'result is %s' % T.show(r, 3)
        else:
            c, a, b = r.args
            # either ite(finite, next, x) or ite(nonfinite, x, next)
            callarm, same = (a, b) if a.op == 'call' else (b, a)
            finite_when = (a.op == 'call')
            if not (callarm.op == 'call' and 'nextafter' in str(callarm.attr) and callarm.args[0] is x and same is x):
                bad = 'result is %s, expected isfinite(x) ? nextafter(x, +-inf) : x' % T.show(r, 4)[:200]
            else:
                tgt = callarm.args[1]
                if not (tgt.op == 'const' and T.const_value(tgt) == ('inf' if up else '-inf')):
                    bad = 'steps towards %s, expected %sinfinity' % (T.show(tgt), '+' if up else '-')
                # condition: |x| compared with inf
                ok = c.op == 'fcmp' and any(z.op == 'call' and z.attr == 'fabs' and z.args[0] is x or (z.op == 'absi' and z.args[0] is x) for z in c.args) and any(z.op == 'const' and T.const_value(z) == 'inf' for z in c.args)
                if ok:
                    # one(|x|, inf) true <=> finite ; oeq(|x|, inf) true <=> infinite (NaN: neither -> must go to the unchanged arm)
                    if c.attr == 'one': ok = finite_when
                    elif c.attr == 'olt': ok = finite_when
                    elif c.attr == 'oeq': ok = False   # NaN would take the nextafter arm
                    else: ok = False
                if not ok and not bad:
                    bad = 'finiteness test is %s (true arm is %s)' % (T.show(c, 3), 'nextafter' if finite_when else 'x')
        rep.ob(nm, 'R17.next', VIOLATED if bad else HOLDS, bad or 'isfinite(x) ? nextafter(x, %sinf) : x (infinities and NaN unchanged)' % ('+' if up else '-'), where, sample='%s = %s' % (nm, T.show(r, 4)))

def check_colour(rep, ws, tier):
    # (1) the two double-precision implementations in ImathColorAlgo.cpp agree on r,g,b and pass alpha through
    bc = ws.compile_file('c17_col', build.REPO + '/src/Imath/ImathColorAlgo.cpp')
    mod = ws.irx(bc, prefixes=('_ZN9Imath',))
    I = vg.Interp(mod)
    where = 'src/Imath/ImathColorAlgo.cpp'
    for fn_ in ('hsv2rgb_d', 'rgb2hsv_d'):
        fv = [n for n in I.funcs if fn_ in n and 'Vec3' in n]; fc = [n for n in I.funcs if fn_ in n and 'Color4' in n]
        oid = fn_ + ': Vec3 == Color4'
        if not fv or not fc:
            rep.ob(oid, 'R17.col', UNDECIDED, 'functions not found (%s)' % sorted(I.funcs)[:6], where); continue
        try:
            SV, SC = I.run(fv[0]), I.run(fc[0])
            # sret: result in a0, argument a1
            JV = joint(SV, [('a0', 8 * i, 8, 'double') for i in range(3)], hoisted=False)
            JC = joint(SC, [('a0', 8 * i, 8, 'double') for i in range(3)], hoisted=False)
            same = JV is JC
            if not same:
                try: same = T.equiv(JV, JC, 200000)
                except OverflowError: same = None
            rep.ob(oid, 'R17.col', HOLDS if same else (UNDECIDED if same is None else VIOLATED), 'identical value graphs on the three colour channels' if same else explain_diff(JV, JC), where)
            al = SC.out('a0', 24, 8, 'double')
            oka = al is T.inp('a1', 24, 8, 'double')
            rep.ob(fn_ + ': alpha', 'R17.col', HOLDS if oka else VIOLATED, 'alpha passes through' if oka else 'alpha becomes %s' % T.show(al, 3), where, nontrivial=False)
        except vg.Unsupported as e:
            rep.ob(oid, 'R17.col', UNDECIDED, str(e), where)
    # (2) templated wrappers: scaling constants
    tu = TU('c17_colt', header=HDR + '#include <ImathColor.h>\n#include <ImathVec.h>\ntypedef unsigned char verif_uchar;\n')
    types = [('int', 'i32', 4, 2147483647), ('short', 'i16', 2, 32767), ('verif_uchar', 'i8', 1, 255), ('float', 'float', 4, None)]
    for E, lt, sz, mx in types:
        for fn_ in ('hsv2rgb', 'rgb2hsv'):
            tu.add('w_%s_V3_%s' % (fn_, lt), 'Vec3<%s>& o, const Vec3<%s>& c' % (E, E), 'o = %s(c);' % fn_, E=E, lt=lt, sz=sz, mx=mx, n=3, fn=fn_, cls='Vec3')
            tu.add('w_%s_C4_%s' % (fn_, lt), 'Color4<%s>& o, const Color4<%s>& c' % (E, E), 'o = %s(c);' % fn_, E=E, lt=lt, sz=sz, mx=mx, n=4, fn=fn_, cls='Color4')
    tu.add('w_packed2rgb_V3', 'Vec3<float>& o, const unsigned int& p', 'packed2rgb(p, o);', pk='V3')
    tu.add('w_packed2rgb_C4', 'Color4<float>& o, const unsigned int& p', 'packed2rgb(p, o);', pk='C4')
    tu.add('w_packed2rgb_V3c', 'Vec3<verif_uchar>& o, const unsigned int& p', 'packed2rgb(p, o);', pk='V3', pkt=('i8', 1))
    tu.add('w_packed2rgb_C4c', 'Color4<verif_uchar>& o, const unsigned int& p', 'packed2rgb(p, o);', pk='C4', pkt=('i8', 1))
    tu.add('w_rgb2packed_V3', 'unsigned int& o, const Vec3<float>& c', 'o = rgb2packed(c);', rp='V3')
    tu.add('w_rgb2packed_C4', 'unsigned int& o, const Color4<float>& c', 'o = rgb2packed(c);', rp='C4')
    mod2 = ws.module(tu.name, tu.source(), opaque=('hsv2rgb_d', 'rgb2hsv_d'))
    I2 = vg.Interp(mod2)
    whereh = 'src/Imath/ImathColorAlgo.h'
    for name, m in tu.meta.items():
        if 'rp' in m:
            # rgb2packed: channel k of a float colour lands in bits [8k+7:8k] (alpha: the constant 0xFF for a 3-channel colour), and
            # rgb2packed(packed2rgb(p)) gives every 8-bit channel back - folded bit-exactly (binary32) for all 256 values of each
            # channel, the other channels all-zero and all-one
            from .c07 import _ev3
            n = 3 if m['rp'] == 'V3' else 4
            try:
                S = I2.run(name); Sp = I2.run('w_packed2rgb_' + m['rp'])
                out = S.out('a0', 0, 4, 'i32')
                cin = [T.inp('a1', 4 * i, 4, 'float') for i in range(n)]
                word = T.inp('a1', 0, 4, 'i32')
                chans = [Sp.out('a0', 4 * i, 4, 'float') for i in range(n)]
                bad = None; nev = 0
                alpha = 0xFF000000 if n == 3 else 0
                for k in range(n):
                    env = {'ieee': True}
                    for i in range(n): env[cin[i].id] = 1.0 if i == k else 0.0
                    got = _ev3(out, env, {})
                    want = (0xFF << (8 * k)) | alpha
                    if got != want: bad = 'a colour whose only non-zero channel is channel %d (= 1) packs to %s, expected 0x%08x' % (k, ('0x%08x' % got) if isinstance(got, int) else got, want); break
                for k in range(n if not bad else 0):
                    for fill in (0x00000000, 0xFFFFFFFF):
                        for cv in range(256):
                            p = (fill & ~(0xFF << (8 * k)) & 0xFFFFFFFF) | (cv << (8 * k))
                            vals = [_ev3(ch, {'ieee': True, word.id: p}, {}) for ch in chans]
                            if any(v is None for v in vals): raise vg.Unsupported('packed2rgb does not fold at a constant word')
                            env = {'ieee': True}
                            for i in range(n): env[cin[i].id] = vals[i]
                            back = _ev3(out, env, {}); nev += 1
                            want = p if n == 4 else ((p & 0xFFFFFF) | 0xFF000000)
                            if back != want:
                                bad = 'rgb2packed(packed2rgb(0x%08x)) = %s: channel %d with value %d does not survive the round trip' % (p, ('0x%08x' % back) if isinstance(back, int) else back, k, cv); break
                        if bad: break
                    if bad: break
                rep.ob('rgb2packed<%s>' % m['rp'], 'R17.col', VIOLATED if bad else HOLDS, bad or 'channel k -> bits [8k+7:8k]; round trip through packed2rgb exact for all 256 values of every channel (%d words folded in binary32)' % nev, whereh)
            except (vg.Unsupported, KeyError) as e:
                rep.ob('rgb2packed<%s>' % m['rp'], 'R17.col', UNDECIDED, repr(e)[:300], whereh)
            continue
        if 'pk' in m:
            S = I2.run(name)
            n = 3 if m['pk'] == 'V3' else 4
            word = T.inp('a1', 0, 4, 'i32')
            bad = None
            plt, psz = m.get('pkt', ('float', 4))
            for i in range(n):
                o = S.out('a0', psz * i, psz, plt)
                src = None
                if plt != 'float':
                    try:
                        av = B.Evaluator(word, 32).ev(o)
                        if [b for b in av.bits if b != 0] != [('in', 8 * i + j) for j in range(8)]:
                            bad = 'channel %d reads bits %r, expected [%d:%d]' % (i, av, 8 * i + 7, 8 * i); break
                    except B.NotBits as e:
                        bad = str(e); break
                    continue
                stack = [o]; seen = set()
                while stack:
                    z = stack.pop()
                    if z.id in seen: continue
                    seen.add(z.id)
                    if z.op in ('uitofp', 'sitofp'): src = z.args[0]; break
                    stack.extend(z.args)
                if src is None: bad = 'channel %d = %s' % (i, T.show(o, 3)); break
                av = B.Evaluator(word, 32).ev(src)
                nz = [b for b in av.bits if b != 0]
                if nz != [('in', 8 * i + j) for j in range(8)]:
                    bad = 'channel %d reads bits %r, expected [%d:%d]' % (i, av, 8 * i + 7, 8 * i); break
            rep.ob('packed2rgb<%s%s>' % (m['pk'], '' if 'pkt' not in m else ',uchar'), 'R17.col', VIOLATED if bad else HOLDS, bad or 'channel i = bits [8i+7:8i] of the packed word', whereh)
            continue
        oid = '%s(%s<%s>)' % (m['fn'], m['cls'], m['E'])
        try:
            S = I2.run(name)
        except vg.Unsupported as e:
            rep.ob(oid, 'R17.col', UNDECIDED, str(e), whereh); continue
        n = m['n']; lt = m['lt']; sz = m['sz']; mx = m['mx']
        bad = None
        for i in range(n):
            o = S.out('a0', i * sz, sz, lt)
            call = None
            stack = [o]; seen = set()
            while stack:
                z = stack.pop()
                if z.id in seen: continue
                seen.add(z.id)
                if z.op == 'call' and '_d' in str(z.attr): call = z; break
                stack.extend(z.args)
            if call is None:
                bad = 'slot %d does not come from %s_d' % (i, m['fn']); break
            # argument memory snapshot: cells of the temporary passed to the _d function
            mems = [a for a in call.args if a.op == 'mem']
            argcells = {}
            for mm in mems:
                for j in range(1, len(mm.args), 2):
                    argcells[T.signed(mm.args[j])] = mm.args[j + 1]
            for j in range(n):
                v = argcells.get(8 * j)
                src = T.inp('a1', j * sz, sz, lt)
                if mx is None:
                    want_ok = v is not None and v.op == 'fpext' and v.args[0] is src
                    if not want_ok: bad = 'argument channel %d passed to %s_d is %s, expected the component converted to double' % (j, m['fn'], T.show(v, 3) if v is not None else None); break
                else:
                    ok = v is not None and v.op == 'fdiv' and v.ty == 'double' and v.args[1].op == 'const' and T.const_value(v.args[1]) == mx and v.args[0].op in ('sitofp', 'uitofp') and v.args[0].args[0] is src
                    if not ok:
                        bad = 'argument channel %d passed to %s_d is %s; expected double(c)/double(numeric_limits<T>::max()) = c/%d computed in double (as the Vec3 overload does)' % (j, m['fn'], T.show(v, 4) if v is not None else None, mx); break
            if bad: break
            # result scaling
            if mx is not None:
                z = o
                if z.op in ('fptosi', 'fptoui'): z = z.args[0]
                ok = z.op == 'fmul' and any(a.op == 'const' and T.const_value(a) == mx for a in z.args)
                if not ok: bad = 'result slot %d is %s, expected T(c * %d)' % (i, T.show(o, 3)[:200], mx); break
        rep.ob(oid, 'R17.col', VIOLATED if bad else HOLDS, bad or ('scaled by exactly %d in double on the way in and out' % mx if mx else 'converted component-wise, no scaling'), whereh)

def check_cubic_double_root(rep, ws):
    """R17.roots, solveNormalizedCubic on the cell D = 0, p != 0 (one double and one simple root):  x^3 + r x^2 + s x + t with
    p = -3 rho^2 and q = -+ 2 rho^3 (rho > 0), i.e. y^3 + p y + q = (y -+ 2 rho)(y +- rho)^2.  The complex arithmetic of the
    branch is followed through the C99 / libstdc++ definitions of its callees on this cell: csqrt(0) = 0, clog(x + 0i) =
    (log|x|, 0 or pi), pow(x, 1/3) for x > 0, exp(log(rho^3)/3) = rho, cos/sin(pi/3) = 1/2, sqrt(3)/2.  The function must return
    n = 2 and the set {simple root, double root}."""
    where = 'src/Imath/ImathRoots.h'
    tu = TU('c17_cubic0', header=HDR)
    tu.add('w_nc', 'int& n, const double& r, const double& s, const double& t, double& x0, double& x1, double& x2', 'double x[3] = {0, 0, 0}; n = solveNormalizedCubic(r, s, t, x); x0 = x[0]; x1 = x[1]; x2 = x[2];')
    try:
        mod = ws.module(tu.name, tu.source(), opaque=())
        S = vg.Interp(mod).run('w_nc')
    except (build.BuildError, vg.Unsupported) as e:
        rep.ob('solveNormalizedCubic#double-root', 'R17.roots', UNDECIDED, str(e)[:300], where); return
    r_in, s_in, t_in = (T.inp('a%d' % i, 0, 8, 'double') for i in (1, 2, 3))
    rho = T.inp('q#rho', 0, 8, 'double')
    THIRD = Fraction(1, 3)
    def near(c, v): return c.op == 'const' and not isinstance(T.const_value(c), str) and abs(float(T.const_value(c)) - v) < 1e-15
    for cell, sgn in (('q < 0 (simple root above the double root)', -1), ('q > 0 (simple root below the double root)', 1)):
        oid = 'solveNormalizedCubic#double-root[%s]' % ('q<0' if sgn < 0 else 'q>0')
        try:
            ctx = P.Ctx(); ctx.cancel = True
            kr, krho = ctx.key(r_in), ctx.key(rho)
            ctx.positive.add(krho)
            R_, RHO = P.patom(kr), P.patom(krho)
            p_ = P.pscale(P.ppow(RHO, 2), -3); q_ = P.pscale(P.ppow(RHO, 3), 2 * sgn)
            # s = p + r^2/3 ;  t = q - 2 r^3/27 + r s/3
            s_poly = P.padd(p_, P.pscale(P.ppow(R_, 2), THIRD))
            t_poly = P.padd(P.padd(q_, P.pscale(P.ppow(R_, 3), Fraction(-2, 27))), P.pscale(P.pmul(R_, s_poly), THIRD))
            ctx.lin[ctx.key(s_in)] = s_poly; ctx.lin[ctx.key(t_in)] = t_poly
            SQ3 = ctx.sqrt_poly(P.pconst(3))
            LOGRHO = (P.patom(ctx.key(T.inp('q#logrho', 0, 8, 'double'))), P.pconst(1)); PI = (P.patom(ctx.key(T.inp('q#pi', 0, 8, 'double'))), P.pconst(1))
            def mono_rho(rt):
                """rt = c * rho^k -> (c, k) or None"""
                if rt[1] != P.pconst(1) or len(rt[0]) != 1: return None
                (m, c), = rt[0].items()
                if len(m) == 1 and m[0][0] == krho: return (c, m[0][1])
                return None
            def cstruct(call):
                a = [ctx.rat(z) for z in call.args]
                if call.attr == 'csqrt':
                    if ctx.rzero(a[0]) and ctx.rzero(a[1]): return (({}, P.pconst(1)), ({}, P.pconst(1)))
                    raise P.NotPoly('csqrt of a non-zero argument')
                if call.attr == 'clog':
                    if not ctx.rzero(a[1]): raise P.NotPoly('clog of a non-real argument')
                    mk = mono_rho(a[0])
                    if mk is None or abs(mk[0]) != 1: raise P.NotPoly('clog argument is not +-rho^k')
                    return ((P.pscale(LOGRHO[0], mk[1]), P.pconst(1)), PI if mk[0] < 0 else ({}, P.pconst(1)))
                if call.attr in ('__divdc3', '__divsc3') and len(a) == 4:
                    den = ctx.radd(ctx.rmul(a[2], a[2]), ctx.rmul(a[3], a[3]))
                    neg_ = lambda z: (P.pneg(z[0]), z[1])
                    return (ctx.rdiv(ctx.radd(ctx.rmul(a[0], a[2]), ctx.rmul(a[1], a[3])), den), ctx.rdiv(ctx.radd(ctx.rmul(a[1], a[2]), neg_(ctx.rmul(a[0], a[3]))), den))
                if call.attr in ('__muldc3', '__mulsc3') and len(a) == 4:
                    neg_ = lambda z: (P.pneg(z[0]), z[1])
                    return (ctx.radd(ctx.rmul(a[0], a[2]), neg_(ctx.rmul(a[1], a[3]))), ctx.radd(ctx.rmul(a[0], a[3]), ctx.rmul(a[1], a[2])))
                raise P.NotPoly('struct-valued call %s' % call.attr)
            orig_rat = ctx._rat; orig_call = ctx.call
            def _rat(n):
                if n.op == 'extractvalue' and n.args[0].op == 'call': return cstruct(n.args[0])[n.attr[0]]
                if n.op == 'const' and near(n, 1 / 3.0): return (P.pconst(THIRD), P.pconst(1))
                if n.op == 'const' and near(n, 3 ** 0.5): return SQ3
                return orig_rat(n)
            def call(n):
                if n.attr == 'exp':
                    a = ctx.rat(n.args[0])
                    if a[1] == P.pconst(1) and len(a[0]) == 1:
                        (m, c), = a[0].items()
                        if m == ((ctx.key(T.inp('q#logrho', 0, 8, 'double')), 1),) and c == int(c) and c > 0: return (P.ppow(RHO, int(c)), P.pconst(1))
                    raise P.NotPoly('exp of %s' % P.show_rat(a, ctx)[:60])
                if n.attr in ('cos', 'sin'):
                    a = ctx.rat(n.args[0])
                    if ctx.rzero(a): return (P.pconst(1 if n.attr == 'cos' else 0), P.pconst(1))
                    if ctx.requal(a, (P.pscale(PI[0], THIRD), P.pconst(1))): return (P.pconst(Fraction(1, 2)), P.pconst(1)) if n.attr == 'cos' else (P.pscale(SQ3[0], Fraction(1, 2)), P.pconst(1))
                    raise P.NotPoly('%s of %s' % (n.attr, P.show_rat(a, ctx)[:60]))
                if n.attr == 'pow':
                    a, e = ctx.rat(n.args[0]), ctx.rat(n.args[1])
                    mk = mono_rho(a)
                    if mk and mk[0] == 1 and ctx.requal(e, (P.pconst(THIRD), P.pconst(1))) and mk[1] % 3 == 0: return (P.ppow(RHO, mk[1] // 3), P.pconst(1))
                    raise P.NotPoly('pow(%s, %s)' % (P.show_rat(a, ctx)[:40], P.show_rat(e, ctx)[:20]))
                return orig_call(n)
            ctx._rat = _rat; ctx.call = call
            outs = [S.out('a0', 0, 4, 'i32'), S.out('a4', 0, 8, 'double'), S.out('a5', 0, 8, 'double')]
            def premise(c):
                if c.op == 'fcmp' and c.attr in ('ord', 'uno'): return c.attr == 'ord'
                if c.op == 'fcmp' and c.attr in ('olt', 'ole') and any(z.op == 'const' and T.const_value(z) == 0 for z in c.args):
                    zi = 0 if (c.args[0].op == 'const' and T.const_value(c.args[0]) == 0) else 1
                    try: rt = ctx.rat(c.args[1 - zi])
                    except P.NotPoly: return None
                    if ctx.rzero(rt): return c.attr == 'ole'
                    mk = mono_rho(rt)
                    if mk is None: return None
                    pos = mk[0] > 0                      # rho > 0
                    return pos if zi == 0 else (not pos)
                return None
            def enum(c): return False
            cases = list(PC.generic_cases(outs, ctx, enumerate_cond=enum, premise=premise))
            if len(cases) != 1: raise PC.Undecided('%d paths on the cell' % len(cases))
            asg, res = cases[0]
            n_ = res[0]
            if not (n_.op == 'const' and n_.attr[1] == 2):
                rep.ob(oid, 'R17.roots', VIOLATED, 'on the cell D = 0, %s the number of roots reported is %s, expected 2' % (cell, T.show(n_, 2)), where); continue
            x0, x1 = ctx.rat(res[1]), ctx.rat(res[2])
            shift = (P.pscale(R_, -THIRD), P.pconst(1))
            simple = ctx.radd((P.pscale(RHO, -2 * sgn), P.pconst(1)), shift); double_ = ctx.radd((P.pscale(RHO, sgn), P.pconst(1)), shift)
            ok = (ctx.requal(x0, simple) and ctx.requal(x1, double_)) or (ctx.requal(x0, double_) and ctx.requal(x1, simple))
            rep.ob(oid, 'R17.roots', HOLDS if ok else VIOLATED,
                   'returns the simple root %s and the double root %s' % (P.show_rat(simple, ctx), P.show_rat(double_, ctx)) if ok else
                   'on the cell D = 0, %s the roots returned are {%s, %s}; the cubic (x+r/3 %s 2rho)(x+r/3 %s rho)^2 has the simple root %s and the double root %s' % (cell, P.show_rat(x0, ctx)[:60], P.show_rat(x1, ctx)[:60], '+' if sgn > 0 else '-', '-' if sgn > 0 else '+', P.show_rat(simple, ctx), P.show_rat(double_, ctx)), where)
        except (P.NotPoly, PC.Undecided, vg.Unsupported, OverflowError) as e:
            rep.ob(oid, 'R17.roots', UNDECIDED, str(e)[:300], where)

class _Done(Exception):
    pass

def _complex_models(ctx, cstruct_extra=None):
    """__divdc3 / __muldc3 as complex quotient / product (compiler-rt); returns the struct evaluator"""
    def neg_(z): return (P.pneg(z[0]), z[1])
    def cstruct(call):
        a = [ctx.rat(z) for z in call.args]
        if call.attr in ('__divdc3', '__divsc3') and len(a) == 4:
            den = ctx.radd(ctx.rmul(a[2], a[2]), ctx.rmul(a[3], a[3]))
            return (ctx.rdiv(ctx.radd(ctx.rmul(a[0], a[2]), ctx.rmul(a[1], a[3])), den), ctx.rdiv(ctx.radd(ctx.rmul(a[1], a[2]), neg_(ctx.rmul(a[0], a[3]))), den))
        if call.attr in ('__muldc3', '__mulsc3') and len(a) == 4:
            return (ctx.radd(ctx.rmul(a[0], a[2]), neg_(ctx.rmul(a[1], a[3]))), ctx.radd(ctx.rmul(a[0], a[3]), ctx.rmul(a[1], a[2])))
        if cstruct_extra is not None:
            r = cstruct_extra(call, a)
            if r is not None: return r
        raise P.NotPoly('struct-valued call %s' % call.attr)
    return cstruct

def check_cubic_generic(rep, ws):
    """R17.roots, solveNormalizedCubic on its two generic cells.
    D > 0 (one real root): with S = sqrt(D) and W the real cube root (W^3 = sgn * (-q/2 + S), sgn = copysign(1, .), sgn^2 = 1)
    the value returned satisfies x^3 + r x^2 + s x + t = 0 identically, and n = 1.
    D < 0 (three real roots): p = -3 rho^2, q = -2 rho^3 cos(3 phi), 0 < phi < pi/3; then D = -(rho^3 sin 3phi)^2,
    csqrt(D) = i rho^3 sin 3phi, clog(...) = (3 log rho, 3 phi) and the three values returned have the elementary symmetric
    functions (0, p, -q) after the shift by r/3, i.e. they are exactly the three roots; n = 3."""
    where = 'src/Imath/ImathRoots.h'
    tu = TU('c17_cubicg', header=HDR)
    tu.add('w_nc', 'int& n, const double& r, const double& s, const double& t, double& x0, double& x1, double& x2', 'double x[3] = {0, 0, 0}; n = solveNormalizedCubic(r, s, t, x); x0 = x[0]; x1 = x[1]; x2 = x[2];')
    try:
        mod = ws.module(tu.name, tu.source(), opaque=())
        S = vg.Interp(mod).run('w_nc')
    except (build.BuildError, vg.Unsupported) as e:
        rep.ob('solveNormalizedCubic#generic', 'R17.roots', UNDECIDED, str(e)[:300], where); return
    r_in, s_in, t_in = (T.inp('a%d' % i, 0, 8, 'double') for i in (1, 2, 3))
    outs = [S.out('a0', 0, 4, 'i32'), S.out('a4', 0, 8, 'double'), S.out('a5', 0, 8, 'double'), S.out('a6', 0, 8, 'double')]
    THIRD = Fraction(1, 3); ONE_ = P.pconst(1)
    def near(c, v): return c.op == 'const' and not isinstance(T.const_value(c), str) and abs(float(T.const_value(c)) - v) < 1e-15
    def neg_(z): return (P.pneg(z[0]), z[1])
    # ---------------------------------------------------------------- D > 0
    oid = 'solveNormalizedCubic#one-real-root'
    try:
        ctx = P.Ctx(); ctx.cancel = True
        R_, S_, T_ = (P.patom(ctx.key(z)) for z in (r_in, s_in, t_in))
        p_ = P.psub(S_, P.pscale(P.ppow(R_, 2), THIRD)); q_ = P.padd(P.psub(P.pscale(P.ppow(R_, 3), Fraction(2, 27)), P.pscale(P.pmul(R_, S_), THIRD)), T_)
        D_ = P.padd(P.ppow(P.pscale(p_, THIRD), 3), P.ppow(P.pscale(q_, Fraction(1, 2)), 2))
        cstruct = _complex_models(ctx)
        orig_rat = ctx._rat; orig_call = ctx.call
        sgn_atoms = {}; cbrt_atoms = {}
        def _rat(n):
            if n.op == 'extractvalue' and n.args[0].op == 'call': return cstruct(n.args[0])[n.attr[0]]
            if n.op == 'const' and near(n, 1 / 3.0): return (P.pconst(THIRD), ONE_)
            return orig_rat(n)
        def call(n):
            if n.attr == 'copysign' and n.args[0].op == 'const' and T.const_value(n.args[0]) == 1:
                a = ctx.rat(n.args[1]); key = (tuple(sorted(a[0].items())), tuple(sorted(a[1].items())))
                k = sgn_atoms.get(key)
                if k is None:
                    k = ctx.key(T.inp('q#sgn%d' % len(sgn_atoms), 0, 8, 'double')); sgn_atoms[key] = k
                    ctx.rules[k] = P.pconst(1)
                return (P.patom(k), ONE_)
            if n.attr == 'pow':
                e = ctx.rat(n.args[1])
                if not ctx.requal(e, (P.pconst(THIRD), ONE_)): raise P.NotPoly('pow with exponent %s' % P.show_rat(e, ctx)[:20])
                a = ctx.rat(n.args[0])
                if a[1] != ONE_: raise P.NotPoly('cube root of a quotient')
                key = tuple(sorted(a[0].items()))
                k = cbrt_atoms.get(key)
                if k is None:
                    k = ctx.key(T.inp('q#cbrt%d' % len(cbrt_atoms), 0, 8, 'double')); cbrt_atoms[key] = k
                    ctx.rules3[k] = a[0]; ctx.positive.add(k)
                return (P.patom(k), ONE_)
            return orig_call(n)
        ctx._rat = _rat; ctx.call = call
        def premise(c):
            if c.op == 'fcmp' and c.attr in ('ord', 'uno'): return c.attr == 'ord'
            if c.op == 'fcmp' and c.attr in ('olt', 'ole') and any(z.op == 'const' and T.const_value(z) == 0 for z in c.args):
                zi = 0 if (c.args[0].op == 'const' and T.const_value(c.args[0]) == 0) else 1
                try: rt = ctx.rat(c.args[1 - zi])
                except P.NotPoly: return None
                if ctx.requal(rt, (D_, ONE_)): return zi == 0          # the cell: D > 0
                odd.append(P.show_rat(rt, ctx)[:120])
            return None
        odd = []
        try:
            cases = list(PC.generic_cases(outs[:2], ctx, enumerate_cond=lambda c: False, premise=premise))
        except PC.Undecided:
            if odd:
                rep.ob(oid, 'R17.roots', VIOLATED, 'the branch is selected by the sign of %s, which is not the discriminant (p/3)^3 + (q/2)^2 of the cubic' % odd[0], where)
                raise _Done()
            raise
        if len(cases) != 1: raise PC.Undecided('%d paths on the cell D > 0' % len(cases))
        asg, res = cases[0]
        if not (res[0].op == 'const' and res[0].attr[1] == 1):
            rep.ob(oid, 'R17.roots', VIOLATED, 'on the cell D > 0 the number of roots reported is %s, expected 1' % T.show(res[0], 2), where)
        else:
            x = ctx.rat(res[1])
            val = ctx.radd(ctx.radd(ctx.rmul(ctx.rmul(x, x), x), ctx.rmul((R_, ONE_), ctx.rmul(x, x))), ctx.radd(ctx.rmul((S_, ONE_), x), (T_, ONE_)))
            ok = ctx.rzero(val)
            rep.ob(oid, 'R17.roots', HOLDS if ok else VIOLATED, 'the value returned satisfies x^3 + r x^2 + s x + t = 0 (W^3 = sgn*(-q/2 + sqrt D), sqrt(D)^2 = D)' if ok else 'on the cell D > 0 the value returned is not a root: x^3 + r x^2 + s x + t = %s' % P.show_rat(val, ctx)[:160], where)
    except _Done:
        pass
    except (P.NotPoly, PC.Undecided, vg.Unsupported, OverflowError) as e:
        rep.ob(oid, 'R17.roots', UNDECIDED, str(e)[:300], where)
    # ---------------------------------------------------------------- D < 0
    oid = 'solveNormalizedCubic#three-real-roots'
    try:
        ctx = P.Ctx(); ctx.cancel = True
        rho, cph, sph = (T.inp('q#' + nm, 0, 8, 'double') for nm in ('rho', 'cosphi', 'sinphi'))
        kr, krho, kc, ks = ctx.key(r_in), ctx.key(rho), ctx.key(cph), ctx.key(sph)
        for k in (krho, kc, ks): ctx.positive.add(k)
        R_, RHO, C_, S1 = P.patom(kr), P.patom(krho), P.patom(kc), P.patom(ks)
        ctx.rules[ks] = P.psub(P.pconst(1), P.ppow(C_, 2))
        cos3 = P.psub(P.pscale(P.ppow(C_, 3), 4), P.pscale(C_, 3)); K = ctx.reduce(P.pmul(S1, P.psub(P.pscale(P.ppow(C_, 2), 4), P.pconst(1))))     # sin(3 phi) > 0
        p_ = P.pscale(P.ppow(RHO, 2), -3); q_ = P.pscale(P.pmul(P.ppow(RHO, 3), cos3), -2)
        s_poly = P.padd(p_, P.pscale(P.ppow(R_, 2), THIRD))
        t_poly = P.padd(P.padd(q_, P.pscale(P.ppow(R_, 3), Fraction(-2, 27))), P.pscale(P.pmul(R_, s_poly), THIRD))
        ctx.lin[ctx.key(s_in)] = s_poly; ctx.lin[ctx.key(t_in)] = t_poly
        SQ3 = ctx.sqrt_poly(P.pconst(3))
        LOGRHO = P.patom(ctx.key(T.inp('q#logrho', 0, 8, 'double'))); PHI = P.patom(ctx.key(T.inp('q#phi', 0, 8, 'double')))
        r3K = (ctx.reduce(P.pmul(P.ppow(RHO, 3), K)), ONE_); r3c = (ctx.reduce(P.pmul(P.ppow(RHO, 3), cos3)), ONE_)
        def extra(call, a):
            if call.attr == 'csqrt':
                if not ctx.rzero(a[1]): raise P.NotPoly('csqrt of a non-real argument')
                if ctx.requal(a[0], neg_(ctx.rmul(r3K, r3K))): return (({}, ONE_), r3K)       # sqrt of the negative real -(rho^3 sin 3phi)^2
                raise P.NotPoly('csqrt argument is not D')
            if call.attr == 'clog':
                if ctx.requal(a[0], r3c) and ctx.requal(a[1], r3K): return ((P.pscale(LOGRHO, 3), ONE_), (P.pscale(PHI, 3), ONE_))   # rho^3 e^(3 i phi), 0 < 3 phi < pi
                raise P.NotPoly('clog argument is not rho^3 e^(3 i phi)')
            return None
        cstruct = _complex_models(ctx, extra)
        orig_rat = ctx._rat; orig_call = ctx.call
        def _rat(n):
            if n.op == 'extractvalue' and n.args[0].op == 'call': return cstruct(n.args[0])[n.attr[0]]
            if n.op == 'const' and near(n, 1 / 3.0): return (P.pconst(THIRD), ONE_)
            if n.op == 'const' and near(n, 3 ** 0.5): return SQ3
            return orig_rat(n)
        def call(n):
            if n.attr == 'exp':
                a = ctx.rat(n.args[0])
                if ctx.requal(a, (LOGRHO, ONE_)): return (RHO, ONE_)
                raise P.NotPoly('exp of %s' % P.show_rat(a, ctx)[:60])
            if n.attr in ('cos', 'sin'):
                a = ctx.rat(n.args[0])
                if ctx.requal(a, (PHI, ONE_)): return (C_, ONE_) if n.attr == 'cos' else (S1, ONE_)
                raise P.NotPoly('%s of %s' % (n.attr, P.show_rat(a, ctx)[:60]))
            return orig_call(n)
        ctx._rat = _rat; ctx.call = call
        def premise(c):
            if c.op == 'fcmp' and c.attr in ('ord', 'uno'): return c.attr == 'ord'
            if c.op == 'fcmp' and c.attr in ('olt', 'ole') and any(z.op == 'const' and T.const_value(z) == 0 for z in c.args):
                zi = 0 if (c.args[0].op == 'const' and T.const_value(c.args[0]) == 0) else 1
                try: rt = ctx.rat(c.args[1 - zi])
                except P.NotPoly: return None
                if ctx.rzero(rt): return c.attr == 'ole'
                for cand, positive in ((neg_(ctx.rmul(r3K, r3K)), False), (r3K, True)):
                    if ctx.requal(rt, cand): return positive if zi == 0 else (not positive)
            return None
        cases = list(PC.generic_cases(outs, ctx, enumerate_cond=lambda c: False, premise=premise))
        if len(cases) != 1: raise PC.Undecided('%d paths on the cell D < 0' % len(cases))
        asg, res = cases[0]
        if not (res[0].op == 'const' and res[0].attr[1] == 3):
            rep.ob(oid, 'R17.roots', VIOLATED, 'on the cell D < 0 the number of roots reported is %s, expected 3' % T.show(res[0], 2), where)
        else:
            shift = (P.pscale(R_, THIRD), ONE_)
            y = [ctx.radd(ctx.rat(z), shift) for z in res[1:4]]
            e1 = ctx.radd(ctx.radd(y[0], y[1]), y[2])
            e2 = ctx.radd(ctx.radd(ctx.rmul(y[0], y[1]), ctx.rmul(y[1], y[2])), ctx.rmul(y[0], y[2]))
            e3 = ctx.rmul(ctx.rmul(y[0], y[1]), y[2])
            bad = None
            if not ctx.rzero(e1): bad = 'their sum (after the shift by r/3) is %s, expected 0' % P.show_rat(e1, ctx)[:100]
            elif not ctx.requal(e2, (ctx.reduce(p_), ONE_)): bad = 'the sum of their pairwise products is %s, expected p = -3 rho^2' % P.show_rat(e2, ctx)[:100]
            elif not ctx.requal(e3, neg_((ctx.reduce(q_), ONE_))): bad = 'their product is %s, expected -q = 2 rho^3 cos 3phi' % P.show_rat(e3, ctx)[:100]
            rep.ob(oid, 'R17.roots', VIOLATED if bad else HOLDS, ('on the cell D < 0 the three values returned are not the three roots: ' + bad) if bad else 'the three values have the elementary symmetric functions (0, p, -q) of the depressed cubic: they are its three roots', where)
    except (P.NotPoly, PC.Undecided, vg.Unsupported, OverflowError) as e:
        rep.ob(oid, 'R17.roots', UNDECIDED, str(e)[:300], where)

def check_roots(rep, ws):
    tu = TU('c17_roots', header=HDR)
    tu.add('w_linear', 'int& n, const double& a, const double& b, double& x', 'n = solveLinear(a, b, x);')
    tu.add('w_quadratic', 'int& n, const double& a, const double& b, const double& c, double& x0, double& x1', 'double x[2] = {0, 0}; n = solveQuadratic(a, b, c, x); x0 = x[0]; x1 = x[1];')
    tu.add('w_cubic', 'int& n, const double& a, const double& b, const double& c, const double& d, double& x0, double& x1, double& x2', 'double x[3] = {0, 0, 0}; n = solveCubic(a, b, c, d, x); x0 = x[0]; x1 = x[1]; x2 = x[2];')
    where = 'src/Imath/ImathRoots.h'
    try:
        mod = ws.module(tu.name, tu.source(), opaque=('solveNormalizedCubic',))
    except build.BuildError as e:
        rep.ob('roots', 'R17.roots', UNDECIDED, str(e)[:200], where); return
    I = vg.Interp(mod)
    a, b, c, d = (T.inp('a%d' % i, 0, 8, 'double') for i in (1, 2, 3, 4))
    zero = T.const_fp('double', 0)
    try:
        S = I.run('w_linear')
        n = S.out('a0', 0, 4, 'i32'); x = S.out('a3', 0, 8, 'double')
        ca = T.cmp('fcmp', 'oeq', a, zero)
        nn = T.resolve(n, {ca: False}); xx = T.resolve(x, {ca: False})
        ctx = P.Ctx()
        ok = nn.op == 'const' and T.signed(nn) == 1 and ctx.requal(ctx.rat(xx), (P.pneg(P.patom(ctx.key(b))), P.patom(ctx.key(a))))
        n0 = T.resolve(n, {ca: True})
        cb = T.cmp('fcmp', 'oeq', b, zero)
        ok0 = T.resolve(n0, {cb: True}).op == 'const' and T.signed(T.resolve(n0, {cb: True})) == -1 and T.signed(T.resolve(n0, {cb: False})) == 0
        rep.ob('solveLinear', 'R17.roots', HOLDS if (ok and ok0) else VIOLATED, 'x = -b/a (1 root); a = 0: no root, or infinitely many (-1) when b = 0' if (ok and ok0) else 'n = %s, x = %s' % (T.show(n, 4), T.show(x, 3)), where)
    except (vg.Unsupported, P.NotPoly) as e:
        rep.ob('solveLinear', 'R17.roots', UNDECIDED, str(e), where)
    try:
        S = I.run('w_quadratic')
        n = S.out('a0', 0, 4, 'i32'); x0 = S.out('a4', 0, 8, 'double'); x1 = S.out('a5', 0, 8, 'double')
        # degenerate a == 0 delegates to the linear solver: x0 = -c/b
        ca = T.cmp('fcmp', 'oeq', a, zero)
        cb = T.cmp('fcmp', 'oeq', b, zero)
        x0d = T.resolve(x0, {ca: True, cb: False})
        ctx = P.Ctx()
        okd = ctx.requal(ctx.rat(x0d), (P.pneg(P.patom(ctx.key(c))), P.patom(ctx.key(b))))
        # non-degenerate, positive discriminant: roots satisfy a x^2 + b x + c = 0 with sqrt(D)^2 = D
        ok2 = None
        for gen_ in (T.resolve(x0, {ca: False}), T.resolve(x1, {ca: False})):
          for asg, (res,) in PC.live_cases([gen_], max_conds=8):
              if res.op == 'const' or res.op == 'undef' or res is zero: continue
              ctx2 = P.Ctx()
              try:
                  r = ctx2.rat(res)
              except P.NotPoly:
                  continue
              A, Bq, Cq = (P.patom(ctx2.key(v)) for v in (a, b, c))
              val = ctx2.radd(ctx2.radd(ctx2.rmul((A, P.pconst(1)), ctx2.rmul(r, r)), ctx2.rmul((Bq, P.pconst(1)), r)), (Cq, P.pconst(1)))
              z = ctx2.rzero(val)
              if not z:
                  # the double-root exit is taken under D == 0: the residual must be a multiple of the discriminant
                  Dp = P.psub(P.pmul(Bq, Bq), P.pscale(P.pmul(A, Cq), 4))
                  tied = any(cn.op == 'fcmp' and cn.attr == 'oeq' and v and any(a_.op == 'const' and T.const_value(a_) == 0 for a_ in cn.args) for cn, v in asg.items())
                  z = tied and P.pdivexact(ctx2.reduce(val[0]), Dp) is not None
              ok2 = z if ok2 is None else (ok2 and z)
        # numerical form of the two-root branch (D > 0, a != 0): sign-domain abstract interpretation of the root
        # expressions on the cells sign(a) x sign(b); sqrt(D) is a positive atom (its own conditioning is the
        # "well separated" premise).  No addition may combine operands of opposite or unknown sign: that is the
        # cancellation  -b +- sqrt(D)  which the q form avoids (x0 = q/a, x1 = c/q, q = -(b + sgn(b) sqrt(D))/2)
        cD = None
        for cn in PC.all_conds(x0) if hasattr(PC, 'all_conds') else P.all_conds(x0):
            if cn.op == 'fcmp' and cn.attr == 'olt' and cn.args[0] is zero and cn.args[1].op == 'fadd': cD = cn
        cancel = None
        if cD is not None:
            r0 = T.resolve(x0, {ca: False, cD: True}); r1 = T.resolve(x1, {ca: False, cD: True})
            def sgn(x, env, sites):
                if x.op == 'const':
                    v = T.const_value(x); return '0' if v == 0 else ('+' if v > 0 else '-')
                if x is a: return env['a']
                if x is b: return env['b']
                if x.op == 'call' and 'sqrt' in str(x.attr): return '+'
                if x.op == 'fneg':
                    r = sgn(x.args[0], env, sites); return {'+': '-', '-': '+'}.get(r, r)
                if x.op in ('fmul', 'fdiv'):
                    p_, q_ = sgn(x.args[0], env, sites), sgn(x.args[1], env, sites)
                    if p_ == '0': return '0'
                    if q_ == '0': return '0' if x.op == 'fmul' else '?'
                    if '?' in (p_, q_): return '?'
                    return '+' if p_ == q_ else '-'
                if x.op == 'ite':
                    cnd = x.args[0]
                    if cnd.op == 'fcmp' and cnd.attr in ('olt', 'ole'):
                        l_, r_ = sgn(cnd.args[0], env, []), sgn(cnd.args[1], env, [])
                        val = None
                        if (l_, r_) in (('0', '+'), ('-', '+'), ('-', '0')): val = True
                        if (l_, r_) in (('+', '0'), ('+', '-'), ('0', '-')): val = False
                        if (l_, r_) == ('0', '0'): val = cnd.attr == 'ole'
                        if val is not None: return sgn(x.args[1] if val else x.args[2], env, sites)
                    p_, q_ = sgn(x.args[1], env, sites), sgn(x.args[2], env, sites)
                    return p_ if p_ == q_ else '?'
                if x.op == 'fadd':
                    p_, q_ = sgn(x.args[0], env, sites), sgn(x.args[1], env, sites)
                    if p_ == '0': return q_
                    if q_ == '0': return p_
                    if p_ == q_ and p_ != '?': return p_
                    sites.append((T.show(x, 3)[:120], p_, q_)); return '?'
                return '?'
            for sa in '+-':
                for sb in '+-0':
                    sites = []
                    sgn(r0, {'a': sa, 'b': sb}, sites); sgn(r1, {'a': sa, 'b': sb}, sites)
                    if sites and cancel is None:
                        cancel = 'for a %s 0, b %s 0 a root is computed by the sum %s of operands with signs (%s, %s): cancellation when the roots differ in magnitude' % ('>' if sa == '+' else '<', {'+': '>', '-': '<', '0': '='}[sb], sites[0][0], sites[0][1], sites[0][2])
        else:
            cancel = 'branch D > 0 not recognised'
        rep.ob('solveQuadratic#form', 'R17.roots', VIOLATED if cancel else HOLDS, cancel or 'two-root branch: every addition in the root expressions combines operands of equal sign on all 6 sign cells of (a, b) (no cancellation outside the discriminant)', where)
        rep.ob('solveQuadratic', 'R17.roots', HOLDS if (okd and ok2) else VIOLATED, 'a = 0 delegates to solveLinear (x = -c/b); every computed root satisfies a x^2 + b x + c = 0 modulo sqrt(D)^2 = D' if (okd and ok2) else 'degenerate path %s, root identity %s' % (okd, ok2), where)
    except (vg.Unsupported, P.NotPoly, PC.Undecided) as e:
        rep.ob('solveQuadratic', 'R17.roots', UNDECIDED, str(e), where)
    try:
        S = I.run('w_cubic')
        n = S.out('a0', 0, 4, 'i32')
        ca = T.cmp('fcmp', 'oeq', a, zero)
        # a == 0 -> quadratic: no call to the normalized cubic on that path
        nd = T.resolve(n, {ca: True})
        from .c18 import find
        okd = find(nd, lambda z: z.op == 'call' and 'solveNormalizedCubic' in str(z.attr)) is None
        ng = T.resolve(n, {ca: False})
        call = find(ng, lambda z: z.op == 'call' and 'solveNormalizedCubic' in str(z.attr))
        okg = False
        if call is not None:
            ctx = P.Ctx()
            args = [z for z in call.args if z.ty == 'double'][:3]
            want = [(P.patom(ctx.key(v)), P.patom(ctx.key(a))) for v in (b, c, d)]
            okg = len(args) == 3 and all(ctx.requal(ctx.rat(x), w) for x, w in zip(args, want))
        rep.ob('solveCubic', 'R17.roots', HOLDS if (okd and okg) else VIOLATED, 'a = 0 delegates to solveQuadratic; otherwise solveNormalizedCubic(b/a, c/a, d/a)' if (okd and okg) else 'delegation %s, normalisation %s' % (okd, okg), where)
    except (vg.Unsupported, P.NotPoly) as e:
        rep.ob('solveCubic', 'R17.roots', UNDECIDED, str(e), where)
