"""C01 - float<->half conversion is exact IEEE-754 binary16 (decided part).

R01.table  the 65,536-entry table = binary32 encoding of the binary16 value of the index (D-data);
           the exported pointer is initialised to it and never stored to; the table branch of
           imath_half_to_float is exactly table[h]
R01.fwd    half(float), operator float, operator=(float) forward unchanged to the two C functions
R01.part   exact partition of the 2^31 magnitudes over the exits of imath_float_to_half (D-intv):
           zero exit only from [0, 0x33000000], infinity exit only from [0x477ff000, 0x7f800000],
           NaN-shaped exit exactly from [0x7f800001, 0x7fffffff]
R01.sign   bit 15 of every exit is input bit 31 (D-bits; the ++ret of the subnormal path cannot carry)
R01.f16c   hardware back-end: vcvtps2ph with rounding immediate nearest-even (MXCSR not consulted) on the unmodified argument
R01.nan    NaN result = sign | 0x7c00 | bits[22:13] | (bits[22:13] == 0)
R01.rne    normal range: (u + 0xfff + bit13(u)) >> 13 rounds to nearest, ties to even (threshold
           reasoning on the low 13-bit field), after the exact rebias u = ui - (112 << 23);
           subnormal range: per exponent field (11 configurations) the kept bits, the left-aligned
           remainder and the increment condition are round-to-nearest-even
"""
import struct
from engine import term as T, build, vg, bits as B
from engine.agg import TU
from engine.report import HOLDS, VIOLATED, UNDECIDED
from .common import Analysed, fn_where, hoist

def ref_half_to_float_bits(h):
    """binary32 pattern of the binary16 value with pattern h, from the format parameters only"""
    s = h >> 15; e = (h >> 10) & 0x1f; m = h & 0x3ff
    if e == 0:
        if m == 0:
            return s << 31
        # subnormal: value = m * 2^-24 ; renormalise
        k = m.bit_length() - 1            # leading one position (0..9)
        exp = k - 24 + 127
        frac = (m - (1 << k)) << (23 - k)
        return (s << 31) | (exp << 23) | frac
    if e == 31:
        return (s << 31) | (0xff << 23) | (m << 13)
    return (s << 31) | ((e - 15 + 127) << 23) | (m << 13)

C_SRC = '''#include <half.h>
unsigned short w_f2h(float f) { return imath_float_to_half(f); }
float w_h2f(unsigned short h) { return imath_half_to_float(h); }
'''
CPP_SRC = '''#include <half.h>
extern "C" {
void w_ctor(half& o, const float& f) { o = half(f); }
void w_assign(half& o, const float& f) { o = f; }
void w_cast(float& o, const half& h) { o = float(h); }
void w_bits(unsigned short& o, const half& h) { o = h.bits(); }
void w_setbits(half& o, const unsigned short& b) { o.setBits(b); }
}
'''

def check_table(rep, ws):
    bc = ws.compile_file('half_cpp', build.REPO + '/src/Imath/half.cpp')
    mod = ws.irx(bc, prefixes=('@none@',), noopt=True, all_globals=True)
    I = vg.Interp(mod)
    where = 'src/Imath/toFloat.h (included by src/Imath/half.cpp)'
    tname = ([k for k in I.globals if 'imath_half_to_float_table_data' in k] or [None])[0]
    g = I.globals.get(tname)
    if g is None:
        rep.fail_incomplete('anchor vanished: global imath_half_to_float_table_data not found in half.cpp'); return
    cells = I.global_cells(tname)
    if cells is None:
        rep.ob('table-data', 'R01.table', UNDECIDED, 'initialiser not readable', where); return
    n = g['size'] // 4
    if n != 65536:
        rep.ob('table-length', 'R01.table', VIOLATED, 'table has %d entries; the uint16_t index ranges over 65536' % n, where)
    else:
        rep.ob('table-length', 'R01.table', HOLDS, '65536 entries = range of the uint16_t index', where, nontrivial=False)
    bad = []
    zero_regions = [(k[1], v[0]) for k, v in cells.items() if isinstance(k, tuple)]
    for h in range(min(n, 65536)):
        c = cells.get(4 * h)
        if c is None:
            got = 0 if any(o <= 4 * h < o + s for o, s in zero_regions) else None
        else:
            got = c[1].attr[1] if c[1].op == 'const' else None
        want = ref_half_to_float_bits(h)
        if got != want:
            bad.append((h, got, want))
    rep.extra['table_entries_checked'] = min(n, 65536)
    if bad:
        h, got, want = bad[0]
        rep.ob('table-data', 'R01.table', VIOLATED, '%d entries differ from IEEE binary16; first: entry 0x%04x is %s, the binary16 value is 0x%08x' % (len(bad), h, ('0x%08x' % got) if got is not None else 'unreadable', want), where)
    else:
        rep.ob('table-data', 'R01.table', HOLDS, 'all 65536 entries equal the binary32 encoding of the binary16 value of their index', where,
               sample='table[0x3c00]=0x3f800000, table[0x0001]=0x33800000, table[0xfc00]=0xff800000 (65536 entries compared with the format definition)')
    # exported pointer
    p = I.globals.get('imath_half_to_float_table')
    ok = p is not None and p.get('init', {}).get('k') in ('g', 'cgep') and (p['init'].get('name') == tname or p['init'].get('base', {}).get('name') == tname) and p['init'].get('off', 0) == 0
    rep.ob('table-pointer', 'R01.table', HOLDS if ok else VIOLATED, '' if ok else 'imath_half_to_float_table is not initialised to the start of the table', 'src/Imath/half.cpp')

def check_no_store(rep, ws):
    """who-may-write: no library TU stores to the exported table pointer"""
    import glob, os
    n = 0
    for src in sorted(glob.glob(build.REPO + '/src/Imath/*.cpp')):
        if os.path.basename(src) == 'toFloat.cpp': continue
        bc = ws.compile_file('lib_' + os.path.basename(src)[:-4], src)
        mod = ws.irx(bc, prefixes=('',), noopt=True)
        n += 1
        for f in mod['functions']:
            for b in f['blocks']:
                for i in b['insts']:
                    if i['op'] == 'store' and i['ops'][1].get('k') == 'g' and i['ops'][1].get('name') == 'imath_half_to_float_table':
                        rep.ob('table-pointer-write:%s' % f['name'], 'R01.table', VIOLATED, 'function %s stores to imath_half_to_float_table' % f['name'], build.repo_rel(src) + ':%s' % i.get('line'))
                        return
    rep.ob('table-pointer-readonly', 'R01.table', HOLDS, 'no store to the exported table pointer in %d library translation units' % n, 'src/Imath/*.cpp', nontrivial=False)

def magnitude_node(J):
    """the node ui = bits & 0x7fffffff used in the comparisons"""
    for c in T.atoms_of(J):
        if c.op == 'icmp':
            for a in c.args:
                if a.op == 'and': return a
    return None

def interval_of(lits, ui):
    """exact set of magnitudes (as list of disjoint [lo,hi]) selected by the literals that compare ui with constants"""
    lo, hi = 0, 0x7fffffff
    excl = []
    other = []
    for c, v in lits:
        if c.op == 'icmp' and c.args[0] is ui and c.args[1].op == 'const':
            k = c.args[1].attr[1]
            if c.attr == 'ult':
                if v: hi = min(hi, k - 1)
                else: lo = max(lo, k)
            elif c.attr == 'eq':
                if v: lo = max(lo, k); hi = min(hi, k)
                else: excl.append(k)
            elif c.attr == 'slt':
                if v: hi = min(hi, k - 1)
                else: lo = max(lo, k)
            else:
                other.append(c)
        elif c.op == 'icmp' and c.args[1] is ui and c.args[0].op == 'const':
            k = c.args[0].attr[1]
            if c.attr in ('ult', 'slt'):
                if v: lo = max(lo, k + 1)
                else: hi = min(hi, k)
            elif c.attr == 'eq':
                if v: lo = max(lo, k); hi = min(hi, k)
                else: excl.append(k)
        else:
            other.append(c)
    ivs = [(lo, hi)] if lo <= hi else []
    for k in sorted(excl):
        nv = []
        for a, b in ivs:
            if a <= k <= b:
                if a <= k - 1: nv.append((a, k - 1))
                if k + 1 <= b: nv.append((k + 1, b))
            else: nv.append((a, b))
        ivs = nv
    return ivs, other

def renorm_const(x, ui, d, rng):
    """x = ui + c (+ small terms), only bits < d demanded: c may be replaced by any c + j*2^d; choose
    the representative for which ui + c stays inside [0, 2^d) over the path's interval of ui, so that
    interval reasoning sees the un-wrapped sum (instcombine reduces such constants modulo 2^d)"""
    if rng is None or x.op != 'add': return x
    terms = []
    def fsum(y):
        if y.op == 'add':
            for a in y.args: fsum(a)
        else: terms.append(y)
    fsum(x)
    cs = [t for t in terms if t.op == 'const']
    if len(cs) != 1 or not any(t is ui for t in terms): return x
    c = cs[0].attr[1]; lo, hi = rng
    for j in range(1 << (32 - d)):
        c2 = (c + (j << d)) & 0xffffffff
        a, b = lo + c2, hi + c2
        if (a >> 32) == (b >> 32) and (b & 0xffffffff) < (1 << d) and (a & 0xffffffff) <= (b & 0xffffffff):
            out = T.const_int(32, c2)
            for t in terms:
                if t.op != 'const': out = T.binop('add', out, t, 'i32')
            return out
    return x

def low_demand_rewrite(n, word, ui, rng=None):
    """inside trunc_w(lshr(X, k)) with w + k <= 31 only bits below 31 of X are demanded; there
    the full word and the magnitude word ui = word & 0x7fffffff are congruent (mod 2^31), so sums
    and bitwise terms over `word` may be read over `ui` (instcombine drops the mask for the same reason)"""
    memo = {}
    def rec(x):
        r = memo.get(x.id)
        if r is not None: return r
        if x.op == 'trunc' and x.args[0].op == 'lshr' and x.args[0].args[1].op == 'const' and int(x.ty[1:]) + x.args[0].args[1].attr[1] <= 31:
            inner = T.subst(x.args[0].args[0], {word: ui})
            d = int(x.ty[1:]) + x.args[0].args[1].attr[1]
            inner = renorm_const(inner, ui, d, rng)
            r = T.cast('trunc', T.binop('lshr', inner, x.args[0].args[1], x.args[0].ty), x.attr[0], x.attr[1])
        elif not x.args:
            r = x
        else:
            na = tuple(rec(a) for a in x.args)
            r = x if all(p is q for p, q in zip(na, x.args)) else T.rebuild(x, na)
        memo[x.id] = r
        return r
    return rec(n)

def classify(leaf, ev):
    """shape of an exit value: 'zero', 'inf', 'nan', 'arith'"""
    try:
        av = ev.ev(leaf)
    except B.NotBits:
        return 'arith', None
    low = av.bits[:15]
    if all(b == 0 for b in low): return 'zero', av
    if low[10:15] == [1] * 5 and all(b == 0 for b in low[:10]): return 'inf', av
    if low[10:15] == [1] * 5: return 'nan', av
    return 'arith', av

def check_f2h(rep, S, tag, where):
    ret = hoist(S.ret())
    ui = magnitude_node(ret)
    word = None
    # the 32-bit word: bitcast of the float argument
    if ui is not None:
        for a in ui.args:
            if a.op == 'bitcast': word = a
    if ui is None or word is None:
        rep.ob(tag + 'partition', 'R01.part', UNDECIDED, 'cannot find the magnitude word ui = bits & 0x7fffffff in the comparisons', where); return
    evw = B.Evaluator(word, 32)
    uiv = evw.ev(ui)
    if uiv.bits != [('in', i) for i in range(31)] + [0]:
        rep.ob(tag + 'partition', 'R01.part', VIOLATED, 'the compared word is not the magnitude (bits & 0x7fffffff): %r' % uiv, where); return
    lv = T.leaves(ret, 4096)
    regions = {'zero': [], 'inf': [], 'nan': [], 'arith': []}
    sign_bad = None
    nan_bad = None
    rne = None
    sub_leaves = []
    normal_ivs = []
    for lits, leaf in lv:
        ivs, other = interval_of(lits, ui)
        if not ivs: continue
        rg = {ui.id: (ivs[0][0], ivs[-1][1])}
        ev = B.Evaluator(word, 32, ranges=rg)
        leaf = low_demand_rewrite(leaf, word, ui, rg[ui.id])
        kind, av = classify(leaf, ev)
        regions[kind] += ivs
        # R01.sign
        if av is None or av.bits[15] != ('in', 31):
            if sign_bad is None:
                sign_bad = 'exit reached by magnitudes [%#x,%#x] has result bit 15 = %s (expected input bit 31): %s' % (ivs[0][0], ivs[-1][1], None if av is None else av.bits[15], T.show(leaf, 4)[:200])
        if kind == 'nan':
            e = check_nan_leaf(leaf, ev, word)
            if e and nan_bad is None: nan_bad = e
        if kind == 'arith' and ivs[0][0] >= 0x38800000:
            rne = check_rne_normal(leaf, ev, ui, word, ivs)
            normal_ivs = ivs
        if kind == 'arith' and ivs[-1][1] < 0x38800000:
            sub_leaves.append((lits, leaf, ivs))
    def merged(l):
        l = sorted(l); out = []
        for a, b in l:
            if out and a <= out[-1][1] + 1: out[-1] = (out[-1][0], max(out[-1][1], b))
            else: out.append((a, b))
        return out
    Z = (0, 0x33000000); I = (0x477ff000, 0x7f800000); N = (0x7f800001, 0x7fffffff)
    def inside(l, R): return all(R[0] <= a and b <= R[1] for a, b in l)
    def fmt(l): return ', '.join('[%#010x,%#010x]' % x for x in l)
    z, i, n, ar = (merged(regions[k]) for k in ('zero', 'inf', 'nan', 'arith'))
    bad = None
    if not inside(z, Z): bad = 'signed-zero exit is reached by magnitudes %s; only magnitudes <= 2^-25 (%#x) may flush to zero' % (fmt(z), Z[1])
    elif not inside(i, I): bad = 'infinity exit is reached by magnitudes %s; only magnitudes >= 65520 (%#x) may become infinity' % (fmt(i), I[0])
    elif not inside(n, N): bad = 'NaN-shaped exit is reached by magnitudes %s outside the NaN range' % fmt(n)
    elif n != [N]: bad = 'NaN inputs %s: only %s reach a NaN-shaped exit' % (fmt([N]), fmt(n))
    total = sum(b - a + 1 for l in (z, i, n, ar) for a, b in l)
    if not bad and total != 1 << 31:
        bad = 'the exits cover %d of the 2^31 magnitudes' % total
    if bad:
        rep.ob(tag + 'partition', 'R01.part', VIOLATED, bad, where)
    else:
        cov = sum(b - a + 1 for l in (z, i, n) for a, b in l)
        # magnitudes of I served by the normal-range arithmetic exit are still decided when that exit is
        # round-to-nearest-even and stays below 0x47800000 (kept bits <= 0x7bff, so a carry gives exactly 0x7c00)
        i_eff = i
        if rne is not None and rne[0] is None:
            extra = [(max(a, I[0]), min(b, 0x477fffff)) for a, b in normal_ivs if a <= 0x477fffff and b >= I[0]]
            i_eff = merged(i + [x for x in extra if x[0] <= x[1]])
        if z != [Z] or i_eff != [I]:
            rep.ob(tag + 'partition', 'R01.part', UNDECIDED, 'magnitudes of the zero/infinity regions are routed to an arithmetic exit: zero %s, inf %s' % (fmt(z), fmt(i)), where)
        else:
            rep.ob(tag + 'partition', 'R01.part', HOLDS, 'zero %s, infinity %s, NaN %s, arithmetic %s' % (fmt(z), fmt(i), fmt(n), fmt(ar)), where,
                   sample='float->half exits: zero %s inf %s nan %s arithmetic %s (%d of 2^31 magnitudes decided by constant exits)' % (fmt(z), fmt(i), fmt(n), fmt(ar), cov))
            rep.extra[tag + 'magnitudes_decided_by_constant_exits'] = cov
    rep.ob(tag + 'sign', 'R01.sign', VIOLATED if sign_bad else HOLDS, sign_bad or 'bit 15 = input bit 31 on all %d exits' % len(lv), where)
    rep.ob(tag + 'nan', 'R01.nan', VIOLATED if nan_bad else (HOLDS if n else UNDECIDED), nan_bad or 'sign | 0x7c00 | bits[22:13] | (bits[22:13] == 0)', where)
    e = check_rne_subnormal(sub_leaves, ui, word)
    rep.ob(tag + 'rne-subnormal', 'R01.rne', VIOLATED if e[0] else HOLDS, e[0] or e[1], where)
    if rne is None:
        rep.ob(tag + 'rne-normal', 'R01.rne', UNDECIDED, 'no arithmetic exit for the normal range found', where)
    else:
        rep.ob(tag + 'rne-normal', 'R01.rne', VIOLATED if rne[0] else HOLDS, rne[0] or rne[1], where)

def check_nan_leaf(leaf, ev, word):
    # leaf = or(X, zext(M == 0)) with X = sign|0x7c00|M, M = bits[22:13]
    def strip(x):
        while x.op in ('trunc', 'zext') and x.args[0].ty != 'i1': x = x.args[0]
        return x
    parts = []
    def flat(x):
        x = strip(x)
        if x.op == 'or':
            for a in x.args: flat(a)
        else: parts.append(x)
    flat(leaf)
    flag = [p for p in parts if (p.op == 'zext' and p.args[0].ty == 'i1') or (p.op == 'ite' and p.ty != 'i1')]
    rest = [p for p in parts if p not in flag]
    acc = B.const(32, 0)
    try:
        for p in rest:
            v = ev.ev(p)
            acc = B.bor(acc, B.zext(v, 32) if v.w < 32 else v)
    except B.NotBits as e:
        return 'NaN exit: %s' % e
    want = [('in', 13 + i) for i in range(10)] + [1] * 5
    got = acc.bits[:15]
    # the sign bit may come through a different part; low 15 bits must be payload|0x7c00
    if got != want:
        return 'NaN exit keeps %r, expected 0x7c00 | bits[22:13]' % acc
    if len(flag) != 1:
        return 'NaN exit has no "payload became zero" correction (found %d candidate terms)' % len(flag)
    f = flag[0]
    c = f.args[0]
    if f.op == 'ite':
        c = f.args[0]
    if not (c.op == 'icmp' and c.attr == 'eq' and c.args[1].op == 'const' and c.args[1].attr[1] == 0 or c.op == 'icmp' and c.attr == 'ult'):
        return 'NaN exit correction condition is %s, expected (bits[22:13] == 0)' % T.show(c, 3)
    try:
        mv = ev.ev(c.args[0])
    except B.NotBits as e:
        return 'NaN exit: %s' % e
    nz = [b for b in mv.bits if b != 0]
    if c.attr == 'eq':
        if nz != [('in', 13 + i) for i in range(10)]:
            return 'NaN exit tests %r == 0, expected the ten payload bits bits[22:13]' % mv
    else:
        # (ui & 0x7fffff) < 0x2000 is the same test
        k = c.args[1].attr[1] if c.args[1].op == 'const' else None
        if not (k == 0x2000 and [b for b in mv.bits if b != 0] == [('in', i) for i in range(23)]):
            return 'NaN exit correction condition is %s' % T.show(c, 3)
    return None

def check_rne_normal(leaf, ev, ui, word, ivs):
    """leaf = sign | trunc16( (u + c + ((u >> k) & 1)) >> k ),  u = ui + rebias"""
    def strip(x):
        while x.op in ('trunc', 'zext'): x = x.args[0]
        return x
    parts = []
    def flat(x):
        x = strip(x)
        if x.op == 'or':
            for a in x.args: flat(a)
        else: parts.append(x)
    flat(leaf)
    sh = [p for p in parts if p.op == 'lshr' and p.args[1].op == 'const']
    if len(sh) != 1:
        return ('normal-range exit is not sign | (rounded >> 13): %s' % T.show(leaf, 4)[:300], None)
    k = sh[0].args[1].attr[1]
    if k != 13:
        return ('normal-range exit shifts by %d, the binary32->binary16 significand difference is 13' % k, None)
    # flatten the sum
    terms = []
    def fsum(x):
        if x.op == 'add':
            for a in x.args: fsum(a)
        else: terms.append(x)
    fsum(sh[0].args[0])
    consts = [t for t in terms if t.op == 'const']
    c = sum(t.attr[1] for t in consts) & 0xffffffff
    non = [t for t in terms if t.op != 'const']
    # identify u (contains ui), and the lsb term (and (lshr u' 13) 1)
    lsb = [t for t in non if t.op == 'and' and any(a.op == 'const' and a.attr[1] == 1 for a in t.args)]
    base = [t for t in non if t not in lsb]
    if len(base) != 1 or not (base[0] is ui or base[0] is word):
        return ('rounded quantity is not the magnitude word plus constants (%s)' % [T.show(t, 3) for t in non], None)
    # c = rebias + rounding constant; rebias must be a multiple of 2^13 so that the low field is untouched
    rc = c & 0x1fff
    rebias = (c - rc) & 0xffffffff
    demanded = 16 + k
    if (rebias - (0x100000000 - 0x38000000)) % (1 << demanded) != 0:
        return ('exponent rebias constant is %#x, expected -(112 << 23) = %#x modulo 2^%d' % (rebias, 0x100000000 - 0x38000000, demanded), None)
    if len(lsb) != 1:
        return ('no "+ lsb" tie-breaking term: ties are not rounded to even (terms %s)' % [T.show(t, 3) for t in non], None)
    # the lsb term must be bit 13 of u (= bit 13 of ui, since the rebias has zero low 23 bits)
    l = lsb[0]
    inner = [a for a in l.args if not (a.op == 'const')][0]
    ev2 = B.Evaluator(word, 32)
    try:
        lv = ev2.ev(T.binop('and', inner, T.const_int(32, 1), 'i32'))
    except B.NotBits as e:
        return ('tie term: %s' % e, None)
    if lv.bits[0] != ('in', 13) and not _is_bit13_of_rebiased(inner, ui):
        return ('tie term is %r, expected bit 13 of the rebiased word (the result\'s least significant bit)' % lv, None)
    # threshold reasoning on L = u mod 2^13, b = bit 13:  round up iff L + rc + b >= 2^13
    half = 1 << 12
    for b in (0, 1):
        thr = (1 << 13) - rc - b             # smallest L that rounds up
        want = half + 1 if b == 0 else half  # RNE: up iff L > half, or L == half and odd
        if thr != want:
            return ('with result lsb %d the value rounds up from remainder %#x; round-to-nearest-even requires %#x (rounding constant %#x)' % (b, thr, want, rc), None)
    if ivs[0][0] < 0x38800000 or ivs[-1][1] > 0x477fffff:
        return ('the normal-range rounding expression is applied to magnitudes [%#x,%#x]; it is exact round-to-nearest-even only on [0x38800000,0x477fffff]' % (ivs[0][0], ivs[-1][1]), None)
    return (None, 'u = ui - (112<<23); (u + 0xfff + bit13(u)) >> 13 rounds up iff remainder > 0x1000 or (== 0x1000 and lsb odd): RNE for all %d magnitudes of [%#x,%#x]' % (ivs[-1][1] - ivs[0][0] + 1, ivs[0][0], ivs[-1][1]))

def check_rne_subnormal(sub_leaves, ui, word):
    """Subnormal results.  For every value e of the exponent field that reaches these exits (a finite
    configuration enumeration) the shift s = 126 - e is a constant, and with it:
      Q = m >> s (kept bits), r = m << (32 - s) = remainder R left-aligned in 32 bits,
      result = sign | Q, incremented iff  r > 2^31  or  (r == 2^31 and Q odd).
    Left-alignment is monotone, so r > 2^31 <=> R > half unit, r == 2^31 <=> tie: round to nearest even."""
    if not sub_leaves:
        return ('no exit for the subnormal range found', None)
    lo = min(iv[0][0] for _, _, iv in sub_leaves); hi = max(iv[-1][1] for _, _, iv in sub_leaves)
    if (lo, hi) != (0x33000001, 0x387fffff):
        return ('subnormal exits are reached by [%#x,%#x], expected (2^-25, 2^-14) = [0x33000001,0x387fffff]' % (lo, hi), None)
    ncell = 0
    for e in range(lo >> 23, (hi >> 23) + 1):
        s_expected = 126 - e
        fixed = dict((23 + i, (e >> i) & 1) for i in range(8))
        ev = B.Evaluator(word, 32, fixed=fixed)
        mbits = [('in', i) for i in range(23)] + [1]
        want_r = [0] * (32 - s_expected) + mbits[:s_expected]
        want_q = mbits[s_expected:] + [0] * (16 - len(mbits[s_expected:]))
        want_q = want_q[:15] + [('in', 31)]
        # classify the conditions of the decision structure under this cell
        def cls(c):
            if c.op != 'icmp': return None
            a, b = c.args
            try:
                av, bv = ev.ev(a), ev.ev(b)
            except B.NotBits:
                return None
            if av.known() and bv.known():
                x, y = av.value(), bv.value()
                return ('const', {'ult': x < y, 'eq': x == y, 'slt': x < y}[c.attr])
            def is_r(v): return v.bits == want_r
            def is_half(v): return v.known() and v.value() == 1 << 31
            if c.attr == 'ult' and is_half(av) and is_r(bv): return ('GT',)
            if c.attr == 'ult' and is_r(av) and is_half(bv): return ('LT',)
            if c.attr == 'eq' and ((is_r(av) and is_half(bv)) or (is_r(bv) and is_half(av))): return ('EQ',)
            if c.attr == 'slt' and is_r(av) and bv.known() and bv.value() == 0: return ('GE',)   # r <s 0  <=> r >= 2^31
            # parity of the kept bits
            for v, o in ((av, bv), (bv, av)):
                if o.known() and o.value() in (0, 1):
                    nz = [(i, x) for i, x in enumerate(v.bits) if x != 0]
                    if len(nz) == 1 and nz[0][0] == 0 and nz[0][1] == (mbits[s_expected] if s_expected < 24 else 0):
                        return ('ODD_IS', o.value()) if c.attr == 'eq' else None
                    if not nz and c.attr == 'eq':
                        return ('const', o.value() == 0)
            return None
        for R_state in ('lt', 'eq', 'gt'):
            for odd in ((False, True) if s_expected < 23 else ((True,) if s_expected == 23 else (False,))):   # bit s of 1.m is the implicit 1 for s = 23, absent for s = 24
                # evaluate which leaf is selected
                chosen = None
                for lits, leaf, ivs in sub_leaves:
                    if not any(a <= (e << 23) | 1 <= b or a <= (e << 23) <= b or (a >> 23) <= e <= (b >> 23) for a, b in ivs): continue
                    ok = True
                    for c, v in lits:
                        if c.op == 'icmp' and (c.args[0] is ui or c.args[1] is ui): continue
                        k = cls(c)
                        if k is None:
                            return ('condition %s of the subnormal path is not a comparison of the left-aligned remainder with 2^31 nor a parity test of the kept bits (exponent field %#x)' % (T.show(c, 3)[:160], e), None)
                        if k[0] == 'const': t = k[1]
                        elif k[0] == 'GT': t = R_state == 'gt'
                        elif k[0] == 'LT': t = R_state == 'lt'
                        elif k[0] == 'EQ': t = R_state == 'eq'
                        elif k[0] == 'GE': t = R_state in ('eq', 'gt')
                        elif k[0] == 'ODD_IS': t = (odd == bool(k[1]))
                        if t != v: ok = False; break
                    if ok:
                        chosen = leaf; break
                if chosen is None:
                    return ('no exit selected for exponent field %#x, remainder %s half, kept bits %s' % (e, R_state, 'odd' if odd else 'even'), None)
                # the leaf is Q or Q + 1
                inc = False; q = chosen
                if q.op == 'add' and any(a.op == 'const' and a.attr[1] == 1 for a in q.args):
                    inc = True; q = [a for a in q.args if not (a.op == 'const' and a.attr[1] == 1)][0]
                try:
                    qv = ev.ev(q)
                except B.NotBits as ex:
                    return ('subnormal result: %s' % ex, None)
                if qv.bits != want_q:
                    return ('for exponent field %#x the truncated result is %r, expected sign | (1.m >> %d)' % (e, qv, s_expected), None)
                want_inc = R_state == 'gt' or (R_state == 'eq' and odd)
                if inc != want_inc:
                    return ('for exponent field %#x (shift %d), remainder %s half a unit and kept bits %s, the result is %s; round-to-nearest-even requires %s' %
                            (e, s_expected, {'lt': 'below', 'eq': 'exactly', 'gt': 'above'}[R_state], 'odd' if odd else 'even', 'incremented' if inc else 'truncated', 'increment' if want_inc else 'truncation'), None)
                ncell += 1
    return (None, 'all %d cells (11 exponent fields x remainder <,=,> half x parity): result = sign | (1.m >> (126-e)) + [R > half or (R == half and odd)]' % ncell)

def _is_bit13_of_rebiased(inner, ui):
    # (ui + rebias) >> 13 : rebias has zero low 23 bits, so bit 13 is ui's bit 13
    x = inner
    if x.op == 'lshr' and x.args[1].op == 'const' and x.args[1].attr[1] == 13:
        y = x.args[0]
        if y is ui: return True
        if y.op == 'add' and any(a is ui for a in y.args) and any(a.op == 'const' and a.attr[1] & 0x7fffff == 0 for a in y.args): return True
    return False

def main(rep, ws, tier):
    ws.configure()
    check_table(rep, ws)
    check_no_store(rep, ws)
    # the two C functions, compiled as C (the pinned build's configuration: lookup table on)
    modc = ws.module('c01_c', C_SRC, lang='c', prefixes=('w_',))
    I = vg.Interp(modc)
    where_f2h = 'src/Imath/half.h (imath_float_to_half)'
    try:
        S = I.run('w_f2h')
        check_f2h(rep, S, 'float_to_half::', where_f2h)
    except vg.Unsupported as e:
        rep.ob('float_to_half::partition', 'R01.part', UNDECIDED, str(e), where_f2h)
    try:
        S = I.run('w_h2f')
        r = S.ret()
        ok = False
        # load float, table_ptr + 4*zext(h)
        if r.op == 'sel' and r.args[1].op == 'mul' or r.op == 'sel':
            off = r.args[1]
            memn = r.args[0]
            idx_ok = False
            if off.op == 'mul':
                a, b = off.args
                for x, y in ((a, b), (b, a)):
                    if y.op == 'const' and y.attr[1] == 4 and x.op == 'zext' and x.args[0].op == 'arg': idx_ok = True
            base_ok = memn.op == 'mem0' and memn.attr[0] == 'sym'
            ptr_src = None
            if base_ok:
                pn = memn.args[0]
                ptr_src = pn
                base_ok = pn.op == 'in' and pn.attr[0] == 'g:imath_half_to_float_table' and pn.attr[1] == 0
            ok = idx_ok and base_ok
        rep.ob('half_to_float::table-branch', 'R01.table', HOLDS if ok else VIOLATED, 'value graph is exactly imath_half_to_float_table[h]' if ok else 'value graph is %s, expected table[h] with nothing added, masked or re-indexed' % T.show(r, 5)[:300],
               'src/Imath/half.h (imath_half_to_float)')
    except vg.Unsupported as e:
        rep.ob('half_to_float::table-branch', 'R01.table', UNDECIDED, str(e))
    # C++ forwarding
    modp = ws.module('c01_cpp', CPP_SRC, opaque=build.HALF_OPAQUE)
    Ip = vg.Interp(modp)
    f2h = [n for n in Ip.funcs if 'imath_float_to_half' in n]; h2f = [n for n in Ip.funcs if 'imath_half_to_float' in n]
    def fwd(name, expect_callee, argnode, outsz, outty, what):
        try:
            S = Ip.run(name)
        except vg.Unsupported as e:
            rep.ob('half::' + what, 'R01.fwd', UNDECIDED, str(e)); return
        o = S.out('a0', 0, outsz, outty)
        ok = o.op == 'call' and expect_callee in o.attr and len(o.args) == 1 and o.args[0] is argnode
        rep.ob('half::' + what, 'R01.fwd', HOLDS if ok else VIOLATED, '' if ok else 'computes %s, expected %s(argument) unchanged' % (T.show(o, 4)[:200], expect_callee), 'src/Imath/half.h (%s)' % what,
               sample='half::%s = %s' % (what, T.show(o, 3)))
    fwd('w_ctor', 'imath_float_to_half', T.inp('a1', 0, 4, 'float'), 2, 'i16', 'half(float)')
    fwd('w_assign', 'imath_float_to_half', T.inp('a1', 0, 4, 'float'), 2, 'i16', 'operator=(float)')
    fwd('w_cast', 'imath_half_to_float', T.inp('a1', 0, 2, 'i16'), 4, 'float', 'operator float')
    for name, what in (('w_bits', 'bits()'), ('w_setbits', 'setBits()')):
        try:
            S = Ip.run(name)
            o = S.out('a0', 0, 2, 'i16')
            ok = o is T.inp('a1', 0, 2, 'i16')
            rep.ob('half::' + what, 'R01.fwd', HOLDS if ok else VIOLATED, '' if ok else 'is %s' % T.show(o, 3), 'src/Imath/half.h (%s)' % what, nontrivial=False)
        except vg.Unsupported as e:
            rep.ob('half::' + what, 'R01.fwd', UNDECIDED, str(e))
    # the hardware back-end: the conversion instruction itself is IEEE round-to-nearest-even only with the right immediate
    if not getattr(rep, '_c01_from_c02', False):
        try:
            from . import c02
            c02.check_f16c(rep, c02.f16c_graphs(ws), 'src/Imath/half.h', rule='R01.f16c')
            c02.env_rule_software(rep, ws, 'R01.env')
            c02.fpexc_rule(rep, ws, 'R01.fpexc')
        except (build.BuildError, vg.Unsupported) as e:
            rep.ob('vcvtps2ph immediate', 'R01.f16c', UNDECIDED, str(e)[:300])
    rep.floor('table entries compared', rep.extra.get('table_entries_checked', 0), 65536)
    rep.assumptions += ['configuration of the pinned build: IMATH_HALF_USE_LOOKUP_TABLE on, no F16C', 'binary32/binary16 format parameters are the reference (p = 24/11, emax = 127/15)']
    rep.undecided_clauses += ['no-table back-end and the agreement of the back-ends (see C02); for F16C only the rounding immediate and the operands are decided', 'half->float->half identity is derived from the two decided directions, not extracted as one graph']
