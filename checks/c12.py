"""C12 - matrix factorisations recompose to their input with structured factors (decided part).

R12.recompose  sansScaling / removeScaling (3-D and 2-D), with extractSHRT opaque (its out-parameters are
               atoms), return Shear(shr) * Rotation(rot) * Translation(tran) built from the documented set*
               matrices (C09); on extraction failure the input matrix / false is returned
R12.ss         sansScalingAndShear / removeScalingAndShear return the matrix left by
               extractAndRemoveScalingAndShear (rotation*translation), the input on failure
R12.rs         computeRSMatrix = Scale(as|bs) * Rotation(ar|br) * Translation(at) per the flags; degenerate A or B throws
R12.gs         extractAndRemoveScalingAndShear: diag(scl) * Shear(shr) * R == input rows, R orthonormal with det +1
               (Gram-Schmidt identity at a generic point, both determinant signs), 3-D and 2-D
R12.zero       extractAndRemoveScalingAndShear (4x4 and 3x3): every value a row or shear is divided by is the value
               tested by the zero-scale guard (checkForZeroScaleInRow inlined: |scl| < 1 ...)
R12.jacobi     one Jacobi rotation (3x3 and 4x4 eigen solvers): rho = mu1/mu2 only behind the strict test |mu2| > tol*|mu1|
R12.sweep      every sweep of jacobiSVD / jacobiEigenSolver (3x3, 4x4) rotates every index pair (call sites of the drivers)
R12.offdiag    maxOffDiag / maxOffDiagSymm cover every off-diagonal entry (one of (i,j),(j,i) for the symmetric one), no diagonal
               entry, and equal |x| on a one-entry matrix
R12.eigsel     min/maxEigenVector return the eigenbasis column of a smallest / largest-magnitude eigenvalue on every sign and
               magnitude-order pattern of the eigenvalues (solver opaque)
R12.shrt       extractSHRT: translation = last row; rotation angles = extractEulerXYZ of the orthonormalised matrix
"""
import os
from fractions import Fraction
from engine import term as T, agg, build, vg, poly as P, polycheck as PC
from engine.agg import ELEM, TU
from engine.report import HOLDS, VIOLATED, UNDECIDED
from .common import Analysed, fn_where, narrowing
from .c05 import matmul, sum_p, ONE
from .c09 import ortho_check

def gen_opaque(t):
    E = ELEM[t][0]
    M4 = 'Matrix44<%s>' % E; M3 = 'Matrix33<%s>' % E
    tu = TU('c12o_' + t, opaque=('extractSHRT', 'extractAndRemoveScalingAndShear', 'extractEulerXYZ', '12extractEuler'))
    a = tu.add
    a('w_sans44', '%s& o, const %s& m' % (M4, M4), 'o = sansScaling(m, false);', d=4, k='recompose')
    a('w_remove44', 'bool& r, %s& m' % M4, 'r = removeScaling(m, false);', d=4, k='recompose_ip')
    a('w_sans33', '%s& o, const %s& m' % (M3, M3), 'o = sansScaling(m, false);', d=3, k='recompose')
    a('w_remove33', 'bool& r, %s& m' % M3, 'r = removeScaling(m, false);', d=3, k='recompose_ip')
    a('w_sansSS44', '%s& o, const %s& m' % (M4, M4), 'o = sansScalingAndShear(m, false);', d=4, k='ss')
    a('w_sansSS33', '%s& o, const %s& m' % (M3, M3), 'o = sansScalingAndShear(m, false);', d=3, k='ss')
    a('w_removeSS44', 'bool& r, %s& m' % M4, 'r = removeScalingAndShear(m, false);', d=4, k='ss_ip')
    a('w_removeSS33', 'bool& r, %s& m' % M3, 'r = removeScalingAndShear(m, false);', d=3, k='ss_ip')
    for ka in (0, 1):
        for ks in (0, 1):
            a('w_rs_%d%d' % (ka, ks), '%s& o, const %s& A, const %s& B' % (M4, M4, M4), 'o = computeRSMatrix(%s, %s, A, B);' % ('true' if ka else 'false', 'true' if ks else 'false'), k='rs', ka=ka, ks=ks)
    return tu

def returned_flag(S, ok_c, success_when_true):
    """in-place forms return a flag: true exactly when the extraction succeeded (a degenerate matrix is *reported*)"""
    rv = S.out('a0', 0, 1, 'i8')
    def val(x):
        if x is T.TRUE: return 1
        if x is T.FALSE: return 0
        if x.op == 'const': return x.attr[1] & 1
        return None
    rs, rf = T.resolve(rv, {ok_c: bool(success_when_true)}), T.resolve(rv, {ok_c: not success_when_true})
    if val(rs) != 1: return 'the flag returned after a successful extraction is %s, not true' % T.show(rs, 3)[:80]
    if val(rf) != 0: return 'the flag returned after a failed extraction is %s, not false: a degenerate (zero-scale) matrix is not reported to the caller' % T.show(rf, 3)[:80]
    return None

def gen_shrt(t, orders=()):
    E = ELEM[t][0]
    M4 = 'Matrix44<%s>' % E
    tu = TU('c12s_' + t, opaque=('extractAndRemoveScalingAndShear', 'extractEulerXYZ'))
    tu.add('w_shrt44', 'bool& r, const %s& m, Vec3<%s>& s, Vec3<%s>& h, Vec3<%s>& ro, Vec3<%s>& tr' % (M4, E, E, E, E), 'r = extractSHRT(m, s, h, ro, tr, false);', k='shrt', d=4)
    # the rotation-order overload: the angles returned are those of the requested order (XYZ layout)
    Eu = 'Euler<%s>' % E
    for o in orders:
        tu.add('w_shrtO_' + o, 'bool& r, const %s& m, Vec3<%s>& s, Vec3<%s>& h, Vec3<%s>& ro, Vec3<%s>& tr' % (M4, E, E, E, E), 'r = extractSHRT(m, s, h, ro, tr, false, %s::%s);' % (Eu, o), k='shrtO', d=4, order=o)
        tu.add('w_eulm_' + o, 'Matrix33<%s>& m, const Vec3<%s>& a' % (E, E), '%s e(a, %s::%s, %s::XYZLayout); m = e.toMatrix33();' % (Eu, Eu, o, Eu), k='aux', d=3)
    tu.add('w_eulm_XYZ', 'Matrix33<%s>& m, const Vec3<%s>& a' % (E, E), '%s e(a, %s::XYZ); m = e.toMatrix33();' % (Eu, Eu), k='aux', d=3)
    return tu

SHRT_ORDERS_QUICK = ('YZX', 'ZYX', 'XYX')
SHRT_ORDERS_ALL = ('XZY', 'YZX', 'YXZ', 'ZXY', 'ZYX', 'XZX', 'XYX', 'YXY', 'YZY', 'ZYZ', 'ZXZ', 'XYZr', 'XZYr', 'YZXr', 'YXZr', 'ZXYr', 'ZYXr', 'XZXr', 'XYXr', 'YXYr', 'YZYr', 'ZYZr', 'ZXZr')

def gen_inline(t):
    E = ELEM[t][0]
    M4 = 'Matrix44<%s>' % E; M3 = 'Matrix33<%s>' % E
    tu = TU('c12i_' + t)
    tu.add('w_gs44', 'bool& r, %s& m, Vec3<%s>& s, Vec3<%s>& h' % (M4, E, E), 'r = extractAndRemoveScalingAndShear(m, s, h, false);', d=4)
    tu.add('w_gs33', 'bool& r, %s& m, Vec2<%s>& s, %s& h' % (M3, E, E), 'r = extractAndRemoveScalingAndShear(m, s, h, false);', d=3)
    tu.add('w_czs3', 'bool& r, const %s& s, const Vec3<%s>& row' % (E, E), 'r = checkForZeroScaleInRow(s, row, false);', d=0, n=3)
    tu.add('w_czs2', 'bool& r, const %s& s, const Vec2<%s>& row' % (E, E), 'r = checkForZeroScaleInRow(s, row, false);', d=0, n=2)
    return tu

def gen_jacobi(t):
    """one Jacobi rotation of the eigen solvers (file-local templates of ImathMatrixAlgo.cpp, reached by including the .cpp)"""
    E = ELEM[t][0]
    hdr = '#include "%s"\nusing namespace IMATH_INTERNAL_NAMESPACE;\n' % os.path.join(build.REPO, 'src', 'Imath', 'ImathMatrixAlgo.cpp')
    tu = TU('c12j_' + t, header=hdr)
    tu.add('w_jac33', 'bool& r, Matrix33<%s>& A, Matrix33<%s>& V, Vec3<%s>& Z, const %s& tol' % (E, E, E, E), 'r = jacobiRotation<0, 1, 2>(A, V, Z, tol);', d=3)
    tu.add('w_jac44', 'bool& r, Matrix44<%s>& A, Matrix44<%s>& V, Vec4<%s>& Z, const %s& tol' % (E, E, E, E), 'r = jacobiRotation<0, 1, 2, 3>(A, V, Z, tol);', d=4)
    return tu

def gen_measure(t):
    """the convergence measures of the Jacobi solvers (file-local)"""
    E = ELEM[t][0]
    hdr = '#include "%s"\nusing namespace IMATH_INTERNAL_NAMESPACE;\n' % os.path.join(build.REPO, 'src', 'Imath', 'ImathMatrixAlgo.cpp')
    tu = TU('c12m_' + t, header=hdr)
    for d in (3, 4):
        tu.add('w_off%d' % d, '%s& r, const Matrix%d%d<%s>& A' % (E, d, d, E), 'r = maxOffDiag(A);', d=d, symm=False)
        tu.add('w_offsym%d' % d, '%s& r, const Matrix%d%d<%s>& A' % (E, d, d, E), 'r = maxOffDiagSymm(A);', d=d, symm=True)
    return tu

SWEEP_OPAQUE = ('twoSidedJacobiRotation', '14jacobiRotation', '10maxOffDiagI', '14maxOffDiagSymm', '12makeIdentity')
def gen_sweep(t):
    """the public Jacobi drivers with the single rotations and the measures left as calls: which index pairs a sweep visits"""
    E = ELEM[t][0]
    hdr = '#include "%s"\nusing namespace IMATH_INTERNAL_NAMESPACE;\n' % os.path.join(build.REPO, 'src', 'Imath', 'ImathMatrixAlgo.cpp')
    tu = TU('c12w_' + t, header=hdr, opaque=SWEEP_OPAQUE)
    for d, V in ((3, 'Vec3'), (4, 'Vec4')):
        M = 'Matrix%d%d<%s>' % (d, d, E)
        tu.add('w_svd%d' % d, 'const %s& A, %s& U, %s<%s>& S, %s& V, const %s& tol' % (M, M, V, E, M, E), 'jacobiSVD(A, U, S, V, tol, false);', d=d, kind='svd')
        tu.add('w_eig%d' % d, '%s& A, %s<%s>& S, %s& V, const %s& tol' % (M, V, E, M, E), 'jacobiEigenSolver(A, S, V, tol);', d=d, kind='eig')
    return tu

def gen_eigsel(t):
    """min/maxEigenVector with the eigen solver left as a call: which column of the eigenbasis is returned"""
    E = ELEM[t][0]
    hdr = '#include "%s"\nusing namespace IMATH_INTERNAL_NAMESPACE;\n' % os.path.join(build.REPO, 'src', 'Imath', 'ImathMatrixAlgo.cpp')
    tu = TU('c12e_' + t, header=hdr, opaque=('17jacobiEigenSolver',))
    for d in (3, 4):
        for which in ('max', 'min'):
            tu.add('w_%sev%d' % (which, d), 'Matrix%d%d<%s>& A, Vec%d<%s>& V' % (d, d, E, d, E), '%sEigenVector(A, V);' % which, d=d, which=which)
    return tu

def check_jacobi_rotation(S, d, t):
    """R12.jacobi (rotation): on the rotating path, in each of the cells rho > 0, rho < 0 and rho == 0 (equal diagonal
    entries, the 45-degree rotation), with x = A[j][j], y = A[j][k], z = A[k][k], rho = (z-x)/(2y) and
    t := (x - A'[j][j]) / y:
      t^2 + 2 rho t - 1 = 0                 (the tangent that annihilates A[j][k]),
      A'[k][k] = z + t y, A'[j][k] = 0, Z'[j] = Z[j] - t y, Z'[k] = Z[k] + t y,
      every pair (column j, column k) of V and every off-diagonal pair of A is turned by one and the same rotation
      (norms, and the dot and cross products of any two pairs, are preserved) whose tangent is t.
    Returns (error or None, description)."""
    E, sz, lt = ELEM[t]
    j, k = 0, 1
    def A_in(r, c): return agg.slot_in('a1', r * d + c, t)
    def V_in(r, c): return agg.slot_in('a2', r * d + c, t)
    Aout = [[S.out('a1', (r * d + c) * sz, sz, lt) for c in range(d)] for r in range(d)]
    Vout = [[S.out('a2', (r * d + c) * sz, sz, lt) for c in range(d)] for r in range(d)]
    Zout = [S.out('a3', i * sz, sz, lt) for i in range(d)]
    outs = [x for row in Aout for x in row] + [x for row in Vout for x in row] + Zout
    # a comparison used as a number ((a > 0) - (a < 0), the sign idiom) is the conditional it abbreviates
    b2i = {}
    st = list(outs); seen = set()
    while st:
        n = st.pop()
        if n.id in seen: continue
        seen.add(n.id); st.extend(n.args)
        if n.op in ('zext', 'uitofp', 'sext', 'sitofp') and n.args[0].op in ('fcmp', 'icmp'):
            one = 1 if n.op in ('zext', 'uitofp') else -1       # a signed one-bit true is -1
            if n.op in ('zext', 'sext'): b2i[n] = T.ite(n.args[0], T.const_int(int(n.ty[1:]), one), T.const_int(int(n.ty[1:]), 0))
            else: b2i[n] = T.ite(n.args[0], T.fp_from_value(n.ty, float(one)), T.fp_from_value(n.ty, 0.0))
    if b2i:
        memo = {}
        outs = [T.subst(o, b2i, memo) for o in outs]
    x, y, z = A_in(j, j), A_in(j, k), A_in(k, k)
    # rho: the quotient compared with zero / whose magnitude is taken
    rho = None
    for c in P.all_conds(outs[0]):
        if c.op == 'fcmp' and c.args[0].op == 'fdiv' and c.args[1].op == 'const' and T.const_value(c.args[1]) == 0: rho = c.args[0]
        if c.op == 'fcmp' and c.args[1].op == 'fdiv' and c.args[0].op == 'const' and T.const_value(c.args[0]) == 0: rho = c.args[1]
    if rho is None:
        # the quotient whose magnitude enters the tangent
        st = [outs[0]]; seen = set()
        while st and rho is None:
            n = st.pop()
            if n.id in seen: continue
            seen.add(n.id); st.extend(n.args)
            if (n.op == 'absi' or (n.op == 'call' and 'fabs' in str(n.attr))) and n.args[0].op == 'fdiv': rho = n.args[0]
    if rho is None: raise PC.Undecided('rho = mu1/mu2 was not recognised')
    absn = []
    st = list(outs); seen = set()
    while st:
        n = st.pop()
        if n.id in seen: continue
        seen.add(n.id); st.extend(n.args)
        if (n.op == 'absi' or (n.op == 'call' and 'fabs' in str(n.attr))) and n.args[0] is rho: absn.append(n)
    ncell = 0
    for cell in ('rho > 0', 'rho < 0', 'rho == 0'):
        ctx = P.Ctx()
        cur = outs
        if cell == 'rho == 0':
            ctx.lin[ctx.key(z)] = P.patom(ctx.key(x))
        else:
            sub = {a: (rho if cell == 'rho > 0' else T.fneg(rho)) for a in absn}
            memo = {}
            cur = [T.subst(o, sub, memo) for o in cur]
        def premise(c):
            if c.op != 'fcmp': return None
            a, b = c.args
            if c.attr == 'ole' and (a.op == 'absi' or (a.op == 'call' and 'fabs' in str(a.attr))): return False       # the early-out |mu2| <= tol |mu1|: the rotating path
            if cell == 'rho == 0': return None
            pos = cell == 'rho > 0'
            if a is rho and b.op == 'const' and T.const_value(b) == 0:
                return {'olt': not pos, 'ole': not pos, 'ogt': pos, 'oge': pos, 'oeq': False, 'one': True, 'une': True}.get(c.attr)
            if b is rho and a.op == 'const' and T.const_value(a) == 0:
                return {'olt': pos, 'ole': pos, 'ogt': not pos, 'oge': not pos, 'oeq': False, 'one': True, 'une': True}.get(c.attr)
            return None
        for asg, res in PC.generic_cases(cur, ctx, premise=premise):
            ncell += 1
            A2 = [[ctx.rat(res[r * d + c]) for c in range(d)] for r in range(d)]
            V2 = [[ctx.rat(res[d * d + r * d + c]) for c in range(d)] for r in range(d)]
            Z2 = [ctx.rat(res[2 * d * d + i]) for i in range(d)]
            X, Y, Zz = ctx.rat(x), ctx.rat(y), ctx.rat(z)
            def sub_(a, b): return ctx.radd(a, (P.pneg(b[0]), b[1]))
            tt = ctx.rdiv(sub_(X, A2[j][j]), Y)
            rh = ctx.rdiv(sub_(Zz, X), ctx.rmul((P.pconst(2), ONE), Y))
            eq = sub_(ctx.radd(ctx.rmul(tt, tt), ctx.rmul((P.pconst(2), ONE), ctx.rmul(rh, tt))), (P.pconst(1), ONE))
            if not ctx.rzero(eq):
                return 'cell %s: with t = (A[j][j] - A\'[j][j]) / A[j][k] the tangent equation t^2 + 2 rho t - 1 = 0 fails (t = %s): the rotation does not annihilate A[j][k]' % (cell, P.show_rat(tt, ctx)[:120]), None
            h = ctx.rmul(tt, Y)
            if not ctx.requal(A2[k][k], ctx.radd(Zz, h)): return 'cell %s: A\'[k][k] is not A[k][k] + t*A[j][k]' % cell, None
            if not ctx.rzero(A2[j][k]): return 'cell %s: A\'[j][k] is not set to zero' % cell, None
            Zi = [ctx.rat(agg.slot_in('a3', i, t)) for i in range(d)]
            if not ctx.requal(Z2[j], sub_(Zi[j], h)) or not ctx.requal(Z2[k], ctx.radd(Zi[k], h)): return 'cell %s: Z[j] -= t*y / Z[k] += t*y' % cell, None
            # pairs turned by the rotation: (V[i][j], V[i][k]) for every row, and the off-diagonal pairs of the upper triangle
            pairs = [((ctx.rat(V_in(i, j)), ctx.rat(V_in(i, k))), (V2[i][j], V2[i][k]), 'V row %d' % i) for i in range(d)]
            for l in range(d):
                if l in (j, k): continue
                pj = (l, j) if l < j else (j, l); pk = (l, k) if l < k else (k, l)
                pairs.append(((ctx.rat(A_in(*pj)), ctx.rat(A_in(*pk))), (A2[pj[0]][pj[1]], A2[pk[0]][pk[1]]), 'A off-diagonal pair with index %d' % l))
            (p0, q0), (p0n, q0n), _ = pairs[0]
            for (p, q), (pn, qn), what in pairs:
                if not ctx.requal(ctx.radd(ctx.rmul(pn, pn), ctx.rmul(qn, qn)), ctx.radd(ctx.rmul(p, p), ctx.rmul(q, q))):
                    return 'cell %s: %s is not turned by a rotation (its norm changes)' % (cell, what), None
                if not ctx.requal(ctx.radd(ctx.rmul(pn, p0n), ctx.rmul(qn, q0n)), ctx.radd(ctx.rmul(p, p0), ctx.rmul(q, q0))) or \
                   not ctx.requal(sub_(ctx.rmul(pn, q0n), ctx.rmul(qn, p0n)), sub_(ctx.rmul(p, q0), ctx.rmul(q, p0))):
                    return 'cell %s: %s is not turned by the same rotation as V row 0' % (cell, what), None
            # the tangent of that rotation: (1, 0) goes to (c, s) with s / c = t
            memo = {}
            one_zero = {V_in(0, j): T.fp_from_value(lt, 1.0), V_in(0, k): T.fp_from_value(lt, 0.0)}
            cq = ctx.rat(T.subst(res[d * d + j], one_zero, memo)); sq = ctx.rat(T.subst(res[d * d + k], one_zero, memo))
            if not ctx.requal(sq, ctx.rmul(tt, cq)):
                return 'cell %s: the rotation applied to V and to the off-diagonal entries has tangent %s, not t' % (cell, P.show_rat(ctx.rdiv(sq, cq), ctx)[:120]), None
    if ncell < 3: return 'only %d of the cells rho > 0, rho < 0, rho == 0 are feasible' % ncell, None
    return None, 'cells rho > 0, rho < 0, rho == 0: t^2 + 2 rho t - 1 = 0, diagonal / Z updates by t*y, A[j][k] = 0, %d pairs turned by one rotation of tangent t' % (2 * d - 2)

def check_procrustes_callsite(rep, ws):
    """R12.procrustes (call-site rule on the IR): both instantiations of procrustesRotationAndTranslation hand their 3x3
    covariance matrix to the double-precision jacobiSVD exactly once, with a tolerance that is a constant not above the
    double epsilon (the accumulation is in double whatever T is: a float-sized tolerance leaves rotations below 1e-7 rad
    undetected) and with forcePositiveDeterminant = true (so that Q = V U^T is a rotation, never a reflection)."""
    import struct
    hdr = '#include "%s"\nusing namespace IMATH_INTERNAL_NAMESPACE;\n' % os.path.join(build.REPO, 'src', 'Imath', 'ImathMatrixAlgo.cpp')
    src = hdr + 'extern "C" {\nvoid w_procf(M44d& o, const V3f* A, const V3f* B, const float* w, const size_t& n, const bool& s) { o = procrustesRotationAndTranslation(A, B, w, n, s); }\nvoid w_procd(M44d& o, const V3d* A, const V3d* B, const double* w, const size_t& n, const bool& s) { o = procrustesRotationAndTranslation(A, B, w, n, s); }\n}\n'
    try:
        bc = ws.compile('c12_procrustes', src)
        mod = ws.irx(bc, opaque=('9jacobiSVD',), prefixes=('w_',), no_unroll=True)
    except build.BuildError as e:
        rep.ob('procrustesRotationAndTranslation#svd', 'R12.procrustes', UNDECIDED, str(e)[:300]); return
    for f in mod['functions']:
        if f['name'] not in ('w_procf', 'w_procd'): continue
        E = 'float' if f['name'] == 'w_procf' else 'double'
        oid = 'procrustesRotationAndTranslation<%s>#svd' % E
        calls = [i for b in f['blocks'] for i in b['insts'] if i.get('op') == 'call' and 'jacobiSVD' in str(i.get('callee', ''))]
        where = None
        if calls: where = '%s:%s (%s)' % (build.repo_rel(calls[0].get('file', '')), calls[0].get('line'), calls[0].get('fn', ''))
        if len(calls) != 1:
            rep.ob(oid, 'R12.procrustes', VIOLATED, '%d calls of jacobiSVD, expected one' % len(calls), where); continue
        c = calls[0]; ops = c.get('ops', [])
        bad = None
        if 'jacobiSVDIdE' not in c['callee'] or 'Matrix33' not in c['callee']:
            bad = 'the covariance matrix is decomposed by %s, expected the double-precision 3x3 jacobiSVD' % c['callee']
        elif len(ops) < 6 or ops[4].get('k') != 'cf':
            bad = 'the tolerance of the SVD is not a constant'
        else:
            tol = struct.unpack('<d', struct.pack('<Q', int(ops[4]['bits'])))[0]
            if not (0 < tol <= 2.0 ** -52):
                bad = 'the tolerance handed to the double-precision SVD is %g; it must not exceed the double epsilon 2^-52 = %g (rotations smaller than the tolerance are treated as already diagonal and dropped)' % (tol, 2.0 ** -52)
            elif not (ops[5].get('k') == 'ci' and int(ops[5]['v']) == 1):
                bad = 'forcePositiveDeterminant is not true: Q = V U^T can then be a reflection'
        rep.ob(oid, 'R12.procrustes', VIOLATED if bad else HOLDS, bad or 'one call of jacobiSVD<double>(Matrix33) with tolerance 2^-52 and forcePositiveDeterminant = true', where)

def check_eigsel(rep, R, tu, t):
    """R12.eigsel: on every weak ordering of the magnitudes |S_i| of the solver's eigenvalues (and of any raw S_i the code
    compares, consistent with S_i <= |S_i|), the vector returned is the column of the eigenbasis belonging to a
    largest-magnitude (smallest-magnitude) eigenvalue"""
    from engine import ordd
    E, sz, lt = ELEM[t]
    for name, m in tu.meta.items():
        d = m['d']; which = m['which']
        oid = '%sEigenVector(Matrix%d%d<%s>)' % (which, d, d, E)
        S = R.get(name)
        if S is None:
            rep.ob(oid, 'R12.eigsel', UNDECIDED, R.err.get(name, 'not analysed')); continue
        where = fn_where(S.fn)
        try:
            outs = [S.out('a1', k * sz, sz, lt) for k in range(d)]
            call = find_call(outs[0], 'jacobiEigenSolver')
            if call is None:
                rep.ob(oid, 'R12.eigsel', UNDECIDED, 'the call of jacobiEigenSolver was not found in the result', where); continue
            ptrs = [i for i, a in enumerate(call.args) if a.ty != 'mem' and a.ty.startswith('ptr') or a.ty == 'ptr']
            # pointer arguments in order: A, S, MV
            pidx = [i for i, a in enumerate(call.args) if str(a.ty).startswith('ptr') or a.op in ('arg', 'local', 'alloca')]
            cand = None
            for si in range(len(call.args)):
                for mi in range(len(call.args)):
                    if si == mi: continue
                    Sv = out_atoms(call, si, d, sz, lt); MV = out_atoms(call, mi, d * d, sz, lt)
                    ids = set(x.id for x in Sv) | set(x.id for x in MV)
                    seen = set(); st = list(outs); used_s = used_m = 0
                    while st:
                        x = st.pop()
                        if x.id in seen: continue
                        seen.add(x.id); st.extend(x.args)
                    used_s = sum(1 for x in Sv if x.id in seen); used_m = sum(1 for x in MV if x.id in seen)
                    if used_s == d and used_m >= d * 2: cand = (Sv, MV)
            if cand is None:
                rep.ob(oid, 'R12.eigsel', UNDECIDED, 'eigenvalue / eigenbasis out-parameters of the solver call not recognised', where); continue
            Sv, MV = cand
            import itertools
            from .common import lift_all
            outs = [lift_all(o, [200000]) for o in outs]
            leaves, conds = ordd.collect(outs)
            sid = {sv.id: i for i, sv in enumerate(Sv)}
            def leaf_val(l, vals):
                if l.id in sid: return Fraction(vals[sid[l.id]])
                if l.op == 'const': return ordd.const_num(l)
                if (l.op == 'absi' or (l.op == 'call' and 'fabs' in str(l.attr))) and l.args[0].id in sid: return abs(Fraction(vals[sid[l.args[0].id]]))
                if l.op == 'fneg' and l.args[0].id in sid: return -Fraction(vals[sid[l.args[0].id]])
                return None
            compared = set()
            for c in conds:
                for l in ordd.cmp_leaves(c): compared.add(l.id)
            cl = [l for l in leaves if l.id in compared]
            if any(leaf_val(l, [1] * d) is None for l in cl):
                odd = [l for l in cl if leaf_val(l, [1] * d) is None][0]
                rep.ob(oid, 'R12.eigsel', UNDECIDED, 'the selection compares %s, which is not an eigenvalue, its magnitude or a constant' % T.show(odd, 3)[:80], where); continue
            bad = None; n = 0
            # S_i over the integers -d..d realises every sign pattern and every weak ordering of the magnitudes
            for vals in itertools.product(range(-d, d + 1), repeat=d):
                env = {l.id: leaf_val(l, vals) for l in cl}
                n += 1
                mags = [abs(v) for v in vals]
                best = max(mags) if which == 'max' else min(mags)
                sel = [ordd.ev(o, env) for o in outs]
                cols = set()
                for k in range(d):
                    js = [j_ for j_ in range(d) if sel[k] is MV[k * d + j_]]
                    if len(js) != 1: bad = 'component %d of the result is %s, not an entry of row %d of the eigenbasis' % (k, T.show(sel[k], 2)[:60], k); break
                    cols.add(js[0])
                if bad: break
                if len(cols) != 1: bad = 'the components come from different columns %s' % sorted(cols); break
                j_ = cols.pop()
                if mags[j_] != best:
                    bad = 'for eigenvalues ordered like S = %s the column of S[%d] is returned, whose magnitude is not the %s' % (list(vals), j_, 'largest' if which == 'max' else 'smallest'); break
            rep.ob(oid, 'R12.eigsel', VIOLATED if bad else HOLDS, bad or 'the column of a %s-magnitude eigenvalue on all %d sign / magnitude-order patterns of the eigenvalues' % ('largest' if which == 'max' else 'smallest', n), where)
        except (vg.Unsupported, ordd.NotOrd, OverflowError) as e:
            rep.ob(oid, 'R12.eigsel', UNDECIDED, repr(e)[:300], where)

def check_sweeps(rep, ws, t):
    """R12.sweep: a sweep of each Jacobi driver rotates every index pair {j,k}, j<k, of the matrix (a pair that is never
    rotated keeps its off-diagonal entry: no diagonal form, no U*S*V^T = A), and the driver consults the convergence measure"""
    import re
    E = ELEM[t][0]
    tu = gen_sweep(t)
    try:
        mod = ws.module(tu.name, tu.source(), opaque=tu.opaque, no_unroll=True)
    except build.BuildError as e:
        rep.ob('jacobi sweeps<%s>' % E, 'R12.sweep', UNDECIDED, str(e)[:300]); return
    fns = {f['name']: f for f in mod['functions']}
    for name, m in tu.meta.items():
        d = m['d']; oid = '%s%d%d<%s>#sweep' % ('jacobiSVD' if m['kind'] == 'svd' else 'jacobiEigenSolver', d, d, E)
        f = fns.get(name)
        if f is None:
            rep.ob(oid, 'R12.sweep', UNDECIDED, 'wrapper not in the module'); continue
        pairs = set(); measures = 0; where = None; odd = []
        for b in f['blocks']:
            for i in b['insts']:
                if i.get('op') not in ('call', 'invoke') or i.get('intrinsic'): continue
                cal = i.get('callee', '')
                if 'acobiRotation' in cal:
                    where = where or '%s:%s' % (build.repo_rel(i.get('file', '')), i.get('line'))
                    tm = re.findall(r'Li(\d)E', cal.split('acobiRotation')[1].split('EE')[0] + 'E')
                    if len(tm) >= 2: jk = (int(tm[0]), int(tm[1]))
                    else:
                        cs = [int(o['v']) for o in i.get('ops', []) if o.get('k') == 'ci' and o.get('w') == 32]
                        jk = tuple(cs[:2]) if len(cs) >= 2 else None
                    if jk is None or jk[0] == jk[1]: odd.append(cal[:60])
                    else: pairs.add(tuple(sorted(jk)))
                elif 'maxOffDiag' in cal: measures += 1
        # the loop's exit test compares the measure of the current matrix with tol * (measure of the input)
        ids = {}
        for b in f['blocks']:
            for i in b['insts']: ids[i.get('id')] = i
        mcalls = [i for b in f['blocks'] for i in b['insts'] if i.get('op') in ('call', 'invoke') and 'maxOffDiag' in i.get('callee', '')]
        rel_bad = None
        if len(mcalls) >= 2:
            first = mcalls[0]['id']
            scaled = [i['id'] for i in ids.values() if i.get('op') == 'fmul' and any(o.get('k') == 'v' and o.get('id') == first for o in i.get('ops', []))]
            cmps = [i for i in ids.values() if i.get('op') == 'fcmp' and any(o.get('k') == 'v' and o.get('id') in [c['id'] for c in mcalls[1:]] for o in i.get('ops', []))]
            if not cmps: rel_bad = 'the measure of the current matrix is not compared with anything'
            elif not scaled: rel_bad = 'no tolerance relative to the input (tol * measure of the input matrix)'
            elif not all(any(o.get('k') == 'v' and o.get('id') in scaled for o in c.get('ops', [])) for c in cmps):
                rel_bad = 'the sweep loop compares the measure of the current matrix with something other than tol * (measure of the input matrix): for uniformly tiny or huge matrices an absolute threshold stops too early or never'
        want = set((j, k) for j in range(d) for k in range(j + 1, d))
        # the accumulated rotations start from the identity on every path: U and V (the eigenvector matrix) are set to the
        # identity in the entry block, which dominates the sweeps, the sign fix and the sorting - also for an input that is already
        # diagonal, where the sweep loop is skipped
        init_bad = None
        outp = {'svd': (1, 3), 'eig': (2,)}[m['kind']]
        entry = f['blocks'][0]
        inited = set()
        for i in entry['insts']:
            if i.get('op') in ('call', 'invoke') and 'makeIdentity' in i.get('callee', ''):
                for o in i.get('ops', []):
                    if o.get('k') == 'a': inited.add(int(o.get('i', o.get('v', -1))))
        anywhere = sum(1 for b in f['blocks'] for i in b['insts'] if i.get('op') in ('call', 'invoke') and 'makeIdentity' in i.get('callee', ''))
        if not set(outp) <= inited:
            init_bad = 'the result matri%s (argument%s %s) %s not set to the identity in the entry block (%d makeIdentity call(s) elsewhere): on a path that skips them - an input that is already diagonal - the caller\'s old contents are sign-fixed, sorted and returned as the orthonormal factors' % ('ces' if len(outp) > 1 else 'x', 's' if len(outp) > 1 else '', sorted(set(outp) - inited), 'are' if len(outp) > 1 else 'is', anywhere - len([1 for i in entry['insts'] if i.get('op') in ('call', 'invoke') and 'makeIdentity' in i.get('callee', '')]))
        if init_bad:
            rep.ob(oid, 'R12.sweep', VIOLATED, init_bad, where); continue
        if rel_bad:
            rep.ob(oid, 'R12.sweep', VIOLATED, rel_bad, where); continue
        if odd or not pairs:
            rep.ob(oid, 'R12.sweep', UNDECIDED, 'rotation calls not recognised: %s' % (odd[:2] or 'none found'), where); continue
        missing = sorted(want - pairs)
        if missing:
            rep.ob(oid, 'R12.sweep', VIOLATED, 'a sweep never rotates the index pair(s) %s: their off-diagonal entries are not annihilated' % missing, where)
        elif measures == 0:
            rep.ob(oid, 'R12.sweep', UNDECIDED, 'no call of a convergence measure (maxOffDiag*) in the driver: the termination argument changed', where)
        else:
            rep.ob(oid, 'R12.sweep', HOLDS, 'rotations over all %d index pairs per sweep; %d uses of the convergence measure' % (len(want), measures), where)

def check_measures(rep, Rm, tu, t):
    """R12.offdiag: the convergence measure is zero only if every off-diagonal entry is (maxOffDiag: all i != j;
    maxOffDiagSymm, used on symmetric input: at least one of (i,j), (j,i) for every pair), reads no diagonal entry, and on a
    matrix whose only non-zero entry is x it is |x|"""
    E, sz, lt = ELEM[t]
    for name, m in tu.meta.items():
        d = m['d']; oid = '%s(Matrix%d%d<%s>)' % ('maxOffDiagSymm' if m['symm'] else 'maxOffDiag', d, d, E)
        S = Rm.get(name)
        if S is None:
            rep.ob(oid, 'R12.offdiag', UNDECIDED, Rm.err.get(name, 'not analysed')); continue
        where = fn_where(S.fn)
        try:
            o = S.out('a0', 0, sz, lt)
            slots = {agg.slot_in('a1', i * d + j, t).id: (i, j) for i in range(d) for j in range(d)}
            sup = set(); seen = set(); st = [o]
            while st:
                x = st.pop()
                if x.id in seen: continue
                seen.add(x.id); st.extend(x.args)
                if x.id in slots: sup.add(slots[x.id])
            diag = sorted(p for p in sup if p[0] == p[1])
            if m['symm']: missing = [(i, j) for i in range(d) for j in range(i + 1, d) if (i, j) not in sup and (j, i) not in sup]
            else: missing = [(i, j) for i in range(d) for j in range(d) if i != j and (i, j) not in sup]
            if missing or diag:
                rep.ob(oid, 'R12.offdiag', VIOLATED, ('the measure ignores the off-diagonal entries %s: the sweep loop stops (or never starts) while they are non-zero' % missing) if missing else 'the measure reads the diagonal entries %s' % diag, where); continue
            bad = None
            for (i, j) in sorted(sup):
                x = agg.slot_in('a1', i * d + j, t)
                # abstract evaluation with every other entry 0 and x != 0: values are 'Z' (zero) or 'A' (|x| > 0)
                memo = {}
                def ev(n):
                    r = memo.get(n.id)
                    if r is not None: return r
                    if n.op == 'const' and T.const_value(n) == 0: r = 'Z'
                    elif n.op == 'in': r = 'X' if n is x else 'Z'
                    elif n.op == 'absi' or (n.op == 'call' and 'fabs' in str(n.attr)):
                        a = ev(n.args[0]); r = 'A' if a in ('X', 'A') else 'Z'
                    elif n.op == 'ite':
                        c = n.args[0]; neg = False
                        if c.op == 'not': c = c.args[0]; neg = True
                        if c.op != 'fcmp' or c.attr not in ('olt', 'ole', 'ogt', 'oge'): raise vg.Unsupported('condition %s' % T.show(c, 2))
                        a, b = ev(c.args[0]), ev(c.args[1])
                        if 'X' in (a, b): raise vg.Unsupported('comparison on the signed entry')
                        rank = {'Z': 0, 'A': 1}
                        v = {'olt': rank[a] < rank[b], 'ole': rank[a] <= rank[b], 'ogt': rank[a] > rank[b], 'oge': rank[a] >= rank[b]}[c.attr]
                        if neg: v = not v
                        r = ev(n.args[1] if v else n.args[2])
                    else: raise vg.Unsupported('operation %s in a convergence measure' % n.op)
                    memo[n.id] = r
                    return r
                if ev(o) != 'A':
                    bad = 'with A[%d][%d] = x != 0 the only non-zero entry the measure is 0, not |x|' % (i, j); break
            rep.ob(oid, 'R12.offdiag', VIOLATED if bad else HOLDS, bad or 'covers %d off-diagonal entries, no diagonal one; one-hot value |x|' % len(sup), where)
        except (vg.Unsupported, OverflowError) as e:
            rep.ob(oid, 'R12.offdiag', UNDECIDED, repr(e)[:300], where)

def find_call(n, sub):
    seen = set(); stack = [n]
    while stack:
        x = stack.pop()
        if x.id in seen: continue
        seen.add(x.id)
        if x.op == 'call' and sub in str(x.attr): return x
        stack.extend(x.args)
    return None

def out_atoms(call, idx, n, sz, lt):
    """terms for the elements of the idx-th pointer argument after the opaque call"""
    cm = T.mk('callmem', idx, (call,), 'mem')
    return [T.mk('sel', sz, (cm, T.const_int(64, i * sz)), lt) for i in range(n)]

def main(rep, ws, tier):
    types = 'f' if tier == 'quick' else 'fd'
    tuo = [gen_opaque(t) for t in types]; tui = [gen_inline(t) for t in types]; tus = [gen_shrt(t, SHRT_ORDERS_QUICK if tier == 'quick' else SHRT_ORDERS_ALL) for t in types]; tuj = [gen_jacobi(t) for t in types]
    tum = [gen_measure(t) for t in types]; tue = [gen_eigsel(t) for t in types]
    an = Analysed(ws, tuo + tui + tus + tuj + tum + tue, rep)
    check_procrustes_callsite(rep, ws)
    for tm, te, t in zip(tum, tue, types):
        check_measures(rep, an[tm], tm, t)
        check_sweeps(rep, ws, t)
        check_eigsel(rep, an[te], te, t)
    for to, ti, ts, tj, t in zip(tuo, tui, tus, tuj, types):
        R = an[to]; Ri = an[ti]; Rj = an[tj]; E, sz, lt = ELEM[t]
        def rat_all(ctx, xs): return [ctx.rat(x) for x in xs]
        for name, m in list(to.meta.items()) + list(ts.meta.items()):
            oid = '%s<%s>' % (name[2:], E)
            S = (an[ts] if name in ts.meta else R).get(name)
            if m['k'] == 'aux': continue
            rule = {'recompose': 'R12.recompose', 'recompose_ip': 'R12.recompose', 'ss': 'R12.ss', 'ss_ip': 'R12.ss', 'rs': 'R12.rs', 'shrt': 'R12.shrt', 'shrtO': 'R12.shrt'}[m['k']]
            if S is None:
                rep.ob(oid, rule, UNDECIDED, R.err.get(name, '')); continue
            where = fn_where(S.fn)
            try:
                if m['k'] in ('recompose', 'recompose_ip'):
                    d = m['d']; nn = d * d
                    ip = m['k'] == 'recompose_ip'
                    obase = 'a1' if ip else 'a0'
                    inbase = 'a1'
                    outs = [S.out(obase, i * sz, sz, lt) for i in range(nn)]
                    call = find_call(outs[0], 'extractSHRT')
                    if call is None:
                        rep.ob(oid, rule, VIOLATED, 'does not call extractSHRT', where); continue
                    # success / failure split on the call's boolean result
                    ok_c = None
                    for c in P.all_conds(outs[0]):
                        if find_call(c, 'extractSHRT') is not None: ok_c = c
                    if ok_c is None:
                        rep.ob(oid, rule, VIOLATED, 'the result of extractSHRT is not tested', where); continue
                    succ = [T.resolve(o, {ok_c: True}) for o in outs]; fail = [T.resolve(o, {ok_c: False}) for o in outs]
                    # which polarity is success?  on failure the matrix is the input
                    inm = [agg.slot_in(inbase, i, t) for i in range(nn)]
                    pol = True          # the polarity of the call's result that means success
                    if all(a_ is b_ for a_, b_ in zip(succ, inm)): succ, fail = fail, succ; pol = False
                    if not all(a_ is b_ for a_, b_ in zip(fail, inm)):
                        rep.ob(oid, rule, VIOLATED, 'on extraction failure the result is not the unchanged input matrix', where); continue
                    ctx = P.Ctx()
                    # pointer arguments of the call in order: mat, scl, shr, rot, tran
                    if d == 4:
                        shr = rat_all(ctx, out_atoms(call, 2, 3, sz, lt)); rot = out_atoms(call, 3, 3, sz, lt); tran = rat_all(ctx, out_atoms(call, 4, 3, sz, lt))
                        I4 = lambda: [[P.pconst(1 if i == j else 0) for j in range(4)] for i in range(4)]
                        H = I4(); H[1][0] = shr[0][0]; H[2][0] = shr[1][0]; H[2][1] = shr[2][0]
                        Tm = I4()
                        for j in range(3): Tm[3][j] = tran[j][0]
                        def cs(x): return ctx.rat(T.call('cos', [x], lt))[0], ctx.rat(T.call('sin', [x], lt))[0]
                        (cx, sx), (cy, sy), (cz, sz_) = cs(rot[0]), cs(rot[1]), cs(rot[2])
                        Z, O = P.pconst(0), P.pconst(1)
                        Rx = [[O, Z, Z, Z], [Z, cx, sx, Z], [Z, P.pneg(sx), cx, Z], [Z, Z, Z, O]]
                        Ry = [[cy, Z, P.pneg(sy), Z], [Z, O, Z, Z], [sy, Z, cy, Z], [Z, Z, Z, O]]
                        Rz = [[cz, sz_, Z, Z], [P.pneg(sz_), cz, Z, Z], [Z, Z, O, Z], [Z, Z, Z, O]]
                        Rm = matmul(matmul(Rx, Ry), Rz)
                    else:
                        shr = rat_all(ctx, out_atoms(call, 2, 1, sz, lt)); rot = out_atoms(call, 3, 1, sz, lt); tran = rat_all(ctx, out_atoms(call, 4, 2, sz, lt))
                        I3 = lambda: [[P.pconst(1 if i == j else 0) for j in range(3)] for i in range(3)]
                        H = I3(); H[1][0] = shr[0][0]
                        Tm = I3(); Tm[2][0] = tran[0][0]; Tm[2][1] = tran[1][0]
                        c_, s_ = ctx.rat(T.call('cos', [rot[0]], lt))[0], ctx.rat(T.call('sin', [rot[0]], lt))[0]
                        Rm = I3(); Rm[0][0] = c_; Rm[0][1] = s_; Rm[1][0] = P.pneg(s_); Rm[1][1] = c_
                    want = matmul(matmul(H, Rm), Tm)
                    bad = None
                    for i in range(nn):
                        g = ctx.rat(succ[i])
                        if not ctx.requal(g, (ctx.reduce(want[i // d][i % d]), ONE)):
                            alt = matmul(matmul(H, Tm), Rm)
                            hint = ' (it equals Shear*Translation*Rotation: the rotation is applied on the wrong side of the translation)' if all(ctx.requal(ctx.rat(succ[k]), (ctx.reduce(alt[k // d][k % d]), ONE)) for k in range(nn)) else ''
                            bad = 'entry [%d][%d] = %s; Shear(shr)*Rotation(rot)*Translation(tran) has %s%s' % (i // d, i % d, P.show_rat(g, ctx)[:140], P.show_poly(ctx.reduce(want[i // d][i % d]), ctx)[:140], hint); break
                    if not bad and ip: bad = returned_flag(S, ok_c, pol)
                    rep.ob(oid, rule, VIOLATED if bad else HOLDS, bad or 'Shear*Rotation*Translation of the extracted factors; input returned on failure%s' % ('; the flag returned is the extraction\'s' if ip else ''), where)
                elif m['k'] in ('ss', 'ss_ip'):
                    d = m['d']; nn = d * d
                    outs = [S.out('a1' if m['k'] == 'ss_ip' else 'a0', i * sz, sz, lt) for i in range(nn)]
                    call = find_call(outs[0], 'extractAndRemoveScalingAndShear')
                    if call is None:
                        rep.ob(oid, rule, VIOLATED, 'does not call extractAndRemoveScalingAndShear', where); continue
                    ok_c = [c for c in P.all_conds(outs[0]) if find_call(c, 'extractAndRemove') is not None]
                    if m['k'] == 'ss_ip':
                        # in place: the matrix is whatever the extraction left in it (on both outcomes); the outcome is in the flag
                        rv = S.out('a0', 0, 1, 'i8')
                        fl_c = [c for c in P.all_conds(rv) if find_call(c, 'extractAndRemove') is not None]
                        left = out_atoms(call, 0, nn, sz, lt)
                        inm = [agg.slot_in('a1', i, t) for i in range(nn)]
                        bad = None
                        for v in (True, False):
                            got = [T.resolve(o, {c: v for c in ok_c}) for o in outs]
                            if not (all(x is y for x, y in zip(got, left)) or (all(x is y for x, y in zip(got, inm)))):
                                bad = 'the matrix is %s, neither what extractAndRemoveScalingAndShear left in it nor the input' % T.show(got[0], 3)[:120]
                        if not bad and len(fl_c) != 1: bad = 'the flag returned (%s) does not depend on the result of extractAndRemoveScalingAndShear: a degenerate (zero-scale) matrix is not reported to the caller' % T.show(rv, 3)[:80]
                        if not bad:
                            # the call's own result is the condition (true = extraction succeeded)
                            pol = fl_c[0].op == 'call'
                            if not pol and not (fl_c[0].op == 'not' and fl_c[0].args[0].op == 'call'): raise vg.Unsupported('flag condition of shape %s' % fl_c[0].op)
                            bad = returned_flag(S, fl_c[0], pol)
                        rep.ob(oid, rule, VIOLATED if bad else HOLDS, bad or 'in place: the matrix left by extractAndRemoveScalingAndShear, and its flag', where); continue
                    if not ok_c:
                        rep.ob(oid, rule, VIOLATED, 'the result of extractAndRemoveScalingAndShear is not tested', where); continue
                    a_ = [T.resolve(o, {ok_c[0]: True}) for o in outs]; b_ = [T.resolve(o, {ok_c[0]: False}) for o in outs]
                    inm = [agg.slot_in('a1', i, t) for i in range(nn)]
                    succ, fail = (b_, a_) if all(x is y for x, y in zip(a_, inm)) else (a_, b_)
                    left = out_atoms(call, 0, nn, sz, lt)
                    ok = all(x is y for x, y in zip(fail, inm)) and all(x is y for x, y in zip(succ, left))
                    rep.ob(oid, rule, HOLDS if ok else VIOLATED, 'returns the matrix left by extractAndRemoveScalingAndShear; the input on failure' if ok else 'result is %s' % T.show(succ[0], 3)[:200], where)
                elif m['k'] == 'rs':
                    outs = [S.out('a0', i * sz, sz, lt) for i in range(16)]
                    calls = []
                    seen = set(); stack = list(outs)
                    while stack:
                        x = stack.pop()
                        if x.id in seen: continue
                        seen.add(x.id)
                        if x.op == 'call' and 'extractSHRT' in str(x.attr) and x not in calls: calls.append(x)
                        stack.extend(x.args)
                    thr = S.throw_types()
                    if len(calls) != 2 or thr != ['_ZTISt12domain_error']:
                        rep.ob(oid, rule, VIOLATED, 'expected two extractSHRT calls and a domain_error exit, found %d calls, throws %s' % (len(calls), thr), where); continue
                    # identify the call on A (first pointer argument is a1) and on B
                    def on(c, base): return any(z.op == 'ptr' and z.attr == base for z in c.args)
                    cA = [c for c in calls if on(c, 'a1')]; cB = [c for c in calls if on(c, 'a2')]
                    if len(cA) != 1 or len(cB) != 1:
                        rep.ob(oid, rule, VIOLATED, 'extractSHRT is not called once on A and once on B', where); continue
                    conds = [c for o in outs for c in P.all_conds(o)]
                    asg = {}
                    for c in set(conds): asg[c] = None
                    # resolve to the non-throwing leaf
                    lv = [l for l in T.leaves(outs[0], 64)]
                    ctx = P.Ctx()
                    src_s = cA[0] if m['ks'] else cB[0]; src_r = cA[0] if m['ka'] else cB[0]
                    sc = rat_all(ctx, out_atoms(src_s, 1, 3, sz, lt)); ro = out_atoms(src_r, 3, 3, sz, lt); tr = rat_all(ctx, out_atoms(cA[0], 4, 3, sz, lt))
                    I4 = lambda: [[P.pconst(1 if i == j else 0) for j in range(4)] for i in range(4)]
                    Sm = I4()
                    for i in range(3): Sm[i][i] = sc[i][0]
                    Tm = I4()
                    for j in range(3): Tm[3][j] = tr[j][0]
                    def cs(x): return ctx.rat(T.call('cos', [x], lt))[0], ctx.rat(T.call('sin', [x], lt))[0]
                    (cx, sx), (cy, sy), (cz, sz_) = cs(ro[0]), cs(ro[1]), cs(ro[2])
                    Z, O = P.pconst(0), P.pconst(1)
                    Rx = [[O, Z, Z, Z], [Z, cx, sx, Z], [Z, P.pneg(sx), cx, Z], [Z, Z, Z, O]]
                    Ry = [[cy, Z, P.pneg(sy), Z], [Z, O, Z, Z], [sy, Z, cy, Z], [Z, Z, Z, O]]
                    Rz = [[cz, sz_, Z, Z], [P.pneg(sz_), cz, Z, Z], [Z, Z, O, Z], [Z, Z, Z, O]]
                    want = matmul(matmul(Sm, matmul(matmul(Rx, Ry), Rz)), Tm)
                    bad = None
                    for i in range(16):
                        leaf = [l for _, l in T.leaves(outs[i], 64) if l.op not in ('throw',)]
                        if len(set(x.id for x in leaf)) != 1: bad = 'entry %d has %d distinct non-throwing values' % (i, len(leaf)); break
                        if not ctx.requal(ctx.rat(leaf[0]), (ctx.reduce(want[i // 4][i % 4]), ONE)):
                            bad = 'entry [%d][%d] = %s, expected Scale(%s)*Rotation(%s)*Translation(A)' % (i // 4, i % 4, P.show_rat(ctx.rat(leaf[0]), ctx)[:120], 'A' if m['ks'] else 'B', 'A' if m['ka'] else 'B'); break
                    rep.ob(oid, rule, VIOLATED if bad else HOLDS, bad or 'Scale(%s) * Rotation(%s) * Translation(A); domain_error when an extraction fails' % ('A' if m['ks'] else 'B', 'A' if m['ka'] else 'B'), where)
                elif m['k'] == 'shrtO':
                    # r = F(x, y, z) with (x, y, z) the XYZ angles left by extractEulerXYZ: the rotation of order `order` built from
                    # F (XYZ layout) is the XYZ rotation of (x, y, z) - sines and cosines rational in tan(angle/2), generic cell
                    from .c11 import tan_half_ctx
                    Rs_ = an[ts]
                    ro = [S.out('a4', i * sz, sz, lt) for i in range(3)]
                    # the generic path: the extraction succeeded
                    for _ in range(6):
                        pre = {}
                        for x_ in ro:
                            for c in P.all_conds(x_):
                                if find_call(c, 'extractAndRemove') is None or find_call(c, 'extractEulerXYZ') is not None: continue
                                if c.op == 'call': pre[c] = True
                                elif c.op == 'icmp' and c.attr in ('eq', 'ne') and any(z.op == 'const' and T.const_value(z) == 0 for z in c.args): pre[c] = (c.attr == 'ne')
                        if not pre: break
                        ro = [T.resolve(x_, pre) for x_ in ro]
                    def fold_sel(x_):
                        # sel(mem(under, off, v, ...), off) -> v once the conditional memory has been resolved
                        while x_.op == 'sel' and x_.args[0].op == 'mem' and x_.args[1].op == 'const':
                            ma = x_.args[0].args; off_ = T.signed(x_.args[1]); hit = None
                            for i_ in range(1, len(ma), 2):
                                if T.signed(ma[i_]) == off_: hit = ma[i_ + 1]
                            if hit is None or hit.ty != x_.ty: break
                            x_ = hit
                        return x_
                    ro = [fold_sel(x_) for x_ in ro]
                    call = find_call(ro[0], 'extractEulerXYZ')
                    if call is None:
                        rep.ob(oid, rule, VIOLATED, 'the angles do not come from extractEulerXYZ of the orthonormalised matrix', where); continue
                    cand = [i for i in range(len(call.args))]
                    ang = [agg.slot_in('a8', i, t) for i in range(3)]
                    F = None
                    for idx in cand:
                        oa = out_atoms(call, idx, 3, sz, lt)
                        used = set(); st_ = list(ro); sn_ = set()
                        while st_:
                            x_ = st_.pop()
                            if x_.id in sn_: continue
                            sn_.add(x_.id); st_.extend(x_.args)
                            for a_ in oa:
                                if x_ is a_: used.add(a_.id)
                        if len(used) >= 2:
                            memo = {}
                            F = [T.subst(x_, dict(zip(oa, ang)), memo) for x_ in ro]; break
                    if F is None:
                        rep.ob(oid, rule, UNDECIDED, 'the angle outputs of extractEulerXYZ were not found in the result', where); continue
                    SMo, SMx = Rs_.get('w_eulm_' + m['order']), Rs_.get('w_eulm_XYZ')
                    if SMo is None or SMx is None:
                        rep.ob(oid, rule, UNDECIDED, 'auxiliary Euler matrices not analysed', where); continue
                    ain = [agg.slot_in('a1', i, t) for i in range(3)]
                    memo = {}
                    Mo = [T.subst(SMo.out('a0', i * sz, sz, lt), dict(zip(ain, F)), memo) for i in range(9)]
                    memo = {}
                    Mx = [T.subst(SMx.out('a0', i * sz, sz, lt), dict(zip(ain, ang)), memo) for i in range(9)]
                    ctx = tan_half_ctx(ang, t, True)
                    bad = None
                    for i in range(9):
                        a_, b_ = ctx.rat(Mo[i]), ctx.rat(Mx[i])
                        if not ctx.requal(a_, b_):
                            bad = 'entry [%d][%d] of Euler(r, %s, XYZLayout).toMatrix33() is %s; the rotation extracted from the matrix (XYZ angles x, y, z) has %s: S*H*R*T no longer recomposes to the input for this order' % (i // 3, i % 3, m['order'], P.show_rat(a_, ctx)[:120], P.show_rat(b_, ctx)[:120]); break
                    rep.ob(oid, rule, VIOLATED if bad else HOLDS, bad or 'the angles returned for order %s give the rotation of the extracted XYZ angles (generic cell, t_i = tan(angle_i/2))' % m['order'], where, nontrivial=True)
                elif m['k'] == 'shrt':
                    tr = [S.out('a5', i * sz, sz, lt) for i in range(3)]
                    ok_t = None
                    c0 = [c for c in P.all_conds(tr[0])]
                    vals = [[l for _, l in T.leaves(x, 16) if l.op != 'in' or l.attr[0] != 'a5'] for x in tr]
                    okt = all(any(l is agg.slot_in('a1', 12 + i, t) for l in vals[i]) for i in range(3))
                    ro = S.out('a4', 0, sz, lt)
                    c1 = find_call(ro, 'extractEulerXYZ'); c2 = find_call(ro, 'extractAndRemove')
                    okr = c1 is not None and c2 is not None
                    rep.ob(oid, rule, HOLDS if (okt and okr) else VIOLATED, 'translation = row 3 of the input; angles = extractEulerXYZ of the matrix left by extractAndRemoveScalingAndShear' if (okt and okr) else 'translation from input row 3: %s; rotation through extractEulerXYZ(orthonormalised): %s' % (okt, okr), where)
            except (P.NotPoly, PC.Undecided, vg.Unsupported, OverflowError) as e:
                rep.ob(oid, rule, UNDECIDED, repr(e)[:300], where)
        # one Jacobi rotation: rho = mu1/mu2 is formed only where |mu2| > tol*|mu1| (strictly), which excludes mu2 == 0
        for name, m in tj.meta.items():
            oid = 'jacobiRotation%d%d<%s>' % (m['d'], m['d'], E)
            S = Rj.get(name)
            if S is None:
                rep.ob(oid, 'R12.jacobi', UNDECIDED, Rj.err.get(name, '')); continue
            try:
                d = m['d']
                y = agg.slot_in('a1', 1, t)                      # A[0][1]
                outs_ = [S.out('a0', 0, 1, 'i8'), S.out('a1', 0, sz, lt), S.out('a3', 0, sz, lt)]
                J = T.mk('tuple', None, tuple(outs_), None)
                from .common import hoist
                bad = None; ndiv = 0
                for lits, leaf in T.leaves(hoist(J), 4096):
                    seen_ = set(); st_ = [leaf]; divs = []
                    while st_:
                        x = st_.pop()
                        if x.id in seen_: continue
                        seen_.add(x.id); st_.extend(x.args)
                        if x.op == 'fdiv' and x.args[1].op == 'fmul' and any(a_ is y for a_ in x.args[1].args): divs.append(x)
                    for x in divs:
                        ndiv += 1
                        mu2 = x.args[1]
                        ok = any(v is False and c.op == 'fcmp' and c.attr == 'ole' and c.args[0].op in ('absi', 'call') and c.args[0].args[0] is mu2 for c, v in lits)
                        if not ok and bad is None:
                            bad = 'rho = mu1/mu2 is computed on a path that has not excluded |mu2| <= tol*|mu1| (strictly): for equal diagonal entries and a zero off-diagonal entry this is 0/0 (path: %s)' % ', '.join('%s=%s' % (T.show(c, 2)[:40], v) for c, v in lits[:4])
                if ndiv == 0:
                    rep.ob(oid, 'R12.jacobi', UNDECIDED, 'the quotient mu1/mu2 was not recognised', fn_where(S.fn))
                else:
                    rep.ob(oid, 'R12.jacobi', VIOLATED if bad else HOLDS, bad or '%d uses of rho = mu1/mu2, each behind the strict test |mu2| > tol*|mu1|' % ndiv, fn_where(S.fn))
            except (vg.Unsupported, OverflowError) as e:
                rep.ob(oid, 'R12.jacobi', UNDECIDED, repr(e)[:300], fn_where(S.fn))
            try:
                err, desc = check_jacobi_rotation(S, m['d'], t)
                rep.ob(oid + '#rotation', 'R12.jacobi', VIOLATED if err else HOLDS, err or desc, fn_where(S.fn))
            except (P.NotPoly, PC.Undecided, vg.Unsupported, OverflowError) as e:
                rep.ob(oid + '#rotation', 'R12.jacobi', UNDECIDED, repr(e)[:300], fn_where(S.fn))
        # zero-scale guards: every value the rows / shears are divided by went through checkForZeroScaleInRow
        for name, m in ti.meta.items():
            oid = '%s<%s>#zero' % (name[2:], E)
            S = Ri.get(name)
            if S is None:
                rep.ob(oid, 'R12.zero', UNDECIDED, Ri.err.get(name, '')); continue
            if m['d'] == 0:
                # the predicate itself, evaluated exactly at the deciding points: a zero scale is reported whatever the row is (the row
                # of an exactly zero scale is the zero row: 0 >= max * 0 must count), a unit scale with unit entries is accepted, and a
                # scale so small that row / scale overflows is reported
                n_ = m['n']; oid = 'checkForZeroScaleInRow(Vec%d<%s>)' % (n_, E)
                o = S.out('a0', 0, 1, 'i8')
                class _No(Exception): pass
                def ev(x, env):
                    if x.op == 'in': return env[x]
                    if x.op == 'const':
                        v = T.const_value(x)
                        if isinstance(v, str): raise _No()
                        return v
                    if x is T.TRUE: return True
                    if x is T.FALSE: return False
                    if x.op == 'absi' or (x.op == 'call' and 'fabs' in str(x.attr)): return abs(ev(x.args[0], env))
                    if x.op == 'fneg': return -ev(x.args[0], env)
                    if x.op == 'fmul': return ev(x.args[0], env) * ev(x.args[1], env)
                    if x.op == 'ite': return ev(x.args[1], env) if ev(x.args[0], env) else ev(x.args[2], env)
                    if x.op == 'not': return not ev(x.args[0], env)
                    if x.op == 'fcmp':
                        p_, q_ = ev(x.args[0], env), ev(x.args[1], env)
                        return {'olt': p_ < q_, 'ole': p_ <= q_, 'ogt': p_ > q_, 'oge': p_ >= q_, 'oeq': p_ == q_, 'one': p_ != q_, 'une': p_ != q_}[x.attr]
                    raise _No()
                sc = agg.scalar_in('a1', t); rw = [agg.slot_in('a2', i, t) for i in range(n_)]
                big = Fraction(2) ** (100 if lt == 'float' else 1000)
                pts = [((0,) + (0,) * n_, False, 'a zero scale with the zero row'), ((0,) + (1,) * n_, False, 'a zero scale'),
                       ((1,) + (1,) * n_, True, 'unit scale, unit row'), ((Fraction(1, 2),) + (3,) * n_, True, 'scale 1/2'),
                       ((1 / big / big,) + (big,) * n_, False, 'a scale so small that row / scale overflows')]
                for k_ in range(n_):
                    v_ = [0] * n_; v_[k_] = 1
                    pts.append(((1 / big / big,) + tuple(big * x_ for x_ in v_), False, 'overflow in component %d only' % k_))
                bad = None
                try:
                    for vals, want, what in pts:
                        env = {sc: Fraction(vals[0])}
                        env.update({rw[i]: Fraction(vals[1 + i]) for i in range(n_)})
                        got = bool(ev(o, env) & 1) if not isinstance(ev(o, env), bool) else ev(o, env)
                        if got != want:
                            bad = '%s is %s: checkForZeroScaleInRow(%s, (%s)) returns %s' % (what, 'accepted' if got else 'rejected', float(vals[0]), ', '.join('%g' % float(v) for v in vals[1:]), got); break
                    rep.ob(oid, 'R12.zero', VIOLATED if bad else HOLDS, bad or 'zero scale rejected for every row (the zero row included), overflowing quotient rejected in each component, ordinary scales accepted (%d exact evaluations)' % len(pts), fn_where(S.fn))
                except _No:
                    rep.ob(oid, 'R12.zero', UNDECIDED, 'the predicate is not a comparison of |row_i| with max * |scale|', fn_where(S.fn))
                continue
            try:
                d = m['d']; ns = 3 if d == 4 else 2; nh = 3 if d == 4 else 1
                outs_ = [S.out('a0', 0, 1, 'i8')] + [S.out('a1', i * sz, sz, lt) for i in range(d * d)] + [S.out('a2', i * sz, sz, lt) for i in range(ns)] + [S.out('a3', i * sz, sz, lt) for i in range(nh)]
                dens = {}; guards = set(); seen_ = set(); st_ = list(outs_); recip = None
                while st_:
                    x = st_.pop()
                    if x.id in seen_: continue
                    seen_.add(x.id); st_.extend(x.args)
                    if x.op == 'fdiv' and x.args[1].op != 'const' and x.args[0].op == 'const' and recip is None: recip = x
                    if x.op == 'fdiv' and x.args[1].op != 'const':
                        num = x.args[0]
                        isabs = num.op == 'absi' or (num.op == 'call' and 'fabs' in str(num.attr))
                        if not isabs: dens[x.args[1].id] = x.args[1]      # |x|/max inside lengthTiny is C08's business
                    if x.op == 'fcmp' and x.attr == 'olt' and x.args[1].op == 'const' and T.const_value(x.args[1]) == 1 and (x.args[0].op == 'absi' or (x.args[0].op == 'call' and 'fabs' in str(x.args[0].attr))):
                        guards.add(x.args[0].args[0].id)
                unguarded = [v for k_, v in dens.items() if k_ not in guards]
                need = 4 if d == 4 else 3
                if recip is not None:
                    # the zero-scale test bounds the quotients row_i / scl it was written for; a reciprocal 1 / scl is a different
                    # quotient, which overflows for every scl below 1/max (a subnormal largest entry) whatever the rows are
                    rep.ob(oid, 'R12.zero', VIOLATED, 'the rows are multiplied by the reciprocal %s instead of being divided: checkForZeroScaleInRow bounds row_i / scl, not 1 / scl, which overflows to infinity when the divisor is below 1/max (matrices with subnormal entries decompose into inf / NaN and report success)' % T.show(recip, 3)[:120], fn_where(S.fn))
                    continue
                if len(dens) < need:
                    rep.ob(oid, 'R12.zero', UNDECIDED, 'only %d divisor values recognised (expected maxVal and %d scale factors)' % (len(dens), need - 1), fn_where(S.fn))
                else:
                    rep.ob(oid, 'R12.zero', VIOLATED if unguarded else HOLDS,
                           'a row / shear is divided by %s, a value that never passes the zero-scale test |scl| < 1 && |row_i| >= max*|scl| (a zero scale factor is decomposed into NaNs instead of being reported)' % T.show(unguarded[0], 3)[:160] if unguarded else
                           '%d divisor values (maxVal, scale factors), each tested by checkForZeroScaleInRow' % len(dens), fn_where(S.fn))
            except (vg.Unsupported, OverflowError) as e:
                rep.ob(oid, 'R12.zero', UNDECIDED, repr(e)[:300], fn_where(S.fn))
        # Gram-Schmidt identity
        for name, m in ti.meta.items():
            if m['d'] == 0: continue
            if m['d'] == 4 and os.environ.get('VERIF_C12_GS44') != '1':
                continue
            oid = '%s<%s>' % (name[2:], E)
            S = Ri.get(name)
            if S is None:
                rep.ob(oid, 'R12.gs', UNDECIDED, Ri.err.get(name, '')); continue
            where = fn_where(S.fn)
            try:
                e = gram_schmidt(S, m['d'], t, tier)
                rep.ob(oid, 'R12.gs', VIOLATED if e[0] else HOLDS, e[0] or e[1], where)
            except (P.NotPoly, PC.Undecided, vg.Unsupported, OverflowError) as e:
                rep.ob(oid, 'R12.gs', UNDECIDED, repr(e)[:300], where)
    narrowing(rep, ws, [gen_opaque('d'), gen_shrt('d'), gen_inline('d'), gen_jacobi('d')], 'R12.prec')
    rep.floor('factorisation obligations', len(rep.obs), 28 * len(types))
    rep.assumptions += ['exact real arithmetic at a generic point; opaque callee out-parameters are free atoms', 'set* matrices as documented (C09)']
    rep.undecided_clauses += ['jacobiSVD, jacobiEigenSolver, min/maxEigenVector, procrustesRotationAndTranslation: convergence loops over run-time data - no static argument in reach establishes U*S*V^T = A (R12.sweep / R12.offdiag / R12.jacobi decide necessary structural conditions only)',
                              'extractEulerXYZ / extractEulerZYX inverse-trigonometric correctness', 'near-singular inputs']

def tiny(c):
    return c.op == 'fcmp' and c.attr == 'olt' and c.args[1].op == 'const' and 0 < T.const_value(c.args[1]) < Fraction(1, 10 ** 30)

def ortho_rows(ctx, rows):
    n = len(rows)
    for i in range(n):
        for j in range(n):
            acc = ({}, ONE)
            for k in range(n): acc = ctx.radd(acc, ctx.rmul(rows[i][k], rows[j][k]))
            if not ctx.requal(acc, (P.pconst(1 if i == j else 0), ONE)):
                return 'row %d . row %d = %s' % (i, j, P.show_rat(acc, ctx)[:160])
    return None

def det_rat(ctx, m):
    if len(m) == 2:
        a = ctx.rmul(m[0][0], m[1][1]); b = ctx.rmul(m[0][1], m[1][0])
        return ctx.radd(a, (P.pneg(b[0]), b[1]))
    acc = ({}, ONE)
    for j in range(len(m)):
        minor = [[m[r][c] for c in range(len(m)) if c != j] for r in range(1, len(m))]
        term = ctx.rmul(m[0][j], det_rat(ctx, minor))
        if j % 2: term = (P.pneg(term[0]), term[1])
        acc = ctx.radd(acc, term)
    return acc

def gram_schmidt(S, d, t, tier):
    E, sz, lt = ELEM[t]
    n = d - 1
    nn = d * d
    outs = [S.out('a0', 0, 1, 'i8')] + [S.out('a1', i * sz, sz, lt) for i in range(nn)] + [S.out('a2', i * sz, sz, lt) for i in range(n)] + [S.out('a3', i * sz, sz, lt) for i in range(3 if d == 4 else 1)]
    inm = [agg.slot_in('a1', i, t) for i in range(nn)]
    # success paths: the leaves of the boolean result that are true and not degenerate
    acc = []
    for lits, leaf in T.leaves(outs[0], 100000):
        if not (leaf.op == 'const' and leaf.attr[1] & 1): continue
        if any(tiny(c) and v for c, v in lits): continue
        if any(c.op == 'fcmp' and c.attr == 'oeq' and v for c, v in lits): continue
        acc.append(dict(lits))
    if not acc: return ('no successful exit', None)
    # overflow-guard literals are order conditions: keep one representative success path per determinant sign
    ncase = 0; seen = set()
    for a_ in acc:
        res = [T.resolve(o, a_) for o in outs[1:]]
        def premise(c):
            if tiny(c): return False
            # 0 < |x| is true at a generic point (its failure for every entry is the all-zero matrix, where maxVal = 0)
            if c.op == 'fcmp' and c.attr == 'olt' and c.args[0].op == 'const' and T.const_value(c.args[0]) == 0 and (c.args[1].op == 'absi' or (c.args[1].op == 'call' and 'fabs' in str(c.args[1].attr))): return True
            return None
        def enum(c): return c.op == 'fcmp' and c.attr in ('olt', 'ole')
        c0 = P.Ctx(); c0.cancel = True
        for asg, r2 in PC.generic_cases(res, c0, enumerate_cond=enum, premise=premise, max_enum=14):
            key = tuple(x.id for x in r2)
            if key in seen: continue
            seen.add(key)
            ctx = P.Ctx(); ctx.cancel = True
            ncase += 1
            M_ = [ctx.rat(x) for x in r2[:nn]]; scl = [ctx.rat(x) for x in r2[nn:nn + n]]; shr = [ctx.rat(x) for x in r2[nn + n:]]
            Rr = [[M_[i * d + j] for j in range(n)] for i in range(n)]
            e = ortho_rows(ctx, Rr)
            if e:
                return ('case %d: the remaining linear part is not orthonormal: %s' % (ncase, e), None)
            # orientation: the flip test compares a quantity E with 0; E must be the determinant of the rows before the
            # flip (so that after the conditional negation the determinant is |E| = +1, given det^2 = 1)
            flips = [(c, v) for c, v in asg.items() if c.op == 'fcmp' and c.attr in ('olt', 'ole') and any(z.op == 'const' and T.const_value(z) == 0 for z in c.args)
                     and not any(z.op == 'absi' for z in c.args)]
            if not flips:
                return ('case %d: no orientation test (coordinate-system flip) on this path' % ncase, None)
            ok_flip = False
            dt = det_rat(ctx, Rr)
            for c, v in flips:
                lhs = [z for z in c.args if z.op != 'const'][0]
                neg_tested = c.args[1].op == 'const'          # E < 0
                try:
                    Ev = ctx.rat(T.resolve(lhs, asg))
                except P.NotPoly:
                    continue
                flipped = (v is True) if neg_tested else (v is False)
                # not flipped: E = det(R) ; flipped: E = -det(R)
                want = dt if not flipped else (P.pneg(dt[0]), dt[1])
                if ctx.requal(Ev, want): ok_flip = True
            if not ok_flip:
                return ('case %d: the quantity tested for the flip is not the determinant of the orthonormalised rows' % ncase, None)
            # diag(scl) * H * R == original rows
            H = [[(P.pconst(1 if i == j else 0), ONE) for j in range(n)] for i in range(n)]
            if d == 4:
                H[1][0] = shr[0]; H[2][0] = shr[1]; H[2][1] = shr[2]
            else:
                H[1][0] = shr[0]
            for i in range(n):
                for j in range(n):
                    acc_ = ({}, ONE)
                    for k in range(n):
                        acc_ = ctx.radd(acc_, ctx.rmul(ctx.rmul(scl[i], H[i][k]), Rr[k][j]))
                    orig = (ctx.reduce(P.patom(ctx.key(inm[i * d + j]))), ONE)
                    if not ctx.requal(acc_, orig):
                        return ('case %d: (Scale*Shear*Rotation)[%d][%d] = %s differs from the input entry' % (ncase, i, j, P.show_rat(acc_, ctx)[:160]), None)
            if tier == 'quick' and ncase >= 4: break
        if tier == 'quick' and ncase >= 4: break
    return (None, 'diag(scl) * Shear(shr) * R reproduces the input rows, R is orthonormal and the flip test is on its determinant (so det R = +1), on %d generic success case(s)' % ncase)
