"""C10 - quaternion, matrix and axis-angle rotations are mutually consistent (decided part).

R10.rot     rotateVector(v) == v*q == v*toMatrix33() == v*toMatrix44() modulo |q| = 1; toMatrix44 = bordered toMatrix33
R10.hom     toMatrix33(q1*q2) = toMatrix33(q1) * toMatrix33(q2) (row-vector convention: q1 applied first);
            q*inverse(q) = 1; invert() == inverse(); ~q conjugates; unit matrices are orthonormal with det +1
R10.aa      Quat::setAxisAngle(a, w).toMatrix44() == Matrix44::setAxisAngle(a, w) (half-angle identities, |unit a| = 1)
R10.extract extractQuat(q.toMatrix44()) is parallel to q and unit, on every branch (trace > 0 / largest diagonal)
R10.pivot   extractQuat, negative-trace branch: the pivot component is that of a largest diagonal entry (D-ord)
R10.setrot  setRotation(from, to) is a unit quaternion carrying from/|from| onto to/|to| on the <= 90, > 90 and
            exactly-opposite paths; rotationMatrix(from,to) = setRotation(from,to).toMatrix44()
R10.squad   intermediate / squad / spline have the value graph of their documented definitions (Watt & Watt p.366) written with
            Imath's own inverse, product, log, exp, slerp (opaque callees): argument order and the 2t(1-t) blend included
R10.explog  exp(log q) == q for unit q, |r| < 1 (cos(acos a) = a, sin(acos a) = sqrt(1-a^2), ...)
R10.sinc    sinx_over_x(x) = sin(x)/x for every |x| >= 1 of either sign (interval evaluation of the guard), 1 on the small branch
R10.slerp   slerpShortestArc negates q2 exactly when q1.q2 < 0; slerp(t=0) = normalized(q1), slerp(t=1) = normalized(q2);
            slerp(q1,q2,t) is unit with slerp . q1 = cos(t a), slerp . q2 = cos((1-t) a), a = angle4D(q1,q2) (addition formulas)
"""
import os
from fractions import Fraction
from engine import term as T, agg, build, vg, poly as P, polycheck as PC
from engine.agg import ELEM, TU
from engine.report import HOLDS, VIOLATED, UNDECIDED
from .common import Analysed, fn_where, narrowing
from .c09 import ortho_check
from .c05 import ONE

def gen(t):
    E = ELEM[t][0]
    Q = 'Quat<%s>' % E; V = 'Vec3<%s>' % E; M3 = 'Matrix33<%s>' % E; M4 = 'Matrix44<%s>' % E
    tu = TU('c10_' + t)
    a = tu.add
    a('w_rotvec', '%s& o, const %s& q, const %s& v' % (V, Q, V), 'o = q.rotateVector(v);')
    a('w_vq', '%s& o, const %s& q, const %s& v' % (V, Q, V), 'o = v * q;')
    a('w_m33', '%s& o, const %s& q' % (M3, Q), 'o = q.toMatrix33();')
    a('w_m44', '%s& o, const %s& q' % (M4, Q), 'o = q.toMatrix44();')
    a('w_mul', '%s& o, const %s& p, const %s& q' % (Q, Q, Q), 'o = p * q;')
    a('w_mulassign', '%s& o, const %s& p, const %s& q' % (Q, Q, Q), '%s x = p; x *= q; o = x;' % Q)
    a('w_div', '%s& o, const %s& p, const %s& q' % (Q, Q, Q), 'o = p / q;')
    a('w_divassign', '%s& o, const %s& p, const %s& q' % (Q, Q, Q), '%s x = p; x /= q; o = x;' % Q)
    a('w_Mq', '%s& o, const %s& m, const %s& q' % (M3, M3, Q), 'o = m * q;')
    a('w_qM', '%s& o, const %s& q, const %s& m' % (M3, Q, M3), 'o = q * m;')
    a('w_eip', '%s& o, const %s& p, const %s& q' % (E, Q, Q), 'o = p.euclideanInnerProduct(q);')
    a('w_dotop', '%s& o, const %s& p, const %s& q' % (E, Q, Q), 'o = p ^ q;')
    a('w_identity', '%s& o' % Q, 'o = %s::identity();' % Q)
    a('w_default', '%s& o' % Q, 'o = %s();' % Q)
    a('w_inverse', '%s& o, const %s& q' % (Q, Q), 'o = q.inverse();')
    a('w_invert', '%s& q' % Q, 'q.invert();')
    a('w_conj', '%s& o, const %s& q' % (Q, Q), 'o = ~q;')
    a('w_normalized', '%s& o, const %s& q' % (Q, Q), 'o = q.normalized();')
    a('w_qaa', '%s& o, const %s& ax, const %s& ang' % (M4, V, E), '%s q; q.setAxisAngle(ax, ang); o = q.toMatrix44();' % Q)
    a('w_maa', '%s& o, const %s& ax, const %s& ang' % (M4, V, E), 'o.setAxisAngle(ax, ang);')
    a('w_extract', '%s& o, const %s& m' % (Q, M4), 'o = extractQuat(m);')
    a('w_setrot', '%s& o, const %s& f, const %s& tt' % (Q, V, V), 'o.setRotation(f, tt);')
    a('w_rotmat', '%s& o, const %s& f, const %s& tt' % (M4, V, V), 'o = rotationMatrix(f, tt);')
    a('w_axang', '%s& o, const %s& q' % (Q, Q), '%s p; p.setAxisAngle(q.axis(), q.angle()); o = p;' % Q)
    a('w_angle', '%s& o, const %s& q' % (E, Q), 'o = q.angle();')
    a('w_explog', '%s& o, const %s& q' % (Q, Q), 'o = q.log().exp();')
    a('w_slerp', '%s& o, const %s& p, const %s& q, const %s& tt' % (Q, Q, Q, E), 'o = slerp(p, q, tt);')
    a('w_exp', '%s& o, const %s& q' % (Q, Q), 'o = q.exp();')
    a('w_log', '%s& o, const %s& q' % (Q, Q), 'o = q.log();')
    return tu

def gen_sinc(t):
    E = ELEM[t][0]
    tu = TU('c10x_' + t)
    tu.add('w_sinc', '%s& o, const %s& x' % (E, E), 'o = sinx_over_x(x);')
    return tu

def check_sinc(rep, R, t):
    """R10.sinc: sinx_over_x(x) is sin(x)/x except on a small-argument branch that returns 1, and that branch is closed to
    every |x| >= 1 of either sign (interval evaluation of the guard over (-inf,-1] and [1,inf)): slerp calls it with
    (1-t)*a and t*a, which are negative for t slightly outside [0,1]"""
    E, sz, lt = ELEM[t]
    oid = 'sinx_over_x<%s>' % E
    S = R.get('w_sinc')
    if S is None:
        rep.ob(oid, 'R10.sinc', UNDECIDED, R.err.get('w_sinc', 'not analysed')); return
    where = fn_where(S.fn)
    try:
        o = S.out('a0', 0, sz, lt); x = agg.scalar_in('a1', t)
        INF = float('inf')
        def iv(n, X, memo):
            r = memo.get(n.id)
            if r is not None: return r
            if n is x: r = X
            elif n.op == 'const':
                v = T.const_value(n)
                if isinstance(v, str): raise vg.Unsupported('non-finite constant in the guard')
                r = (float(v), float(v))
            elif n.op == 'fneg':
                a = iv(n.args[0], X, memo); r = (-a[1], -a[0])
            elif n.op == 'absi' or (n.op == 'call' and 'fabs' in str(n.attr)):
                a = iv(n.args[0], X, memo)
                r = (0.0 if a[0] <= 0 <= a[1] else min(abs(a[0]), abs(a[1])), max(abs(a[0]), abs(a[1])))
            elif n.op == 'fmul':
                a, b = iv(n.args[0], X, memo), iv(n.args[1], X, memo)
                if n.args[0] is n.args[1]:
                    lo = 0.0 if a[0] <= 0 <= a[1] else min(a[0] * a[0], a[1] * a[1]); r = (lo, max(a[0] * a[0], a[1] * a[1]))
                else:
                    def m(p_, q_): return 0.0 if (p_ == 0 or q_ == 0) else p_ * q_
                    c_ = [m(a[0], b[0]), m(a[0], b[1]), m(a[1], b[0]), m(a[1], b[1])]; r = (min(c_), max(c_))
            elif n.op == 'fadd':
                a, b = iv(n.args[0], X, memo), iv(n.args[1], X, memo); r = (a[0] + b[0], a[1] + b[1])
            elif n.op == 'call' and n.attr == 'sqrt':
                a = iv(n.args[0], X, memo)
                if a[0] < 0: raise vg.Unsupported('sqrt of a possibly negative interval')
                r = (a[0] ** 0.5, a[1] ** 0.5)
            elif n.op in ('fpext', 'fptrunc'):
                r = iv(n.args[0], X, memo)
            else: raise vg.Unsupported('operation %s in the small-argument guard' % n.op)
            memo[n.id] = r
            return r
        def cond_on(c, X):
            """True / False / None on the interval"""
            neg = False
            while c.op == 'not': c = c.args[0]; neg = not neg
            if c.op != 'fcmp' or c.attr not in ('olt', 'ole', 'oeq'): raise vg.Unsupported('guard %s' % T.show(c, 2))
            memo = {}
            a, b = iv(c.args[0], X, memo), iv(c.args[1], X, memo)
            if c.attr == 'oeq': v = False if (a[1] < b[0] or b[1] < a[0]) else None
            elif c.attr == 'olt': v = True if a[1] < b[0] else (False if a[0] >= b[1] else None)
            else: v = True if a[1] <= b[0] else (False if a[0] > b[1] else None)
            return (not v) if (neg and v is not None) else v
        one = T.fp_from_value(lt, 1.0)
        want = T.binop('fdiv', T.call('sin', [x], lt), x, lt)
        nbig = 0
        for X, name in (((-INF, -1.0), 'x <= -1'), ((1.0, INF), 'x >= 1')):
            t_ = o
            for _ in range(8):
                if t_.op != 'ite': break
                v = cond_on(t_.args[0], X)
                if v is None: raise vg.Unsupported('guard %s undetermined for %s' % (T.show(t_.args[0], 3)[:80], name))
                t_ = t_.args[1] if v else t_.args[2]
            if t_ is one or (t_.op == 'const' and T.const_value(t_) == 1):
                rep.ob(oid, 'R10.sinc', VIOLATED, 'for every %s the function returns 1 instead of sin(x)/x: the small-argument guard %s is open on that side (slerp passes (1-t)*a and t*a, negative for t outside [0,1])' % (name, T.show(o.args[0], 3)[:80] if o.op == 'ite' else ''), where); return
            if t_ is not want and not T.equiv(t_, want):
                rep.ob(oid, 'R10.sinc', VIOLATED, 'for %s the value is %s, not sin(x)/x' % (name, T.show(t_, 3)[:120]), where); return
            nbig += 1
        small = [lf for lits, lf in T.leaves(o, 64) if not (lf is want or T.equiv(lf, want))]
        if not small or not all(lf is one or (lf.op == 'const' and T.const_value(lf) == 1) for lf in small):
            rep.ob(oid, 'R10.sinc', VIOLATED, 'the small-argument value is %s, expected 1' % [T.show(l_, 2) for l_ in small][:2], where); return
        rep.ob(oid, 'R10.sinc', HOLDS, 'sin(x)/x for every |x| >= 1 of either sign; 1 on the small-argument branch', where)
    except vg.Unsupported as e:
        rep.ob(oid, 'R10.sinc', UNDECIDED, str(e)[:300], where)

def gen_opaque(t):
    E = ELEM[t][0]
    Q = 'Quat<%s>' % E
    tu = TU('c10o_' + t, opaque=('5slerpI',))
    tu.add('w_ssa', '%s& o, const %s& p, const %s& q, const %s& tt' % (Q, Q, Q, E), 'o = slerpShortestArc(p, q, tt);')
    return tu

def gen_squad(t):
    """spline family against its documented definition (Watt & Watt p.366 / Shoemake), written with Imath's own
    building blocks: a_i = q_i * exp(-(log(q_i^-1 q_{i-1}) + log(q_i^-1 q_{i+1}))/4), normalised;
    squad = slerp(slerp(q1,q2,t), slerp(qa,qb,t), 2t(1-t));  spline = squad(q1, a_1, a_2, q2, t).
    slerp, log and exp are opaque callees (same callee, same arguments => same value)"""
    E = ELEM[t][0]
    Q = 'Quat<%s>' % E
    tu = TU('c10s_' + t, opaque=('5slerpI', 'E3logEv', 'E3expEv'))
    a = tu.add
    a('w_intermediate', '%s& o, const %s& q0, const %s& q1, const %s& q2' % (Q, Q, Q, Q), 'o = intermediate(q0, q1, q2);')
    a('ref_intermediate', '%s& o, const %s& q0, const %s& q1, const %s& q2' % (Q, Q, Q, Q),
      '%s inv = q1.inverse(); %s e = ((%s)(-0.25) * ((inv * q0).log() + (inv * q2).log())).exp(); o = q1 * e; o.normalize();' % (Q, Q, E))
    a('w_squad', '%s& o, const %s& q1, const %s& qa, const %s& qb, const %s& q2, const %s& tt' % (Q, Q, Q, Q, Q, E), 'o = squad(q1, qa, qb, q2, tt);')
    a('ref_squad', '%s& o, const %s& q1, const %s& qa, const %s& qb, const %s& q2, const %s& tt' % (Q, Q, Q, Q, Q, E),
      'o = slerp(slerp(q1, q2, tt), slerp(qa, qb, tt), 2 * tt * (1 - tt));')
    return tu

def gen_spline(t):
    E = ELEM[t][0]
    Q = 'Quat<%s>' % E
    tu = TU('c10p_' + t, opaque=('5squadI', '12intermediateI'))
    a = tu.add
    a('w_spline', '%s& o, const %s& q0, const %s& q1, const %s& q2, const %s& q3, const %s& tt' % (Q, Q, Q, Q, Q, E), 'o = spline(q0, q1, q2, q3, tt);')
    a('ref_spline', '%s& o, const %s& q0, const %s& q1, const %s& q2, const %s& q3, const %s& tt' % (Q, Q, Q, Q, Q, E),
      'o = squad(q1, intermediate(q0, q1, q2), intermediate(q1, q2, q3), q2, tt);')
    return tu

def tiny(c):
    return c.op == 'fcmp' and c.attr == 'olt' and c.args[1].op == 'const' and 0 < T.const_value(c.args[1]) < Fraction(1, 10 ** 30)

def main(rep, ws, tier):
    types = 'f' if tier == 'quick' else 'fd'
    tus = [gen(t) for t in types]; tuo = [gen_opaque(t) for t in types]
    tuq = [gen_squad(t) for t in types]; tup = [gen_spline(t) for t in types]; tux = [gen_sinc(t) for t in types]
    an = Analysed(ws, tus + tuo + tuq + tup + tux, rep)
    for tx, t in zip(tux, types): check_sinc(rep, an[tx], t)
    for tq, tp, t in zip(tuq, tup, types):
        E, sz, lt = ELEM[t]
        for RR, fn in ((an[tq], 'intermediate'), (an[tq], 'squad'), (an[tp], 'spline')):
            oid = '%s<%s>' % (fn, E)
            A, Bf = RR.get('w_' + fn), RR.get('ref_' + fn)
            if A is None or Bf is None:
                rep.ob(oid, 'R10.squad', UNDECIDED, RR.err.get('w_' + fn, RR.err.get('ref_' + fn, 'not analysed'))); continue
            oa = [A.out('a0', i * sz, sz, lt) for i in range(4)]; obb = [Bf.out('a0', i * sz, sz, lt) for i in range(4)]
            diff = [i for i in range(4) if oa[i] is not obb[i] and not T.equiv(oa[i], obb[i], 200000)]
            from .common import explain_diff
            rep.ob(oid, 'R10.squad', VIOLATED if diff else HOLDS,
                   'component %d differs from the documented definition: %s' % (diff[0], explain_diff(oa[diff[0]], obb[diff[0]])[:300]) if diff else
                   'identical value graph to the documented definition written with the same building blocks', fn_where(A.fn))
    for tu, to, t in zip(tus, tuo, types):
        R = an[tu]; E, sz, lt = ELEM[t]
        def atom(ctx, node): return (ctx.reduce(P.patom(ctx.key(node))), ONE)
        def qv(ctx, base): return [atom(ctx, agg.slot_in(base, i, t)) for i in range(4)]
        def unit(ctx, base):
            ks = [ctx.key(agg.slot_in(base, i, t)) for i in range(4)]
            ctx.rules[ks[3]] = P.psub(P.psub(P.psub(P.pconst(1), P.ppow(P.patom(ks[0]), 2)), P.ppow(P.patom(ks[1]), 2)), P.ppow(P.patom(ks[2]), 2))
        def neg(r): return (P.pneg(r[0]), r[1])
        def S_(name, RR=None):
            RR = RR or R
            S = RR.get(name)
            if S is None: raise vg.Unsupported(RR.err.get(name, 'not analysed'))
            return S
        def outs(S, base, n): return [S.out(base, i * sz, sz, lt) for i in range(n)]
        def ob(name, rule, fn):
            oid = '%s<%s>' % (name, E)
            try:
                bad, ok, where = fn()
            except (P.NotPoly, PC.Undecided, vg.Unsupported, OverflowError) as e:
                rep.ob(oid, rule, UNDECIDED, repr(e)[:300]); return
            rep.ob(oid, rule, VIOLATED if bad else HOLDS, bad or ok, where)
        def matvec(ctx, v, M, n):
            return [sum_r(ctx, [ctx.rmul(v[i], M[i][j]) for i in range(n)]) for j in range(n)]
        def sum_r(ctx, xs):
            acc = ({}, ONE)
            for x in xs: acc = ctx.radd(acc, x)
            return acc
        def premise(c):
            if tiny(c): return False
            return None
        def enum(c): return c.op == 'fcmp' and c.attr in ('olt', 'ole')

        def rot():
            ctx = P.Ctx(); unit(ctx, 'a1')
            A = [ctx.rat(x) for x in outs(S_('w_rotvec'), 'a0', 3)]
            Bq = [ctx.rat(x) for x in outs(S_('w_vq'), 'a0', 3)]
            M3 = [ctx.rat(x) for x in outs(S_('w_m33'), 'a0', 9)]
            M4 = [ctx.rat(x) for x in outs(S_('w_m44'), 'a0', 16)]
            v = [atom(ctx, agg.slot_in('a2', i, t)) for i in range(3)]
            C = matvec(ctx, v, [[M3[i * 3 + j] for j in range(3)] for i in range(3)], 3)
            for k in range(3):
                if not ctx.requal(A[k], Bq[k]): return ('rotateVector(v) and v*q differ in component %d' % k, None, fn_where(S_('w_vq').fn))
                if not ctx.requal(A[k], C[k]): return ('rotateVector(v) and v*toMatrix33() differ in component %d: %s vs %s' % (k, P.show_rat(A[k], ctx)[:100], P.show_rat(C[k], ctx)[:100]), None, fn_where(S_('w_m33').fn))
            for i in range(4):
                for j in range(4):
                    want = M3[i * 3 + j] if (i < 3 and j < 3) else (P.pconst(1 if i == j else 0), ONE)
                    if not ctx.requal(M4[i * 4 + j], want): return ('toMatrix44[%d][%d] is not the bordered toMatrix33' % (i, j), None, fn_where(S_('w_m44').fn))
            e = ortho_check(ctx, [[M3[i * 3 + j] for j in range(3)] for i in range(3)])
            if e: return ('toMatrix33 of a unit quaternion: ' + e, None, fn_where(S_('w_m33').fn))
            return (None, 'rotateVector = v*q = v*toMatrix33; toMatrix44 is its bordered form; orthonormal, det +1 (modulo |q| = 1)', fn_where(S_('w_rotvec').fn))
        ob('rotation agreement', 'R10.rot', rot)

        def hom():
            ctx = P.Ctx()
            m = outs(S_('w_m33'), 'a0', 9)
            prod = outs(S_('w_mul'), 'a0', 4)
            q1 = [agg.slot_in('a1', i, t) for i in range(4)]; q2 = [agg.slot_in('a2', i, t) for i in range(4)]
            def Mof(qterms):
                sub = dict(zip(q1, qterms))
                return [[ctx.rat(T.subst(m[i * 3 + j], sub)) for j in range(3)] for i in range(3)]
            Mp = Mof(prod); M1 = Mof(q1); M2 = Mof(q2)
            def mm(A, B_): return [[sum_r(ctx, [ctx.rmul(A[i][k], B_[k][j]) for k in range(3)]) for j in range(3)] for i in range(3)]
            def eq(A, B_): return all(ctx.requal(A[i][j], B_[i][j]) for i in range(3) for j in range(3))
            # general (non-unit) quaternions: M(q) is only a rotation for unit q; the homomorphism is checked modulo |q1| = |q2| = 1
            unit(ctx, 'a1'); unit(ctx, 'a2')
            Mp = Mof(prod); M1 = Mof(q1); M2 = Mof(q2)
            a12 = eq(Mp, mm(M1, M2)); a21 = eq(Mp, mm(M2, M1))
            if not (a12 or a21): return ('toMatrix33(q1*q2) is neither M(q1)*M(q2) nor M(q2)*M(q1)', None, fn_where(S_('w_mul').fn))
            return (None, 'toMatrix33(q1*q2) = %s' % ('M(q2)*M(q1)' if a21 and not a12 else 'M(q1)*M(q2)'), fn_where(S_('w_mul').fn))
        ob('product homomorphism', 'R10.hom', hom)

        def inverse():
            ctx = P.Ctx()
            inv = outs(S_('w_inverse'), 'a0', 4)
            prod = outs(S_('w_mul'), 'a0', 4)
            q = [agg.slot_in('a1', i, t) for i in range(4)]; q2 = [agg.slot_in('a2', i, t) for i in range(4)]
            comp = [ctx.rat(T.subst(x, dict(zip(q2, inv)))) for x in prod]
            for k in range(4):
                if not ctx.requal(comp[k], (P.pconst(1 if k == 0 else 0), ONE)): return ('q * q.inverse() component %d = %s' % (k, P.show_rat(comp[k], ctx)[:120]), None, fn_where(S_('w_inverse').fn))
            ip = outs(S_('w_invert'), 'a0', 4)
            ren = dict((agg.slot_in('a1', i, t), agg.slot_in('a0', i, t)) for i in range(4))
            for k in range(4):
                if not ctx.requal(ctx.rat(ip[k]), ctx.rat(T.subst(inv[k], ren))): return ('invert() differs from inverse() in component %d' % k, None, fn_where(S_('w_invert').fn))
            cj = outs(S_('w_conj'), 'a0', 4)
            okc = cj[0] is q[0] and all(cj[i] is T.fneg(q[i]) for i in (1, 2, 3))
            if not okc: return ('~q is %s' % [T.show(x, 2) for x in cj], None, fn_where(S_('w_conj').fn))
            return (None, 'q*inverse(q) = (1,0,0,0); invert() = inverse(); ~q = (r, -v)', fn_where(S_('w_inverse').fn))
        ob('inverse / conjugate', 'R10.hom', inverse)

        def compound():
            # the compound-assignment and quotient forms are the product: p *= q is p*q, p / q and p /= q are p * q.inverse()
            ctx = P.Ctx()
            prod = outs(S_('w_mul'), 'a0', 4); inv = outs(S_('w_inverse'), 'a0', 4)
            q1 = [agg.slot_in('a1', i, t) for i in range(4)]; q2 = [agg.slot_in('a2', i, t) for i in range(4)]
            want_mul = [ctx.rat(x) for x in prod]
            inv2 = [T.subst(x, dict(zip(q1, q2))) for x in inv]
            want_div = [ctx.rat(T.subst(x, dict(zip(q2, inv2)))) for x in prod]
            for w, want, what in (('w_mulassign', want_mul, 'p *= q is not p * q'), ('w_div', want_div, 'p / q is not p * q.inverse()'), ('w_divassign', want_div, 'p /= q is not p * q.inverse()')):
                got = [ctx.rat(x) for x in outs(S_(w), 'a0', 4)]
                for k in range(4):
                    if not ctx.requal(got[k], want[k]):
                        return ('%s (component %s): found %s, expected %s' % (what, 'rxyz'[k], P.show_rat(got[k], ctx)[:160], P.show_rat(want[k], ctx)[:160]), None, fn_where(S_(w).fn))
            return (None, 'p *= q = p*q; p / q = p /= q = p * q.inverse() (rational identities, general quaternions)', fn_where(S_('w_mulassign').fn))
        ob('compound product forms', 'R10.hom', compound)

        def mixed():
            # M * q = M * q.toMatrix33(), q * M = q.toMatrix33() * M; the 4-D inner product in both spellings; identity() = Quat() = (1,0,0,0)
            ctx = P.Ctx()
            m3 = outs(S_('w_m33'), 'a0', 9)
            for w, qb, mb, left in (('w_Mq', 'a2', 'a1', True), ('w_qM', 'a1', 'a2', False)):
                got = [ctx.rat(x) for x in outs(S_(w), 'a0', 9)]
                ren = dict((agg.slot_in('a1', i, t), agg.slot_in(qb, i, t)) for i in range(4))
                Mq = [[ctx.rat(T.subst(m3[i * 3 + j], ren)) for j in range(3)] for i in range(3)]
                Mm = [[(ctx.reduce(P.patom(ctx.key(agg.slot_in(mb, i * 3 + j, t)))), ONE) for j in range(3)] for i in range(3)]
                A_, B_ = (Mm, Mq) if left else (Mq, Mm)
                for i in range(3):
                    for j in range(3):
                        want = sum_r(ctx, [ctx.rmul(A_[i][k], B_[k][j]) for k in range(3)])
                        if not ctx.requal(got[i * 3 + j], want): return ('%s: entry [%d][%d] is not that of %s' % ('M * q' if left else 'q * M', i, j, 'M * q.toMatrix33()' if left else 'q.toMatrix33() * M'), None, fn_where(S_(w).fn))
            p_ = [agg.slot_in('a1', i, t) for i in range(4)]; q_ = [agg.slot_in('a2', i, t) for i in range(4)]
            want = sum_r(ctx, [ctx.rmul((ctx.reduce(P.patom(ctx.key(p_[i]))), ONE), (ctx.reduce(P.patom(ctx.key(q_[i]))), ONE)) for i in range(4)])
            for w in ('w_eip', 'w_dotop'):
                if not ctx.requal(ctx.rat(S_(w).out('a0', 0, sz, lt)), want): return ('%s is not r1*r2 + v1.v2' % ('euclideanInnerProduct' if w == 'w_eip' else 'operator^'), None, fn_where(S_(w).fn))
            for w in ('w_identity', 'w_default'):
                o_ = outs(S_(w), 'a0', 4)
                vals = [T.const_value(x) if x.op == 'const' else None for x in o_]
                if vals != [1, 0, 0, 0]: return ('%s is %s, expected (1, 0, 0, 0)' % ('identity()' if w == 'w_identity' else 'Quat()', [T.show(x, 2) for x in o_]), None, fn_where(S_(w).fn))
            return (None, 'M * q = M * toMatrix33(q), q * M = toMatrix33(q) * M; euclideanInnerProduct = operator^ = r1 r2 + v1.v2; identity() = Quat() = (1,0,0,0)', fn_where(S_('w_Mq').fn))
        ob('matrix products, inner product, identity', 'R10.hom', mixed)

        def axis_angle():
            A, Bq = S_('w_qaa'), S_('w_maa')
            oa = outs(A, 'a0', 16); obb = outs(Bq, 'a0', 16)
            ang = agg.scalar_in('a2', t)
            half_nodes = [T.binop('fdiv', ang, T.fp_from_value(lt, 2.0), lt), T.binop('fmul', ang, T.fp_from_value(lt, 0.5), lt)]
            n_ = 0
            for asg, res in PC.generic_cases(oa + obb, P.Ctx(), enumerate_cond=enum, premise=premise):
                ctx = P.Ctx(); n_ += 1
                # double-angle identities relative to the half angle used by the quaternion
                for h in half_nodes:
                    ch, sh = T.call('cos', [h], lt), T.call('sin', [h], lt)
                    ctx.rat(sh); ctx.rat(ch)
                h = half_nodes[0]
                # whichever half-angle node occurs in the quaternion path
                occ = [hn for hn in half_nodes if any(find_node(x, T.call('cos', [hn], lt)) or find_node(x, T.call('sin', [hn], lt)) for x in res[:16])]
                if not occ: return ('Quat::setAxisAngle does not use the half angle', None, fn_where(A.fn))
                h = occ[0]
                ch, sh = ctx.rat(T.call('cos', [h], lt))[0], ctx.rat(T.call('sin', [h], lt))[0]
                cfull = T.call('cos', [ang], lt); sfull = T.call('sin', [ang], lt)
                def akey(node):
                    (mono, _), = ctx.rat(node)[0].items()
                    return mono[0][0]
                ctx.lin[akey(cfull)] = P.psub(P.pscale(P.pmul(ch, ch), 2), P.pconst(1))
                ctx.lin[akey(sfull)] = P.pscale(P.pmul(sh, ch), 2)
                ctx.memo.clear()
                for i in range(16):
                    ra, rb = ctx.rat(res[i]), ctx.rat(res[16 + i])
                    if not ctx.requal(ra, rb):
                        return ('entry [%d][%d]: quaternion route %s, matrix route %s' % (i // 4, i % 4, P.show_rat(ra, ctx)[:120], P.show_rat(rb, ctx)[:120]), None, fn_where(A.fn))
            return (None, 'same matrix via cos w = 2cos^2(w/2)-1, sin w = 2 sin(w/2)cos(w/2), |axis/|axis|| = 1 (%d case)' % n_, fn_where(A.fn))
        ob('setAxisAngle: Quat vs Matrix44', 'R10.aa', axis_angle)

        def extract():
            S = S_('w_extract')
            m44 = outs(S_('w_m44'), 'a0', 16)
            # compose: extractQuat(toMatrix44(q)); matrix input is a1 of w_extract, q is a1 of w_m44
            q = [agg.slot_in('a1', i, t) for i in range(4)]
            qq = [T.arg(80 + i, lt) for i in range(4)]
            m_q = [T.subst(x, dict(zip(q, qq))) for x in m44]
            sub = dict((agg.slot_in('a1', i, t), m_q[i]) for i in range(16))
            eo = [T.subst(x, sub) for x in outs(S, 'a0', 4)]
            n_ = 0
            for asg, res in PC.generic_cases(eo, P.Ctx(), enumerate_cond=enum, premise=premise, max_enum=12):
                ctx = P.Ctx(); n_ += 1
                ks = [ctx.key(x) for x in qq]
                ctx.rules[ks[3]] = P.psub(P.psub(P.psub(P.pconst(1), P.ppow(P.patom(ks[0]), 2)), P.ppow(P.patom(ks[1]), 2)), P.ppow(P.patom(ks[2]), 2))
                r = [ctx.rat(x) for x in res]; qa = [atom(ctx, x) for x in qq]
                for i in range(4):
                    for j in range(i + 1, 4):
                        d = ctx.radd(ctx.rmul(r[i], qa[j]), neg(ctx.rmul(r[j], qa[i])))
                        if not ctx.rzero(d):
                            return ('branch %s: result is not parallel to q (components %d,%d)' % (PC.show_asg(asg)[:120], i, j), None, fn_where(S.fn))
                nn = sum_r(ctx, [ctx.rmul(x, x) for x in r])
                if not ctx.requal(nn, (ONE, ONE)): return ('branch %s: result is not unit: |q\'|^2 = %s' % (PC.show_asg(asg)[:120], P.show_rat(nn, ctx)[:120]), None, fn_where(S.fn))
            return (None, 'on all %d branch cases the result is unit and parallel to q (q or -q)' % n_, fn_where(S.fn))
        ob('extractQuat(toMatrix44(q))', 'R10.extract', extract)

        def axang():
            """setAxisAngle(q.axis(), q.angle()) == q for unit q (cos/sin of half the atan2 angle expanded algebraically)"""
            S = S_('w_axang')
            o = outs(S, 'a0', 4)
            for _ in range(10):
                pre = {}
                for c in set(c_ for x in o for c_ in P.all_conds(x)):
                    if tiny(c): pre[c] = False
                    if c.op == 'fcmp' and c.attr == 'oeq' and any(z.op == 'const' and T.const_value(z) == 0 for z in c.args): pre[c] = False     # lengths are non-zero on the generic cell
                if not pre: break
                o = [T.resolve(x, pre) for x in o]
            ctx = P.Ctx(); ctx.cancel = True; unit(ctx, 'a1')
            orig = ctx.call
            def unwrap(a):
                k = Fraction(1)
                for _ in range(6):
                    if a.op == 'fmul' and any(z.op == 'const' for z in a.args):
                        c_ = [z for z in a.args if z.op == 'const'][0]; k *= T.const_value(c_); a = [z for z in a.args if z is not c_][0]
                    elif a.op == 'fdiv' and a.args[1].op == 'const': k /= T.const_value(a.args[1]); a = a.args[0]
                    else: break
                return a, k
            def call(n):
                if n.attr in ('cos', 'sin') and len(n.args) == 1:
                    a, k = unwrap(n.args[0])
                    if k == 1 and a.op == 'call' and a.attr == 'atan2':
                        y, x = ctx.rat(a.args[0]), ctx.rat(a.args[1])
                        h2 = ctx.radd(ctx.rmul(x, x), ctx.rmul(y, y))
                        h = ctx.rdiv(ctx.sqrt_poly(h2[0]), ctx.sqrt_poly(h2[1]))
                        return ctx.rdiv(x if n.attr == 'cos' else y, h)
                return orig(n)
            ctx.call = call
            q = [atom(ctx, agg.slot_in('a1', i, t)) for i in range(4)]
            for i in range(4):
                r = ctx.rat(o[i])
                if not ctx.requal(r, q[i]):
                    return ('component %d of setAxisAngle(q.axis(), q.angle()) is %s, not that of q (unit q)' % (i, P.show_rat(r, ctx)[:200]), None, fn_where(S.fn))
            return (None, 'setAxisAngle(axis(), angle()) reproduces every unit q (cos, sin of atan2(|v|, r) expanded; |q| = 1)', fn_where(S.fn))
        ob('axis/angle round trip', 'R10.aa', axang)

        def explog():
            """exp(log q) == q for unit q on the generic cell (|r| < 1, no underflow guard taken): the inverse trigonometric
            function of log is composed with the sine / cosine of log and exp:  cos(acos a) = a, sin(acos a) = sqrt(1-a^2),
            sin(asin a) = a, cos(asin a) = sqrt(1-a^2); acos >= 0, asin of a length >= 0."""
            S = S_('w_explog')
            o = outs(S, 'a0', 4)
            qs = [agg.slot_in('a1', i, t) for i in range(4)]
            c0 = P.Ctx()
            def below_one(X):
                """X^2 is a sum of distinct squared components of q, so |X| <= |q| = 1"""
                try: r = c0.rat(X)
                except P.NotPoly: return False
                sq = c0.rmul(r, r)
                if sq[1] != ONE: return False
                ks = set(c0.key(z) for z in qs)
                return bool(sq[0]) and all(c_ == 1 and len(m) == 1 and m[0][1] == 2 and m[0][0] in ks for m, c_ in sq[0].items())
            def huge(z): return z.op == 'fmul' and any(w.op == 'const' and abs(T.const_value(w)) > 10 ** 30 for w in z.args)
            for _ in range(12):
                pre = {}
                for c in set(c_ for x in o for c_ in P.all_conds(x)):
                    if tiny(c): pre[c] = False
                    elif c.op == 'fcmp' and c.attr == 'oeq' and any(z.op == 'const' and T.const_value(z) == 0 for z in c.args): pre[c] = False
                    elif c.op == 'fcmp' and c.attr in ('olt', 'ole'):
                        a_, b_ = c.args
                        if a_.op == 'const' and T.const_value(a_) == 1 and below_one(b_): pre[c] = False          # 1 < X
                        elif b_.op == 'const' and T.const_value(b_) == 1 and below_one(a_): pre[c] = True         # X < 1 (generic)
                        elif a_.op == 'const' and T.const_value(a_) == -1 and below_one(b_): pre[c] = True        # -1 < X (generic)
                        elif b_.op == 'const' and T.const_value(b_) == -1 and below_one(a_): pre[c] = False       # X < -1
                        elif huge(a_): pre[c] = False                                                            # max*|s| <= |theta|: the underflow guard
                        elif huge(b_): pre[c] = True
                if not pre: break
                o = [T.resolve(x, pre) for x in o]
            left = set(c_ for x in o for c_ in P.all_conds(x))
            ctx = P.Ctx(); ctx.cancel = True; unit(ctx, 'a1')
            inv = {}          # atom key of acos(a) / asin(a) -> (name, a as Rat)
            orig = ctx.call
            def sqrt_rat(r): return ctx.rdiv(ctx.sqrt_poly(r[0]), ctx.sqrt_poly(r[1]))
            def call(n):
                if n.attr in ('acos', 'asin') and len(n.args) == 1:
                    r = orig(n)
                    (m, c_), = r[0].items(); k = m[0][0]
                    inv[k] = (n.attr, ctx.rat(n.args[0]))
                    if n.attr == 'acos' or (n.args[0].op == 'call' and n.args[0].attr == 'sqrt'): ctx.positive.add(k)
                    return r
                if n.attr in ('cos', 'sin') and len(n.args) == 1:
                    a = ctx.rat(n.args[0])
                    if a[1] == ONE and len(a[0]) == 1:
                        (m, c_), = a[0].items()
                        if c_ == 1 and len(m) == 1 and m[0][1] == 1 and m[0][0] in inv:
                            fn_, x = inv[m[0][0]]
                            if (fn_, n.attr) in (('acos', 'cos'), ('asin', 'sin')): return x
                            return sqrt_rat(ctx.radd((P.pconst(1), ONE), neg(ctx.rmul(x, x))))
                return orig(n)
            ctx.call = call
            q = [atom(ctx, z) for z in qs]
            for i in range(4):
                r = ctx.rat(o[i])
                if not ctx.requal(r, q[i]):
                    return ('component %d of exp(log q) is %s, not that of q (unit q, |r| < 1)' % (i, P.show_rat(r, ctx)[:200]), None, fn_where(S.fn))
            return (None, 'exp(log q) reproduces every unit q with |r| < 1 (inverse trigonometric function composed with sin / cos; |q| = 1)', fn_where(S.fn))
        ob('exp(log q)', 'R10.explog', explog)

        def explog_identity():
            """the end of the range the generic cell leaves out: at q = identity the angle is exactly zero, log returns the zero
            quaternion and exp of a zero vector part returns (1,0,0,0) - the value graphs folded at that point (constant
            propagation; sin 0 = 0, cos 0 = 1, sqrt 0 = 0, 0/0 = NaN) must give those constants, i.e. the sin(theta)/theta and
            theta/sin(theta) quotients are not formed at theta = 0"""
            from .c07 import _ev3
            import math
            n = 0
            for wname, point, want, what in (('w_exp', {1: 0.0, 2: 0.0, 3: 0.0}, (1.0, 0.0, 0.0, 0.0), 'exp of a quaternion with zero vector part'),
                                             ('w_log', {0: 1.0, 1: 0.0, 2: 0.0, 3: 0.0}, (0.0, 0.0, 0.0, 0.0), 'log of the identity'),
                                             ('w_explog', {0: 1.0, 1: 0.0, 2: 0.0, 3: 0.0}, (1.0, 0.0, 0.0, 0.0), 'exp(log(identity))')):
                S = S_(wname)
                o = outs(S, 'a0', 4)
                env = {agg.slot_in('a1', i, t).id: v for i, v in point.items()}
                for i in range(4):
                    got = _ev3(o[i], env, {})
                    n += 1
                    if got is None: raise PC.Undecided('%s: component %d does not fold to a constant: %s' % (what, i, T.show(o[i], 4)[:160]))
                    if not (got == want[i]):
                        return ('%s: component %d folds to %s, expected %g (the quotient of sin(theta) and theta is formed at theta = 0)' % (what, i, got, want[i]), None, fn_where(S.fn))
            return (None, '%d components folded at the zero-angle point' % n, fn_where(S_('w_exp').fn))
        ob('exp/log at the identity', 'R10.explog', explog_identity)

        def pivot():
            """negative-trace branch: the component computed as sqrt(...)/2 (the pivot, later the divisor 0.5/s of the
            other three) belongs to a LARGEST diagonal entry, on every weak ordering of the diagonal consistent with the path"""
            from engine import ordd
            S = S_('w_extract')
            eo = outs(S, 'a0', 4)
            J = T.mk('tuple', None, tuple(eo), None)
            from .common import hoist, lift_all
            J = hoist(T.mk('tuple', None, tuple(lift_all(x, [500000]) for x in eo), None))
            diag = [agg.slot_in('a1', 5 * i, t) for i in range(3)]
            npaths = 0
            def half_s(x):
                return x.op == 'fmul' and any(a.op == 'call' and 'sqrt' in str(a.attr) for a in x.args) and any(a.op == 'const' for a in x.args)
            for lits, leaf in T.leaves(J, 4096):
                if leaf.op != 'tuple': continue
                piv = [i for i in range(3) if half_s(leaf.args[1 + i])]      # Quat layout: r, v.x, v.y, v.z
                if len(piv) != 1: continue            # positive-trace leaf: r = s/2, no diagonal pivot
                i = piv[0]; npaths += 1
                dl = [(c, v) for c, v in lits if c.op == 'fcmp' and all(a in diag for a in c.args)]
                for wo in ordd.weak_orderings(3):
                    env = {d.id: r for d, r in zip(diag, wo)}
                    if all(bool(ordd.ev(c, env)) == v for c, v in dl):
                        if env[diag[i].id] != max(wo):
                            names = ['m00', 'm11', 'm22']
                            order = ' '.join('%s:%d' % (n_, r) for n_, r in zip(names, wo))
                            return ('with diagonal ranks %s the pivot is %s, not a largest diagonal entry (s = 2|q_%s| can be tiny while another component is large: the quotients 0.5/s lose all accuracy)' % (order, names[i], 'xyz'[i]), None, fn_where(S.fn))
            if npaths < 3: return ('only %d pivot paths recognised' % npaths, None, fn_where(S.fn))
            return (None, '%d pivot paths: the pivot is a largest diagonal entry on every consistent ordering' % npaths, fn_where(S.fn))
        ob('extractQuat pivot choice', 'R10.pivot', pivot)

        def setrot():
            S = S_('w_setrot')
            o = outs(S, 'a0', 4)
            lam = T.arg(93, lt)
            f = [agg.slot_in('a1', i, t) for i in range(3)]; to = [agg.slot_in('a2', i, t) for i in range(3)]
            results = []
            for scen in ('generic', 'opposite'):
                ctx0 = P.Ctx()
                def setup(ctx):
                    # unit inputs: setRotation normalises both arguments first (normalized() is C08's subject), so
                    # the rotation is decided for |from| = |to| = 1 and is scale-invariant by construction
                    ctx.cancel = True
                    kf = [ctx.key(x) for x in f]
                    ctx.rules[kf[2]] = P.psub(P.psub(P.pconst(1), P.ppow(P.patom(kf[0]), 2)), P.ppow(P.patom(kf[1]), 2))
                    if scen == 'opposite':
                        for x, y in zip(f, to): ctx.lin[ctx.key(y)] = P.pneg(P.patom(ctx.key(x)))
                    else:
                        kt = [ctx.key(x) for x in to]
                        ctx.rules[kt[2]] = P.psub(P.psub(P.pconst(1), P.ppow(P.patom(kt[0]), 2)), P.ppow(P.patom(kt[1]), 2))
                setup(ctx0)
                n_ = 0
                for asg, res in PC.generic_cases(o, ctx0, enumerate_cond=enum, premise=premise, max_enum=8):
                    ctx = P.Ctx(); setup(ctx); n_ += 1
                    q = [ctx.rat(x) for x in res]
                    nn = sum_r(ctx, [ctx.rmul(x, x) for x in q])
                    if not ctx.requal(nn, (ONE, ONE)): return ('%s path %s: not a unit quaternion (|q|^2 = %s)' % (scen, PC.show_asg(asg)[:100], P.show_rat(nn, ctx)[:100]), None, fn_where(S.fn))
                    # rotate f by q (row-vector convention, formula for unit q): v' = v + 2r(qv x v)... use the matrix of the library itself
                    fv = [atom(ctx, x) for x in f]; tv = [ctx.rat(x) if scen == 'generic' else ctx.rat(x) for x in to]
                    r, x, y, z = q
                    def m(a, b): return ctx.rmul(a, b)
                    two = (P.pconst(2), ONE); one = (ONE, ONE)
                    def lin(*terms): return sum_r(ctx, list(terms))
                    M = [[lin(one, neg(m(two, lin(m(y, y), m(z, z))))), m(two, lin(m(x, y), m(z, r))), m(two, lin(m(z, x), neg(m(y, r))))],
                         [m(two, lin(m(x, y), neg(m(z, r)))), lin(one, neg(m(two, lin(m(z, z), m(x, x))))), m(two, lin(m(y, z), m(x, r)))],
                         [m(two, lin(m(z, x), m(y, r))), m(two, lin(m(y, z), neg(m(x, r)))), lin(one, neg(m(two, lin(m(y, y), m(x, x)))))]]
                    img = matvec(ctx, fv, M, 3)
                    # img must be parallel to `to` with positive factor |f|/|to| : img x to = 0 and img.to > 0 structure: check cross and squared lengths
                    cr = [ctx.radd(m(img[(i + 1) % 3], tv[(i + 2) % 3]), neg(m(img[(i + 2) % 3], tv[(i + 1) % 3]))) for i in range(3)]
                    if not all(ctx.rzero(c) for c in cr): return ('%s path %s: the image of `from` is not along `to`' % (scen, PC.show_asg(asg)[:100]), None, fn_where(S.fn))
                    # same direction (not opposite): img . to  * |.| ... sign: compare img with (|f|/|to|) * to
                    lf = ctx.sqrt_poly(sum_r(ctx, [m(a_, a_) for a_ in fv])[0]); lt_ = ctx.sqrt_poly(ctx.reduce(sum_r(ctx, [m(a_, a_) for a_ in tv])[0]))
                    want = [ctx.rmul(ctx.rdiv(lf, lt_), a_) for a_ in tv]
                    if not all(ctx.requal(a_, b_) for a_, b_ in zip(img, want)): return ('%s path %s: `from` is carried onto -to, not to' % (scen, PC.show_asg(asg)[:100]), None, fn_where(S.fn))
                results.append('%s: %d path(s)' % (scen, n_))
            # exactly opposite vectors: WHICH coordinate axis the rotation axis is built from is decided by comparisons of the
            # components of `from`; on every sign / magnitude pattern of a non-zero `from` (lattice {-2..2}^3) the chosen
            # path must still give a unit quaternion (an axis parallel to `from` gives the zero cross product)
            import itertools, math
            ctx0 = P.Ctx(); ctx0.cancel = True
            for x, y in zip(f, to): ctx0.lin[ctx0.key(y)] = P.pneg(P.patom(ctx0.key(x)))
            kf0 = [ctx0.key(x) for x in f]
            ctx0.rules[kf0[2]] = P.psub(P.psub(P.pconst(1), P.ppow(P.patom(kf0[0]), 2)), P.ppow(P.patom(kf0[1]), 2))
            cases_opp = list(PC.generic_cases(o, ctx0, enumerate_cond=enum, premise=premise, max_enum=8))
            def numeric(ctx, r):
                def val(p_):
                    tot = 0.0
                    for mono, c_ in p_.items():
                        v = float(c_)
                        for k_, e_ in mono:
                            rad = ctx.rules.get(k_)
                            if rad is None or any(m_ for m_ in rad if m_ != ()): raise P.NotPoly('atom without a numeric value')
                            v *= math.sqrt(float(rad.get((), 0))) ** e_
                        tot += v
                    return tot
                return val(r[0]) / val(r[1])
            npat = 0
            for fv_ in itertools.product(range(-2, 3), repeat=3):
                if fv_ == (0, 0, 0): continue
                cx = P.Ctx(); cx.cancel = True
                for x, c_ in zip(f, fv_): cx.lin[cx.key(x)] = P.pconst(c_)
                for x, c_ in zip(to, fv_): cx.lin[cx.key(x)] = P.pconst(-c_)
                chosen = None
                for asg, res in cases_opp:
                    okc = True
                    for c, v in asg.items():
                        if not (c.op == 'fcmp' and c.attr in ('olt', 'ole')) or tiny(c): continue
                        try:
                            d_ = cx.radd(cx.rat(c.args[0]), neg(cx.rat(c.args[1])))
                            val = 0.0 if cx.rzero(d_) else numeric(cx, d_)
                        except P.NotPoly as e_:
                            if os.environ.get('VERIF_DEBUG'): print('DBG', fv_, T.show(c, 3)[:100], e_)
                            okc = None; break
                        tv_ = (val < 0) if c.attr == 'olt' else (val <= 0)
                        if os.environ.get('VERIF_DEBUG') and fv_ == (1, 2, -1): print('DBG', T.show(c, 4)[:160], val, tv_, v)
                        if tv_ != v: okc = False; break
                    if okc: chosen = (asg, res); break
                if chosen is None: continue            # the lattice point is not on the exactly-opposite path of any enumerated case (e.g. a tie the premises exclude)
                npat += 1
                try:
                    q = [cx.rat(x) for x in chosen[1]]
                    nn = sum_r(cx, [cx.rmul(x, x) for x in q])
                    bad_ = not cx.requal(nn, (ONE, ONE))
                except P.NotPoly as e:
                    bad_ = 'zero polynomial' in str(e)
                    if not bad_: raise
                if bad_: return ('exactly opposite vectors with from = %s: the axis chosen for the half turn is parallel to `from` (zero cross product), the result is not a unit quaternion' % (list(fv_),), None, fn_where(S.fn))
            if npat < 60: return ('only %d lattice directions reached a path of the exactly-opposite branch' % npat, None, fn_where(S.fn))
            results.append('opposite: unit on %d lattice directions of every sign / order pattern' % npat)
            return (None, 'unit quaternion carrying from/|from| onto to/|to| (%s)' % '; '.join(results), fn_where(S.fn))
        ob('setRotation(from,to)', 'R10.setrot', setrot)

        def rotmat():
            A = outs(S_('w_rotmat'), 'a0', 16)
            q = outs(S_('w_setrot'), 'a0', 4)
            m44 = outs(S_('w_m44'), 'a0', 16)
            comp = [T.subst(x, dict((agg.slot_in('a1', i, t), q[i]) for i in range(4))) for x in m44]
            for i in range(16):
                if A[i] is not comp[i] and not T.equiv(A[i], comp[i], 100000):
                    return ('rotationMatrix entry [%d][%d] differs from setRotation(from,to).toMatrix44()' % (i // 4, i % 4), None, fn_where(S_('w_rotmat').fn))
            return (None, 'rotationMatrix(from,to) = Quat().setRotation(from,to).toMatrix44()', fn_where(S_('w_rotmat').fn))
        ob('rotationMatrix(from,to)', 'R10.setrot', rotmat)

        def slerp_ends():
            S = S_('w_slerp'); o = outs(S, 'a0', 4)
            nz = outs(S_('w_normalized'), 'a0', 4)
            tt = agg.scalar_in('a3', t)
            for tv, base in ((0.0, 'a1'), (1.0, 'a2')):
                oo = [T.subst(x, {tt: T.fp_from_value(lt, tv)}) for x in o]
                want = [T.subst(x, dict((agg.slot_in('a1', i, t), agg.slot_in(base, i, t)) for i in range(4))) for x in nz]
                def prem(c):
                    if tiny(c): return False
                    return None
                c0 = P.Ctx(); c0.cancel = True
                for asg, res in PC.generic_cases(oo + want, c0, enumerate_cond=enum, premise=prem, max_enum=10):
                    ctx = P.Ctx(); ctx.cancel = True
                    for k in range(4):
                        if not ctx.requal(ctx.rat(res[k]), ctx.rat(res[4 + k])):
                            return ('slerp(q1,q2,%g) component %d = %s, expected normalized(%s)' % (tv, k, P.show_rat(ctx.rat(res[k]), ctx)[:120], 'q1' if tv == 0 else 'q2'), None, fn_where(S.fn))
            return (None, 'slerp(q1,q2,0) = normalized(q1), slerp(q1,q2,1) = normalized(q2) (sinx_over_x opaque, cancels)', fn_where(S.fn))
        ob('slerp endpoints', 'R10.slerp', slerp_ends)

        def slerp_linear():
            """slerp(q1,q2,t) . q1 = cos(t a) and slerp(q1,q2,t) . q2 = cos((1-t) a) for unit q1, q2 and a = angle4D(q1,q2): the point at
            4-D angle t*a from q1 on the great circle through q1 and q2 (generic branch of sinx_over_x; addition formulas)"""
            S = S_('w_slerp'); o = outs(S, 'a0', 4)
            tt = agg.scalar_in('a3', t)
            def huge(z): return z.op == 'fmul' and any(w.op == 'const' and abs(T.const_value(w)) > 10 ** 30 for w in z.args)
            for _ in range(12):
                pre = {}
                for c in set(c_ for x in o for c_ in P.all_conds(x)):
                    if tiny(c): pre[c] = False
                    elif c.op == 'fcmp' and c.attr == 'oeq' and any(z.op == 'const' and T.const_value(z) == 0 for z in c.args): pre[c] = False
                    elif c.op == 'fcmp' and c.attr in ('olt', 'ole') and c.args[1].op == 'const' and 0 < T.const_value(c.args[1]) < Fraction(1, 1000) and P.abs_idiom(T.ite(c, T.TRUE, T.FALSE)) is None: pre[c] = False     # x*x < epsilon: the small-argument branch
                if not pre: break
                o = [T.resolve(x, pre) for x in o]
            ctx = P.Ctx(); ctx.cancel = True; unit(ctx, 'a1'); unit(ctx, 'a2')
            P.install_trig_expansion(ctx)
            q1, q2 = qv(ctx, 'a1'), qv(ctx, 'a2')
            r = [ctx.rat(x) for x in o]
            lt_ = lt
            A = None
            # the angle: 2 * atan2(|q1 - q2|, |q1 + q2|) as it occurs in the graph
            seen = set(); st = list(o)
            while st:
                x = st.pop()
                if x.id in seen: continue
                seen.add(x.id); st.extend(x.args)
                if x.op == 'call' and x.attr == 'atan2': A = T.binop('fmul', T.fp_from_value(lt_, 2.0), x, lt_)
            if A is None: return ('no atan2 (angle4D) in slerp', None, fn_where(S.fn))
            want1 = ctx.rat(T.call('cos', [T.binop('fmul', tt, A, lt_)], lt_))
            want2 = ctx.rat(T.call('cos', [T.binop('fmul', T.binop('fsub', T.fp_from_value(lt_, 1.0), tt, lt_), A, lt_)], lt_))
            d1 = sum_r(ctx, [ctx.rmul(r[i], q1[i]) for i in range(4)]); d2 = sum_r(ctx, [ctx.rmul(r[i], q2[i]) for i in range(4)])
            if not ctx.requal(d1, want1): return ('slerp(q1,q2,t) . q1 = %s, expected cos(t * angle4D(q1,q2))' % P.show_rat(d1, ctx)[:140], None, fn_where(S.fn))
            if not ctx.requal(d2, want2): return ('slerp(q1,q2,t) . q2 = %s, expected cos((1-t) * angle4D(q1,q2))' % P.show_rat(d2, ctx)[:140], None, fn_where(S.fn))
            nn = sum_r(ctx, [ctx.rmul(x, x) for x in r])
            if not ctx.requal(nn, (ONE, ONE)): return ('slerp result is not unit: %s' % P.show_rat(nn, ctx)[:120], None, fn_where(S.fn))
            return (None, 'unit; at 4-D angle t*a from q1 and (1-t)*a from q2 (a = angle4D(q1,q2)), for every real t on the generic branch', fn_where(S.fn))
        ob('slerp angle-linearity', 'R10.slerp', slerp_linear)

        def shortest():
            Ro = an[to]
            S = S_('w_ssa', Ro)
            o = S.out('a0', 0, sz, lt)
            # o = sel(callmem(call slerp(...)), 0)  under ite(0 <= q1.q2, ..., ...)
            calls = []
            def find_calls(x, seen):
                if x.id in seen: return
                seen.add(x.id)
                if x.op == 'call' and 'slerp' in str(x.attr): calls.append(x); return
                for a_ in x.args: find_calls(a_, seen)
            top = o
            for _ in range(6):
                if top.op == 'ite': break
                if top.op in ('sel', 'mem', 'subread') and top.args: top = top.args[0]
                else: break
            if top.op != 'ite': return ('slerpShortestArc does not branch on the sign of q1.q2 (%s)' % T.show(o, 3)[:160], None, fn_where(S.fn))
            c, a_, b_ = top.args
            ctx = P.Ctx()
            dot = sum_r(ctx, [ctx.rmul(atom(ctx, agg.slot_in('a1', i, t)), atom(ctx, agg.slot_in('a2', i, t))) for i in range(4)])
            if not (c.op == 'fcmp' and c.attr in ('ole', 'olt') and any(z.op == 'const' and T.const_value(z) == 0 for z in c.args)): return ('branch condition is %s' % T.show(c, 3), None, fn_where(S.fn))
            other = [z for z in c.args if z.op != 'const'][0]
            if not ctx.requal(ctx.rat(other), dot): return ('the tested quantity is not q1.q2', None, fn_where(S.fn))
            pos_arm, neg_arm = (a_, b_) if c.args[0].op == 'const' else (b_, a_)     # (0 <= d) ? a : b   /  (d < 0) ? a : b
            def second_arg_cells(arm):
                cs = []; find_calls(arm, set());
                cl = calls[-1]; del calls[:]
                mems = [z for z in cl.args if z.op == 'mem']
                return mems
            mp = second_arg_cells(pos_arm); mn = second_arg_cells(neg_arm)
            def cells(mm):
                d = {}
                for j in range(1, len(mm.args), 2): d[T.signed(mm.args[j])] = mm.args[j + 1]
                return d
            # positive arm passes q2 itself (no temporary): only q1's and q2's own memory; negative arm passes a temporary holding -q2
            neg_tmp = [cells(m_) for m_ in mn if cells(m_)]
            okn = any(all(cc.get(i * sz) is T.fneg(agg.slot_in('a2', i, t)) for i in range(4)) for cc in neg_tmp)
            okp = not any(any(v.op == 'fneg' for v in cells(m_).values()) for m_ in mp)
            if not okn: return ('on the q1.q2 < 0 arm slerp is not called with -q2', None, fn_where(S.fn))
            if not okp: return ('on the q1.q2 >= 0 arm slerp is called with a negated quaternion', None, fn_where(S.fn))
            return (None, 'slerp(q1, q2, t) when q1.q2 >= 0, slerp(q1, -q2, t) otherwise', fn_where(S.fn))
        ob('slerpShortestArc', 'R10.slerp', shortest)
    narrowing(rep, ws, [gen('d'), gen_opaque('d'), gen_squad('d'), gen_spline('d'), gen_sinc('d')], 'R10.prec')
    rep.floor('quaternion obligations', len(rep.obs), 9 * len(types))
    rep.assumptions += ['exact real arithmetic at a generic point', '|q| = 1 where the statement says "unit"', 'sinx_over_x, sqrt, sin, cos as atoms with sqrt(x)^2 = x, sin^2+cos^2 = 1']
    rep.undecided_clauses += ['slerp on the small-argument branch of sinx_over_x and near q1 = -q2; exp(log q) = q for r near -1 or +1 (numeric)', 'squad / spline interpolation and tangent continuity', 'nearly opposite directions (numeric)']

def find_node(root, target):
    seen = set(); stack = [root]
    while stack:
        x = stack.pop()
        if x.id in seen: continue
        seen.add(x.id)
        if x is target: return True
        stack.extend(x.args)
    return False
