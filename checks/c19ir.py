"""C19, index arithmetic of the array classes decided on the compiler's IR (value graphs of the instantiated member
functions; CPython / Boost.Python entry points stay opaque calls, `throw_error_already_set` is a throwing exit).

R19.idx  canonical_index / convert_index (FixedArray, FixedArray2D, FixedMatrix, StaticFixedArray): for every length L and
         every index i the result is i for 0 <= i < L, i + L for -L <= i < 0 and an exception otherwise.  The graphs contain
         only comparisons and sums of i, L and 0, i.e. homogeneous linear forms: the cones they cut out of the (i, L) plane all
         contain lattice points with L <= 3, so evaluating the graph on that lattice (constant folding) is exhaustive.
         getitem(i) loads the element at canonical_index(i) * stride (unmasked array).
         extract_slice_indices: an integer index gives (start, end, step, length) = (c, c+1, 1, 1) with c its canonical
         index; a slice hands its fields to PySlice_Unpack / PySlice_AdjustIndices with the array's length and passes their
         results on unchanged, throwing on negative start / length.
         getslice / setitem_scalar / setitem_vector: iteration k (k = 0, 1, ... < slicelength, step 1) touches element
         (start + k*step) * stride, through raw_ptr_index when the array is a masked reference; the right-hand side is read at k."""
import os
from engine import build, vg, term as T, poly as P
from engine.report import HOLDS, VIOLATED, UNDECIDED

SRC = '''#include <PyImathFixedArray.h>
#include <PyImathFixedArray2D.h>
#include <PyImathFixedMatrix.h>
#include <ImathVec.h>
#include <new>
using namespace PyImath;
typedef StaticFixedArray<IMATH_NAMESPACE::Vec3<float>, float, 3> SFA3;
extern "C" {
void w_canon(size_t& o, const FixedArray<int>& a, const Py_ssize_t& i) { o = a.canonical_index(i); }
void w_canon2d(size_t& o, const FixedArray2D<int>& a, const Py_ssize_t& i, const size_t& n) { o = a.canonical_index(i, n); }
void w_canonM(Py_ssize_t& o, const FixedMatrix<int>& a, const int& i) { o = a.convert_index(i); }
void w_canonS(size_t& o, const Py_ssize_t& i) { o = SFA3::canonical_index(i); }
void w_get(int& o, const FixedArray<int>& a, const Py_ssize_t& i) { o = a.getitem(i); }
void w_slice(const FixedArray<int>& a, PyObject* const& idx, size_t& start, size_t& end, Py_ssize_t& step, size_t& len) { a.extract_slice_indices(idx, start, end, step, len); }
void w_get2d(int& o, FixedArray2D<int>& a, const Py_ssize_t& i, const Py_ssize_t& j) { o = a.getitem(i, j); }
void w_slice2d(const FixedArray2D<int>& a, PyObject* const& idx, const size_t& n, size_t& start, size_t& end, Py_ssize_t& step, size_t& len) { a.extract_slice_indices(idx, n, start, end, step, len); }
void w_mask(FixedArray<int>* o, FixedArray<int>& a, const FixedArray<int>& m) { new (o) FixedArray<int>(a, m); }
void w_setsc(FixedArray<int>& a, PyObject* const& idx, const int& v) { a.setitem_scalar(idx, v); }
void w_setvec(FixedArray<int>& a, PyObject* const& idx, const FixedArray<int>& d) { a.setitem_vector(idx, d); }
void w_getslice(FixedArray<int>& o, const FixedArray<int>& a, PyObject* const& idx) { o = a.getslice(idx); }
}
'''

def _inputs(n):
    out = []; seen = set(); st = [n]
    while st:
        x = st.pop()
        if x.id in seen: continue
        seen.add(x.id); st.extend(x.args)
        if x.op == 'in': out.append(x)
    return out

def _grid(o, iv, Lv, Lconst=None, width=64):
    """first lattice point where the graph differs from the specification, or None"""
    for L in ([Lconst] if Lconst is not None else range(0, 4)):
        for i in range(-2 * L - 2, 2 * L + 3):
            mp = {iv: T.const_int(iv.attr[2] * 8 if iv.op == 'in' else 64, i & ((1 << (iv.attr[2] * 8)) - 1))}
            if Lv is not None: mp[Lv] = T.const_int(Lv.attr[2] * 8, L)
            r = T.subst(o, mp)
            want = i if 0 <= i < L else (i + L if -L <= i < 0 else 'throw')
            if r.op == 'throw': got = 'throw'
            elif r.op == 'const': got = T.signed(r)
            else: return 'index %d, length %d: the result is not decided by the comparisons (%s)' % (i, L, T.show(r, 3)[:80])
            if got != want:
                return 'index %d of a length-%d array gives %s, a Python list gives %s' % (i, L, 'an exception' if got == 'throw' else 'element %s' % got, 'IndexError' if want == 'throw' else 'element %d' % want)
    return None

def find(n, pred):
    seen = set(); st = [n]
    while st:
        x = st.pop()
        if x.id in seen: continue
        seen.add(x.id)
        if pred(x): return x
        st.extend(x.args)
    return None

class _Reported(Exception):
    pass

def main_idx(rep, ws):
    where = 'src/python/PyImath/PyImathFixedArray.h'
    repo = build.REPO
    extra = ['-I' + os.path.join(repo, 'src', 'python', 'PyImath'), '-I/usr/include/python3.11']
    try:
        bc = ws.compile('c19ir', SRC, extra=extra)
        mod = ws.irx(bc, opaque=(), prefixes=('w_',))
        modl = ws.irx(bc, opaque=('extract_slice_indices', 'raw_ptr_index', 'N5boost'), prefixes=('w_',), no_unroll=True)
    except build.BuildError as e:
        rep.ob('index arithmetic', 'R19.idx', UNDECIDED, str(e)[:300], where); return 0
    I = vg.Interp(mod); n = 0
    # ---- canonical index functions
    for nm, what, osz, oty, ibase, isz, fixedL in (('w_canon', 'FixedArray::canonical_index', 8, 'i64', 'a2', 8, None), ('w_canon2d', 'FixedArray2D::canonical_index', 8, 'i64', 'a2', 8, None),
                                                   ('w_canonM', 'FixedMatrix::convert_index', 8, 'i64', 'a2', 4, None), ('w_canonS', 'StaticFixedArray<Vec3>::canonical_index', 8, 'i64', 'a1', 8, 3)):
        n += 1
        try:
            S = I.run(nm)
            o = S.out('a0', 0, osz, oty)
            iv = T.inp(ibase, 0, isz, 'i%d' % (isz * 8))
            others = [x for x in _inputs(o) if x is not iv]
            if fixedL is None and len(others) != 1:
                rep.ob(what, 'R19.idx', UNDECIDED, 'expected the index and one length among the inputs, found %s' % [T.show(x) for x in others], where); continue
            bad = _grid(o, iv, others[0] if fixedL is None else None, fixedL)
            rep.ob(what, 'R19.idx', VIOLATED if bad else HOLDS, bad or 'i for 0 <= i < L, i + L for -L <= i < 0, exception otherwise (all cones of the (i, L) plane)', where)
        except vg.Unsupported as e:
            rep.ob(what, 'R19.idx', UNDECIDED, str(e)[:300], where)
    # ---- getitem
    n += 1
    try:
        S = I.run('w_get'); o = S.out('a0', 0, 4, 'i32')
        iv = T.inp('a2', 0, 8, 'i64')
        masked = find(o, lambda x: x.op == 'ptrcmp' and any(a.op == 'ptr' and 'null' in str(a.attr) for a in x.args))
        if masked is not None: o = T.resolve(o, {masked: True})           # _indices == nullptr: not a masked reference
        ins = [x for x in _inputs(o) if x is not iv]
        # the length is the input compared with the index
        cmps = []
        seen_ = set(); st_ = [o]
        while st_:
            x = st_.pop()
            if x.id in seen_: continue
            seen_.add(x.id); st_.extend(x.args)
            if x.op == 'icmp' and find(x, lambda y: y is iv) is not None: cmps.append(x)
        Lc = [x for x in ins if any(find(c, lambda y: y is x) is not None for c in cmps) and x.attr[2] == 8]
        if len(Lc) != 1: raise vg.Unsupported('length input not identified (%s)' % [T.show(x) for x in Lc])
        Lv = Lc[0]
        bad = None
        for L in range(0, 4):
            for i in range(-2 * L - 2, 2 * L + 3):
                r = T.subst(o, {iv: T.const_int(64, i & (2 ** 64 - 1)), Lv: T.const_int(64, L)})
                want = i if 0 <= i < L else (i + L if -L <= i < 0 else 'throw')
                if want == 'throw':
                    if r.op != 'throw': bad = 'index %d of a length-%d array reads %s instead of raising' % (i, L, T.show(r, 3)[:80])
                    continue
                if r.op != 'sel': bad = 'index %d of a length-%d array: %s' % (i, L, T.show(r, 3)[:80]); break
                ctx = P.Ctx(); off = ctx.rat(r.args[1])
                strides = [x for x in _inputs(r.args[1]) if x.attr[2] == 8]
                if len(strides) != 1: bad = 'element offset %s is not index * stride' % T.show(r.args[1], 3); break
                wantoff = (P.pscale(P.patom(ctx.key(strides[0])), 4 * want), P.pconst(1))
                if not ctx.requal(off, wantoff): bad = 'index %d of a length-%d array reads at offset %s, expected element %d * stride' % (i, L, P.show_rat(off, ctx), want); break
            if bad: break
        rep.ob('FixedArray::getitem', 'R19.idx', VIOLATED if bad else HOLDS, bad or 'reads element canonical_index(i) * stride of the storage, raises otherwise', where)
    except (vg.Unsupported, P.NotPoly, IndexError) as e:
        rep.ob('FixedArray::getitem', 'R19.idx', UNDECIDED, repr(e)[:300], where)
    # ---- extract_slice_indices
    n += 1
    try:
        S = I.run('w_slice')
        outs = [S.out(b, 0, 8, 'i64') for b in ('a2', 'a3', 'a4', 'a5')]
        Lv = T.inp('a0', 8, 8, 'i64')
        is_slice = find(outs[0], lambda x: x.op == 'ptrcmp' and any('PySlice_Type' in str(a.attr) for a in x.args))
        is_long = find(outs[0], lambda x: x.op == 'icmp' and x.attr == 'eq' and any(a.op == 'and' and any(b.op == 'const' and b.attr[1] == (1 << 24) for b in a.args) for a in x.args))
        if is_slice is None or is_long is None: raise vg.Unsupported('type tests on the index object not recognised')
        bad = None
        # integer index
        oi = [T.resolve(x, {is_slice: False, is_long: False}) for x in outs]
        call = find(oi[0], lambda x: x.op == 'call' and 'AsSsize_t' in str(x.attr))
        if call is None: bad = 'an integer index is not converted with PyLong_AsSsize_t'
        else:
            for L in range(0, 4):
                for i in range(-2 * L - 2, 2 * L + 3):
                    rs = [T.subst(x, {call: T.const_int(64, i & (2 ** 64 - 1)), Lv: T.const_int(64, L)}) for x in oi]
                    # a load from the memory the function has just stored to, at the same constant offset
                    rs = [r.args[0].args[2] if (r.op == 'sel' and r.args[0].op == 'mem' and len(r.args[0].args) == 3 and r.args[0].args[1].op == 'const' and r.args[1].op == 'const'
                                                 and r.args[0].args[1].attr[1] == r.args[1].attr[1]) else r for r in rs]
                    want = i if 0 <= i < L else (i + L if -L <= i < 0 else None)
                    if want is None:
                        if any(r.op != 'throw' for r in rs): bad = 'integer index %d on length %d does not raise' % (i, L)
                    else:
                        got = [T.signed(r) if r.op == 'const' else None for r in rs]
                        if got != [want, want + 1, 1, 1]: bad = 'integer index %d on length %d gives (start, end, step, length) = %s, expected (%d, %d, 1, 1)' % (i, L, got, want, want + 1)
                    if bad: break
                if bad: break
        # slice
        if not bad:
            os_ = [T.resolve(x, {is_slice: True}) for x in outs]
            adj = find(os_[3], lambda x: x.op == 'call' and 'PySlice_AdjustIndices' in str(x.attr))
            unp = find(os_[3], lambda x: x.op == 'call' and 'PySlice_Unpack' in str(x.attr))
            if adj is None or unp is None: bad = 'a slice is not unpacked with PySlice_Unpack / PySlice_AdjustIndices'
            elif adj.args[0] is not Lv: bad = 'PySlice_AdjustIndices is given %s, not the length of the array' % T.show(adj.args[0], 2)
            else:
                leaves = [[lf for lits, lf in T.leaves(x, 256) if lf.op != 'throw'] for x in os_]
                if not all(len(l) == 1 for l in leaves): bad = 'the slice fields are modified after adjustment'
                else:
                    st_, en_, sp_, ln_ = (l[0] for l in leaves)
                    if ln_ is not adj: bad = 'slicelength is %s, not the value returned by PySlice_AdjustIndices' % T.show(ln_, 2)
                    elif not all(x.op == 'sel' and find(x, lambda y: y is adj) is not None for x in (st_, en_)): bad = 'start / end are not the adjusted fields'
                    elif not (sp_.op == 'sel' and find(sp_, lambda y: y is unp or y is adj) is not None): bad = 'step is not the unpacked field'
                    # negative start / length must raise
                    thr = [lits for lits, lf in T.leaves(os_[0], 256) if lf.op == 'throw']
                    if not bad and len(thr) < 3: bad = 'negative start / end / length are not rejected'
        rep.ob('FixedArray::extract_slice_indices', 'R19.idx', VIOLATED if bad else HOLDS, bad or 'integer: (c, c+1, 1, 1) with c the canonical index; slice: the fields adjusted by CPython for this length, passed on unchanged', where)
    except (vg.Unsupported, P.NotPoly) as e:
        rep.ob('FixedArray::extract_slice_indices', 'R19.idx', UNDECIDED, repr(e)[:300], where)
    # ---- FixedArray2D
    n += 1
    try:
        S = I.run('w_get2d'); o = S.out('a0', 0, 4, 'i32')
        iv, jv = T.inp('a2', 0, 8, 'i64'), T.inp('a3', 0, 8, 'i64')
        ins = [x for x in _inputs(o) if x is not iv and x is not jv and x.attr[2] == 8]
        def compared_with(v):
            out_ = []
            seen_ = set(); st_ = [o]
            while st_:
                x = st_.pop()
                if x.id in seen_: continue
                seen_.add(x.id); st_.extend(x.args)
                if x.op == 'icmp' and find(x, lambda y: y is v) is not None: out_ += [z for z in ins if find(x, lambda y: y is z) is not None]
            return sorted(set(out_), key=lambda z: z.id)
        Lx, Ly = compared_with(iv), compared_with(jv)
        if len(Lx) == 1 and len(Ly) == 1 and Lx[0] is Ly[0]:
            rep.ob('FixedArray2D::getitem', 'R19.idx', VIOLATED, 'both indices of item(i, j) are range-checked and wrapped against the same extent (%s): on a non-square array a valid column raises, a negative one wraps to the wrong column, or an invalid one is read past the end' % T.show(Lx[0], 2), where)
            raise _Reported()
        if len(Lx) != 1 or len(Ly) != 1: raise vg.Unsupported('the two lengths were not identified')
        Lx, Ly = Lx[0], Ly[0]
        bad = None
        if Lx.attr[0] == Ly.attr[0] and Lx.attr[1] > Ly.attr[1]:
            bad = 'the first index is range-checked against length.y (offset %d) and the second against length.x (offset %d)' % (Lx.attr[1], Ly.attr[1])
        for (Lxv, Lyv) in (() if bad else ((1, 1), (2, 3), (3, 2))):
            for i in range(-Lxv - 1, Lxv + 1):
                for j in range(-Lyv - 1, Lyv + 1):
                    r = T.subst(o, {iv: T.const_int(64, i & (2 ** 64 - 1)), jv: T.const_int(64, j & (2 ** 64 - 1)), Lx: T.const_int(64, Lxv), Ly: T.const_int(64, Lyv)})
                    wi = i if 0 <= i < Lxv else (i + Lxv if -Lxv <= i < 0 else None); wj = j if 0 <= j < Lyv else (j + Lyv if -Lyv <= j < 0 else None)
                    if wi is None or wj is None:
                        if r.op != 'throw': bad = 'index (%d, %d) of a %d x %d array does not raise' % (i, j, Lxv, Lyv)
                    elif r.op != 'sel': bad = 'index (%d, %d) of a %d x %d array: %s' % (i, j, Lxv, Lyv, T.show(r, 3)[:80])
                    else:
                        ctx = P.Ctx(); off = ctx.rat(r.args[1])
                        st = sorted([x for x in _inputs(r.args[1]) if x.attr[2] == 8], key=lambda z: z.attr[1])
                        if len(st) != 2: bad = 'element offset %s does not use the two strides' % T.show(r.args[1], 3)[:80]
                        else:
                            sx, sy = (P.patom(ctx.key(z)) for z in st)
                            want = P.pscale(P.pmul(sx, P.padd(P.pscale(sy, wj), P.pconst(wi))), 4)
                            if not ctx.requal(off, (want, P.pconst(1))): bad = 'index (%d, %d) of a %d x %d array reads at offset %s, expected stride.x * (%d * stride.y + %d)' % (i, j, Lxv, Lyv, P.show_rat(off, ctx)[:80], wj, wi)
                    if bad: break
                if bad: break
            if bad: break
        rep.ob('FixedArray2D::getitem', 'R19.idx', VIOLATED if bad else HOLDS, bad or 'reads element stride.x * (cj * stride.y + ci) for the canonical indices (ci, cj), raises otherwise', 'src/python/PyImath/PyImathFixedArray2D.h')
    except _Reported:
        pass
    except (vg.Unsupported, P.NotPoly, IndexError) as e:
        rep.ob('FixedArray2D::getitem', 'R19.idx', UNDECIDED, repr(e)[:300], 'src/python/PyImath/PyImathFixedArray2D.h')
    n += 1
    try:
        S = I.run('w_slice2d')
        outs = [S.out(b, 0, 8, 'i64') for b in ('a3', 'a4', 'a5', 'a6')]
        Lv = T.inp('a2', 0, 8, 'i64')
        is_slice = find(outs[0], lambda x: x.op == 'ptrcmp' and any('PySlice_Type' in str(a.attr) for a in x.args))
        is_long = find(outs[0], lambda x: x.op == 'icmp' and x.attr == 'eq' and any(a.op == 'and' and any(b.op == 'const' and b.attr[1] == (1 << 24) for b in a.args) for a in x.args))
        if is_slice is None or is_long is None: raise vg.Unsupported('type tests on the index object not recognised')
        bad = None
        oi = [T.resolve(x, {is_slice: False, is_long: False}) for x in outs]
        call = find(oi[0], lambda x: x.op == 'call' and 'AsSsize_t' in str(x.attr))
        if call is None: bad = 'an integer index is not converted with PyLong_AsSsize_t'
        else:
            for L in range(0, 4):
                for i in range(-2 * L - 2, 2 * L + 3):
                    rs = [T.subst(x, {call: T.const_int(64, i & (2 ** 64 - 1)), Lv: T.const_int(64, L)}) for x in oi]
                    rs = [r.args[0].args[2] if (r.op == 'sel' and r.args[0].op == 'mem' and len(r.args[0].args) == 3 and r.args[0].args[1].op == 'const' and r.args[1].op == 'const'
                                                 and r.args[0].args[1].attr[1] == r.args[1].attr[1]) else r for r in rs]
                    want = i if 0 <= i < L else (i + L if -L <= i < 0 else None)
                    if want is None:
                        if any(r.op != 'throw' for r in rs): bad = 'integer index %d on length %d does not raise' % (i, L)
                    else:
                        got = [T.signed(r) if r.op == 'const' else None for r in rs]
                        if got != [want, want + 1, 1, 1]: bad = 'integer index %d on length %d gives (start, end, step, length) = %s, expected (%d, %d, 1, 1)' % (i, L, got, want, want + 1)
                    if bad: break
                if bad: break
        if not bad:
            os_ = [T.resolve(x, {is_slice: True}) for x in outs]
            adj = find(os_[3], lambda x: x.op == 'call' and 'PySlice_AdjustIndices' in str(x.attr))
            if adj is None: bad = 'a slice is not adjusted with PySlice_AdjustIndices'
            elif adj.args[0] is not Lv: bad = 'PySlice_AdjustIndices is given %s, not the length of the dimension' % T.show(adj.args[0], 2)
            else:
                leaves = [[lf for lits, lf in T.leaves(x, 256) if lf.op != 'throw'] for x in os_]
                if not all(len(l) == 1 for l in leaves): bad = 'the slice fields are modified after adjustment'
                elif leaves[3][0] is not adj: bad = 'slicelength is not the value returned by PySlice_AdjustIndices'
        rep.ob('FixedArray2D::extract_slice_indices', 'R19.idx', VIOLATED if bad else HOLDS, bad or 'integer: (c, c+1, 1, 1); slice: the fields adjusted by CPython for the length of the dimension', 'src/python/PyImath/PyImathFixedArray2D.h')
    except (vg.Unsupported, P.NotPoly) as e:
        rep.ob('FixedArray2D::extract_slice_indices', 'R19.idx', UNDECIDED, repr(e)[:300], 'src/python/PyImath/PyImathFixedArray2D.h')
    # ---- loops
    Il = vg.Interp(modl)
    fns = {f['name']: f for f in modl['functions']}
    for nm, what, rhs in (('w_setsc', 'FixedArray::setitem_scalar', 'scalar'), ('w_setvec', 'FixedArray::setitem_vector', 'vector'), ('w_getslice', 'FixedArray::getslice', 'read')):
        n += 1
        try:
            bad = _loop_rule(Il, fns, nm, rhs)
            rep.ob(what, 'R19.idx', VIOLATED if bad else HOLDS, bad or 'iteration k < slicelength (k = 0, 1, ...) touches element (start + k*step) * stride, via raw_ptr_index on a masked reference', where)
        except (vg.Unsupported, P.NotPoly, KeyError, IndexError) as e:
            rep.ob(what, 'R19.idx', UNDECIDED, repr(e)[:300], where)
    # ---- masked reference: the index table
    n += 1
    try:
        modm = ws.irx(bc, opaque=('match_dimension', 'N5boost', 'raw_ptr_index', 'Znam', 'Znwm'), prefixes=('w_',), no_unroll=True)
        bad = _mask_rule(vg.Interp(modm), {f['name']: f for f in modm['functions']}['w_mask'])
        rep.ob('FixedArray(array, mask)', 'R19.idx', VIOLATED if bad else HOLDS, bad or 'the index table receives, in increasing order, exactly the positions i < len with mask[i] != 0 (store indices[j] = i and j++ under that one test; the count loop increments under the same test)', where)
    except (vg.Unsupported, P.NotPoly, KeyError, IndexError, build.BuildError) as e:
        rep.ob('FixedArray(array, mask)', 'R19.idx', UNDECIDED, repr(e)[:300], where)
    return n

def _mask_rule(Im, fn):
    r = Im.run_loop_body('w_mask'); S = r['summary']
    ids = {}; blk = {}
    for b in fn['blocks']:
        for i in b['insts']: ids[i.get('id')] = i; blk[i.get('id')] = b['id']
    def is_inc(vid, phi_id):
        x = ids.get(vid, {}); io = x.get('ops', [])
        return x.get('op') == 'add' and any(o.get('k') == 'v' and o.get('id') == phi_id for o in io) and any(o.get('k') == 'ci' and int(o['v']) == 1 for o in io)
    def phi_info(pid):
        """('step', init) for phi(init, phi+1); ('cond', init, block of the +1) for phi(init, phi(phi+1 | phi))"""
        x = ids[pid]; ops = x['ops']
        init = [o for o, _ in ops if o.get('k') == 'ci']; nxt = [o for o, _ in ops if o.get('k') == 'v']
        if len(init) != 1 or len(nxt) != 1: return None
        v = nxt[0]['id']
        if is_inc(v, pid): return ('step', int(init[0]['v']))
        y = ids.get(v, {})
        if y.get('op') == 'add':
            # count += (test) : add(phi, zext(icmp ne(load(... position ...), 0)))
            io = y.get('ops', [])
            zs = [ids.get(o.get('id'), {}) for o in io if o.get('k') == 'v' and o.get('id') != pid]
            if any(o.get('k') == 'v' and o.get('id') == pid for o in io) and len(zs) == 1 and zs[0].get('op') == 'zext':
                c = ids.get(zs[0]['ops'][0].get('id'), {})
                if c.get('op') == 'icmp' and c.get('pred') == 'ne' and any(o.get('k') == 'ci' and int(o['v']) == 0 for o in c['ops']):
                    return ('sum', int(init[0]['v']), c['id'])
        if y.get('op') == 'phi':
            inc = [(o, b_) for o, b_ in y['ops'] if o.get('k') == 'v' and is_inc(o['id'], pid)]
            same = [(o, b_) for o, b_ in y['ops'] if o.get('k') == 'v' and o['id'] == pid]
            if len(inc) == 1 and len(same) == 1 and len(y['ops']) == 2: return ('cond', int(init[0]['v']), inc[0][1])
        return None
    backs = [e for e in S.exits if e.kind == 'backedge']
    if len(backs) != 2: return 'expected the counting loop and the filling loop, found %d loops' % len(backs)
    guards = []
    seen_store = False
    for e in backs:
        lvs = set()
        for p in e.paths:
            for c, v in p:
                x = T._nodes[c]
                if x.op == 'icmp' and x.args[0].op == 'loopvar': lvs.add(x.args[0])
        stores = []
        for base, m in e.mem.items():
            a = m.arr
            if a is None: continue
            conds = []
            while a.op == 'ite':
                # the store sits on one arm of the mask test
                if a.args[2].op == 'upd': conds.append((a.args[0], False)); a = a.args[2]
                elif a.args[1].op == 'upd': conds.append((a.args[0], True)); a = a.args[1]
                else: break
            if a.op == 'upd': stores.append((a, conds))
        bound = [T._nodes[c] for p in e.paths for c, v in p if T._nodes[c].op == 'icmp' and T._nodes[c].args[0].op == 'loopvar' and v]
        if not bound: return 'a loop has no bound test'
        iv = bound[0].args[0]
        info_i = phi_info(iv.attr[1])
        if info_i != ('step', 0): return 'the position counter does not run 0, 1, 2, ...'
        # the other counter of the same header block
        others = [i['id'] for b in fn['blocks'] if b['id'] == iv.attr[0] for i in b['insts'] if i.get('op') == 'phi' and i.get('t') == 'i64' and i['id'] != iv.attr[1]]
        if len(others) != 1: return 'expected one running count beside the position counter'
        info_j = phi_info(others[0])
        if not info_j or info_j[0] not in ('cond', 'sum') or info_j[1] != 0: return 'the running count is not incremented by one under a single test'
        if info_j[0] == 'sum':
            # branch-free count: the summand is (mask[position] != 0); the loaded element must be addressed with the position counter
            def depends(vid, target, depth=0):
                if vid == target: return True
                if depth > 12: return False
                x = ids.get(vid, {})
                ops_ = [(o[0] if isinstance(o, list) else o) for o in (x.get('ops') or [])]
                return any(isinstance(o, dict) and o.get('k') == 'v' and depends(o.get('id'), target, depth + 1) for o in ops_)
            cmpi = ids[info_j[2]]
            if not any(o.get('k') == 'v' and depends(o['id'], iv.attr[1]) for o in cmpi['ops']): return 'the count does not test the mask element at the position counter'
            if stores: return 'the filling loop has no conditional store'
            guards.append('sum')
            continue
        # the test: mask[i] != 0 read at the position counter
        tests = set()
        for p in e.paths:
            for c, v in p:
                x = T._nodes[c]
                if x.op == 'icmp' and x.attr == 'eq' and any(z.op == 'const' and z.attr[1] == 0 for z in x.args) and find(x, lambda y: y is iv) is not None: tests.add(x)
        if len(tests) != 1: return 'the loop does not test exactly one mask element per position (%d tests)' % len(tests)
        tst = tests.pop()
        guards.append(T.subst(tst, {iv: T.inp('k#pos', 0, 8, 'i64')}))
        if stores:
            seen_store = True
            if len(stores) != 1: return 'more than one store per iteration'
            st, conds = stores[0]
            jv = find(st.args[1], lambda y: y.op == 'loopvar')
            if jv is None or jv.attr[1] != others[0]: return 'the table is not written at the running count'
            ctx = P.Ctx()
            kj = T.inp('k#cnt', 0, 8, 'i64')
            if not ctx.requal(ctx.rat(T.subst(st.args[1], {jv: kj})), (P.pscale(P.patom(ctx.key(kj)), 8), P.pconst(1))): return 'the table is written at offset %s, expected 8 * count' % T.show(st.args[1], 3)[:60]
            if st.args[2] is not iv: return 'the value written into the table is %s, expected the position' % T.show(st.args[2], 2)[:60]
            if not conds or conds[-1][0] is not tst or conds[-1][1] is not False: return 'the table is not written exactly when mask[position] != 0'
            if blk_of_store(fn, ids) is not None and info_j[2] != blk_of_store(fn, ids): return 'the running count is not incremented together with the store'
    if not seen_store: return 'no store into the index table'
    if 'sum' in guards:
        if len([g for g in guards if g != 'sum']) != 1: return 'filling loop not recognised'
        return None
    if guards[0] is not guards[1]: return 'the counting loop and the filling loop test different things: %s / %s' % (T.show(guards[0], 3)[:60], T.show(guards[1], 3)[:60])
    return None

def blk_of_store(fn, ids):
    """block of the 8-byte store of the filling loop (the only store of an i64 loop counter)"""
    for b in fn['blocks']:
        for i in b['insts']:
            if i.get('op') == 'store':
                ops = i.get('ops', [])
                if ops and ops[0].get('k') == 'v' and ids.get(ops[0]['id'], {}).get('op') == 'phi' and ids[ops[0]['id']].get('t') == 'i64': return b['id']
    return None

def _loop_rule(Il, fns, nm, rhs):
    r = Il.run_loop_body(nm)
    S = r['summary']
    back = [e for e in S.exits if e.kind == 'backedge']
    def fill_loop(e):
        # the constructor of the result array fills it with the default value first: not an element transfer
        for base, m in e.mem.items():
            a = m.arr
            while a is not None and a.op == 'ite': a = a.args[1]
            if a is not None and a.op == 'upd' and find(a.args[2], lambda x: x.op == 'call' and 'DefaultValue' in str(x.attr)) is not None: return True
        return False
    if rhs == 'read': back = [e for e in back if not fill_loop(e)]
    if len(back) != 2: return 'expected the two element loops (masked reference / plain array), found %d' % len(back)
    fn = fns[nm]
    ids = {}
    for b in fn['blocks']:
        for i in b['insts']: ids[i.get('id')] = i
    # induction variables: phi(0, phi + 1)
    counters = set()
    for e in back:
        for c, v in (e.paths[0] if e.paths else []):
            x = find(T._nodes[c], lambda y: y.op == 'loopvar')
            if x is not None: counters.add(x.attr[1])
    for b in fn['blocks']:
        for i in b['insts']:
            if i.get('op') != 'phi' or i.get('id') not in counters: continue
            ops = i.get('ops', [])
            init = [o for o, _ in ops if o.get('k') == 'ci']; nxt = [o for o, _ in ops if o.get('k') == 'v']
            if len(init) != 1 or int(init[0]['v']) != 0: return 'a loop counter does not start at 0'
            if len(nxt) != 1: return 'a loop counter has no single increment'
            inc = ids.get(nxt[0]['id'], {})
            io = inc.get('ops', [])
            ok = inc.get('op') == 'add' and any(o.get('k') == 'v' and o.get('id') == i['id'] for o in io) and any(o.get('k') == 'ci' and int(o['v']) == 1 for o in io)
            if not ok: return 'a loop counter is not incremented by 1'
    seen_kinds = set()
    for e in back:
        lits = [(T._nodes[c], v) for c, v in e.paths[0]] if e.paths else []
        call = None
        for c, v in lits:
            call = call or find(c, lambda x: x.op == 'call' and 'extract_slice_indices' in str(x.attr))
        if call is None: return 'the loop is not governed by the result of extract_slice_indices'
        def field(k): return T.mk('sel', 8, (T.mk('callmem', k, (call,), 'mem'), T.const_int(64, 0)), 'i64')
        # pointer arguments of extract_slice_indices(this, index, &start, &end, &step, &slicelength): positions 0..4 among the pointers
        start, end, step, slen = field(1), field(2), field(3), field(4)
        stores = []
        for base, m in e.mem.items():
            a = m.arr
            while a is not None and a.op == 'ite': a = a.args[1]
            if a is not None and a.op == 'upd': stores.append(a)
        if len(stores) != 1: return 'expected one element store per iteration, found %d' % len(stores)
        off, val = stores[0].args[1], stores[0].args[2]
        lv = find(off, lambda x: x.op == 'loopvar')          # the counter of *this* loop is the one the store is indexed with
        if lv is None: return 'the element store is not indexed with a loop counter'
        guard = None
        for c, v in lits:
            if c.op == 'icmp' and c.attr in ('ult', 'slt') and c.args[0] is lv: guard = (c, v)
        if guard is None: return 'no bound test on the loop counter'
        if not (guard[1] is True and guard[0].args[1] is slen): return 'the loop runs while %s, expected k < slicelength' % T.show(guard[0], 3)[:80]
        masked = find(off, lambda x: x.op == 'call' and 'raw_ptr_index' in str(x.attr))
        ctx = P.Ctx()
        kv = T.inp('k#loop', 0, 8, 'i64')
        off = T.subst(off, {lv: kv}); val = T.subst(val, {lv: kv}); masked = None if masked is None else find(off, lambda x: x.op == 'call' and 'raw_ptr_index' in str(x.attr))
        lv = kv
        L, ST, SP = (P.patom(ctx.key(x)) for x in (lv, start, step))
        virt = P.padd(ST, P.pmul(L, SP))
        def elem_index(o_):
            """o_ = 4 * stride * X  ->  X as Rat, with stride the only other atom"""
            if masked is not None:
                inner = [a for a in masked.args if a.ty == 'i64']
                return ctx.rat(inner[-1])
            return None
        if rhs == 'read':
            # getslice: f._ptr[k] = _ptr[(start + k*step) * stride]
            if not (val.op == 'sel'): return 'the value stored is not an element of the source'
            src_off = val.args[1]
            m2 = find(src_off, lambda x: x.op == 'call' and 'raw_ptr_index' in str(x.attr))
            dst = ctx.rat(off)
            if not ctx.requal(dst, (P.pscale(L, 4), P.pconst(1))): return 'element k of the result is stored at offset %s' % P.show_rat(dst, ctx)[:80]
            if m2 is not None:
                inner = [a for a in m2.args if a.ty == 'i64'][-1]
                if not ctx.requal(ctx.rat(inner), (virt, P.pconst(1))): return 'masked reference: raw_ptr_index is given %s, expected start + k*step' % P.show_rat(ctx.rat(inner), ctx)[:80]
                seen_kinds.add('masked')
            else:
                so = ctx.rat(src_off)
                strides = [x for x in _inputs(src_off) if x.ty == 'i64'] + [x for x in [find(src_off, lambda y: y.op == 'sel' and y.args[1].op == 'const' and y.args[1].attr[1] == 16)] if x is not None]
                if not strides: return 'no stride in the source offset %s' % T.show(src_off, 3)[:80]
                sk = P.patom(ctx.key(strides[-1]))
                if not ctx.requal(so, (P.pscale(P.pmul(virt, sk), 4), P.pconst(1))): return 'iteration k reads at offset %s, expected (start + k*step) * stride' % P.show_rat(so, ctx)[:100]
                seen_kinds.add('plain')
            continue
        # writes
        if masked is not None:
            inner = [a for a in masked.args if a.ty == 'i64'][-1]
            if not ctx.requal(ctx.rat(inner), (virt, P.pconst(1))): return 'masked reference: raw_ptr_index is given %s, expected start + k*step' % P.show_rat(ctx.rat(inner), ctx)[:80]
            seen_kinds.add('masked')
        else:
            so = ctx.rat(off)
            stride = find(off, lambda y: y.op == 'sel' and y.args[1].op == 'const' and y.args[1].attr[1] == 16)
            if stride is None: return 'no stride in the element offset %s' % T.show(off, 3)[:80]
            sk = P.patom(ctx.key(stride))
            if not ctx.requal(so, (P.pscale(P.pmul(virt, sk), 4), P.pconst(1))): return 'iteration k writes at offset %s, expected (start + k*step) * stride' % P.show_rat(so, ctx)[:100]
            seen_kinds.add('plain')
        if rhs == 'vector':
            # data[k]: the element of the right-hand side at the loop counter
            if find(val, lambda x: x is lv) is None: return 'the value written in iteration k does not depend on k (expected data[k])'
            if find(val, lambda x: x is start or x is step) is not None: return 'the right-hand side is indexed with the slice position instead of k'
        else:
            if find(val, lambda x: x is lv) is not None: return 'the scalar written depends on the iteration'
    if seen_kinds != {'masked', 'plain'}: return 'expected one masked-reference loop and one plain loop, found %s' % sorted(seen_kinds)
    return None
