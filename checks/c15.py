"""C15 - line, plane, sphere, triangle primitives satisfy their geometric definitions (decided part).

All rules are polynomial / rational identities (D-poly) over fully symbolic inputs, modulo the premises
|dir| = 1 for lines (established by R15.set for Line3::set) and |normal| = 1 for planes (established for
every Plane3::set overload), sqrt(d)^2 = d, evaluated at a generic point (zero / parallel tests false).
"""
from fractions import Fraction
from engine import term as T, agg, build, vg, ordd, poly as P, polycheck as PC
from engine.agg import ELEM, TU
from engine.report import HOLDS, VIOLATED, UNDECIDED
from .common import Analysed, fn_where, narrowing

HDR = agg.HEADER + '#include <ImathLine.h>\n#include <ImathLineAlgo.h>\n#include <ImathPlane.h>\n#include <ImathSphere.h>\n#include <ImathVecAlgo.h>\n#include <ImathBox.h>\n'
ONE = P.pconst(1)

def gen(t):
    E = ELEM[t][0]
    V = 'Vec3<%s>' % E; L = 'Line3<%s>' % E; Pl = 'Plane3<%s>' % E; Sp = 'Sphere3<%s>' % E
    tu = TU('c15_' + t, header=HDR)
    a = tu.add
    a('w_line_set', '%s& l, const %s& p0, const %s& p1' % (L, V, V), 'l.set(p0, p1);')
    a('w_line_at', '%s& o, const %s& l, const %s& s' % (V, L, E), 'o = l(s);')
    a('w_line_cpp', '%s& o, const %s& l, const %s& p' % (V, L, V), 'o = l.closestPointTo(p);')
    a('w_line_dp', '%s& o, const %s& l, const %s& p' % (E, L, V), 'o = l.distanceTo(p);')
    a('w_line_cpl', '%s& o, const %s& l, const %s& m' % (V, L, L), 'o = l.closestPointTo(m);')
    a('w_line_dl', '%s& o, const %s& l, const %s& m' % (E, L, L), 'o = l.distanceTo(m);')
    a('w_closestPoints', 'bool& r, const %s& l, const %s& m, %s& p, %s& q' % (L, L, V, V), 'r = closestPoints(l, m, p, q);')
    a('w_plane_set3', '%s& pl, const %s& a, const %s& b, const %s& c' % (Pl, V, V, V), 'pl.set(a, b, c);')
    a('w_plane_setpn', '%s& pl, const %s& p, const %s& n' % (Pl, V, V), 'pl.set(p, n);')
    a('w_plane_setnd', '%s& pl, const %s& n, const %s& d' % (Pl, V, E), 'pl.set(n, d);')
    a('w_plane_dist', '%s& o, const %s& pl, const %s& p' % (E, Pl, V), 'o = pl.distanceTo(p);')
    a('w_plane_reflP', '%s& o, const %s& pl, const %s& p' % (V, Pl, V), 'o = pl.reflectPoint(p);')
    a('w_plane_reflV', '%s& o, const %s& pl, const %s& v' % (V, Pl, V), 'o = pl.reflectVector(v);')
    a('w_plane_isect', 'bool& r, const %s& pl, const %s& l, %s& p' % (Pl, L, V), 'r = pl.intersect(l, p);')
    a('w_plane_isectT', 'bool& r, const %s& pl, const %s& l, %s& s' % (Pl, L, E), 'r = pl.intersectT(l, s);')
    a('w_plane_neg', '%s& o, const %s& pl' % (Pl, Pl), 'o = -pl;')
    a('w_sphere_circ', '%s& s, const Box<%s >& b' % (Sp, V), 's.circumscribe(b);')
    a('w_sphere_isectT', 'bool& r, const %s& s, const %s& l, %s& tt' % (Sp, L, E), 'r = s.intersectT(l, tt);')
    a('w_sphere_isect', 'bool& r, const %s& s, const %s& l, %s& p' % (Sp, L, V), 'r = s.intersect(l, p);')
    a('w_project', '%s& o, const %s& s, const %s& tt' % (V, V, V), 'o = project(s, tt);')
    a('w_orthogonal', '%s& o, const %s& s, const %s& tt' % (V, V, V), 'o = orthogonal(s, tt);')
    a('w_reflect', '%s& o, const %s& s, const %s& tt' % (V, V, V), 'o = reflect(s, tt);')
    a('w_closestVertex', '%s& o, const %s& a, const %s& b, const %s& c, const %s& p' % (V, V, V, V, V), 'o = closestVertex(a, b, c, p);')
    a('w_closestVertexLine', '%s& o, const %s& a, const %s& b, const %s& c, const %s& l' % (V, V, V, V, L), 'o = closestVertex(a, b, c, l);')
    a('w_rotatePoint', '%s& o, const %s& p, const %s& l, const %s& ang' % (V, V, L, E), 'o = rotatePoint(p, l, ang);')
    # constructors are their set() forms; a line times a matrix is the line through the two transformed points
    a('w_line_ctor', '%s& l, const %s& p0, const %s& p1' % (L, V, V), 'l = %s(p0, p1);' % L, ctor_of='w_line_set', n=6)
    a('w_plane_ctor3', '%s& pl, const %s& a, const %s& b, const %s& c' % (Pl, V, V, V), 'pl = %s(a, b, c);' % Pl, ctor_of='w_plane_set3', n=4)
    a('w_plane_ctorpn', '%s& pl, const %s& p, const %s& n' % (Pl, V, V), 'pl = %s(p, n);' % Pl, ctor_of='w_plane_setpn', n=4)
    a('w_plane_ctornd', '%s& pl, const %s& n, const %s& d' % (Pl, V, E), 'pl = %s(n, d);' % Pl, ctor_of='w_plane_setnd', n=4)
    a('w_sphere_ctor', '%s& s, const %s& c, const %s& r' % (Sp, V, E), 's = %s(c, r);' % Sp, fields=True)
    a('w_lineM', '%s& o, const %s& l, const Matrix44<%s>& m' % (L, L, E), 'o = l * m;')
    a('w_lineM_ref', '%s& o, const %s& l, const Matrix44<%s>& m' % (L, L, E), '%s p0 = l.pos * m; %s p1 = (l.pos + l.dir) * m; o.set(p0, p1);' % (V, V))
    a('w_tri', 'bool& r, const %s& l, const %s& v0, const %s& v1, const %s& v2, %s& pt, %s& bary, bool& front' % (L, V, V, V, V, V), 'r = intersect(l, v0, v1, v2, pt, bary, front);')
    return tu

def gen_planeM(t):
    """plane * matrix with the three-point Plane3::set opaque: its arguments are the three transformed points"""
    E = ELEM[t][0]
    tu = TU('c15p_' + t, header=agg.HEADER + '#include <ImathPlane.h>\n', opaque=('EES5_S5_',))
    tu.add('w_planeM', 'Plane3<%s>& o, const Plane3<%s>& pl, const Matrix44<%s>& m' % (E, E, E), 'o = pl * m;')
    return tu

class G:
    """geometry helpers over Rats in one Ctx"""
    def __init__(self, ctx, t):
        self.ctx = ctx; self.t = t
    def vec(self, base, first=0):
        return [(self.ctx.reduce(P.patom(self.ctx.key(agg.slot_in(base, first + i, self.t)))), ONE) for i in range(3)]
    def sc(self, base, slot=0):
        return (self.ctx.reduce(P.patom(self.ctx.key(agg.slot_in(base, slot, self.t)))), ONE)
    def add(self, a, b): return [self.ctx.radd(x, y) for x, y in zip(a, b)]
    def neg(self, a): return [(P.pneg(x[0]), x[1]) for x in a]
    def sub(self, a, b): return self.add(a, self.neg(b))
    def dot(self, a, b):
        acc = ({}, ONE)
        for x, y in zip(a, b): acc = self.ctx.radd(acc, self.ctx.rmul(x, y))
        return acc
    def cross(self, a, b):
        c = self.ctx
        return [c.radd(c.rmul(a[(i + 1) % 3], b[(i + 2) % 3]), (P.pneg(c.rmul(a[(i + 2) % 3], b[(i + 1) % 3])[0]), c.rmul(a[(i + 2) % 3], b[(i + 1) % 3])[1])) for i in range(3)]
    def scale(self, a, s): return [self.ctx.rmul(x, s) for x in a]
    def zero(self, r): return self.ctx.rzero(r)
    def vzero(self, v): return all(self.ctx.rzero(x) for x in v)
    def unit(self, base, first):
        """premise |v| = 1 for the vector stored at slots first..first+2 of base"""
        x, y, z = (self.ctx.key(agg.slot_in(base, first + i, self.t)) for i in range(3))
        self.ctx.rules[z] = P.psub(P.psub(P.pconst(1), P.ppow(P.patom(x), 2)), P.ppow(P.patom(y), 2))

def tiny(c):
    return c.op == 'fcmp' and c.attr == 'olt' and c.args[1].op == 'const' and 0 < T.const_value(c.args[1]) < Fraction(1, 10 ** 30)

def cases(outs, ctx):
    def premise(c):
        if tiny(c): return False
        return None
    def enum(c):
        return c.op == 'fcmp' and c.attr in ('olt', 'ole')
    yield from PC.generic_cases(outs, ctx, enumerate_cond=enum, premise=premise, max_enum=10)

def plane_times_matrix(rep, R, t):
    """R15.plane: plane * M is built from three points X_i * M of the plane, wound so that for an affine M the signed
    side of every point Y is kept up to the factor det(M) * K with K a sum of squares:
        ((p2-p1) x (p3-p1)) . (Y*M - p1)  ==  det(L) * K * (n.Y - d),   K in {ny^2+nz^2, nx^2+nz^2, nx^2+ny^2}  (|n| = 1)"""
    E, sz, lt = ELEM[t]
    oid = 'plane*matrix<%s>' % E
    S = R.get('w_planeM')
    if S is None:
        rep.ob(oid, 'R15.plane', UNDECIDED, R.err.get('w_planeM', 'not analysed')); return
    where = fn_where(S.fn)
    try:
        o = S.out('a0', 0, sz, lt)
        call = None; seen = set(); st = [o]
        while st:
            x = st.pop()
            if x.id in seen: continue
            seen.add(x.id)
            if x.op == 'call' and 'Plane3' in str(x.attr) and str(x.attr).endswith('S5_S5_'): call = x; break
            st.extend(x.args)
        if call is None:
            rep.ob(oid, 'R15.plane', UNDECIDED, 'the three-point Plane3::set call was not found in the result', where); return
        # arguments: (this ptr, mem), (p1 ptr, mem), (p2 ptr, mem), (p3 ptr, mem)
        mems = [a for a in call.args if a.ty == 'mem']
        if len(mems) < 4:
            rep.ob(oid, 'R15.plane', UNDECIDED, 'unexpected argument shape of Plane3::set (%d memory arguments)' % len(mems), where); return
        def vec_of(mem):
            cells = {}
            if mem.op == 'mem':
                a = mem.args[1:]
                for i in range(0, len(a), 2): cells[T.const_value(a[i]) if a[i].op == 'const' else None] = a[i + 1]
            return [cells.get(k * sz) for k in range(3)]
        pts = [vec_of(m_) for m_ in mems[-3:]]
        if any(v is None for p_ in pts for v in p_):
            rep.ob(oid, 'R15.plane', UNDECIDED, 'the point arguments of Plane3::set are not fully initialised vectors', where); return
        # affine M: last column (0,0,0,1)
        zero = T.const_fp(lt, 0); one = T.fp_from_value(lt, 1)
        aff = {agg.slot_in('a2', 4 * i + 3, t): (one if i == 3 else zero) for i in range(4)}
        flat = [T.subst(v, aff) for p_ in pts for v in p_]
        ncase = 0; bad = None
        for asg, res in cases(flat, P.Ctx()):
            ctx = P.Ctx(); g = G(ctx, t); g.unit('a1', 0); ncase += 1
            p1, p2, p3 = [[ctx.rat(x) for x in res[3 * k: 3 * k + 3]] for k in range(3)]
            n = g.vec('a1'); d = g.sc('a1', 3)
            Mx = [[(P.patom(ctx.key(agg.slot_in('a2', 4 * i + j, t))), ONE) for j in range(3)] for i in range(4)]
            Y = [(P.patom(ctx.key(T.arg(70 + i, lt))), ONE) for i in range(3)]
            YM = [g.ctx.radd(g.ctx.radd(g.ctx.radd(ctx.rmul(Y[0], Mx[0][j]), ctx.rmul(Y[1], Mx[1][j])), ctx.rmul(Y[2], Mx[2][j])), Mx[3][j]) for j in range(3)]
            cr = g.cross(g.sub(p2, p1), g.sub(p3, p1))
            lhs = g.dot(cr, g.sub(YM, p1))
            L = [[Mx[i][j] for j in range(3)] for i in range(3)]
            det = ctx.radd(ctx.radd(ctx.rmul(L[0][0], ctx.radd(ctx.rmul(L[1][1], L[2][2]), (P.pneg(ctx.rmul(L[1][2], L[2][1])[0]), ONE))),
                                    (P.pneg(ctx.rmul(L[0][1], ctx.radd(ctx.rmul(L[1][0], L[2][2]), (P.pneg(ctx.rmul(L[1][2], L[2][0])[0]), ONE)))[0]), ONE)),
                           ctx.rmul(L[0][2], ctx.radd(ctx.rmul(L[1][0], L[2][1]), (P.pneg(ctx.rmul(L[1][1], L[2][0])[0]), ONE))))
            side = ctx.radd(g.dot(n, Y), (P.pneg(d[0]), d[1]))
            okK = False
            for (i_, j_) in ((1, 2), (0, 2), (0, 1)):
                K = ctx.radd(ctx.rmul(n[i_], n[i_]), ctx.rmul(n[j_], n[j_]))
                if ctx.requal(lhs, ctx.rmul(ctx.rmul(det, K), side)): okK = True
            if not okK:
                neg = any(ctx.requal(lhs, (P.pneg(ctx.rmul(ctx.rmul(det, ctx.radd(ctx.rmul(n[i_], n[i_]), ctx.rmul(n[j_], n[j_]))), side)[0]), ONE)) for (i_, j_) in ((1, 2), (0, 2), (0, 1)))
                bad = 'case %s: the three points handed to Plane3::set are wound so that the side of a point Y is %s' % (PC.show_asg(asg)[:160], 'REVERSED (normal and distance negated) for an orientation-preserving matrix' if neg else 'not det(M) * (sum of squares) * (n.Y - d)')
                break
        if ncase == 0: bad = 'no feasible case'
        rep.ob(oid, 'R15.plane', VIOLATED if bad else HOLDS, bad or 'on all %d selections of the in-plane axes the result contains the transformed points and keeps the side of every point for det(M) > 0 (affine M)' % ncase, where)
    except (P.NotPoly, PC.Undecided, vg.Unsupported, OverflowError) as e:
        rep.ob(oid, 'R15.plane', UNDECIDED, str(e)[:300], where)

def main(rep, ws, tier):
    types = 'f' if tier == 'quick' else 'fd'
    tus = [gen(t) for t in types]; tup = [gen_planeM(t) for t in types]
    an = Analysed(ws, tus + tup, rep)
    for tp, t in zip(tup, types):
        plane_times_matrix(rep, an[tp], t)
    for tu, t in zip(tus, types):
        R = an[tu]; E, sz, lt = ELEM[t]
        def outs_v(S, base, n=3, first=0): return [S.out(base, (first + i) * sz, sz, lt) for i in range(n)]
        def run(name, rule, fn, suffix=''):
            S = R.get(name)
            oid = '%s<%s>%s' % (name[2:], E, suffix)
            if S is None:
                rep.ob(oid, rule, UNDECIDED, R.err.get(name, 'not analysed')); return
            where = fn_where(S.fn)
            import time as _t; _t0 = _t.time()
            try:
                r = fn(S)
            except (P.NotPoly, PC.Undecided, vg.Unsupported, ordd.NotOrd, OverflowError) as e:
                rep.ob(oid, rule, UNDECIDED, str(e)[:300], where); return
            bad, ok = r
            rep.ob(oid, rule, VIOLATED if bad else HOLDS, bad or ok, where)
            rep.extra.setdefault('seconds_per_obligation', {})[oid] = round(_t.time() - _t0, 2)

        # ---- Line3::set : dir = (p1 - p0)/|p1 - p0|, pos = p0
        def line_set(S):
            outs = outs_v(S, 'a0', 6)
            n = 0
            for asg, res in cases(outs, P.Ctx()):
                ctx = P.Ctx(); g = G(ctx, t); n += 1
                res = [ctx.rat(x) for x in res]
                pos, d = res[:3], res[3:]
                p0, p1 = g.vec('a1'), g.vec('a2')
                if not g.vzero(g.sub(pos, p0)): return 'pos is not the first point', None
                if not ctx.requal(g.dot(d, d), (ONE, ONE)): return 'dir is not a unit vector: dir.dir = %s' % P.show_rat(g.dot(d, d), ctx)[:200], None
                if not g.vzero(g.cross(d, g.sub(p1, p0))): return 'dir is not parallel to p1 - p0', None
            return None, 'pos = p0, dir = (p1 - p0)/|p1 - p0| (%d case)' % n
        run('w_line_set', 'R15.set', line_set)

        def line_at(S):
            ctx = P.Ctx(); g = G(ctx, t)
            o = [ctx.rat(x) for x in outs_v(S, 'a0')]
            want = g.add(g.vec('a1'), g.scale(g.vec('a1', 3), g.sc('a2')))
            return (None, 'pos + dir * parameter') if g.vzero(g.sub(o, want)) else ('line(t) is not pos + dir*t', None)
        run('w_line_at', 'R15.line', line_at)

        def line_cpp(S):
            ctx = P.Ctx(); g = G(ctx, t); g.unit('a1', 3)
            Rr = [ctx.rat(x) for x in outs_v(S, 'a0')]
            pos, d, p = g.vec('a1'), g.vec('a1', 3), g.vec('a2')
            if not g.vzero(g.cross(g.sub(Rr, pos), d)): return 'result is not on the line', None
            if not g.zero(g.dot(g.sub(Rr, p), d)): return '(result - point) . dir = %s, expected 0' % P.show_rat(g.dot(g.sub(Rr, p), d), ctx)[:200], None
            return None, 'on the line and (result - point) perpendicular to dir, modulo |dir| = 1'
        run('w_line_cpp', 'R15.line', line_cpp)

        def line_dp(S):
            o = S.out('a0', 0, sz, lt)
            for asg, (res,) in cases([o], P.Ctx()):
                ctx = P.Ctx(); g = G(ctx, t); g.unit('a1', 3)
                r = ctx.rat(res)
                pos, d, p = g.vec('a1'), g.vec('a1', 3), g.vec('a2')
                foot = g.add(pos, g.scale(d, g.dot(g.sub(p, pos), d)))
                want = g.dot(g.sub(foot, p), g.sub(foot, p))
                if not ctx.requal(ctx.rmul(r, r), want): return 'distance^2 = %s, expected |closest point - point|^2' % P.show_rat(ctx.rmul(r, r), ctx)[:200], None
            return None, 'distance^2 = |foot - point|^2'
        run('w_line_dp', 'R15.line', line_dp)

        def foot_on_first(g, Rr):
            """R (on line a1) is the foot of the common perpendicular with line a2"""
            ctx = g.ctx
            p1, d1, p2, d2 = g.vec('a1'), g.vec('a1', 3), g.vec('a2'), g.vec('a2', 3)
            if not g.vzero(g.cross(g.sub(Rr, p1), d1)): return 'point is not on its line'
            w = g.sub(Rr, p2)
            wperp = g.sub(w, g.scale(d2, g.dot(w, d2)))
            if not g.zero(g.dot(wperp, d1)): return 'the segment to the other line is not perpendicular to this line\'s direction: %s' % P.show_rat(g.dot(wperp, d1), ctx)[:160]
            return None

        def line_cpl(S):
            outs = outs_v(S, 'a0')
            n = 0
            for asg, res in cases(outs, P.Ctx()):
                ctx = P.Ctx(); g = G(ctx, t); g.unit('a1', 3); g.unit('a2', 3)
                Rr = [ctx.rat(x) for x in res]
                if g.vzero(g.sub(Rr, g.vec('a1'))): continue        # guarded exit (nearly parallel): returns pos
                n += 1
                e = foot_on_first(g, Rr)
                if e: return e, None
            if not n: return 'no arithmetic exit', None
            # exactly parallel and anti-parallel lines (d2 = +-d1, unit): 1 - (d1.d2)^2 and the numerator are identically zero;
            # the result must come from the guarded exit (a point of this line), not from the quotient 0/0
            npar = 0
            for sgn in (1, -1):
                def par(cx):
                    for i in range(3):
                        cx.lin[cx.key(agg.slot_in('a2', 3 + i, t))] = P.pscale(cx.reduce(P.patom(cx.key(agg.slot_in('a1', 3 + i, t)))), sgn)
                ctx0 = P.Ctx(); G(ctx0, t).unit('a1', 3); par(ctx0)
                try:
                    for asg, res in cases(outs, ctx0):
                        ctx = P.Ctx(); g = G(ctx, t); g.unit('a1', 3); par(ctx); npar += 1
                        Rr = [ctx.rat(x) for x in res]
                        if not g.vzero(g.cross(g.sub(Rr, g.vec('a1')), g.vec('a1', 3))): return 'parallel lines (d2 = %sd1): the point returned is not on this line' % ('-' if sgn < 0 else ''), None
                except P.NotPoly as e:
                    if 'zero polynomial' in str(e):
                        return 'parallel lines (d2 = %sd1): num and denom = (d1.d2)^2 - 1 are both identically zero and the path taken divides them: 0/0 = NaN instead of the guarded exit' % ('-' if sgn < 0 else ''), None
                    raise
            if npar == 0: return 'no path for parallel lines', None
            return (None, 'foot of the common perpendicular on this line (%d arithmetic case(s)); the nearly-parallel guard returns pos, and exactly parallel / anti-parallel lines take it' % n)
        run('w_line_cpl', 'R15.line', line_cpl)

        def closest_points(S):
            outs = [S.out('a0', 0, 1, 'i8')] + outs_v(S, 'a3') + outs_v(S, 'a4')
            n = 0
            for asg, res in cases(outs, P.Ctx()):
                if res[0].op == 'const' and res[0].attr[1] == 0: continue     # reported parallel
                ctx = P.Ctx(); g = G(ctx, t); g.unit('a1', 3); g.unit('a2', 3)
                p = [ctx.rat(x) for x in res[1:4]]; q = [ctx.rat(x) for x in res[4:7]]
                n += 1
                p1, d1, p2, d2 = g.vec('a1'), g.vec('a1', 3), g.vec('a2'), g.vec('a2', 3)
                if not g.vzero(g.cross(g.sub(p, p1), d1)): return 'point1 is not on line1', None
                if not g.vzero(g.cross(g.sub(q, p2), d2)): return 'point2 is not on line2', None
                s = g.sub(p, q)
                if not g.zero(g.dot(s, d1)) or not g.zero(g.dot(s, d2)): return 'the connecting segment is not perpendicular to both directions', None
            if not n: return 'no successful exit', None
            # exactly parallel / anti-parallel unit directions: 1 - (d1.d2)^2 is identically zero - reported (false), never divided by
            npar = 0
            for sgn in (1, -1):
                def par(cx):
                    for i in range(3):
                        cx.lin[cx.key(agg.slot_in('a2', 3 + i, t))] = P.pscale(cx.reduce(P.patom(cx.key(agg.slot_in('a1', 3 + i, t)))), sgn)
                ctx0 = P.Ctx(); G(ctx0, t).unit('a1', 3); par(ctx0)
                try:
                    for asg, res in cases(outs, ctx0):
                        npar += 1
                        if not (res[0].op == 'const' and res[0].attr[1] == 0):
                            ctx = P.Ctx(); g = G(ctx, t); g.unit('a1', 3); par(ctx)
                            [ctx.rat(x) for x in res[1:7]]
                            return 'parallel lines (d2 = %sd1) are not reported: the function returns true' % ('-' if sgn < 0 else ''), None
                except P.NotPoly as e:
                    if 'zero polynomial' in str(e):
                        return 'parallel lines (d2 = %sd1): the path taken divides by 1 - (d1.d2)^2, which is identically zero' % ('-' if sgn < 0 else ''), None
                    raise
            if npar == 0: return 'no path for parallel lines', None
            return (None, 'both points on their lines, connecting segment perpendicular to both directions (%d case(s)); the division is guarded and exactly parallel lines are reported' % n)
        run('w_closestPoints', 'R15.line', closest_points)

        def line_dl(S):
            o = S.out('a0', 0, sz, lt)
            n = 0
            for asg, (res,) in cases([o], P.Ctx()):
                ctx = P.Ctx(); g = G(ctx, t); g.unit('a1', 3); g.unit('a2', 3)
                r = ctx.rat(res); n += 1
                p1, d1, p2, d2 = g.vec('a1'), g.vec('a1', 3), g.vec('a2'), g.vec('a2', 3)
                cr = g.cross(d1, d2)
                num = g.dot(cr, g.sub(p2, p1))
                want = ctx.rdiv(ctx.rmul(num, num), g.dot(cr, cr))       # squared length of the common perpendicular
                got = ctx.rmul(r, r)
                if not ctx.requal(got, want):
                    return 'distance^2 = %s; the common perpendicular has squared length ((d1 x d2).(p2 - p1))^2 / |d1 x d2|^2 (the cross product of two unit directions is not a unit vector)' % P.show_rat(got, ctx)[:160], None
            # parallel and anti-parallel lines (d2 = +-d1): the distance is that of any point of the other line, i.e.
            # |w|^2 - (w.d1)^2 with w = p2 - p1, not the distance between the two base points
            npar = 0
            for sgn in (1, -1):
                ctx0 = P.Ctx(); g0 = G(ctx0, t); g0.unit('a1', 3)
                def par(cx):
                    for i in range(3):
                        cx.lin[cx.key(agg.slot_in('a2', 3 + i, t))] = P.pscale(cx.reduce(P.patom(cx.key(agg.slot_in('a1', 3 + i, t)))), sgn)
                par(ctx0)
                for asg, (res,) in cases([o], ctx0):
                    ctx = P.Ctx(); g = G(ctx, t); g.unit('a1', 3); par(ctx); npar += 1
                    r = ctx.rat(res)
                    p1, d1, p2 = g.vec('a1'), g.vec('a1', 3), g.vec('a2')
                    w = g.sub(p2, p1); wd = g.dot(w, d1)
                    want = ctx.radd(g.dot(w, w), (P.pneg(ctx.rmul(wd, wd)[0]), ctx.rmul(wd, wd)[1]))
                    if not ctx.requal(ctx.rmul(r, r), want):
                        return 'parallel lines (d2 = %sd1): distance^2 = %s, the perpendicular distance squared is |w|^2 - (w.d)^2 with w = p2 - p1' % ('-' if sgn < 0 else '', P.show_rat(ctx.rmul(r, r), ctx)[:140]), None
            if npar == 0: return 'no path for parallel lines', None
            return None, 'distance = |(d1 x d2).(p2 - p1)| / |d1 x d2| = length of the connecting segment; parallel and anti-parallel lines: the perpendicular distance'
        run('w_line_dl', 'R15.line', line_dl)

        # ---- constructors and the line transform: the same value graphs as the set() forms decided above
        def ctors():
            for name, m_ in tu.meta.items():
                if 'ctor_of' in m_:
                    S = R.get(name); S0 = R.get(m_['ctor_of'])
                    if S is None or S0 is None: raise vg.Unsupported(R.err.get(name, R.err.get(m_['ctor_of'], 'not analysed')))
                    for i in range(m_['n']):
                        a_, b_ = S.out('a0', i * sz, sz, lt), S0.out('a0', i * sz, sz, lt)
                        if not (a_ is b_ or T.equiv(a_, b_, 50000)):
                            return '%s: member %d differs from what %s computes' % (name[2:], i, m_['ctor_of'][2:]), None
            S = R.get('w_sphere_ctor')
            if S is None: raise vg.Unsupported(R.err.get('w_sphere_ctor', 'not analysed'))
            for i in range(3):
                if S.out('a0', i * sz, sz, lt) is not agg.slot_in('a1', i, t): return 'Sphere3(c, r): centre component %d is %s' % (i, T.show(S.out('a0', i * sz, sz, lt), 2)), None
            if S.out('a0', 3 * sz, sz, lt) is not agg.scalar_in('a2', t): return 'Sphere3(c, r): radius is %s' % T.show(S.out('a0', 3 * sz, sz, lt), 2), None
            S = R.get('w_lineM'); S0 = R.get('w_lineM_ref')
            if S is None or S0 is None: raise vg.Unsupported(R.err.get('w_lineM', R.err.get('w_lineM_ref', 'not analysed')))
            for i in range(6):
                a_, b_ = S.out('a0', i * sz, sz, lt), S0.out('a0', i * sz, sz, lt)
                if not (a_ is b_ or T.equiv(a_, b_, 100000)):
                    return 'line * M: member %d is not that of the line through pos * M and (pos + dir) * M' % i, None
            return None, 'Line3(p0,p1), Plane3(3 points / point+normal / normal+distance), Sphere3(c,r) agree with set(); line * M = line through pos*M and (pos+dir)*M'
        S_any = R.get('w_line_ctor')
        if S_any is not None:
            try:
                bad, ok = ctors()
                rep.ob('constructors, line * matrix<%s>' % E, 'R15.set', VIOLATED if bad else HOLDS, bad or ok, fn_where(S_any.fn))
            except (P.NotPoly, PC.Undecided, vg.Unsupported, OverflowError) as e:
                rep.ob('constructors, line * matrix<%s>' % E, 'R15.set', UNDECIDED, str(e)[:300], fn_where(S_any.fn))

        # ---- planes
        def plane_set(kind):
            def f(S):
                outs = outs_v(S, 'a0', 4)
                n = 0
                for asg, res in cases(outs, P.Ctx()):
                    ctx = P.Ctx(); g = G(ctx, t); n += 1
                    res = [ctx.rat(x) for x in res]
                    nrm, d = res[:3], res[3]
                    if not ctx.requal(g.dot(nrm, nrm), (ONE, ONE)): return 'normal is not unit', None
                    if kind == '3':
                        for b in ('a1', 'a2', 'a3'):
                            if not g.zero(ctx.radd(g.dot(nrm, g.vec(b)), (P.pneg(d[0]), d[1]))): return 'defining point %s has non-zero signed distance' % b, None
                    elif kind == 'pn':
                        if not g.zero(ctx.radd(g.dot(nrm, g.vec('a1')), (P.pneg(d[0]), d[1]))): return 'the defining point has non-zero signed distance', None
                        if not g.vzero(g.cross(nrm, g.vec('a2'))): return 'normal is not parallel to the given normal', None
                    else:
                        if not g.vzero(g.cross(nrm, g.vec('a1'))): return 'normal is not parallel to the given normal', None
                        if not ctx.requal(d, g.sc('a2')): return 'distance is not the given distance', None
                return None, 'unit normal; defining points at signed distance 0 (%d case)' % n
            return f
        run('w_plane_set3', 'R15.plane', plane_set('3'))
        run('w_plane_setpn', 'R15.plane', plane_set('pn'))
        run('w_plane_setnd', 'R15.plane', plane_set('nd'))

        def pl(g, base): return g.vec(base), g.sc(base, 3)
        def plane_dist(S):
            ctx = P.Ctx(); g = G(ctx, t)
            n, d = pl(g, 'a1')
            want = ctx.radd(g.dot(g.vec('a2'), n), (P.pneg(d[0]), ONE))
            return (None, 'point . normal - distance') if ctx.requal(ctx.rat(S.out('a0', 0, sz, lt)), want) else ('distanceTo is not point.normal - distance', None)
        run('w_plane_dist', 'R15.plane', plane_dist)

        def plane_reflP(S):
            ctx = P.Ctx(); g = G(ctx, t); g.unit('a1', 0)
            n, d = pl(g, 'a1'); p = g.vec('a2')
            r = [ctx.rat(x) for x in outs_v(S, 'a0')]
            dist = lambda v: ctx.radd(g.dot(v, n), (P.pneg(d[0]), ONE))
            if not g.zero(ctx.radd(dist(r), dist(p))): return 'signed distance of the reflected point is not the negative of the original', None
            if not g.vzero(g.cross(g.sub(r, p), n)): return 'the point does not move along the normal', None
            return None, 'reflected point: signed distance negated, displacement along the normal => involution'
        run('w_plane_reflP', 'R15.plane', plane_reflP)

        def plane_reflV(S):
            ctx = P.Ctx(); g = G(ctx, t); g.unit('a1', 0)
            n, d = pl(g, 'a1'); v = g.vec('a2')
            r = [ctx.rat(x) for x in outs_v(S, 'a0')]
            # documented: normal * (normal . v) * 2 - v  : n.r = n.v , r + v parallel to n  => applying twice gives v
            if not ctx.requal(g.dot(r, n), g.dot(v, n)): return 'normal component changes: n.r = %s' % P.show_rat(g.dot(r, n), ctx)[:120], None
            if not g.vzero(g.cross(g.add(r, v), n)): return 'r + v is not along the normal', None
            if not ctx.requal(g.dot(r, r), g.dot(v, v)): return 'length not preserved', None
            return None, 'r = 2(n.v)n - v: length preserved, involution'
        run('w_plane_reflV', 'R15.plane', plane_reflV)

        def plane_isect(S):
            outs = [S.out('a0', 0, 1, 'i8')] + outs_v(S, 'a3')
            n_ = 0
            for asg, res in cases(outs, P.Ctx()):
                if res[0].op == 'const' and res[0].attr[1] == 0: continue
                ctx = P.Ctx(); g = G(ctx, t); n_ += 1
                n, d = pl(g, 'a1'); pos, dr = g.vec('a2'), g.vec('a2', 3)
                p = [ctx.rat(x) for x in res[1:]]
                if not g.vzero(g.cross(g.sub(p, pos), dr)): return 'intersection is not on the line', None
                if not g.zero(ctx.radd(g.dot(p, n), (P.pneg(d[0]), ONE))): return 'intersection is not on the plane', None
            return (None, 'on the line and on the plane; parallel lines are reported (false)') if n_ else ('no successful exit', None)
        run('w_plane_isect', 'R15.plane', plane_isect)

        def plane_reject(S):
            """a line is reported as missing the plane only when it is exactly parallel: the flag depends on one comparison,
            normal . dir == 0 (a tolerance there rejects grazing lines that do cross the plane at a representable point), and
            intersect / intersectT reject the same lines"""
            fl = S.out('a0', 0, 1, 'i8')
            cs = list(P.all_conds(fl))
            if len(cs) != 1: return 'the returned flag depends on %d comparisons (%s); expected the single test normal . dir == 0' % (len(cs), '; '.join(T.show(c, 3)[:60] for c in cs[:3])), None
            c = cs[0]
            if not (c.op == 'fcmp' and c.attr in ('oeq', 'une', 'one', 'ueq') and any(z.op == 'const' and T.const_value(z) == 0 for z in c.args)):
                return 'a line is rejected on %s, not on normal . dir == 0: lines that cross the plane at a shallow angle are reported as missing it' % T.show(c, 3)[:120], None
            x = [z for z in c.args if z.op != 'const'][0]
            ctx = P.Ctx(); g = G(ctx, t)
            n, d = pl(g, 'a1'); dr = g.vec('a2', 3)
            if not ctx.requal(ctx.rat(x), g.dot(n, dr)): return 'the quantity tested against zero is %s, not normal . dir' % P.show_rat(ctx.rat(x), ctx)[:120], None
            # polarity: zero -> false
            v0 = T.resolve(fl, {c: c.attr in ('oeq', 'ueq')})
            if not (v0.op == 'const' and v0.attr[1] & 1 == 0): return 'an exactly parallel line is not reported', None
            for onm in ('w_plane_isect', 'w_plane_isectT'):
                other = R.get(onm)
                if other is not None and other.out('a0', 0, 1, 'i8') is not fl: return 'intersect and intersectT reject different sets of lines', None
            return None, 'rejected exactly when normal . dir == 0; intersect and intersectT agree'
        run('w_plane_isect', 'R15.plane', plane_reject, suffix='#parallel')
        run('w_plane_isectT', 'R15.plane', plane_reject, suffix='#parallel')

        def plane_isectT(S):
            outs = [S.out('a0', 0, 1, 'i8'), S.out('a3', 0, sz, lt)]
            n_ = 0
            for asg, res in cases(outs, P.Ctx()):
                if res[0].op == 'const' and res[0].attr[1] == 0: continue
                ctx = P.Ctx(); g = G(ctx, t); n_ += 1
                n, d = pl(g, 'a1'); pos, dr = g.vec('a2'), g.vec('a2', 3)
                tt = ctx.rat(res[1])
                p = g.add(pos, g.scale(dr, tt))
                if not g.zero(ctx.radd(g.dot(p, n), (P.pneg(d[0]), ONE))): return 'line(t) is not on the plane', None
            return (None, 'line(t) lies on the plane') if n_ else ('no successful exit', None)
        run('w_plane_isectT', 'R15.plane', plane_isectT)

        def plane_neg(S):
            outs = outs_v(S, 'a0', 4)
            for asg, res in cases(outs, P.Ctx()):
                ctx = P.Ctx(); g = G(ctx, t); g.unit('a1', 0)
                r = [ctx.rat(x) for x in res]
                n, d = pl(g, 'a1')
                if not g.vzero(g.add(r[:3], n)) or not g.zero(ctx.radd(r[3], d)): return 'operator- does not flip both normal and distance', None
            return None, 'normal and distance both negated'
        run('w_plane_neg', 'R15.plane', plane_neg)

        # ---- sphere
        def sphere_circ(S):
            outs = outs_v(S, 'a0', 4)
            for asg, res in cases(outs, P.Ctx()):
                ctx = P.Ctx(); g = G(ctx, t)
                r = [ctx.rat(x) for x in res]
                mn, mx = g.vec('a1'), g.vec('a1', 3)
                c = g.scale(g.add(mn, mx), (P.pconst(Fraction(1, 2)), ONE))
                if not g.vzero(g.sub(r[:3], c)): return 'center is not the box centre', None
                if not ctx.requal(ctx.rmul(r[3], r[3]), g.dot(g.sub(mx, c), g.sub(mx, c))): return 'radius is not the half diagonal', None
            return None, 'center = (min+max)/2, radius = |max - center| (every corner is at that distance)'
        run('w_sphere_circ', 'R15.sphere', sphere_circ)

        def sphere_isectT(S):
            outs = [S.out('a0', 0, 1, 'i8'), S.out('a3', 0, sz, lt)]
            roots = []
            for asg, res in cases(outs, P.Ctx()):
                if res[0].op == 'const' and res[0].attr[1] == 0: continue
                ctx = P.Ctx(); g = G(ctx, t); g.unit('a2', 3)
                c, rad = g.vec('a1'), g.sc('a1', 3); pos, dr = g.vec('a2'), g.vec('a2', 3)
                tt = ctx.rat(res[1])
                p = g.sub(g.add(pos, g.scale(dr, tt)), c)
                if not ctx.requal(g.dot(p, p), ctx.rmul(rad, rad)): return 'line(t) is not on the sphere', None
                # which root?  t = (-B -+ s)/2 : coefficient of the sqrt atom
                sq = [k for k in ctx.rules if k < 0]
                coef = None
                for m, cf in tt[0].items():
                    for k, e in m:
                        if k in sq: coef = cf
                roots.append((asg, coef))
            # the larger root (+sqrt) may be returned only when the smaller one was tested negative
            smaller = [r for r in roots if r[1] is not None and r[1] < 0]
            larger = [r for r in roots if r[1] is not None and r[1] > 0]
            if not smaller: return 'the smaller root is never returned', None
            for asg, _ in larger:
                tested = [c for c, v in asg.items() if c.op == 'fcmp' and c.attr == 'olt' and v is True and c.args[1].op == 'const' and T.const_value(c.args[1]) == 0 and c.args[0].op in ('fmul', 'fadd', 'fneg')]
                if not tested: return 'the larger root is returned without the smaller root having been found negative', None
            return None, 'every returned t satisfies |pos + t dir - center|^2 = radius^2; the smaller root is tried first, the larger only when it is negative'
        run('w_sphere_isectT', 'R15.sphere', sphere_isectT)

        # ---- vector algebra
        def project_(S):
            outs = outs_v(S, 'a0')
            for asg, res in cases(outs, P.Ctx()):
                ctx = P.Ctx(); g = G(ctx, t)
                r = [ctx.rat(x) for x in res]; s, tt = g.vec('a1'), g.vec('a2')
                if not g.vzero(g.cross(r, s)): return 'projection is not parallel to s', None
                if not g.zero(g.dot(g.sub(tt, r), s)): return 't - project(s,t) is not perpendicular to s', None
            return None, 'parallel to s with perpendicular residual'
        run('w_project', 'R15.vec', project_)
        def orthogonal_(S):
            outs = outs_v(S, 'a0')
            for asg, res in cases(outs, P.Ctx()):
                ctx = P.Ctx(); g = G(ctx, t)
                r = [ctx.rat(x) for x in res]; s, tt = g.vec('a1'), g.vec('a2')
                if not g.zero(g.dot(r, s)): return 'result is not perpendicular to s', None
                if not g.vzero(g.cross(g.sub(tt, r), s)): return 't - orthogonal(s,t) is not parallel to s', None
            return None, 'perpendicular to s, t = parallel part + result'
        run('w_orthogonal', 'R15.vec', orthogonal_)
        def reflect_(S):
            outs = outs_v(S, 'a0')
            for asg, res in cases(outs, P.Ctx()):
                ctx = P.Ctx(); g = G(ctx, t)
                r = [ctx.rat(x) for x in res]; s, tt = g.vec('a1'), g.vec('a2')
                if not ctx.requal(g.dot(r, r), g.dot(s, s)): return 'length of s not preserved', None
                if not g.vzero(g.cross(g.add(r, s), tt)): return 'r + s is not parallel to t (mirror axis)', None
            return None, 'mirror image of s in the line along t: length preserved, r + s parallel to t'
        run('w_reflect', 'R15.vec', reflect_)

        def scale_range(name):
            # project / orthogonal / reflect depend on the direction of the vector projected onto only (degree 0 in it): every
            # quantity they divide by, and every square root they take, has to be of degree <= 1 (radicand <= 2) in each argument,
            # as length() is - a divisor of degree 2 is zero or infinite long before the argument itself is
            def fn(S):
                outs = outs_v(S, 'a0')
                from .common import degree_ranges
                deg, sites = degree_ranges(outs)
                if not sites: return 'no division or square root found', None
                for kind, node, d in sites:
                    lim = 1 if kind == 'divisor' else 2
                    for b, (lo, hi) in sorted(d.items()):
                        if hi > lim or lo < -lim:
                            return 'a %s of homogeneity degree %s in argument %s: %s - it underflows to zero (or overflows) for arguments whose own length is still representable (|v| beyond about min^(1/%s) / max^(1/%s)), although the result depends on the direction of that argument only' % (kind, hi if hi > lim else lo, b, T.show(node, 3)[:120], max(abs(hi), abs(lo)), max(abs(hi), abs(lo))), None
                return None, '%d divisors / radicands, each of degree <= 1 (radicand <= 2) in every argument' % len(sites)
            run_named(name, fn)
        def run_named(name, fn):
            S = R.get(name); oid = '%s<%s>#range' % (name[2:], E)
            if S is None:
                rep.ob(oid, 'R15.vec', UNDECIDED, R.err.get(name, 'not analysed')); return
            try:
                bad, ok = fn(S)
            except (P.NotPoly, PC.Undecided, vg.Unsupported, OverflowError) as e:
                rep.ob(oid, 'R15.vec', UNDECIDED, str(e)[:300], fn_where(S.fn)); return
            rep.ob(oid, 'R15.vec', VIOLATED if bad else HOLDS, bad or ok, fn_where(S.fn))
        for nm_ in ('w_project', 'w_orthogonal', 'w_reflect'): scale_range(nm_)

        def closest_vertex(S):
            outs = outs_v(S, 'a0')
            vs = [[agg.slot_in(b, i, t) for i in range(3)] for b in ('a1', 'a2', 'a3')]
            per, total, leaves, conds = ordd.all_envs(outs)
            ar = [l for l in leaves if l.op in ordd.ARITH]
            if len(ar) != 3: return 'compares %d quantities, expected the three squared distances' % len(ar), None
            # identify each squared distance
            ctx = P.Ctx(); g = G(ctx, t); p = g.vec('a4')
            dist = []
            for k, b in enumerate(('a1', 'a2', 'a3')):
                want = g.dot(g.sub(g.vec(b), p), g.sub(g.vec(b), p))
                m = [l for l in ar if ctx.requal(ctx.rat(l), want)]
                if len(m) != 1: return 'no squared distance |v%d - p|^2 among the compared quantities' % k, None
                dist.append(m[0])
            for env in ordd.iter_envs(per):
                sel = [ordd.ev(o, env) for o in outs]
                ranks = [env[d.id] for d in dist]
                best = ranks.index(min(ranks))
                if not all(sel[i] is vs[best][i] for i in range(3)): return 'does not return the first nearest vertex on some ordering of the distances', None
            return None, 'first vertex with the smallest squared distance, on all %d orderings' % total
        run('w_closestVertex', 'R15.vec', closest_vertex)

        def closest_vertex_line(S):
            outs = outs_v(S, 'a0')
            vs = [[agg.slot_in(b, i, t) for i in range(3)] for b in ('a1', 'a2', 'a3')]
            per, total, leaves, conds = ordd.all_envs(outs)
            ar = [l for l in leaves if l.op in ordd.ARITH]
            if len(ar) != 3: return 'compares %d quantities, expected the three squared distances to the line' % len(ar), None
            ctx = P.Ctx(); g = G(ctx, t); pos, d = g.vec('a4'), g.vec('a4', 3)
            dist = []
            for k, b in enumerate(('a1', 'a2', 'a3')):
                w = g.sub(g.vec(b), pos)
                perp = g.sub(w, g.scale(d, g.dot(w, d)))          # v - closestPointTo(v)
                want = g.dot(perp, perp)
                m = [l for l in ar if ctx.requal(ctx.rat(l), want)]
                if len(m) != 1: return 'no squared distance |v%d - closestPointTo(v%d)|^2 among the compared quantities' % (k, k), None
                dist.append(m[0])
            for env in ordd.iter_envs(per):
                sel = [ordd.ev(o, env) for o in outs]
                ranks = [env[x.id] for x in dist]
                best = ranks.index(min(ranks))
                if not all(sel[i] is vs[best][i] for i in range(3)):
                    return 'with the squared distances to the line ranked d(v0):%s d(v1):%s d(v2):%s the function does not return the first nearest vertex' % tuple(ranks), None
            return None, 'first vertex with the smallest squared distance to the line, on all %d orderings' % total
        run('w_closestVertexLine', 'R15.vec', closest_vertex_line)

        def rotate_point(S):
            outs = outs_v(S, 'a0')
            n = 0
            for asg, res in cases(outs, P.Ctx()):
                ctx = P.Ctx(); g = G(ctx, t); g.unit('a2', 3); n += 1
                r = [ctx.rat(x) for x in res]; p = g.vec('a1'); pos, d = g.vec('a2'), g.vec('a2', 3)
                q = g.add(pos, g.scale(d, g.dot(g.sub(p, pos), d)))
                if not g.zero(g.dot(g.sub(r, q), d)): return 'the rotated point leaves the plane perpendicular to the axis', None
                if not ctx.requal(g.dot(g.sub(r, q), g.sub(r, q)), g.dot(g.sub(p, q), g.sub(p, q))): return 'distance to the axis is not preserved', None
            # a point ON the axis (p = pos + lam*dir, radius identically 0) is a fixed point: the normalisations must take
            # their zero-length exits; a division by the identically-zero radius is 0/0 for every such input
            lam = T.arg(91, lt)
            ctx = P.Ctx(); g = G(ctx, t); g.unit('a2', 3)
            pos_n = [agg.slot_in('a2', i, t) for i in range(3)]; dir_n = [agg.slot_in('a2', 3 + i, t) for i in range(3)]
            for i in range(3):
                ctx.lin[ctx.key(agg.slot_in('a1', i, t))] = P.padd(ctx.reduce(P.patom(ctx.key(pos_n[i]))), P.pmul(P.patom(ctx.key(lam)), ctx.reduce(P.patom(ctx.key(dir_n[i])))))
            m = 0
            try:
                for asg, res in cases(outs, ctx):
                    m += 1
                    r = [ctx.rat(x) for x in res]; p = g.vec('a1')
                    if not all(ctx.requal(r[i], p[i]) for i in range(3)): return 'a point on the axis is moved: %s' % P.show_rat(r[0], ctx)[:120], None
            except (P.NotPoly, PC.Undecided) as e:
                if 'zero polynomial' in str(e): return 'for a point on the axis (distance 0) the result is a quotient by the identically-zero radius: 0/0 instead of the point itself', None
                raise
            if m == 0: return 'no path for a point on the axis', None
            return None, 'stays in the plane perpendicular to the axis at the same distance (%d case); a point on the axis is a fixed point' % n
        run('w_rotatePoint', 'R15.vec', rotate_point)

        def tri(S):
            outs = [S.out('a0', 0, 1, 'i8')] + outs_v(S, 'a5') + outs_v(S, 'a6') + [S.out('a7', 0, 1, 'i8')]
            n = 0; seen = set()
            # accepting paths: the leaves of the boolean result that are true, with no degenerate (== 0) literal
            from .common import hoist
            rb = outs[0]
            acc = []
            def to_bool(x):
                if x.op == 'ite': return T.ite(x.args[0], to_bool(x.args[1]), to_bool(x.args[2]))
                if x.op == 'const': return T.TRUE if x.attr[1] & 1 else T.FALSE
                if x.op == 'zext' and x.args[0].ty == 'i1': return x.args[0]
                raise vg.Unsupported('result shape %s' % x.op)
            for lits, leaf in T.leaves(rb, 4096):
                if not (leaf.op == 'const' and leaf.attr[1] & 1): continue
                if any(c.op == 'fcmp' and c.attr == 'oeq' and v for c, v in lits): continue
                if any(tiny(c) and v for c, v in lits): continue
                acc.append(dict(lits))
            def gen_cases():
                for a_ in acc:
                    o2 = [T.resolve(o, a_) for o in outs]
                    for asg, res in cases(o2, P.Ctx()):
                        yield asg, res
            for asg, res in gen_cases():
                if res[0].op == 'const' and res[0].attr[1] == 0: continue
                key = tuple(x.id for x in res)
                if key in seen: continue
                seen.add(key)
                ctx = P.Ctx(); g = G(ctx, t); g.unit('a1', 3); n += 1
                ctx.cancel = True
                pt = [ctx.rat(x) for x in res[1:4]]
                bary = None
                pos, d = g.vec('a1'), g.vec('a1', 3); v0, v1, v2 = g.vec('a2'), g.vec('a3'), g.vec('a4')
                nrm = g.cross(g.sub(v2, v1), g.sub(v1, v0))
                if not g.vzero(g.cross(g.sub(pt, pos), d)): return 'hit point is not on the line', None
                if not g.zero(g.dot(g.sub(pt, v0), nrm)): return 'hit point is not in the triangle\'s plane', None
                # barycentric.y is defined as 1 - x - z: the sum is one by construction (D-term shape)
                bx, by, bz = res[4:7]
                want_y = T.binop('fsub', T.binop('fsub', T.fp_from_value(lt, 1.0), bx, lt), bz, lt)
                if by is not want_y and not T.equiv(by, want_y): return 'barycentric.y is not 1 - x - z', None
                # the front-facing flag is documented as  (v2-v1)x(v1-v0) . dir < 0 : on this case (a resolution of every
                # comparison) the flag is a constant; it must be the truth value the case gives to that sign test
                fr = res[7]
                while fr.op in ('zext', 'trunc') and fr.args: fr = fr.args[0]
                if fr.op != 'const': return 'the front-facing flag is not decided by the comparisons of the path (%s)' % T.show(fr, 3)[:100], None
                ndot = g.dot(nrm, d)
                l2 = g.dot(nrm, nrm); Ln = ctx.rdiv(ctx.sqrt_poly(l2[0]), ctx.sqrt_poly(l2[1]))
                truth = None
                for c_, v_ in asg.items():
                    if not (c_.op == 'fcmp' and c_.attr in ('olt', 'ole') and any(z.op == 'const' and T.const_value(z) == 0 for z in c_.args)): continue
                    zi = 0 if (c_.args[0].op == 'const' and T.const_value(c_.args[0]) == 0) else 1
                    try: Xr = ctx.rat(c_.args[1 - zi])
                    except P.NotPoly: continue
                    for kf in ((P.pconst(1), ONE), Ln):
                        for sg_ in (1, -1):
                            if ctx.requal(ctx.rmul(Xr, kf), ndot if sg_ == 1 else (P.pneg(ndot[0]), ndot[1])):
                                # c_: (X < 0) if zi == 1 else (0 < X), value v_;  X = sg_ * ndot / kf
                                x_neg = v_ if zi == 1 else (not v_)          # generic point: X != 0
                                truth = x_neg if sg_ == 1 else (not x_neg)
                if truth is None: return 'the front-facing flag does not depend on the sign of (v2-v1)x(v1-v0) . dir', None
                if bool(fr.attr[1] & 1) != truth: return 'the front-facing flag is %d where (v2-v1)x(v1-v0) . dir < 0 is %s' % (fr.attr[1] & 1, truth), None
                if tier != 'quick' or n == 1:
                    # modular (quick: first accepting case only): for EVERY point q = v0 + al*(v1-v0) + be*(v2-v0) of the triangle's plane put in place of the hit
                    # point, the formulas give barycentric.z = be and barycentric.x = 1 - al - be; with the hit point in the
                    # plane (above) and y = 1 - x - z the coordinates reproduce it.
                    if any(x.op in ('in', 'const') for x in res[1:4]): return 'hit point is not a computed value', None
                    qn = [T.inp('q#pt', i * sz, sz, lt) for i in range(3)]
                    al, be = T.inp('q#al', 0, sz, lt), T.inp('q#be', 0, sz, lt)
                    mp = {res[1 + i]: qn[i] for i in range(3)}
                    bx2, bz2 = T.subst(bx, mp), T.subst(bz, mp)
                    c2 = P.Ctx(); c2.cancel = True; g2 = G(c2, t)
                    w0, w1, w2 = g2.vec('a2'), g2.vec('a3'), g2.vec('a4')
                    ra, rb_ = (P.patom(c2.key(al)), ONE), (P.patom(c2.key(be)), ONE)
                    qv = g2.add(w0, g2.add(g2.scale(g2.sub(w1, w0), ra), g2.scale(g2.sub(w2, w0), rb_)))
                    for i in range(3):
                        if qv[i][1] != ONE: raise P.NotPoly('parametrised point is not polynomial')
                        c2.lin[c2.key(qn[i])] = qv[i][0]
                    if not c2.requal(c2.rat(bz2), rb_): return 'barycentric.z of a point v0 + a*(v1-v0) + b*(v2-v0) is not b', None
                    want_x = c2.radd((P.pconst(1), ONE), (P.pneg(P.padd(ra[0], rb_[0])), ONE))
                    if not c2.requal(c2.rat(bx2), want_x): return 'barycentric.x of a point v0 + a*(v1-v0) + b*(v2-v0) is not 1 - a - b', None
            return (None, 'hit point on the line and in the plane; barycentrics sum to 1%s (%d accepting case(s))' % (' and reproduce it', n)) if n else ('no accepting exit', None)
        run('w_tri', 'R15.tri', tri)
    narrowing(rep, ws, [gen('d'), gen_planeM('d')], 'R15.prec')
    rep.floor('geometric primitive obligations', len(rep.obs), 22 * len(types))
    rep.assumptions += ['exact real arithmetic at a generic point (zero / parallel tests false unless identically zero)', '|dir| = 1 for Line3 (R15.set), |normal| = 1 for Plane3 (every set overload)']
    rep.undecided_clauses += ['triangle inside/outside exactness near edges', 'plane x matrix side preservation', 'rounding']
