"""C07 - throwing and non-throwing variants agree (D-term, twin table).

R07.same  on every non-throwing leaf of the checked form the unchecked form's value graph is identical
R07.iff   throw region of the checked form == region where the unchecked form returns its failure sentinel
R07.type  exception type per family
R07.flag  f(false) == f() outright for the bool-flag overloads
"""
from engine import term as T, agg, build, vg
from engine.agg import ELEM, TU
from engine.report import HOLDS, VIOLATED, UNDECIDED
from .common import Analysed, fn_where, joint, twin_same, region, narrowing

DOMAIN = '_ZTISt12domain_error'
INVARG = '_ZTISt16invalid_argument'

FRUSTUM_HDR = agg.HEADER + '''#include <ImathFrustum.h>
#include <ImathEuler.h>
template <class T> struct FProbe : public Frustum<T> {
    using Frustum<T>::localToScreen; using Frustum<T>::localToScreenExc;
};
'''

def slots(base, n, t):
    _, sz, lt = ELEM[t]
    return [(base, i * sz, sz, lt) for i in range(n)]

def gen(t, only=None, tuname=None):
    """only='Frustum': the Frustum twins alone (C16 runs the same twin rules on them under its own rule name)"""
    E, sz, lt = ELEM[t]
    tu = TU(tuname or ('c07_' + t), header=FRUSTUM_HDR)
    pairs = []   # (id, checked wrapper, unchecked wrapper, outs, ret type, sentinel kind, exc type, extra wrappers for flag equality)
    def add(name, params, body):
        tu.add('w_' + name, params, body)
        return 'w_' + name
    for n in (2, 3, 4) if only is None else ():
        V = 'Vec%d<%s>' % (n, E)
        a = add('V%d_normalize' % n, '%s& v' % V, 'v.normalize();')
        b = add('V%d_normalizeExc' % n, '%s& v' % V, 'v.normalizeExc();')
        c = add('V%d_normalizeNonNull' % n, '%s& v' % V, 'v.normalizeNonNull();')
        pairs.append(dict(id='Vec%d<%s>::normalizeExc/normalize' % (n, E), C=b, U=a, outs=slots('a0', n, t), sentinel=('unchanged', 'a0', n), exc=DOMAIN))
        pairs.append(dict(id='Vec%d<%s>::normalizeExc/normalizeNonNull' % (n, E), C=b, U=c, outs=slots('a0', n, t), sentinel=None, exc=DOMAIN))
        a = add('V%d_normalized' % n, '%s& o, const %s& v' % (V, V), 'o = v.normalized();')
        b = add('V%d_normalizedExc' % n, '%s& o, const %s& v' % (V, V), 'o = v.normalizedExc();')
        c = add('V%d_normalizedNonNull' % n, '%s& o, const %s& v' % (V, V), 'o = v.normalizedNonNull();')
        pairs.append(dict(id='Vec%d<%s>::normalizedExc/normalized' % (n, E), C=b, U=a, outs=slots('a0', n, t), sentinel=('zero', n), exc=DOMAIN))
        pairs.append(dict(id='Vec%d<%s>::normalizedExc/normalizedNonNull' % (n, E), C=b, U=c, outs=slots('a0', n, t), sentinel=None, exc=DOMAIN))
    if only is None:
        a = add('V3_from_V4', 'Vec3<%s>& o, const Vec4<%s>& v' % (E, E), 'o = Vec3<%s>(v);' % E)
        b = add('V3_from_V4_exc', 'Vec3<%s>& o, const Vec4<%s>& v' % (E, E), 'o = Vec3<%s>(v, INF_EXCEPTION);' % E)
        pairs.append(dict(id='Vec3<%s>(Vec4,InfException)/Vec3(Vec4)' % E, C=b, U=a, outs=slots('a0', 3, t), sentinel=None, exc=DOMAIN))
    # converting forms (source element type differs from the destination's): still one checked / unchecked pair
    E2 = {'float': 'double', 'double': 'float'}.get(E)
    if E2 and only is None:
        a = add('V3_from_V4x', 'Vec3<%s>& o, const Vec4<%s>& v' % (E, E2), 'o = Vec3<%s>(v);' % E)
        b = add('V3_from_V4x_exc', 'Vec3<%s>& o, const Vec4<%s>& v' % (E, E2), 'o = Vec3<%s>(v, INF_EXCEPTION);' % E)
        pairs.append(dict(id='Vec3<%s>(Vec4<%s>,InfException)/Vec3(Vec4<%s>)' % (E, E2, E2), C=b, U=a, outs=slots('a0', 3, t), sentinel=None, exc=DOMAIN))
    for d in (2, 3, 4) if only is None else ():
        M = 'Matrix%d%d<%s>' % (d, d, E)
        fns = ['inverse', 'invert'] + (['gjInverse', 'gjInvert'] if d > 2 else [])
        for f in fns:
            inplace = f.endswith('t')
            if inplace:
                u = add('M%d_%s' % (d, f), '%s& m' % M, 'm.%s();' % f)
                c = add('M%d_%s_true' % (d, f), '%s& m' % M, 'm.%s(true);' % f)
                z = add('M%d_%s_false' % (d, f), '%s& m' % M, 'm.%s(false);' % f)
            else:
                u = add('M%d_%s' % (d, f), '%s& o, const %s& m' % (M, M), 'o = m.%s();' % f)
                c = add('M%d_%s_true' % (d, f), '%s& o, const %s& m' % (M, M), 'o = m.%s(true);' % f)
                z = add('M%d_%s_false' % (d, f), '%s& o, const %s& m' % (M, M), 'o = m.%s(false);' % f)
            pairs.append(dict(id='%s::%s(true)/%s()' % (M, f, f), C=c, U=u, outs=slots('a0', d * d, t), sentinel=('identity', d), exc=INVARG, flag=z))
    F = 'Frustum<%s>' % E
    V2 = 'Vec2<%s>' % E; V3 = 'Vec3<%s>' % E; M4 = 'Matrix44<%s>' % E
    def fr(name, params, call, callExc, outs, ret=None):
        u = add('F_' + name, params, call)
        c = add('F_' + name + 'Exc', params, callExc)
        pairs.append(dict(id='%s::%sExc/%s' % (F, name, name), C=c, U=u, outs=outs, sentinel=None, exc=DOMAIN))
    fr('projectionMatrix', '%s& o, const %s& f' % (M4, F), 'o = f.projectionMatrix();', 'o = f.projectionMatrixExc();', slots('a0', 16, t))
    fr('aspect', '%s& o, const %s& f' % (E, F), 'o = f.aspect();', 'o = f.aspectExc();', slots('a0', 1, t))
    fr('localToScreen', '%s& o, const FProbe<%s>& f, const %s& p' % (V2, E, V2), 'o = f.localToScreen(p);', 'o = f.localToScreenExc(p);', slots('a0', 2, t))
    fr('projectPointToScreen', '%s& o, const %s& f, const %s& p' % (V2, F, V3), 'o = f.projectPointToScreen(p);', 'o = f.projectPointToScreenExc(p);', slots('a0', 2, t))
    fr('ZToDepth', '%s& o, const %s& f, const long& z, const long& lo, const long& hi' % (E, F), 'o = f.ZToDepth(z, lo, hi);', 'o = f.ZToDepthExc(z, lo, hi);', slots('a0', 1, t))
    fr('normalizedZToDepth', '%s& o, const %s& f, const %s& z' % (E, F, E), 'o = f.normalizedZToDepth(z);', 'o = f.normalizedZToDepthExc(z);', slots('a0', 1, t))
    fr('DepthToZ', 'long& o, const %s& f, const %s& d, const long& lo, const long& hi' % (F, E), 'o = f.DepthToZ(d, lo, hi);', 'o = f.DepthToZExc(d, lo, hi);', [('a0', 0, 8, 'i64')])
    fr('worldRadius', '%s& o, const %s& f, const %s& p, const %s& r' % (E, F, V3, E), 'o = f.worldRadius(p, r);', 'o = f.worldRadiusExc(p, r);', slots('a0', 1, t))
    fr('screenRadius', '%s& o, const %s& f, const %s& p, const %s& r' % (E, F, V3, E), 'o = f.screenRadius(p, r);', 'o = f.screenRadiusExc(p, r);', slots('a0', 1, t))
    _, fsz, flt = ELEM[t]
    fouts = [('a0', 8 + i * fsz, fsz, flt) for i in range(6)] + [('a0', 8 + 6 * fsz, 1, 'i8')]
    fr('set', '%s& f, const %s& n, const %s& fa, const %s& fx, const %s& fy, const %s& as' % (F, E, E, E, E, E), 'f.set(n, fa, fx, fy, as);', 'f.setExc(n, fa, fx, fy, as);', fouts)
    if only == 'Frustum':
        return tu, pairs
    # exc-flag functions of ImathMatrixAlgo.h (3-D and 2-D)
    def ex(name, params, call, outs, ret, sentinel='retfalse'):
        c = add('X_%s_exc1' % name, params, call % 'true')
        u = add('X_%s_exc0' % name, params, call % 'false')
        pairs.append(dict(id='%s<%s>(exc=true)/(exc=false)' % (name, E), C=c, U=u, outs=outs, sentinel=sentinel, exc=DOMAIN, ret=ret))
    M3 = 'Matrix33<%s>' % E
    ex('extractScaling44', 'bool& r, const %s& m, %s& s' % (M4, V3), 'r = extractScaling(m, s, %s);', slots('a2', 3, t) + [('a0', 0, 1, 'i8')], None)
    ex('sansScaling44', '%s& o, const %s& m' % (M4, M4), 'o = sansScaling(m, %s);', slots('a0', 16, t), None, sentinel=('copy', 'a1', 16))
    ex('removeScaling44', 'bool& r, %s& m' % M4, 'r = removeScaling(m, %s);', slots('a1', 16, t) + [('a0', 0, 1, 'i8')], None)
    ex('extractScalingAndShear44', 'bool& r, const %s& m, %s& s, %s& h' % (M4, V3, V3), 'r = extractScalingAndShear(m, s, h, %s);', slots('a2', 3, t) + slots('a3', 3, t) + [('a0', 0, 1, 'i8')], None)
    ex('sansScalingAndShear44', '%s& o, const %s& m' % (M4, M4), 'o = sansScalingAndShear(m, %s);', slots('a0', 16, t), None, sentinel=('copy', 'a1', 16))
    ex('sansScalingAndShear44_out', '%s& o, const %s& m' % (M4, M4), 'sansScalingAndShear(o, m, %s);', slots('a0', 16, t), None, sentinel=('copy', 'a1', 16))
    ex('removeScalingAndShear44', 'bool& r, %s& m' % M4, 'r = removeScalingAndShear(m, %s);', slots('a1', 16, t) + [('a0', 0, 1, 'i8')], None)
    ex('extractAndRemoveScalingAndShear44', 'bool& r, %s& m, %s& s, %s& h' % (M4, V3, V3), 'r = extractAndRemoveScalingAndShear(m, s, h, %s);', slots('a1', 16, t) + slots('a2', 3, t) + slots('a3', 3, t) + [('a0', 0, 1, 'i8')], None)
    ex('extractSHRT44', 'bool& r, const %s& m, %s& s, %s& h, %s& ro, %s& tr' % (M4, V3, V3, V3, V3), 'r = extractSHRT(m, s, h, ro, tr, %s);',
       slots('a2', 3, t) + slots('a3', 3, t) + slots('a4', 3, t) + slots('a5', 3, t) + [('a0', 0, 1, 'i8')], None)
    ex('extractSHRT44_order', 'bool& r, const %s& m, %s& s, %s& h, %s& ro, %s& tr' % (M4, V3, V3, V3, V3), 'r = extractSHRT(m, s, h, ro, tr, %%s, Euler<%s>::ZYX);' % E,
       slots('a2', 3, t) + slots('a3', 3, t) + slots('a4', 3, t) + slots('a5', 3, t) + [('a0', 0, 1, 'i8')], None)
    ex('extractSHRT44_euler', 'bool& r, const %s& m, %s& s, %s& h, Euler<%s>& ro, %s& tr' % (M4, V3, V3, E, V3), 'ro.setOrder(Euler<%s>::YZX); r = extractSHRT(m, s, h, ro, tr, %%s);' % E,
       slots('a2', 3, t) + slots('a3', 3, t) + slots('a4', 3, t) + slots('a5', 3, t) + [('a0', 0, 1, 'i8')], None)
    ex('checkForZeroScaleInRow3', 'bool& r, const %s& s, const %s& row' % (E, V3), 'r = checkForZeroScaleInRow(s, row, %s);', [('a0', 0, 1, 'i8')], None)
    ex('extractScaling33', 'bool& r, const %s& m, %s& s' % (M3, V2), 'r = extractScaling(m, s, %s);', slots('a2', 2, t) + [('a0', 0, 1, 'i8')], None)
    ex('sansScaling33', '%s& o, const %s& m' % (M3, M3), 'o = sansScaling(m, %s);', slots('a0', 9, t), None, sentinel=('copy', 'a1', 9))
    ex('removeScaling33', 'bool& r, %s& m' % M3, 'r = removeScaling(m, %s);', slots('a1', 9, t) + [('a0', 0, 1, 'i8')], None)
    ex('extractScalingAndShear33', 'bool& r, const %s& m, %s& s, %s& h' % (M3, V2, E), 'r = extractScalingAndShear(m, s, h, %s);', slots('a2', 2, t) + slots('a3', 1, t) + [('a0', 0, 1, 'i8')], None)
    ex('sansScalingAndShear33', '%s& o, const %s& m' % (M3, M3), 'o = sansScalingAndShear(m, %s);', slots('a0', 9, t), None, sentinel=('copy', 'a1', 9))
    ex('removeScalingAndShear33', 'bool& r, %s& m' % M3, 'r = removeScalingAndShear(m, %s);', slots('a1', 9, t) + [('a0', 0, 1, 'i8')], None)
    ex('extractAndRemoveScalingAndShear33', 'bool& r, %s& m, %s& s, %s& h' % (M3, V2, E), 'r = extractAndRemoveScalingAndShear(m, s, h, %s);', slots('a1', 9, t) + slots('a2', 2, t) + slots('a3', 1, t) + [('a0', 0, 1, 'i8')], None)
    ex('extractSHRT33', 'bool& r, const %s& m, %s& s, %s& h, %s& ro, %s& tr' % (M3, V2, E, E, V2), 'r = extractSHRT(m, s, h, ro, tr, %s);',
       slots('a2', 2, t) + slots('a3', 1, t) + slots('a4', 1, t) + slots('a5', 2, t) + [('a0', 0, 1, 'i8')], None)
    ex('checkForZeroScaleInRow2', 'bool& r, const %s& s, const %s& row' % (E, V2), 'r = checkForZeroScaleInRow(s, row, %s);', [('a0', 0, 1, 'i8')], None)
    return tu, pairs

def is_one(x, v):
    return x.op == 'const' and not x.attr[0].startswith('i') and T.const_value(x) == v

def sentinel_pred(kind, t):
    E, sz, lt = ELEM[t]
    if kind is None:
        return None
    if kind == 'retfalse':
        def p(leaf):
            return leaf.op == 'tuple' and leaf.args[-1].op == 'const' and leaf.args[-1].attr[1] == 0
        return p
    if kind[0] == 'unchanged':
        base, n = kind[1], kind[2]
        exp = [agg.slot_in(base, i, t) for i in range(n)]
        return lambda leaf: leaf.op == 'tuple' and all(a is b for a, b in zip(leaf.args, exp))
    if kind[0] == 'copy':
        base, n = kind[1], kind[2]
        exp = [agg.slot_in(base, i, t) for i in range(n)]
        return lambda leaf: leaf.op == 'tuple' and all(a is b for a, b in zip(leaf.args, exp))
    if kind[0] == 'zero':
        return lambda leaf: leaf.op == 'tuple' and all(is_one(a, 0) for a in leaf.args)
    if kind[0] == 'identity':
        d = kind[1]
        return lambda leaf: leaf.op == 'tuple' and all(is_one(a, 1 if i // d == i % d else 0) for i, a in enumerate(leaf.args))
    raise KeyError(kind)

def P_all_conds(n):
    from engine import poly as P_
    return set(P_.all_conds(n))

def _ev3(x, env, memo):
    """three-valued evaluation: a number / bool, or None when the value depends on something not fixed by env.
    env['ieee'] (set by callers that fold a value graph at concrete inputs): integer operations are evaluated in their width and
    every float-typed arithmetic result is rounded to binary32 (the double-precision intermediate is wide enough for + - * /
    to round correctly), so the folding is bit-exact."""
    if x.id in memo: return memo[x.id]
    r = None
    if x.id in env: r = env[x.id]
    elif x is T.TRUE: r = True
    elif x is T.FALSE: r = False
    elif x.op == 'const':
        v = T.const_value(x)
        r = None if isinstance(v, str) else (float(v) if (env.get('ieee') and not isinstance(v, int)) else v)
    else:
        a = [_ev3(y, env, memo) for y in x.args]
        op = x.op
        def f32(v):
            import struct, math
            if v is None or isinstance(v, bool) or x.ty != 'float' or not env.get('ieee'): return v
            try: return struct.unpack('<f', struct.pack('<f', v))[0]
            except OverflowError: return math.copysign(math.inf, v)
        if env.get('ieee') and op in ('and', 'or', 'xor', 'shl', 'lshr', 'add', 'sub', 'mul') and x.ty != 'i1' and str(x.ty).startswith('i') and None not in a and all(isinstance(v, int) and not isinstance(v, bool) for v in a):
            w = int(x.ty[1:]); m_ = (1 << w) - 1; p, q = a[0] & m_, a[1] & m_
            r = {'and': p & q, 'or': p | q, 'xor': p ^ q, 'shl': (p << q) & m_ if q < w else None, 'lshr': p >> q if q < w else None, 'add': (p + q) & m_, 'sub': (p - q) & m_, 'mul': (p * q) & m_}[op]
        elif env.get('ieee') and op in ('uitofp', 'sitofp') and a[0] is not None: r = f32(float(a[0]))
        elif env.get('ieee') and op in ('fptoui', 'fptosi') and a[0] is not None:
            w = int(x.ty[1:]); v = int(a[0]) if a[0] == a[0] and abs(a[0]) < 2.0 ** 63 else None
            r = v if v is not None and (0 <= v < (1 << w) if op == 'fptoui' else -(1 << (w - 1)) <= v < (1 << (w - 1))) else None
        elif env.get('ieee') and op in ('zext', 'trunc') and a[0] is not None and str(x.ty).startswith('i') and x.ty != 'i1' and isinstance(a[0], int) and not isinstance(a[0], bool): r = a[0] & ((1 << int(x.ty[1:])) - 1)
        elif env.get('ieee') and op == 'fptrunc' and a[0] is not None: r = f32(a[0])
        elif env.get('ieee') and op in ('fmul', 'fadd', 'fsub', 'fdiv') and None not in a and (op != 'fdiv' or a[1] != 0):
            r = f32(a[0] * a[1] if op == 'fmul' else a[0] + a[1] if op == 'fadd' else a[0] - a[1] if op == 'fsub' else a[0] / a[1])
        elif op in ('fpext', 'fptrunc', 'sitofp', 'zext'): r = a[0]
        elif op == 'fneg': r = None if a[0] is None else -a[0]
        elif op == 'absi' or (op == 'call' and 'fabs' in str(x.attr)): r = None if a[0] is None else abs(a[0])
        elif op in ('fmul', 'fadd', 'fsub') and None not in a:
            r = a[0] * a[1] if op == 'fmul' else a[0] + a[1] if op == 'fadd' else a[0] - a[1]
        elif op == 'fmul' and any(z is not None and z == 0 for z in a) and env.get('finite'):
            r = 0.0                                 # 0 * (any finite value)
        elif op == 'fdiv' and None not in a:
            import math
            r = a[0] / a[1] if a[1] != 0 else (math.nan if (a[0] == 0 or a[0] != a[0]) else math.copysign(math.inf, a[0]) * math.copysign(1.0, a[1]))
        elif op == 'call' and None not in a and str(x.attr) in ('sqrt', 'sin', 'cos', 'acos', 'asin', 'atan2', 'tan', 'atan'):
            import math
            try: r = getattr(math, str(x.attr))(*a)
            except (ValueError, OverflowError): r = math.nan
        elif op == 'fcmp' and None not in a and not isinstance(a[0], bool) and not isinstance(a[1], bool):
            f = {'olt': lambda p, q: p < q, 'ole': lambda p, q: p <= q, 'ogt': lambda p, q: p > q, 'oge': lambda p, q: p >= q,
                 'oeq': lambda p, q: p == q, 'une': lambda p, q: p != q, 'one': lambda p, q: p != q, 'ult': lambda p, q: p < q,
                 'ule': lambda p, q: p <= q, 'ugt': lambda p, q: p > q, 'uge': lambda p, q: p >= q, 'ueq': lambda p, q: p == q}.get(x.attr)
            r = f(a[0], a[1]) if f else None
        elif op == 'not': r = None if a[0] is None else (not a[0])
        elif op == 'and' and x.ty == 'i1':
            r = False if (a[0] is False or a[1] is False) else (True if (a[0] is True and a[1] is True) else None)
        elif op == 'or' and x.ty == 'i1':
            r = True if (a[0] is True or a[1] is True) else (False if (a[0] is False and a[1] is False) else None)
        elif op == 'ite':
            if a[0] is True: r = a[1]
            elif a[0] is False: r = a[2]
            elif a[1] is not None and a[1] == a[2] and type(a[1]) == type(a[2]): r = a[1]
    memo[x.id] = r
    return r

def guard_points(tc, JU, t):
    from .common import lift_all
    def core(n):
        while n.op in ('fneg', 'sitofp', 'fpext', 'fptrunc'): n = n.args[0]
        return n
    tiny, huge = (1e-30, 1e30) if t == 'f' else (1e-300, 1e300)
    big = 1e38 if t == 'f' else 1e308
    SAFE = [(0.5, 1.0), (-0.5, 1.0), (0.5, -1.0), (2.0, 1.0), (-2.0, huge), (0.5, 0.0), (1e-3, 1e3), (0.75, big), (1.0, 1.0), (tiny, tiny), (huge, huge), (huge, 1.0), (3.0, big)]
    OVER = [(tiny, huge), (-tiny, huge), (tiny, -huge), (0.0, 1.0), (0.0, -huge), (0.25, 3 * big)]
    npts = 0
    # divisors that the throw condition compares by magnitude (a divisor only tested against zero claims no overflow guard)
    magn = set(); st = [tc]; seen = set()
    while st:
        x = st.pop()
        if x.id in seen: continue
        seen.add(x.id); st.extend(x.args)
        if x.op == 'absi' or (x.op == 'call' and 'fabs' in str(x.attr)): magn.add(core(x.args[0]).id)
        if x.op == 'fcmp' and x.attr in ('olt', 'ole', 'ogt', 'oge'):
            for z in x.args:
                if z.op != 'const': magn.add(core(z).id)
    for lits, leaf in T.leaves(lift_all(JU, [400000]), 100000):
        if leaf.op != 'tuple': continue
        tcr = T.resolve(tc, dict(lits))
        quots = {}; st = list(leaf.args); seen = set()
        while st:
            x = st.pop()
            if x.id in seen: continue
            seen.add(x.id); st.extend(x.args)
            if x.op == 'fdiv' and x.args[1].op != 'const' and core(x.args[0]).op != 'const': quots[x.id] = x
        path = ', '.join('%s=%s' % (T.show(c, 2)[:40], v) for c, v in lits[:3]) or 'the only path'
        for q in quots.values():
            n_, d_ = core(q.args[0]), core(q.args[1])
            if n_ is d_: continue
            def mentions(c):
                st_ = [c]; sn = set()
                while st_:
                    y = st_.pop()
                    if y.id in sn: continue
                    sn.add(y.id)
                    if y is n_ or y is d_: return True
                    st_.extend(y.args)
                return False
            dep = [(c, v) for c, v in lits if mentions(c)]
            nonneg = [z.id for z in (n_, d_) if z.op == 'absi' or (z.op == 'call' and 'fabs' in str(z.attr))]
            def on_path(env):
                # the point has to lie on this path: a magnitude is not negative, and every branch condition of the path that reads
                # N or D (|x| < |y| on the path that divides x by y) must be decided true by the two values alone
                if any(env[i] < 0 for i in nonneg): return False
                memo = {}
                return all(_ev3(c, env, memo) is v for c, v in dep)
            for dv, nv in SAFE:
                if not on_path({d_.id: dv, n_.id: nv}): continue
                npts += 1
                if _ev3(tcr, {d_.id: dv, n_.id: nv}, {}) is True:
                    return ('on the path %s the result contains the quotient N/D = %s; with D = %g and N = %g (quotient %g, nowhere near overflow) the throw condition %s is true: well-conditioned input is rejected although the unchecked form returns an ordinary value'
                            % (path, T.show(q, 2)[:80], dv, nv, nv / dv, T.show(tcr, 3)[:200]), npts)
            if d_.id in magn:
                for dv, nv in OVER:
                    if not on_path({d_.id: dv, n_.id: nv}): continue
                    npts += 1
                    if _ev3(tcr, {d_.id: dv, n_.id: nv}, {}) is False:
                        return ('on the path %s the result contains the quotient N/D = %s; with D = %g and N = %g the quotient overflows, yet the throw condition %s is false: the checked form returns an infinite value instead of throwing'
                                % (path, T.show(q, 2)[:80], dv, nv, T.show(tcr, 3)[:200]), npts)
    return None, npts

def _same_over_reals(JC, JU):
    """the returning leaves of the checked form equal the unchecked form's value on the same path as real-valued functions
    (conversions are the identity, integers exact): (ok, detail).  Used where the property asks for the same *function*, not
    for bit-identical arithmetic (C16 on the Frustum twins)."""
    from engine import poly as P_
    from .common import lift_all
    n = 0
    for lits, leaf in T.leaves(lift_all(JC, [400000]), 100000):
        if leaf.op != 'tuple': continue
        other = T.resolve(lift_all(JU, [400000]), dict(lits))
        if other.op != 'tuple': return None, 'the unchecked form still branches on this path'
        ctx = P_.Ctx(); ctx.cancel = True
        for k, (a, b) in enumerate(zip(leaf.args, other.args)):
            if a is b: continue
            if not ctx.requal(ctx.rat(a), ctx.rat(b)):
                return False, 'output %d: the checked form computes %s, the unchecked form %s - different functions of the inputs' % (k, P_.show_rat(ctx.rat(a), ctx)[:140], P_.show_rat(ctx.rat(b), ctx)[:140])
        n += 1
    return True, '%d returning leaves equal as real-valued functions' % n

def check_pair(rep, R, p, t, rn=lambda k: 'R07.' + k, exact=True):
    """all twin rules for one checked / unchecked pair"""
    oid = p['id']
    SC, SU = R.get(p['C']), R.get(p['U'])
    if SC is None or SU is None:
        rep.ob(oid, rn('same'), UNDECIDED, R.err.get(p['C']) or R.err.get(p['U']) or 'not analysed'); return
    where = fn_where(SC.fn)
    try:
        JC = joint(SC, p['outs']); JU = joint(SU, p['outs'])
        ok, det, n = twin_same(JC, JU)
    except (vg.Unsupported, OverflowError) as e:
        rep.ob(oid, rn('same'), UNDECIDED, str(e), where); return
    if n == 0:
        rep.ob(oid, rn('same'), VIOLATED, 'the checked form has no returning path', where)
    elif not ok and not exact:
        from engine import poly as P_, polycheck as PC_
        try:
            ok2, det2 = _same_over_reals(JC, JU)
        except (P_.NotPoly, PC_.Undecided, vg.Unsupported, OverflowError) as e:
            ok2, det2 = None, 'the twins are different computations and could not be compared as real-valued functions: %s' % str(e)[:160]
        # (undecidable: no obligation here - bit-identity of the twins is C07's claim, and C07 reports the difference)
        if ok2 is not None: rep.ob(oid, rn('same'), HOLDS if ok2 else VIOLATED, det2, where)
        if ok2: ok = True
    else:
        rep.ob(oid, rn('same'), HOLDS if ok else VIOLATED, det if not ok else '%d returning leaves compared' % n, where,
               sample=None if not ok else '%s: %d returning leaves identical; throw region = %s' % (oid, n, T.show(SC.throw_cond(), 3)[:300]))
    # the unchecked form must not throw at all
    if SU.throw_types():
        rep.ob(oid + '#nothrow', rn('same'), VIOLATED, 'the unchecked form can throw %s' % SU.throw_types(), fn_where(SU.fn))
    # type
    tt = SC.throw_types()
    if not tt:
        rep.ob(oid + '#type', rn('type'), VIOLATED, 'the checked form never throws', where)
    elif tt != [p['exc']]:
        rep.ob(oid + '#type', rn('type'), VIOLATED, 'throws %s, documented type is %s' % (tt, p['exc']), where)
    else:
        rep.ob(oid + '#type', rn('type'), HOLDS, '', where, nontrivial=False)
    pred = sentinel_pred(p.get('sentinel'), t)
    if pred is not None:
        try:
            fail_region = region(JU, pred)
            tc = SC.throw_cond()
        except vg.Unsupported as e:
            rep.ob(oid + '#iff', rn('iff'), UNDECIDED, str(e), where); return
        if fail_region is tc:
            rep.ob(oid + '#iff', rn('iff'), HOLDS, '', where)
        else:
            rep.ob(oid + '#iff', rn('iff'), VIOLATED, 'checked form throws on %s but the unchecked form reports failure on %s' % (T.show(tc, 4)[:400], T.show(fail_region, 4)[:400]), where)
    if pred is None and ok:
        # no failure sentinel: the checked form throws where a quotient of the result would overflow.  Every quotient N/D of
        # a returning leaf must be covered by its own guard  |D| < 1 && |N| > max*|D|  in the throw condition.
        try:
            tc = SC.throw_cond()
            def abs_arg(n):
                if n.op == 'absi': return n.args[0]
                if n.op == 'call' and 'fabs' in str(n.attr): return n.args[0]
                return None
            small = set(); over = set(); seen_ = set(); st_ = [tc]
            while st_:
                x = st_.pop()
                if x.id in seen_: continue
                seen_.add(x.id); st_.extend(x.args)
                if x.op == 'fcmp' and x.attr in ('olt', 'ole'):
                    a_, b_ = x.args
                    if b_.op == 'const' and T.const_value(b_) == 1 and abs_arg(a_) is not None: small.add(abs_arg(a_).id)
                    if a_.op == 'fmul' and any(z.op == 'const' and not isinstance(T.const_value(z), str) and abs(T.const_value(z)) > 10 ** 30 for z in a_.args) and (abs_arg(b_) is not None or b_.op == 'const'):
                        dd = [abs_arg(z) for z in a_.args if abs_arg(z) is not None]
                        if dd: over.add(((abs_arg(b_) if b_.op != 'const' else b_).id, dd[0].id))      # a constant numerator is its own magnitude
            # the two-sided spelling of the same guard:  N <= -(max*|D|)  ||  N >= max*|D|
            def maxmul(n):
                neg = False
                if n.op == 'fneg': n = n.args[0]; neg = True
                if n.op == 'fmul' and any(z.op == 'const' and not isinstance(T.const_value(z), str) and abs(T.const_value(z)) > 10 ** 30 for z in n.args):
                    if any(z.op == 'const' and T.const_value(z) < 0 for z in n.args if z.op == 'const'): neg = not neg
                    dd = [abs_arg(z) for z in n.args if abs_arg(z) is not None]
                    if dd: return dd[0], neg
                return None
            lows = set(); ups = set(); seen_ = set(); st_ = [tc]
            while st_:
                x = st_.pop()
                if x.id in seen_: continue
                seen_.add(x.id); st_.extend(x.args)
                if x.op == 'fcmp' and x.attr in ('olt', 'ole'):
                    a_, b_ = x.args
                    mb = maxmul(b_); ma = maxmul(a_)
                    if mb is not None and mb[1] and abs_arg(a_) is None and a_.op != 'const': lows.add((a_.id, mb[0].id))       # N <= -(max |D|)
                    if ma is not None and not ma[1] and abs_arg(b_) is None and b_.op != 'const': ups.add((b_.id, ma[0].id))    # max |D| <= N
            over |= (lows & ups)
            quot = {}
            zero_tested = set()
            from .common import lift_all
            JL = lift_all(JC, [400000])
            for c_ in P_all_conds(JL) | P_all_conds(tc):
                if c_.op in ('fcmp', 'icmp') and c_.attr in ('oeq', 'eq', 'une', 'ne') and any(z.op == 'const' and T.const_value(z) == 0 for z in c_.args):
                    for z in c_.args:
                        if z.op != 'const': zero_tested.add(z.id)
            for lits_, leaf in T.leaves(JL, 100000):
                if leaf.op != 'tuple': continue
                st_ = list(leaf.args); seen2 = set()
                while st_:
                    x = st_.pop()
                    if x.id in seen2: continue
                    seen2.add(x.id); st_.extend(x.args)
                    if x.op == 'fdiv' and x.args[1].op != 'const': quot[x.id] = x
            def core(n):
                while n.op in ('fneg', 'sitofp', 'fpext', 'fptrunc'): n = n.args[0]
                return n
            def guarded(q):
                n_, d_ = core(q.args[0]), core(q.args[1])
                if d_.id in small and (n_.id, d_.id) in over: return True          # its own overflow guard
                if d_.id in small:
                    # the guarded magnitude may be written differently (|-2*f*n| for the numerator n*(f*2)): equal up to sign as polynomials
                    from engine import poly as P_
                    cx = P_.Ctx()
                    try:
                        rn = cx.rat(n_)
                        for (ng, dg) in over:
                            if dg != d_.id: continue
                            rg = cx.rat(T._nodes[ng])
                            if cx.requal(rg, rn) or cx.requal(rg, (P_.pneg(rn[0]), rn[1])): return True
                    except P_.NotPoly:
                        pass
                if d_.id in zero_tested or q.args[1].id in zero_tested: return True  # a divisor that is only tested against zero (no overflow guard is claimed for it)
                return False
            # ... and conversely a guard belongs to a quotient of the path it sits on: restricted to the path of a returning
            # leaf, the throw condition may only mention divisors that this leaf divides by (a guard hoisted above a branch
            # throws for inputs whose result - on the other branch - has no such quotient)
            stray = None
            for lits_, leaf in T.leaves(lift_all(JU, [400000]), 100000):     # the unchecked twin's paths carry the real branches only
                if leaf.op != 'tuple': continue
                tcr = T.resolve(tc, dict(lits_))
                if tcr is T.FALSE: continue
                dens_here = set()
                st_ = list(leaf.args); seen2 = set()
                while st_:
                    x = st_.pop()
                    if x.id in seen2: continue
                    seen2.add(x.id); st_.extend(x.args)
                    if x.op == 'fdiv': dens_here.add(core(x.args[1]).id)
                mentioned = set(); st_ = [tcr]; seen2 = set()
                while st_:
                    x = st_.pop()
                    if x.id in seen2: continue
                    seen2.add(x.id); st_.extend(x.args)
                    if x.op == 'fcmp' and x.attr in ('olt', 'ole') and x.args[1].op == 'const' and T.const_value(x.args[1]) == 1 and abs_arg(x.args[0]) is not None:
                        mentioned.add(core(abs_arg(x.args[0])).id)
                extra_ = [d_ for d_ in mentioned if d_ not in dens_here]
                if extra_ and any(lits_):
                    stray = 'on the path %s the checked form can still throw because of |%s| < 1 ..., but the result on that path does not divide by it: well-conditioned input of that kind is rejected although the unchecked form returns an ordinary value' % (', '.join('%s=%s' % (T.show(c, 2)[:40], v) for c, v in lits_[:3]), T.show(T._nodes[extra_[0]], 2)[:60])
                    break
            unguarded = [q for q in quot.values() if core(q.args[1]).id in small and not guarded(q)]
            if stray and not unguarded:
                rep.ob(oid + '#guard', rn('iff'), VIOLATED, stray, where)
                return
            if quot and (over or unguarded):
                rep.ob(oid + '#guard', rn('iff'), VIOLATED if unguarded else HOLDS,
                       'the quotient %s of the result has no guard |D| < 1 && |N| > max*|D| of its own in the throw condition %s' % (T.show(unguarded[0], 3)[:120], T.show(tc, 3)[:200]) if unguarded else
                       '%d quotients, each with its own overflow guard' % len(quot), where)
        except (vg.Unsupported, OverflowError) as e:
            rep.ob(oid + '#guard', rn('iff'), UNDECIDED, str(e)[:300], where)
    if pred is None and ok:
        # the guard as a predicate of the two magnitudes it protects: on the path of every quotient N/D of the result, the throw
        # condition is evaluated (three-valued; anything that reads other inputs is unknown) at points of the (|D|, |N|) plane.
        # Well-conditioned points (|N/D| far below max) must not be decided "throw"; points whose quotient overflows must not be
        # decided "return" when the divisor carries a magnitude guard at all.
        try:
            msg, npts = guard_points(SC.throw_cond(), JU, t)
            if npts:
                rep.ob(oid + '#points', rn('iff'), VIOLATED if msg else HOLDS, msg or '%d (|D|, |N|) points evaluated against the throw condition' % npts, where)
        except (vg.Unsupported, OverflowError) as e:
            rep.ob(oid + '#points', rn('iff'), UNDECIDED, str(e)[:300], where)
    if p.get('flag'):
        SZ = R.get(p['flag'])
        if SZ is None:
            rep.ob(oid + '#flag', rn('flag'), UNDECIDED, R.err.get(p['flag'], '')); return
        JZ = joint(SZ, p['outs'])
        rep.ob(oid + '#flag', rn('flag'), HOLDS if JZ is JU else VIOLATED, '' if JZ is JU else 'f(false) and f() have different value graphs', fn_where(SZ.fn))

def main(rep, ws, tier):
    types = 'f' if tier == 'quick' else 'fd'
    gens = [gen(t) for t in types]
    an = Analysed(ws, [g[0] for g in gens], rep)
    npairs = 0
    for (tu, pairs), t in zip(gens, types):
        R = an[tu]
        for p in pairs:
            npairs += 1
            check_pair(rep, R, p, t)
    narrowing(rep, ws, [gen('d')[0]], 'R07.prec')
    rep.floor('checked/unchecked twins', npairs, 54 * len(types))
    rep.assumptions += ['IEEE-exact term equality', 'a wrapper\'s reference parameters do not alias']
    rep.undecided_clauses += ['"guards fire only within a factor four of max; well-conditioned input never throws" (numeric range claim)',
                              'an edit that loosens or tightens a guard in both twins alike']
