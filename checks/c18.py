"""C18 - random generators are deterministic, range-correct and rand48-compatible (decided part).

R18.lcg   rand48Next: x = s2:s1:s0, x' = 0x5DEECE66D * x + 0xB, state' = x'[47:32], x'[31:16], x'[15:0]  (POSIX)
R18.n     nrand48 = x'[47:17]; lrand48 / Rand48::nexti / nextb forward
R18.e     erand48 packs sign 0, exponent 0x3ff, mantissa x'[47:0] : x'[47:44], minus 1  => in [0,1), within 2^-48 of x'/2^48
R18.s     srand48(seed) -> (seed[31:16], seed[15:0], 0x330e)
R18.r32   Rand32: next = 1664525*s + 1013904223; nextf mantissa = s'[22:0], exponent 0x7f, minus 1; nextb = bit 31; nexti = low 32
R18.pure  results depend only on the state argument / member (and the documented static state)
R18.range nextf(a,b) = a*(1-f) + b*f; the rejection loops return only when their acceptance test holds;
          hollowSphereRand (Vec2/3/4, float/double) returns v_i / length with the length in the element type
"""
import os
from fractions import Fraction
from engine import term as T, build, vg, bits as B, poly as P
from engine.agg import TU
from engine.report import HOLDS, VIOLATED, UNDECIDED
from .common import fn_where

A48 = 0x5DEECE66D; C48 = 0xB

def find(n, pred):
    seen = set(); stack = [n]
    while stack:
        x = stack.pop()
        if x.id in seen: continue
        seen.add(x.id)
        if pred(x): return x
        stack.extend(x.args)
    return None

def lcg_node(n, a, c, w):
    """the node a*X + c (mod 2^w) inside n; returns (node, X) or None"""
    def pred(x):
        if x.op != 'add' or x.ty != 'i%d' % w: return False
        cs = [y for y in x.args if y.op == 'const']; ms = [y for y in x.args if y.op == 'mul']
        return len(cs) == 1 and len(ms) == 1 and cs[0].attr[1] == c and any(z.op == 'const' and z.attr[1] == a for z in ms[0].args)
    x = find(n, pred)
    if x is None: return None
    m = [y for y in x.args if y.op == 'mul'][0]
    X = [z for z in m.args if not (z.op == 'const' and z.attr[1] == a)][0]
    return x, X

def deps(n):
    out = set(); seen = set(); stack = [n]
    while stack:
        x = stack.pop()
        if x.id in seen: continue
        seen.add(x.id)
        if x.op == 'in': out.add(x.attr[0])
        if x.op == 'mem0': out.add(x.attr[0])
        stack.extend(x.args)
    return out

def main(rep, ws, tier):
    ws.configure()
    bc = ws.compile_file('c18_random', build.REPO + '/src/Imath/ImathRandom.cpp')
    mod = ws.irx(bc, prefixes=('_ZN9Imath',), opaque=())
    I = vg.Interp(mod)
    # the state behind srand48 / lrand48 / drand48 is one process-wide object (POSIX): an ordinary global, not a thread-local one
    try:
        import subprocess, re as _re
        ll = subprocess.run(['llvm-dis-14', bc, '-o', '-'], stdout=subprocess.PIPE, stderr=subprocess.STDOUT, text=True).stdout
        gl = [l for l in ll.splitlines() if l.startswith('@') and 'staticState' in l.split('=')[0]]
        if len(gl) != 1:
            rep.ob('static state: storage', 'R18.s', UNDECIDED, 'expected one global named staticState, found %d' % len(gl), 'src/Imath/ImathRandom.cpp')
        else:
            tl = 'thread_local' in gl[0]
            rep.ob('static state: storage', 'R18.s', VIOLATED if tl else HOLDS, 'the state shared by srand48, lrand48 and drand48 has thread storage duration: srand48 on one thread does not seed the draws of another, and draws on another thread do not advance it (POSIX keeps one state per process)' if tl else
                   'one global object shared by srand48, lrand48 and drand48', 'src/Imath/ImathRandom.cpp', nontrivial=False)
    except OSError as e:
        rep.ob('static state: storage', 'R18.s', UNDECIDED, str(e), 'src/Imath/ImathRandom.cpp')
    def fn(sub):
        c = [n for n in I.funcs if sub in n]
        return c[0] if c else None
    where = 'src/Imath/ImathRandom.cpp'
    s_in = [T.inp('a0', 2 * i, 2, 'i16') for i in range(3)]
    words = {s_in[0]: (0, 16), s_in[1]: (16, 16), s_in[2]: (32, 16)}
    # ---- nrand48
    f = fn('nrand48')
    if f is None:
        rep.fail_incomplete('anchor vanished: nrand48'); return
    S = I.run(f)
    ret = S.ret()
    lc = lcg_node(ret, A48, C48, 64)
    if lc is None:
        rep.ob('rand48Next', 'R18.lcg', VIOLATED, 'no term 0x5DEECE66D * x + 0xB (64-bit) in nrand48: %s' % T.show(ret, 6)[:300], where)
    else:
        Xp, X = lc
        ev = B.Evaluator(None, 64, words=words)
        xv = ev.ev(X)
        okx = xv.bits == [('in', i) for i in range(48)] + [0] * 16
        outs = [S.out('a0', 2 * i, 2, 'i16') for i in range(3)]
        ev2 = B.Evaluator(Xp, 64)
        oko = all(ev2.ev(o).bits == [('in', 16 * i + j) for j in range(16)] for i, o in enumerate(outs))
        rep.ob('rand48Next', 'R18.lcg', HOLDS if (okx and oko) else VIOLATED,
               'x = s2:s1:s0; x\' = 0x5DEECE66D*x + 0xB; state\' = x\'[47:32], x\'[31:16], x\'[15:0]' if (okx and oko) else
               ('the multiplied word is %r, expected state[2]:state[1]:state[0]' % xv if not okx else 'new state slices are %s' % [repr(ev2.ev(o)) for o in outs]), where,
               sample='x\' = %s' % T.show(Xp, 5)[:300])
        rv = ev2.ev(ret)
        okr = rv.bits == [('in', 17 + i) for i in range(31)] + [0] * 33
        rep.ob('nrand48', 'R18.n', HOLDS if okr else VIOLATED, 'returns x\'[47:17] (31 bits, non-negative)' if okr else 'returns %r, expected x\'[47:17]' % rv, where)
        rep.ob('nrand48#pure', 'R18.pure', HOLDS if deps(ret) <= {'a0'} and all(deps(o) <= {'a0'} for o in outs) and S.bases() <= {'a0'} else VIOLATED, 'depends on / writes %s' % sorted(deps(ret) | S.bases()), where, nontrivial=False)
    # ---- erand48
    f = fn('erand48')
    S = I.run(f)
    ret = S.ret()
    lc = lcg_node(ret, A48, C48, 64)
    if lc is None:
        rep.ob('erand48', 'R18.e', VIOLATED, 'no POSIX recurrence in erand48', where)
    else:
        Xp, X = lc
        # ret = fadd(bitcast(u), -1.0)
        ok = ret.op == 'fadd' and any(a.op == 'const' and T.const_value(a) == -1 for a in ret.args)
        bc_ = [a for a in ret.args if a.op == 'bitcast'] if ok else []
        if not bc_:
            rep.ob('erand48', 'R18.e', VIOLATED, 'result is %s, expected bit-pattern-as-double minus 1' % T.show(ret, 4)[:200], where)
        else:
            ev2 = B.Evaluator(Xp, 64)
            uv = ev2.ev(bc_[0].args[0])
            want = [('in', 44 + i) for i in range(4)] + [('in', i) for i in range(48)] + [(0x3ff >> i) & 1 for i in range(11)] + [0]
            rep.ob('erand48', 'R18.e', HOLDS if uv.bits == want else VIOLATED,
                   'mantissa = x\'[47:0]:x\'[47:44], exponent 0x3ff, sign 0, minus 1.0: value = x\'/2^48 + x\'[47:44]/2^52 in [0,1)' if uv.bits == want else 'packed pattern is %r' % uv, where)
    # ---- drand48 / lrand48 / srand48 use the static state
    for nm, inner in (('drand48', 'erand48'), ('lrand48', 'nrand48')):
        f = fn(nm + 'Ev')
        if f is None: rep.ob(nm, 'R18.n', UNDECIDED, 'not found', where); continue
        S = I.run(f)
        d = deps(S.ret()) | S.bases()
        ok = all('staticState' in x for x in d) and lcg_node(S.ret(), A48, C48, 64) is not None
        rep.ob(nm, 'R18.pure', HOLDS if ok else VIOLATED, 'uses only the documented static state %s' % sorted(d), where, nontrivial=False)
        # the same value as the explicit-state form, bit for bit, on the static state (however it is written)
        gb = [b for b in S.bases() if 'staticState' in b]
        lc = lcg_node(S.ret(), A48, C48, 64)
        if len(gb) != 1 or lc is None:
            rep.ob(nm + '#value', 'R18.n' if nm == 'lrand48' else 'R18.e', VIOLATED, 'the static state is not advanced by the POSIX recurrence', where); continue
        g_in = [T.inp(gb[0], 2 * i, 2, 'i16') for i in range(3)]
        gwords = {g_in[0]: (0, 16), g_in[1]: (16, 16), g_in[2]: (32, 16)}
        Xp, X = lc
        xv = B.Evaluator(None, 64, words=gwords).ev(X)
        ev2 = B.Evaluator(Xp, 64)
        gouts = [S.out(gb[0], 2 * i, 2, 'i16') for i in range(3)]
        okst = xv.bits == [('in', i) for i in range(48)] + [0] * 16 and all(ev2.ev(o).bits == [('in', 16 * i + j) for j in range(16)] for i, o in enumerate(gouts))
        ret = S.ret()
        if nm == 'lrand48':
            rv = ev2.ev(ret)
            okr = rv.bits[:31] == [('in', 17 + i) for i in range(31)] and all(b == 0 for b in rv.bits[31:])
            rep.ob(nm + '#value', 'R18.n', HOLDS if (okst and okr) else VIOLATED,
                   'advances the static state by the recurrence and returns x\'[47:17], as nrand48 does' if (okst and okr) else
                   ('the static state is not s2:s1:s0 -> x\'[47:32], x\'[31:16], x\'[15:0]' if not okst else 'returns %r, expected x\'[47:17] zero-extended (nrand48 of the static state)' % rv), where)
        else:
            okv = ret.op == 'fadd' and any(a.op == 'const' and T.const_value(a) == -1 for a in ret.args)
            bc_ = [a for a in ret.args if a.op == 'bitcast'] if okv else []
            want = [('in', 44 + i) for i in range(4)] + [('in', i) for i in range(48)] + [(0x3ff >> i) & 1 for i in range(11)] + [0]
            okr = bool(bc_) and ev2.ev(bc_[0].args[0]).bits == want
            rep.ob(nm + '#value', 'R18.e', HOLDS if (okst and okr) else VIOLATED,
                   'advances the static state by the recurrence and returns the erand48 packing of x\'' if (okst and okr) else 'is not erand48 of the static state', where)
    f = fn('srand48')
    S = I.run(f)
    g = [b for b in S.bases() if 'staticState' in b]
    if not g:
        rep.ob('srand48', 'R18.s', VIOLATED, 'does not write the static state', where)
    else:
        outs = [S.out(g[0], 2 * i, 2, 'i16') for i in range(3)]
        seed = T.arg(0, 'i64')
        ev = B.Evaluator(seed, 64)
        ok = outs[0].op == 'const' and outs[0].attr[1] == 0x330e and ev.ev(outs[1]).bits == [('in', i) for i in range(16)] and ev.ev(outs[2]).bits == [('in', 16 + i) for i in range(16)]
        rep.ob('srand48', 'R18.s', HOLDS if ok else VIOLATED, 'state = (seed[31:16], seed[15:0], 0x330e)' if ok else 'state = %s' % [T.show(o, 3) for o in outs], where)
    # ---- Rand32 / Rand48 members and samplers (header)
    tu = TU('c18_h', header='#include <ImathRandom.h>\n#include <ImathVec.h>\nusing namespace IMATH_INTERNAL_NAMESPACE;\n')
    tu.add('w_r32_nextb', 'bool& o, Rand32& r', 'o = r.nextb();')
    tu.add('w_r32_nexti', 'unsigned long& o, Rand32& r', 'o = r.nexti();')
    tu.add('w_r32_nextf2', 'float& o, Rand32& r, const float& a, const float& b', 'o = r.nextf(a, b);')
    tu.add('w_r48_nextf2', 'double& o, Rand48& r, const double& a, const double& b', 'o = r.nextf(a, b);')
    tu.add('w_r48_nexti', 'long& o, Rand48& r', 'o = r.nexti();')
    tu.add('w_r48_nextb', 'bool& o, Rand48& r', 'o = r.nextb();')
    tu.add('w_r48_nextf', 'double& o, Rand48& r', 'o = r.nextf();')
    tu.add('w_r32_init', 'Rand32& r, const unsigned long& s', 'r.init(s);')
    tu.add('w_r48_init', 'Rand48& r, const unsigned long& s', 'r.init(s);')
    mod2 = ws.module(tu.name, tu.source(), opaque=('erand48', 'nrand48', 'Rand325nextfEv'))
    I2 = vg.Interp(mod2)
    whereh = 'src/Imath/ImathRandom.h'
    st = T.inp('a1', 0, 8, 'i64')
    S = I2.run('w_r32_nexti')
    o = S.out('a1', 0, 8, 'i64')
    lc = lcg_node(o, 1664525, 1013904223, 64)
    ok = lc is not None and lc[0] is o and lc[1] is st
    rep.ob('Rand32::next', 'R18.r32', HOLDS if ok else VIOLATED, 'state\' = 1664525*state + 1013904223' if ok else 'state\' = %s' % T.show(o, 4), whereh, sample='Rand32::next: %s' % T.show(o, 4))
    st1 = T.inp('a1', 0, 8, 'i64')
    nxt = T.binop('add', T.binop('mul', st1, T.const_int(64, 1664525), 'i64'), T.const_int(64, 1013904223), 'i64')
    S = I2.run('w_r32_nextb'); o = S.out('a0', 0, 1, 'i8')
    ev = B.Evaluator(nxt, 64)
    okb = False
    cnd = find(o, lambda x: x.op == 'icmp')
    try:
        v = ev.ev(o)
        okb = v.bits[0] == ('in', 31) and all(b == 0 for b in v.bits[1:])
    except B.NotBits:
        pass
    if not okb and cnd is not None:
        try:
            avs = [ev.ev(a) for a in cnd.args]
            okb = any([b for b in a.bits if b != 0] == [('in', 31)] for a in avs) or (cnd.attr == 'slt' and False)
        except B.NotBits:
            pass
    rep.ob('Rand32::nextb', 'R18.r32', HOLDS if okb else VIOLATED, 'bit 31 of the new state' if okb else 'returns %s' % T.show(o, 4)[:200], whereh)
    S = I2.run('w_r32_nexti'); o = S.out('a0', 0, 8, 'i64')
    try:
        v = ev.ev(o); oki = v.bits == [('in', i) for i in range(32)] + [0] * 32
    except B.NotBits:
        oki = False
    rep.ob('Rand32::nexti', 'R18.r32', HOLDS if oki else VIOLATED, 'low 32 bits of the new state' if oki else 'returns %s' % T.show(o, 4)[:200], whereh)
    # Rand32::nextf() is in the .cpp
    f = fn('Rand325nextfEv')
    if f:
        S = I.run(f); ret = S.ret()
        st0 = T.inp('a0', 0, 8, 'i64')
        nx0 = T.binop('add', T.binop('mul', st0, T.const_int(64, 1664525), 'i64'), T.const_int(64, 1013904223), 'i64')
        okf = ret.op == 'fadd' and any(a.op == 'const' and T.const_value(a) == -1 for a in ret.args)
        bcs = [a for a in ret.args if a.op == 'bitcast'] if okf else []
        if bcs:
            evf = B.Evaluator(nx0, 64)
            try:
                uv = evf.ev(bcs[0].args[0])
                okf = uv.bits == [('in', i) for i in range(23)] + [(0x7f >> i) & 1 for i in range(8)] + [0]
            except B.NotBits:
                okf = False
        else:
            okf = False
        oks = S.out('a0', 0, 8, 'i64') is nx0
        rep.ob('Rand32::nextf', 'R18.r32', HOLDS if (okf and oks) else VIOLATED, 'mantissa = state\'[22:0], exponent 0x7f, minus 1.0 => [0,1)' if (okf and oks) else 'returns %s' % T.show(ret, 5)[:200], where)
    # nextf(a,b) = a*(1-f) + b*f
    for nm, ty, sz in (('w_r32_nextf2', 'float', 4), ('w_r48_nextf2', 'double', 8)):
        S = I2.run(nm); o = S.out('a0', 0, sz, ty)
        fcall = find(o, lambda x: x.op == 'call')
        ctx = P.Ctx()
        try:
            r = ctx.rat(o)
            fa = P.patom(ctx.key(fcall)) if fcall is not None else None
            a_, b_ = P.patom(ctx.key(T.inp('a2', 0, sz, ty))), P.patom(ctx.key(T.inp('a3', 0, sz, ty)))
            want = P.padd(P.pmul(a_, P.psub(P.pconst(1), fa)), P.pmul(b_, fa))
            ok = fa is not None and ctx.requal(r, (want, P.pconst(1)))
        except P.NotPoly:
            ok = False
        # ... and in the convex *form*: each endpoint enters only through one product with a weight that does not depend
        # on the endpoints (weights f and 1-f in [0,1]), so no intermediate exceeds max(|a|,|b|): a + (b-a)*f is the same
        # polynomial but overflows for wide ranges and rounds differently
        ea, eb = T.inp('a2', 0, sz, ty), T.inp('a3', 0, sz, ty)
        def mentions(x, leaves_):
            seen_ = set(); st_ = [x]
            while st_:
                y = st_.pop()
                if y.id in seen_: continue
                seen_.add(y.id)
                if any(y is l for l in leaves_): return True
                st_.extend(y.args)
            return False
        form = None
        if ok:
            terms = list(o.args) if o.op == 'fadd' else []
            used = []
            for tm in terms:
                if tm.op == 'fmul' and len(tm.args) == 2:
                    for x, w in ((tm.args[0], tm.args[1]), (tm.args[1], tm.args[0])):
                        if (x is ea or x is eb) and not mentions(w, (ea, eb)): used.append(x)
            if len(terms) != 2 or sorted(u.id for u in used) != sorted((ea.id, eb.id)):
                form = 'the result is polynomially a*(1-f)+b*f but is not computed as a sum of two endpoint*weight products (%s): an intermediate such as b-a can overflow although the result lies in [a,b]' % T.show(o, 4)[:160]
        rep.ob('%s::nextf(a,b)' % ('Rand32' if '32' in nm else 'Rand48'), 'R18.range', HOLDS if (ok and not form) else VIOLATED, 'a*(1-f) + b*f with f = nextf(): a convex combination, computed as two endpoint*weight products' if (ok and not form) else (form or 'returns %s' % T.show(o, 4)[:200]), whereh)
    for nm, callee in (('w_r48_nexti', 'nrand48'), ('w_r48_nextf', 'erand48')):
        S = I2.run(nm); o = S.out('a0', 0, 8, None)
        ok = o.op == 'call' and callee in str(o.attr)
        rep.ob('Rand48::%s' % nm[6:], 'R18.n', HOLDS if ok else VIOLATED, 'forwards to %s(_state)' % callee if ok else 'returns %s' % T.show(o, 3), whereh, nontrivial=False)
    S = I2.run('w_r48_nextb'); o = S.out('a0', 0, 1, 'i8')
    c = find(o, lambda x: x.op == 'call' and 'nrand48' in str(x.attr))
    rep.ob('Rand48::nextb', 'R18.n', HOLDS if c is not None else VIOLATED, 'low bit of nrand48(_state)' if c is not None else 'returns %s' % T.show(o, 3), whereh, nontrivial=False)
    # seeding: pure functions of the seed
    for nm in ('w_r32_init', 'w_r48_init'):
        S = I2.run(nm)
        outs = [S.out('a0', 0, 8, 'i64')] if '32' in nm else [S.out('a0', 2 * i, 2, 'i16') for i in range(3)]
        ok = all(deps(o) <= {'a1'} for o in outs)
        rep.ob(nm[2:].replace('_', '::'), 'R18.pure', HOLDS if ok else VIOLATED, 'state is a function of the seed only' if ok else 'state depends on %s' % [sorted(deps(o)) for o in outs], whereh, nontrivial=False)
    check_samplers(rep, ws)
    rep.floor('generator obligations', len(rep.obs), 18)
    rep.assumptions += ['unsigned long is 64 bits (LP64)', 'exact real arithmetic for nextf(a,b)']
    rep.undecided_clauses += ['uniformity / statistical quality', 'rounding of nextf(a,b) at the interval ends', 'termination of the rejection loops (probabilistic)']

def check_samplers(rep, ws):
    """rejection loops: one symbolic iteration; the function returns only on the acceptance path"""
    tu = TU('c18_s', header='#include <ImathRandom.h>\n#include <ImathVec.h>\nusing namespace IMATH_INTERNAL_NAMESPACE;\n')
    tu.add('w_solid3', 'Vec3<float>& o, Rand48& r', 'o = solidSphereRand<Vec3<float> >(r);')
    tu.add('w_hollow3', 'Vec3<float>& o, Rand48& r', 'o = hollowSphereRand<Vec3<float> >(r);')
    tu.add('w_gauss', 'float& o, Rand48& r', 'o = gaussRand(r);')
    tu.add('w_solid2', 'Vec2<double>& o, Rand32& r', 'o = solidSphereRand<Vec2<double> >(r);')
    extra = []
    for d_ in (2, 3, 4):
        for e_, ty_, sz_ in (('float', 'float', 4), ('double', 'double', 8)):
            if (d_, e_) == (3, 'float'): continue
            nm_ = 'w_hollow%d%s' % (d_, e_[0])
            tu.add(nm_, 'Vec%d<%s>& o, Rand48& r' % (d_, e_), 'o = hollowSphereRand<Vec%d<%s> >(r);' % (d_, e_))
            extra.append((nm_, d_, ty_, sz_, 'hollow', 'hollowSphereRand<V%d%s>' % (d_, e_[0])))
    for d_ in (2, 3, 4):
        for e_, ty_, sz_ in (('float', 'float', 4), ('double', 'double', 8)):
            if (d_, e_) in ((3, 'float'), (2, 'double')): continue
            nm_ = 'w_solid%d%s' % (d_, e_[0])
            tu.add(nm_, 'Vec%d<%s>& o, Rand48& r' % (d_, e_), 'o = solidSphereRand<Vec%d<%s> >(r);' % (d_, e_))
            extra.append((nm_, d_, ty_, sz_, 'solid', 'solidSphereRand<V%d%s>' % (d_, e_[0])))
    where = 'src/Imath/ImathRandom.h'
    try:
        bc = ws.compile(tu.name, tu.source())
        mod = ws.irx(bc, opaque=('erand48', 'Rand325nextfEv'), prefixes=('w_',), no_unroll=False)
    except build.BuildError as e:
        rep.ob('samplers', 'R18.range', UNDECIDED, str(e)[:300], where); return
    I = vg.Interp(mod)
    names = {'w_solid3': 'solidSphereRand<V3f>', 'w_solid2': 'solidSphereRand<V2d>', 'w_hollow3': 'hollowSphereRand<V3f>', 'w_gauss': 'gaussRand'}
    names.update({x[0]: x[5] for x in extra})
    for nm, n, ty, sz, kind in [('w_solid3', 3, 'float', 4, 'solid'), ('w_solid2', 2, 'double', 8, 'solid'), ('w_hollow3', 3, 'float', 4, 'hollow'), ('w_gauss', 1, 'float', 4, 'gauss')] + [x[:5] for x in extra]:
        oid = names[nm]
        try:
            r = I.run_loop_body(nm)
        except vg.Unsupported as e:
            rep.ob(oid, 'R18.range', UNDECIDED, str(e), where); continue
        S = r['summary']
        rets = [e for e in S.exits if e.kind == 'ret']
        if len(rets) != 1 or not any(e.kind == 'backedge' for e in S.exits):
            rep.ob(oid, 'R18.range', VIOLATED, 'expected one returning exit and a retry edge, found %s' % [e.kind for e in S.exits], where); continue
        e = rets[0]
        bad = None
        for p in e.paths:
            lits = [(T._nodes[c], v) for c, v in p]
            outs = [S.interp.load_from(e.mem, 'a0', i * sz, sz, ty) for i in range(n)]
            if kind == 'solid':
                # accepted iff !(length2 > 1): some literal (1 < L2) = False with L2 = sum of squares of the returned components
                ok = False
                for c, v in lits:
                    if c.op == 'fcmp' and c.attr == 'olt' and v is False and c.args[0].op == 'const' and T.const_value(c.args[0]) == 1:
                        ctx = P.Ctx()
                        try:
                            want = {}
                            for o in outs: want = P.padd(want, P.ppow(ctx.rat(o)[0], 2))
                            if ctx.requal(ctx.rat(c.args[1]), (want, P.pconst(1))):
                                # ... and of the components as they are *returned* (after the cast to the element type), not of the
                                # wider values they were rounded from: a point with |r|^2 <= 1 can round to one with |v|^2 > 1
                                sq = []; seen_ = set(); st_ = [c.args[1]]
                                while st_:
                                    x = st_.pop()
                                    if x.id in seen_: continue
                                    seen_.add(x.id)
                                    if x.op == 'fmul': sq.append(x)
                                    else: st_.extend(x.args)
                                def strip(z):
                                    while z.op == 'fpext': z = z.args[0]          # widening is exact
                                    return z
                                def is_out(z):
                                    return any(strip(z) is strip(o_) for o_ in outs)
                                if all(is_out(m_.args[0]) and is_out(m_.args[1]) for m_ in sq) and len(sq) == len(outs): ok = True
                                else: bad = 'the acceptance test |v|^2 <= 1 is taken on the values before they are rounded to the element type, not on the vector that is returned'
                        except P.NotPoly:
                            pass
                if not ok and not bad: bad = 'returns without having tested |v|^2 <= 1 on the returned vector'
            elif kind == 'hollow':
                c1 = [c for c, v in lits if c.op == 'fcmp' and c.attr == 'olt' and v is False and c.args[0].op == 'const' and T.const_value(c.args[0]) == 1]
                c0 = [c for c, v in lits if c.op == 'fcmp' and c.attr == 'oeq' and v is False and any(a.op == 'const' and T.const_value(a) == 0 for a in c.args)]
                if not c1 or not c0: bad = 'returns without both acceptance tests (length <= 1 and length != 0)'
                else:
                    L = c1[0].args[1]
                    if not all(o.op == 'fdiv' and o.args[1] is L for o in outs): bad = 'returned components are not v_i / length (%s)' % T.show(outs[0], 3)[:200]
                    elif L.ty != ty or any(x.op in ('fptrunc', 'fpext') for x in (L, L.args[0] if L.args else L)): bad = 'the length the components are divided by is not computed in the element type %s (%s)' % (ty, T.show(L, 2)[:80])
            elif kind == 'gauss':
                c1 = [c for c, v in lits if c.op == 'fcmp' and c.attr in ('ole', 'olt') and c.args[0].op == 'const' and T.const_value(c.args[0]) == 1 and v is False]
                c0 = [c for c, v in lits if c.op == 'fcmp' and c.attr == 'oeq' and v is False and any(a.op == 'const' and T.const_value(a) == 0 for a in c.args)]
                if not c1 or not c0: bad = 'returns without both acceptance tests (0 < length2 < 1), so log() or the division may be non-finite'
                elif c1[0].attr != 'ole': bad = 'accepts length2 == 1 (log(1) = 0 is fine) - but the documented test is length2 >= 1 -> retry'
        rep.ob(oid, 'R18.range', VIOLATED if bad else HOLDS, bad or 'the only returning path carries the acceptance test', where)
