"""C16 - Frustum projection, depth mapping, planes and culling are mutually consistent (decided part).

R16.proj    projectionMatrix maps the eight frustum corners to the corners of [-1,1]^3 (both projection kinds);
            projectPointToScreen = xy of point x projectionMatrix; localToScreen / screenToLocal inverse;
            projectScreenToRay passes through points that project back to the screen position; aspect, window
R16.depth   normalizedZToDepth and the real-valued core of DepthToZ are mutually inverse and agree with the
            projection matrix's depth row; screenRadius / worldRadius factors are reciprocal
            ZToDepth(z, zmin, zmax) = normalizedZToDepth((z - zmin)/(zmax - zmin)) (integers as exact reals)
R16.planes  planes(): each plane has zero signed distance at the frustum corners of its face and its normal
            points outward (sign domain under 0 < n < f, l < r, b < t); order top,right,bottom,left,near,far
R16.ft      FrustumTest::setFrustum stores plane k's normal/|normal|/distance at [k/3][k%3]; every predicate
            rejects on >= 0 of any of the six; box tests use n.c -+ |n|.e - d, sphere tests -+ r
R16.exc     the throwing twins (...Exc) return the plain form's value wherever they return, and their throw condition,
            evaluated at points of the (|divisor|, |numerator|) plane, is false for well-conditioned quotients
"""
import itertools
from fractions import Fraction
from engine import term as T, agg, build, vg, poly as P, polycheck as PC
from engine.agg import ELEM, TU
from engine.report import HOLDS, VIOLATED, UNDECIDED
from .common import Analysed, fn_where, narrowing

HDR = agg.HEADER + '#include <ImathFrustum.h>\n#include <ImathFrustumTest.h>\ntemplate <class T> struct FP : public Frustum<T> { using Frustum<T>::localToScreen; using Frustum<T>::screenToLocal; };\n'
ONE = P.pconst(1)

def gen(t):
    E = ELEM[t][0]
    F = 'Frustum<%s>' % E; V2 = 'Vec2<%s>' % E; V3 = 'Vec3<%s>' % E; M4 = 'Matrix44<%s>' % E; FT = 'FrustumTest<%s>' % E
    tu = TU('c16_' + t, header=HDR)
    a = tu.add
    a('w_proj', '%s& o, const %s& f' % (M4, F), 'o = f.projectionMatrix();')
    a('w_projExc', '%s& o, const %s& f' % (M4, F), 'o = f.projectionMatrixExc();')
    a('w_pp2s', '%s& o, const %s& f, const %s& p' % (V2, F, V3), 'o = f.projectPointToScreen(p);')
    a('w_l2s', '%s& o, const FP<%s>& f, const %s& p' % (V2, E, V2), 'o = f.localToScreen(p);')
    a('w_s2l', '%s& o, const FP<%s>& f, const %s& p' % (V2, E, V2), 'o = f.screenToLocal(p);')
    a('w_ray', 'Line3<%s>& o, const %s& f, const %s& p' % (E, F, V2), 'o = f.projectScreenToRay(p);')
    a('w_aspect', '%s& o, const %s& f' % (E, F), 'o = f.aspect();')
    a('w_nz2d', '%s& o, const %s& f, const %s& z' % (E, F, E), 'o = f.normalizedZToDepth(z);')
    a('w_d2z', 'long& o, const %s& f, const %s& d, const long& lo, const long& hi' % (F, E), 'o = f.DepthToZ(d, lo, hi);')
    a('w_z2d', '%s& o, const %s& f, const long& z, const long& lo, const long& hi' % (E, F), 'o = f.ZToDepth(z, lo, hi);')
    a('w_srad', '%s& o, const %s& f, const %s& p, const %s& r' % (E, F, V3, E), 'o = f.screenRadius(p, r);')
    a('w_wrad', '%s& o, const %s& f, const %s& p, const %s& r' % (E, F, V3, E), 'o = f.worldRadius(p, r);')
    a('w_planes', 'Plane3<%s> (&p)[6], const %s& f' % (E, F), 'f.planes(p);')
    a('w_planesM', 'Plane3<%s> (&p)[6], const %s& f, const %s& m' % (E, F, M4), 'f.planes(p, m);')
    a('w_setfov', '%s& f, const %s& n, const %s& fa, const %s& fx, const %s& fy, const %s& as' % (F, E, E, E, E, E), 'f.set(n, fa, fx, fy, as);')
    a('w_window', '%s& o, const %s& f, const %s& l, const %s& r, const %s& tp, const %s& b' % (F, F, E, E, E, E), 'o = f.window(l, r, tp, b);')
    a('w_mnf', '%s& f, const %s& n, const %s& fa' % (F, E, E), 'f.modifyNearAndFar(n, fa);')
    for i_, nm_ in enumerate(('nearPlane', 'farPlane', 'left', 'right', 'top', 'bottom')):
        a('w_get_%s' % nm_, '%s& o, const %s& f' % (E, F), 'o = f.%s();' % nm_, member=i_)
    a('w_get_hither', '%s& o, const %s& f' % (E, F), 'o = f.hither();', member=0)
    a('w_get_yon', '%s& o, const %s& f' % (E, F), 'o = f.yon();', member=1)
    a('w_get_ortho', 'bool& o, const %s& f' % F, 'o = f.orthographic();')
    a('w_fovx', '%s& o, const %s& f' % (E, F), 'o = f.fovx();')
    a('w_fovy', '%s& o, const %s& f' % (E, F), 'o = f.fovy();')
    a('w_eq', 'bool& o, const %s& f, const %s& g' % (F, F), 'o = (f == g);')
    a('w_ne', 'bool& o, const %s& f, const %s& g' % (F, F), 'o = (f != g);')
    a('w_degenerate', 'bool& o, const %s& f' % F, 'o = f.degenerate();')
    a('w_setortho', '%s& f, const bool& b' % F, 'f.setOrthographic(b);')
    a('w_ctor7', '%s& o, const %s& n, const %s& fa, const %s& l, const %s& r, const %s& tp, const %s& b, const bool& oo' % (F, E, E, E, E, E, E), 'o = %s(n, fa, l, r, tp, b, oo);' % F)
    a('w_set7', '%s& o, const %s& n, const %s& fa, const %s& l, const %s& r, const %s& tp, const %s& b, const bool& oo' % (F, E, E, E, E, E, E), 'o.set(n, fa, l, r, tp, b, oo);')
    a('w_ctor5', '%s& o, const %s& n, const %s& fa, const %s& fx, const %s& fy, const %s& as' % (F, E, E, E, E, E), 'o = %s(n, fa, fx, fy, as);' % F)
    a('w_copy', '%s& o, const %s& f' % (F, F), '%s g(f); o = g;' % F)
    a('w_default', '%s& o' % F, 'o = %s();' % F)
    a('w_ft_set', '%s& ft, const %s& f, const %s& m' % (FT, F, M4), 'ft.setFrustum(f, m);')
    a('w_ft_vis_pt', 'bool& o, const %s& ft, const %s& p' % (FT, V3), 'o = ft.isVisible(p);')
    a('w_ft_vis_box', 'bool& o, const %s& ft, const Box<%s >& b' % (FT, V3), 'o = ft.isVisible(b);')
    a('w_ft_in_box', 'bool& o, const %s& ft, const Box<%s >& b' % (FT, V3), 'o = ft.completelyContains(b);')
    a('w_ft_vis_sph', 'bool& o, const %s& ft, const Sphere3<%s>& s' % (FT, E), 'o = ft.isVisible(s);')
    a('w_ft_in_sph', 'bool& o, const %s& ft, const Sphere3<%s>& s' % (FT, E), 'o = ft.completelyContains(s);')
    return tu

def fr_in(base, i, t):
    """Frustum member i (near, far, left, right, top, bottom) of the frustum passed at `base`"""
    E, sz, lt = ELEM[t]
    return T.inp(base, 8 + i * sz, sz, lt)

def ortho_in(base, t):
    E, sz, lt = ELEM[t]
    return T.inp(base, 8 + 6 * sz, 1, 'i8')

def fix_ortho(terms, base, t, val):
    """specialise the terms to a projection kind: resolve every test of the _orthographic byte"""
    b = ortho_in(base, t)
    out = []
    for tm in terms:
        asg = {}
        for c in P.all_conds(tm):
            seen = set(); stack = [c]; dep = False
            while stack:
                x = stack.pop()
                if x.id in seen: continue
                seen.add(x.id)
                if x is b: dep = True; break
                stack.extend(x.args)
            if dep:
                # evaluate the condition with the byte = val
                c2 = T.subst(c, {b: T.const_int(8, 1 if val else 0)})
                if c2 is T.TRUE: asg[c] = True
                elif c2 is T.FALSE: asg[c] = False
        out.append(T.resolve(tm, asg))
    return out

def subst_rat(ctx, r, key, val):
    """r(a := val) for rational functions; key = atom key, val = (p, q)"""
    def sub_poly(pl):
        deg = 0
        for m in pl:
            for k, e in m:
                if k == key: deg = max(deg, e)
        acc = {}
        for m, c in pl.items():
            e_ = 0; rest = []
            for k, e in m:
                if k == key: e_ = e
                else: rest.append((k, e))
            term = P.pmul({tuple(rest): c}, P.pmul(P.ppow(val[0], e_), P.ppow(val[1], deg - e_)))
            acc = P.padd(acc, term)
        return ctx.reduce(acc), deg
    n, dn = sub_poly(r[0]); d, dd = sub_poly(r[1])
    # r = (n / q^dn) / (d / q^dd)
    return (ctx.reduce(P.pmul(n, P.ppow(val[1], dd))), ctx.reduce(P.pmul(d, P.ppow(val[1], dn))))

def main(rep, ws, tier):
    types = 'f' if tier == 'quick' else 'fd'
    tus = [gen(t) for t in types]
    an = Analysed(ws, tus, rep)
    for tu, t in zip(tus, types):
        R = an[tu]; E, sz, lt = ELEM[t]
        def atom(ctx, node): return (ctx.reduce(P.patom(ctx.key(node))), ONE)
        def fr(ctx, base): return [atom(ctx, fr_in(base, i, t)) for i in range(6)]     # n f l r t b
        def ob(name, rule, fn):
            oid = '%s<%s>' % (name, E)
            try:
                r = fn()
            except (P.NotPoly, PC.Undecided, vg.Unsupported, OverflowError, KeyError) as e:
                rep.ob(oid, rule, UNDECIDED, repr(e)[:300]); return
            bad, ok, where = r
            rep.ob(oid, rule, VIOLATED if bad else HOLDS, bad or ok, where)
        def S_(name):
            S = R.get(name)
            if S is None: raise vg.Unsupported(R.err.get(name, 'not analysed'))
            if any(e.kind != 'ret' for e in S.exits): raise vg.Unsupported('unexpected exits')
            return S
        def neg(r): return (P.pneg(r[0]), r[1])
        def positive_frustum(ctx, base):
            """premises 0 < n < f, l < r, b < t as substitutions r = l + w, t = b + h, f = n + g with n, w, h, g > 0"""
            nn = fr_in(base, 0, t); ff = fr_in(base, 1, t); l_ = fr_in(base, 2, t); r_ = fr_in(base, 3, t); t_ = fr_in(base, 4, t); b_ = fr_in(base, 5, t)
            w = T.arg(96, lt); h = T.arg(97, lt); gg = T.arg(98, lt)
            ctx.lin[ctx.key(r_)] = P.padd(P.patom(ctx.key(l_)), P.patom(ctx.key(w)))
            ctx.lin[ctx.key(t_)] = P.padd(P.patom(ctx.key(b_)), P.patom(ctx.key(h)))
            ctx.lin[ctx.key(ff)] = P.padd(P.patom(ctx.key(nn)), P.patom(ctx.key(gg)))
            ctx.positive |= {ctx.key(nn), ctx.key(w), ctx.key(h), ctx.key(gg)}
            return set(ctx.positive)

        # ---------------- projection matrix
        def proj(kind):
            def f():
                S = S_('w_proj')
                outs = fix_ortho([S.out('a0', i * sz, sz, lt) for i in range(16)], 'a1', t, kind == 'ortho')
                ctx = P.Ctx()
                M = [[ctx.rat(outs[i * 4 + j]) for j in range(4)] for i in range(4)]
                n, fa, l, r, tp, b = fr(ctx, 'a1')
                for sx, sy, far in itertools.product((0, 1), (0, 1), (0, 1)):
                    x = (l, r)[sx]; y = (b, tp)[sy]
                    if far and kind == 'persp':
                        s = ctx.rdiv(fa, n); x = ctx.rmul(x, s); y = ctx.rmul(y, s)
                    z = neg(fa if far else n)
                    p = [x, y, z, (ONE, ONE)]
                    q = []
                    for j in range(4):
                        acc = ({}, ONE)
                        for i in range(4): acc = ctx.radd(acc, ctx.rmul(p[i], M[i][j]))
                        q.append(acc)
                    want = [(P.pconst(1 if sx else -1), ONE), (P.pconst(1 if sy else -1), ONE), (P.pconst(1 if far else -1), ONE)]
                    for k in range(3):
                        if not ctx.requal(ctx.rdiv(q[k], q[3]), want[k]):
                            return ('%s corner (%s,%s,%s) maps to coordinate %d = %s, expected %d' % (kind, 'rl'[1 - sx], 'tb'[1 - sy], 'far' if far else 'near', k, P.show_rat(ctx.rdiv(q[k], q[3]), ctx)[:120], 1 if (sx, sy, far)[k] else -1), None, fn_where(S.fn))
                return (None, 'the 8 corners map to (+-1,+-1,+-1) after the homogeneous divide', fn_where(S.fn))
            return f
        ob('projectionMatrix[perspective]', 'R16.proj', proj('persp'))
        ob('projectionMatrix[orthographic]', 'R16.proj', proj('ortho'))
        def proj_exc(kind):
            """the throwing overload returns the same matrix wherever it returns (its overflow guards not firing)"""
            def f():
                S = S_('w_proj'); SE = R.get('w_projExc')
                if SE is None: raise vg.Unsupported(R.err.get('w_projExc', 'not analysed'))
                a_ = fix_ortho([S.out('a0', i * sz, sz, lt) for i in range(16)], 'a1', t, kind == 'ortho')
                b_ = fix_ortho([SE.out('a0', i * sz, sz, lt) for i in range(16)], 'a1', t, kind == 'ortho')
                def huge(z): return z.op == 'fmul' and any(w.op == 'const' and abs(T.const_value(w)) > 10 ** 30 for w in z.args)
                for _ in range(12):
                    pre = {}
                    for c in set(c_ for x in b_ for c_ in P.all_conds(x)):
                        if c.op == 'fcmp' and c.attr in ('olt', 'ole') and (huge(c.args[0]) or huge(c.args[1])): pre[c] = huge(c.args[1])      # |x| < max*|y| holds, max*|y| < |x| does not
                        elif c.op == 'fcmp' and c.attr in ('olt', 'ole') and c.args[1].op == 'const' and T.const_value(c.args[1]) == 1 and P.abs_idiom(T.ite(c, T.TRUE, T.FALSE)) is None: pre[c] = False   # |divisor| < 1: the guarded regime
                    if not pre: break
                    b_ = [T.resolve(x, pre) for x in b_]
                if any(x.op == 'throw' for x in b_): return ('%s: projectionMatrixExc throws on the regular path' % kind, None, fn_where(SE.fn))
                ctx = P.Ctx()
                for i in range(16):
                    if not ctx.requal(ctx.rat(a_[i]), ctx.rat(b_[i])):
                        return ('%s: projectionMatrixExc()[%d][%d] = %s, projectionMatrix() has %s' % (kind, i // 4, i % 4, P.show_rat(ctx.rat(b_[i]), ctx)[:100], P.show_rat(ctx.rat(a_[i]), ctx)[:100]), None, fn_where(SE.fn))
                return (None, 'the same 16 entries as projectionMatrix() on the non-throwing path', fn_where(SE.fn))
            return f
        ob('projectionMatrixExc[perspective]', 'R16.proj', proj_exc('persp'))
        ob('projectionMatrixExc[orthographic]', 'R16.proj', proj_exc('ortho'))

        def pp2s(kind):
            def f():
                S = S_('w_pp2s'); SP = S_('w_proj')
                outs = fix_ortho([S.out('a0', i * sz, sz, lt) for i in range(2)], 'a1', t, kind == 'ortho')
                Mo = fix_ortho([SP.out('a0', i * sz, sz, lt) for i in range(16)], 'a1', t, kind == 'ortho')
                pz = agg.slot_in('a2', 2, t)
                n_ = 0
                for asg, res in PC.generic_cases(outs, P.Ctx(), enumerate_cond=None, premise=None):
                    ctx = P.Ctx(); n_ += 1
                    M = [[ctx.rat(Mo[i * 4 + j]) for j in range(4)] for i in range(4)]
                    p = [atom(ctx, agg.slot_in('a2', i, t)) for i in range(3)] + [(ONE, ONE)]
                    q = []
                    for j in range(4):
                        acc = ({}, ONE)
                        for i in range(4): acc = ctx.radd(acc, ctx.rmul(p[i], M[i][j]))
                        q.append(acc)
                    for k in range(2):
                        if not ctx.requal(ctx.rat(res[k]), ctx.rdiv(q[k], q[3])):
                            return ('%s: screen coordinate %d = %s differs from (point x projectionMatrix)[%d]/w' % (kind, k, P.show_rat(ctx.rat(res[k]), ctx)[:160], k), None, fn_where(S.fn))
                return (None, 'equals xy of point x projectionMatrix after the divide (%d generic case)' % n_, fn_where(S.fn))
            return f
        ob('projectPointToScreen[perspective]', 'R16.proj', pp2s('persp'))
        ob('projectPointToScreen[orthographic]', 'R16.proj', pp2s('ortho'))

        def l2s_inv():
            A, Bq = S_('w_l2s'), S_('w_s2l')
            s2l = [Bq.out('a0', i * sz, sz, lt) for i in range(2)]
            l2s = [A.out('a0', i * sz, sz, lt) for i in range(2)]
            comp = [T.subst(x, {agg.slot_in('a2', 0, t): s2l[0], agg.slot_in('a2', 1, t): s2l[1]}) for x in l2s]
            ctx = P.Ctx()
            for k in range(2):
                if not ctx.requal(ctx.rat(comp[k]), atom(ctx, agg.slot_in('a2', k, t))):
                    return ('localToScreen(screenToLocal(s))[%d] = %s, expected s' % (k, P.show_rat(ctx.rat(comp[k]), ctx)[:160]), None, fn_where(A.fn))
            return (None, 'localToScreen o screenToLocal = identity', fn_where(A.fn))
        ob('localToScreen/screenToLocal', 'R16.proj', l2s_inv)

        def ray(kind):
            def f():
                S = S_('w_ray'); SP = S_('w_pp2s')
                outs = fix_ortho([S.out('a0', i * sz, sz, lt) for i in range(6)], 'a1', t, kind == 'ortho')
                pp = fix_ortho([SP.out('a0', i * sz, sz, lt) for i in range(2)], 'a1', t, kind == 'ortho')
                lam = T.arg(95, lt)
                def premise(c):
                    if c.op == 'fcmp' and c.attr == 'olt' and c.args[1].op == 'const' and 0 < T.const_value(c.args[1]) < Fraction(1, 10 ** 30): return False
                    return None
                for asg, res in PC.generic_cases(outs, P.Ctx(), premise=premise):
                    # point on the ray at parameter lambda, pushed through projectPointToScreen
                    pt = [T.binop('fadd', res[i], T.binop('fmul', res[3 + i], lam, lt), lt) for i in range(3)]
                    back = [T.subst(x, dict((agg.slot_in('a2', i, t), pt[i]) for i in range(3))) for x in pp]
                    for asg2, res2 in PC.generic_cases(back, P.Ctx(), premise=premise):
                        ctx = P.Ctx()
                        for k in range(2):
                            if not ctx.requal(ctx.rat(res2[k]), atom(ctx, agg.slot_in('a2', k, t))):
                                return ('%s: a point of the ray projects to coordinate %d = %s, not to the screen position' % (kind, k, P.show_rat(ctx.rat(res2[k]), ctx)[:160]), None, fn_where(S.fn))
                return (None, 'every point pos + lambda*dir projects back to the screen position', fn_where(S.fn))
            return f
        ob('projectScreenToRay[perspective]', 'R16.proj', ray('persp'))
        ob('projectScreenToRay[orthographic]', 'R16.proj', ray('ortho'))

        def aspect():
            S = S_('w_aspect'); ctx = P.Ctx()
            n, fa, l, r, tp, b = fr(ctx, 'a1')
            ok = ctx.requal(ctx.rat(S.out('a0', 0, sz, lt)), ctx.rdiv(ctx.radd(r, neg(l)), ctx.radd(tp, neg(b))))
            return (None if ok else 'aspect is not (right-left)/(top-bottom)', '(right-left)/(top-bottom)', fn_where(S.fn))
        ob('aspect', 'R16.proj', aspect)

        def setfov():
            S = S_('w_setfov')
            outs = [S.out('a0', 8 + i * sz, sz, lt) for i in range(6)]
            fx = agg.scalar_in('a3', t)
            n_ = 0
            for fovx_zero in (False, True):
                c = T.cmp('fcmp', 'oeq', fx, T.const_fp(lt, 0))
                res = [T.resolve(o, {c: fovx_zero}) for o in outs]
                ctx = P.Ctx(); n_ += 1
                nn, ff, l, r, tp, b = [ctx.rat(x) for x in res]
                if not ctx.requal(nn, atom(ctx, agg.scalar_in('a1', t))) or not ctx.requal(ff, atom(ctx, agg.scalar_in('a2', t))): return ('near/far not stored', None, fn_where(S.fn))
                if not ctx.rzero(ctx.radd(l, r)) or not ctx.rzero(ctx.radd(tp, b)): return ('window is not symmetric', None, fn_where(S.fn))
                asp = atom(ctx, agg.scalar_in('a5', t))
                if not ctx.requal(ctx.radd(r, neg(l)), ctx.rmul(asp, ctx.radd(tp, neg(b)))): return ('(right-left) != aspect*(top-bottom) when fovx %s 0' % ('==' if fovx_zero else '!='), None, fn_where(S.fn))
                ang = agg.scalar_in('a4' if fovx_zero else 'a3', t)
                tn = T.call('tan', [T.binop('fdiv', ang, T.fp_from_value(lt, 2.0), lt)], lt)
                tn2 = T.call('tan', [T.binop('fmul', ang, T.fp_from_value(lt, 0.5), lt)], lt)
                half = (tp if fovx_zero else r)
                want1 = ctx.rmul(nn, ctx.rat(tn)); want2 = ctx.rmul(nn, ctx.rat(tn2))
                if not (ctx.requal(half, want1) or ctx.requal(half, want2)): return ('half extent is %s, expected near*tan(fov/2)' % P.show_rat(half, ctx)[:120], None, fn_where(S.fn))
            return (None, 'symmetric window, half extent = near*tan(fov/2), (right-left) = aspect*(top-bottom) for both fov choices', fn_where(S.fn))
        ob('set(near,far,fovx,fovy,aspect)', 'R16.proj', setfov)

        def modnf():
            # modifyNearAndFar(n, f): near = n, far = f; a perspective window is the old one seen at the new near plane
            # (every edge scaled by n / near - the viewing pyramid is unchanged), an orthographic window is kept
            S = S_('w_mnf')
            outs0 = [S.out('a0', 8 + i * sz, sz, lt) for i in range(6)]
            n_ = 0
            for ortho in (False, True):
                outs = fix_ortho(outs0, 'a0', t, ortho)
                def premise(c):
                    if c.op == 'fcmp' and c.attr == 'olt' and c.args[1].op == 'const' and 0 < T.const_value(c.args[1]) < Fraction(1, 10 ** 30): return False
                    return None
                for asg, res in PC.generic_cases(outs, P.Ctx(), premise=premise, enumerate_cond=lambda c: c.op == 'fcmp' and c.attr in ('olt', 'ole')):
                    ctx = P.Ctx(); ctx.cancel = True; n_ += 1
                    got = [ctx.rat(x) for x in res]
                    nr, fa, l, r, tp, b = fr(ctx, 'a0')
                    nn = atom(ctx, agg.scalar_in('a1', t)); ff = atom(ctx, agg.scalar_in('a2', t))
                    if not ctx.requal(got[0], nn) or not ctx.requal(got[1], ff): return ('near/far are not set to the arguments (%s frustum)' % ('orthographic' if ortho else 'perspective'), None, fn_where(S.fn))
                    k = (P.pconst(1), ONE) if ortho else ctx.rdiv(nn, nr)
                    for i, (nm, old_) in enumerate((('left', l), ('right', r), ('top', tp), ('bottom', b))):
                        if not ctx.requal(got[2 + i], ctx.rmul(old_, k)):
                            return ('%s frustum: %s becomes %s, expected %s%s' % ('orthographic' if ortho else 'perspective', nm, P.show_rat(got[2 + i], ctx)[:120], nm, '' if ortho else ' * n / near'), None, fn_where(S.fn))
            if n_ < 2: return ('no feasible case', None, fn_where(S.fn))
            return (None, 'near = n, far = f; perspective window scaled by n / near, orthographic window kept (%d cases)' % n_, fn_where(S.fn))
        ob('modifyNearAndFar', 'R16.proj', modnf)

        def members():
            # accessors, constructors, comparison and the degenerate() predicate: which members they read, write and compare
            nm = ['near', 'far', 'left', 'right', 'top', 'bottom']
            def mem(base, i): return fr_in(base, i, t)
            def flag_of(x, base):
                b = ortho_in(base, t)
                if x is b: return True
                return x.op in ('and', 'trunc', 'zext', 'icmp') and any(flag_of(y, base) or (y.op == 'const') for y in x.args) and any(flag_of(y, base) for y in x.args)
            for name, m_ in tu.meta.items():
                if 'member' in m_:
                    S = S_(name); o = S.out('a0', 0, sz, lt)
                    if o is not mem('a1', m_['member']): return ('%s() returns %s, not the %s member' % (name[6:], T.show(o, 3)[:80], nm[m_['member']]), None, fn_where(S.fn))
            S = S_('w_get_ortho')
            if not flag_of(S.out('a0', 0, 1, 'i8'), 'a1'): return ('orthographic() does not return the projection flag', None, fn_where(S.fn))
            # fovx / fovy: the angle between the left and right (bottom and top) edges of the window seen from the eye
            for name, hi, lo in (('w_fovx', 3, 2), ('w_fovy', 4, 5)):
                S = S_(name); o = S.out('a0', 0, sz, lt)
                want = T.binop('fadd', T.call('atan2', [mem('a1', hi), mem('a1', 0)], lt), T.fneg(T.call('atan2', [mem('a1', lo), mem('a1', 0)], lt)), lt)
                if not (o is want or T.equiv(o, want, 20000)):
                    return ('%s() is %s, expected atan2(%s, near) - atan2(%s, near)' % (name[2:], T.show(o, 4)[:160], nm[hi], nm[lo]), None, fn_where(S.fn))
            # operator== / != : true exactly when all seven members agree
            def truth(S_eq, assign):
                o = S_eq.out('a0', 0, 1, 'i8')
                conds = P.all_conds(o)
                return conds, o
            S = S_('w_eq'); So = S.out('a0', 0, 1, 'i8'); Sn = S_('w_ne').out('a0', 0, 1, 'i8')
            pairs = {}
            for c in set(P.all_conds(So)) | set(P.all_conds(Sn)):
                if c.op == 'fcmp' and c.attr in ('oeq', 'une', 'one') and c.args[0].op == 'in' and c.args[1].op == 'in':
                    offs = sorted((a_.attr[0], a_.attr[1]) for a_ in c.args)
                    if offs[0][1] == offs[1][1] and {offs[0][0], offs[1][0]} == {'a1', 'a2'}: pairs[c] = (offs[0][1] - 8) // sz
            if sorted(set(pairs.values())) != list(range(6)) or len(pairs) != len(set(P.all_conds(So)) | set(P.all_conds(Sn))):
                return ('operator== compares the members %s of the two frusta; all of near, far, left, right, top, bottom (and the projection kind) have to be compared with their counterparts' % sorted(set(pairs.values())), None, fn_where(S.fn))
            fa_, fb_ = ortho_in('a1', t), ortho_in('a2', t)
            def ev_int(x, env):
                if x is T.TRUE: return 1
                if x is T.FALSE: return 0
                if x.op == 'const': return x.attr[1]
                if x.op == 'in':
                    if x is fa_ or x is fb_: return env[x]
                    raise PC.Undecided('the comparison reads %s' % T.show(x, 2))
                a_ = [ev_int(y, env) for y in x.args]
                if x.op == 'and': return a_[0] & a_[1]
                if x.op == 'or': return a_[0] | a_[1]
                if x.op == 'xor': return a_[0] ^ a_[1]
                if x.op in ('zext', 'trunc'): return a_[0] & ((1 << int(x.ty[1:])) - 1)
                if x.op == 'not': return 1 - (a_[0] & 1)
                if x.op == 'icmp': return int({'eq': a_[0] == a_[1], 'ne': a_[0] != a_[1]}[x.attr])
                if x.op == 'ite': return a_[1] if a_[0] else a_[2]
                raise PC.Undecided('operator %s in the flag comparison' % x.op)
            def val(o, differ):
                asg = {}
                for c, i in pairs.items():
                    same = i != differ
                    asg[c] = same if c.attr in ('oeq', 'eq') else (not same)
                r = T.resolve(o, asg)
                # the projection kind is compared arithmetically (bytes): evaluate on the flag values
                vals = set()
                for x_, y_ in ((0, 0), (1, 1)) if differ != 6 else ((0, 1), (1, 0)):
                    vals.add(bool(ev_int(r, {fa_: x_, fb_: y_}) & 1))
                if len(vals) != 1: raise PC.Undecided('comparison result depends on the flag value itself')
                return vals.pop()
            for differ in [None] + list(range(7)):
                e_, n_ = val(So, differ), val(Sn, differ)
                if e_ != (differ is None) or n_ != (differ is not None):
                    return ('with %s: operator== gives %s, operator!= gives %s' % ('all members equal' if differ is None else 'only %s different' % (nm + ['projection kind'])[differ], e_, n_), None, fn_where(S.fn))
            # degenerate(): near == far or left == right or top == bottom
            S = S_('w_degenerate'); o = S.out('a0', 0, 1, 'i8')
            dp = {}
            for c in P.all_conds(o):
                if c.op == 'fcmp' and c.attr in ('oeq', 'une', 'one') and all(a_.op == 'in' and a_.attr[0] == 'a1' for a_ in c.args):
                    dp[c] = tuple(sorted((a_.attr[1] - 8) // sz for a_ in c.args))
            if sorted(dp.values()) != [(0, 1), (2, 3), (4, 5)] or len(dp) != len(P.all_conds(o)):
                return ('degenerate() tests the member pairs %s; a frustum is degenerate when near == far, left == right or top == bottom' % sorted(dp.values()), None, fn_where(S.fn))
            for which in [None, (0, 1), (2, 3), (4, 5)]:
                asg = {c: ((pr == which) if c.attr == 'oeq' else (pr != which)) for c, pr in dp.items()}
                r = T.resolve(o, asg)
                got = bool(r.attr[1] & 1) if r.op == 'const' else (True if r is T.TRUE else False if r is T.FALSE else None)
                if got != (which is not None): return ('degenerate() is %s when %s' % (got, 'no pair coincides' if which is None else 'only members %s and %s coincide' % (nm[which[0]], nm[which[1]])), None, fn_where(S.fn))
            # setOrthographic writes the flag only
            S = S_('w_setortho')
            for i in range(6):
                if S.out('a0', 8 + i * sz, sz, lt) is not mem('a0', i): return ('setOrthographic changes the %s member' % nm[i], None, fn_where(S.fn))
            fl = S.out('a0', 8 + 6 * sz, 1, 'i8')
            if not any(x.op == 'in' and x.attr[0] == 'a1' for x in [fl] + list(fl.args) + [z for y in fl.args for z in y.args]): return ('setOrthographic does not store its argument in the flag: %s' % T.show(fl, 3)[:80], None, fn_where(S.fn))
            # constructors: the seven-argument form stores its arguments, as set() does; the fov form is set(near, far, fovx, fovy, aspect);
            # the copy constructor copies every member; the default frustum is (0.1, 1000, -1, 1, 1, -1, perspective)
            for name in ('w_ctor7', 'w_set7'):
                S = S_(name)
                for i in range(6):
                    if S.out('a0', 8 + i * sz, sz, lt) is not agg.scalar_in('a%d' % (i + 1), t): return ('%s: the %s member is %s, not argument %d' % (name[2:], nm[i], T.show(S.out('a0', 8 + i * sz, sz, lt), 3)[:80], i + 1), None, fn_where(S.fn))
                fl = S.out('a0', 8 + 6 * sz, 1, 'i8')
                if not any(x.op == 'in' and x.attr[0] == 'a7' for x in [fl] + list(fl.args) + [z for y in fl.args for z in y.args]): return ('%s: the projection flag is not the last argument' % name[2:], None, fn_where(S.fn))
            S5, Ss = S_('w_ctor5'), S_('w_setfov')
            for i in range(6):
                a_, b_ = S5.out('a0', 8 + i * sz, sz, lt), Ss.out('a0', 8 + i * sz, sz, lt)
                if not (a_ is b_ or T.equiv(a_, b_, 50000)): return ('Frustum(near, far, fovx, fovy, aspect) and set(...) disagree on the %s member' % nm[i], None, fn_where(S5.fn))
            a_, b_ = S5.out('a0', 8 + 6 * sz, 1, 'i8'), Ss.out('a0', 8 + 6 * sz, 1, 'i8')
            if not (a_ is b_ or T.equiv(a_, b_, 50000)): return ('Frustum(near, far, fovx, fovy, aspect) and set(...) disagree on the projection kind', None, fn_where(S5.fn))
            S = S_('w_copy')
            for i in range(6):
                if S.out('a0', 8 + i * sz, sz, lt) is not mem('a1', i): return ('the copy constructor does not copy the %s member' % nm[i], None, fn_where(S.fn))
            if not flag_of(S.out('a0', 8 + 6 * sz, 1, 'i8'), 'a1'): return ('the copy constructor does not copy the projection kind', None, fn_where(S.fn))
            S = S_('w_default')
            dv = [S.out('a0', 8 + i * sz, sz, lt) for i in range(6)]
            wantd = [Fraction(1, 10), 1000, -1, 1, 1, -1]
            for i in range(6):
                v = T.const_value(dv[i]) if dv[i].op == 'const' else None
                ok_ = v is not None and (abs(Fraction(v) - wantd[i]) < Fraction(1, 10 ** 6))
                if not ok_: return ('the default frustum has %s = %s, documented %s' % (nm[i], T.show(dv[i], 2), float(wantd[i])), None, fn_where(S.fn))
            return (None, 'accessors return their members (hither/yon = near/far); fovx/fovy = atan2(right,near) - atan2(left,near) / atan2(top,near) - atan2(bottom,near); == / != compare all seven members; degenerate() = near==far | left==right | top==bottom; setOrthographic writes the flag only; constructors agree with set()', fn_where(S_('w_eq').fn))
        ob('members, accessors, comparison', 'R16.proj', members)

        def window():
            S = S_('w_window'); SL = S_('w_s2l')
            outs = [S.out('a0', 8 + i * sz, sz, lt) for i in range(6)]
            ctx = P.Ctx()
            res = [ctx.rat(x) for x in outs]
            n, fa, l, r, tp, b = fr(ctx, 'a1')
            if not ctx.requal(res[0], n) or not ctx.requal(res[1], fa): return ('near/far not kept', None, fn_where(S.fn))
            s2l = [SL.out('a0', i * sz, sz, lt) for i in range(2)]
            def loc(xs, ys, k):
                tm = T.subst(s2l[k], {agg.slot_in('a2', 0, t): agg.scalar_in(xs, t), agg.slot_in('a2', 1, t): agg.scalar_in(ys, t)})
                return ctx.rat(tm)
            # arguments: l (a2), r (a3), top (a4), bottom (a5)
            want = {2: loc('a2', 'a5', 0), 3: loc('a3', 'a4', 0), 4: loc('a3', 'a4', 1), 5: loc('a2', 'a5', 1)}
            for i, w in want.items():
                if not ctx.requal(res[i], w): return ('window member %d is %s' % (i, P.show_rat(res[i], ctx)[:120]), None, fn_where(S.fn))
            # the projection kind is part of the frustum: the sub-window of an orthographic frustum is orthographic
            ko = S.out('a0', 8 + 6 * sz, 1, 'i8'); ki = T.inp('a1', 8 + 6 * sz, 1, 'i8')
            def same_flag(a, b):
                if a is b: return True
                for x, y in ((a, b), (b, a)):      # bool normalisation: and(flag, 1) / zext(trunc(flag))
                    if x.op == 'and' and any(z is y for z in x.args) and any(z.op == 'const' and z.attr[1] == 1 for z in x.args): return True
                return False
            if not same_flag(ko, ki): return ('window() does not keep the projection kind: orthographic flag of the result is %s' % T.show(ko, 3), None, fn_where(S.fn))
            return (None, 'left/bottom = screenToLocal(l,b), right/top = screenToLocal(r,t); near, far and the orthographic flag are kept', fn_where(S.fn))
        ob('window', 'R16.proj', window)

        # ---------------- depth
        def depth(kind):
            def f():
                S = S_('w_nz2d'); SD = S_('w_d2z'); SP = S_('w_proj')
                dz = fix_ortho([S.out('a0', 0, sz, lt)], 'a1', t, kind == 'ortho')[0]
                d2 = fix_ortho([SD.out('a0', 0, 8, 'i64')], 'a1', t, kind == 'ortho')[0]
                Mo = fix_ortho([SP.out('a0', i * sz, sz, lt) for i in range(16)], 'a1', t, kind == 'ortho')
                # real-valued core of DepthToZ: the argument of the float->long truncation
                core = None
                stack = [d2]; seen = set()
                while stack:
                    x = stack.pop()
                    if x.id in seen: continue
                    seen.add(x.id)
                    if x.op == 'fptosi': core = x.args[0]; break
                    stack.extend(x.args)
                if core is None: return ('no float->long conversion in DepthToZ', None, fn_where(SD.fn))
                ctx = P.Ctx()
                A = ctx.rat(core)                       # 0.5*(Zp+1)*zdiff
                lo, hi = T.inp('a3', 0, 8, 'i64'), T.inp('a4', 0, 8, 'i64')
                zdiff = ctx.radd(atom(ctx, hi), neg(atom(ctx, lo)))
                zn = ctx.rdiv(A, zdiff)                 # normalised z in [0,1] as a function of depth (a2)
                D = ctx.rat(dz)                         # depth as a function of z (a2 of w_nz2d)
                zkey = ctx.key(agg.scalar_in('a2', t))
                comp = subst_rat(ctx, D, zkey, zn)
                if not ctx.requal(comp, atom(ctx, agg.scalar_in('a2', t))):
                    return ('%s: normalizedZToDepth(DepthToZ core(depth)) = %s, expected depth' % (kind, P.show_rat(comp, ctx)[:160]), None, fn_where(S.fn))
                # agreement with the projection matrix: a point at z = -depth has clip z / w = 2*zn - 1
                M = [[ctx.rat(Mo[i * 4 + j]) for j in range(4)] for i in range(4)]
                dep = atom(ctx, agg.scalar_in('a2', t))
                zc = ctx.radd(ctx.rmul(dep, M[2][2]), M[3][2]); wc = ctx.radd(ctx.rmul(dep, M[2][3]), M[3][3])      # "depth" is the (negative) z coordinate
                want = ctx.radd(ctx.rmul((P.pconst(2), ONE), zn), (P.pconst(-1), ONE))
                if not ctx.requal(ctx.rdiv(zc, wc), want):
                    return ('%s: the depth row of projectionMatrix gives %s, DepthToZ gives %s' % (kind, P.show_rat(ctx.rdiv(zc, wc), ctx)[:120], P.show_rat(want, ctx)[:120]), None, fn_where(SD.fn))
                return (None, 'mutually inverse rational maps; 2*z-1 equals the projected clip depth of a point with z = depth', fn_where(S.fn))
            return f
        ob('depth maps[perspective]', 'R16.depth', depth('persp'))
        def zdepth(kind, exc):
            """ZToDepth(z, zmin, zmax) = normalizedZToDepth((z - zmin)/(zmax - zmin)) for zmin <= z <= zmax + 1 (integers
            taken as exact reals: no overflow in long -> int -> T)"""
            def f():
                S = S_('w_nz2d'); SZ = S_('w_z2dExc' if exc else 'w_z2d')
                dz = fix_ortho([S.out('a0', 0, sz, lt)], 'a1', t, kind == 'ortho')[0]
                zz = fix_ortho([SZ.out('a0', 0, sz, lt)], 'a1', t, kind == 'ortho')[0]
                if zz.op == 'throw' or zz is None: return ('no value', None, fn_where(SZ.fn))
                z, lo, hi = T.inp('a2', 0, 8, 'i64'), T.inp('a3', 0, 8, 'i64'), T.inp('a4', 0, 8, 'i64')
                for _ in range(8):
                    pre = {}
                    for c in P.all_conds(zz):
                        if c.op == 'icmp' and c.attr in ('slt', 'sgt', 'sle', 'sge') and any(w is z for w in c.args): pre[c] = False if c.attr in ('sgt', 'slt') and c.args[0 if c.attr == 'slt' else 1] is not z else None      # zval > zmax + 1: not on the in-range path
                        elif c.op == 'icmp' and c.attr in ('eq', 'ne') and any(w.op == 'const' and w.attr[1] == 0 for w in c.args): pre[c] = (c.attr == 'ne')     # zdiff == 0: the throwing / degenerate call
                        elif c.op == 'fcmp' and c.attr in ('olt', 'ole') and any(w.op == 'fmul' and any(u.op == 'const' and abs(T.const_value(u)) > 10 ** 30 for u in w.args) for w in c.args): pre[c] = False   # overflow guard of the checked form
                    pre = {c: v for c, v in pre.items() if v is not None}
                    if not pre: break
                    zz = T.resolve(zz, pre)
                left = [c for c in P.all_conds(zz) if P.abs_idiom(T.ite(c, T.TRUE, T.FALSE)) is None]
                if zz.op == 'ite' and zz.args[1].op == 'throw': zz = zz.args[2]
                ctx = P.Ctx(); ctx.int_exact = True
                got = ctx.rat(zz)
                zdiff = ctx.radd(atom(ctx, hi), neg(atom(ctx, lo)))
                fz = ctx.rdiv(ctx.radd(atom(ctx, z), neg(atom(ctx, lo))), zdiff)
                D = ctx.rat(dz)
                want = subst_rat(ctx, D, ctx.key(agg.scalar_in('a2', t)), fz)
                if not ctx.requal(got, want):
                    return ('%s: ZToDepth%s(z, zmin, zmax) = %s, expected normalizedZToDepth((z - zmin)/(zmax - zmin)) = %s' % (kind, 'Exc' if exc else '', P.show_rat(got, ctx)[:140], P.show_rat(want, ctx)[:140]), None, fn_where(SZ.fn))
                return (None, 'normalizedZToDepth((z - zmin)/(zmax - zmin)) on the in-range path', fn_where(SZ.fn))
            return f
        for kind_ in ('persp', 'ortho'):
            for exc_ in (False,):       # the checked twin agrees with the unchecked one by C07's R07.same
                ob('ZToDepth%s[%s]' % ('Exc' if exc_ else '', kind_), 'R16.depth', zdepth(kind_, exc_))
        ob('depth maps[orthographic]', 'R16.depth', depth('ortho'))

        def radius():
            A, Bq = S_('w_srad'), S_('w_wrad'); ctx = P.Ctx()
            r = atom(ctx, agg.scalar_in('a3', t))
            fa_ = ctx.rdiv(ctx.rat(A.out('a0', 0, sz, lt)), r); fb = ctx.rdiv(ctx.rat(Bq.out('a0', 0, sz, lt)), r)
            ok = ctx.requal(ctx.rmul(fa_, fb), (ONE, ONE))
            n = fr(ctx, 'a1')[0]; pz = atom(ctx, agg.slot_in('a2', 2, t))
            ok2 = ctx.requal(fa_, ctx.rdiv(neg(n), pz))
            return (None if (ok and ok2) else 'screenRadius/worldRadius factors are %s and %s' % (P.show_rat(fa_, ctx), P.show_rat(fb, ctx)), 'factors -near/p.z and p.z/-near are reciprocal', fn_where(A.fn))
        ob('screenRadius/worldRadius', 'R16.depth', radius)

        # ---------------- planes
        def planes(kind):
            def f():
                S = S_('w_planes')
                outs = fix_ortho([S.out('a0', i * sz, sz, lt) for i in range(24)], 'a1', t, kind == 'ortho')
                def premise(c):
                    if c.op == 'fcmp' and c.attr == 'olt' and c.args[1].op == 'const' and 0 < T.const_value(c.args[1]) < Fraction(1, 10 ** 30): return False
                    return None
                names = ['top', 'right', 'bottom', 'left', 'near', 'far']
                for asg, res in PC.generic_cases(outs, P.Ctx(), premise=premise):
                    ctx = P.Ctx()
                    # positive atoms: n, w = r - l, h = t - b, g = f - n ; l, b free
                    pos_keys = positive_frustum(ctx, 'a1')
                    n, fa, l, r, tp, b = fr(ctx, 'a1')
                    for k in range(6):
                        nrm = [ctx.rat(res[4 * k + i]) for i in range(3)]; d = ctx.rat(res[4 * k + 3])
                        # corners of face k
                        def corner(sx, sy, far):
                            x = (l, r)[sx]; y = (b, tp)[sy]
                            if far and kind == 'persp':
                                s = ctx.rdiv(fa, n); x = ctx.rmul(x, s); y = ctx.rmul(y, s)
                            return [x, y, neg(fa if far else n)]
                        face = {0: [(sx, 1, fr_) for sx in (0, 1) for fr_ in (0, 1)], 1: [(1, sy, fr_) for sy in (0, 1) for fr_ in (0, 1)],
                                2: [(sx, 0, fr_) for sx in (0, 1) for fr_ in (0, 1)], 3: [(0, sy, fr_) for sy in (0, 1) for fr_ in (0, 1)],
                                4: [(sx, sy, 0) for sx in (0, 1) for sy in (0, 1)], 5: [(sx, sy, 1) for sx in (0, 1) for sy in (0, 1)]}[k]
                        for cr in face:
                            p = corner(*cr)
                            acc = neg(d)
                            for i in range(3): acc = ctx.radd(acc, ctx.rmul(nrm[i], p[i]))
                            if not ctx.rzero(acc):
                                return ('%s: plane %d (%s) does not pass through the frustum corner %s' % (kind, k, names[k], cr), None, fn_where(S.fn))
                        # outward orientation: sign of the characteristic normal component
                        comp, sgn = {0: (1, 1), 1: (0, 1), 2: (1, -1), 3: (0, -1), 4: (2, 1), 5: (2, -1)}[k]
                        s = sign_of(ctx, nrm[comp], pos_keys)
                        if s is None:
                            return ('%s: sign of normal component of plane %d (%s) is not determined by 0<n<f, l<r, b<t: %s' % (kind, k, names[k], P.show_rat(nrm[comp], ctx)[:160]), None, fn_where(S.fn))
                        if s != sgn:
                            return ('%s: plane %d (%s) has its normal pointing inward (component %d has sign %+d)' % (kind, k, names[k], comp, s), None, fn_where(S.fn))
                return (None, 'each of top,right,bottom,left,near,far passes through its 4 face corners with an outward normal', fn_where(S.fn))
            return f
        ob('planes[perspective]', 'R16.planes', planes('persp'))
        ob('planes[orthographic]', 'R16.planes', planes('ortho'))

        def planesM_identity():
            A, Bq = S_('w_planes'), S_('w_planesM')
            a_ = [A.out('a0', i * sz, sz, lt) for i in range(24)]
            b_ = [Bq.out('a0', i * sz, sz, lt) for i in range(24)]
            m = [agg.slot_in('a2', i, t) for i in range(16)]
            sub = dict((m[i], T.fp_from_value(lt, 1.0 if i % 5 == 0 else 0.0)) for i in range(16))
            b2 = [T.subst(x, sub) for x in b_]
            def premise(c):
                if c.op == 'fcmp' and c.attr == 'olt' and c.args[1].op == 'const' and 0 < T.const_value(c.args[1]) < Fraction(1, 10 ** 30): return False
                return None
            for kind in (False, True):
                xa = fix_ortho(a_, 'a1', t, kind); xb = fix_ortho(b2, 'a1', t, kind)
                for asg, res in PC.generic_cases(xa + xb, P.Ctx(), premise=premise):
                    ctx = P.Ctx()
                    positive_frustum(ctx, 'a1')
                    for i in range(24):
                        ra, rb = ctx.rat(res[i]), ctx.rat(res[24 + i])
                        if not ctx.requal(ra, rb):
                            return ('planes(p, identity) differs from planes(p) at plane %d component %d (%s vs %s)' % (i // 4, i % 4, P.show_rat(rb, ctx)[:100], P.show_rat(ra, ctx)[:100]), None, fn_where(Bq.fn))
            return (None, 'planes(p, M) with M = identity equals planes(p), both projection kinds', fn_where(Bq.fn))
        ob('planes(p,M=I) == planes(p)', 'R16.planes', planesM_identity)

        # ---------------- FrustumTest
        OFF = dict(nx=0, ny=6, nz=12, off=18, ax=24, ay=30, az=36)      # in units of T
        def ft_storage():
            S = S_('w_ft_set'); SPm = S_('w_planesM')
            pl = [SPm.out('a0', i * sz, sz, lt) for i in range(24)]
            # planes(p, M) in the setFrustum wrapper has the frustum at a1 and matrix at a2 too
            for k in range(6):
                i, c = k // 3, k % 3
                for nm, comp in (('nx', 0), ('ny', 1), ('nz', 2), ('off', 3)):
                    got = S.out('a0', (OFF[nm] + 3 * i + c) * sz, sz, lt)
                    want = pl[4 * k + comp]
                    if got is not want and not T.equiv(got, want):
                        return ('%s[%d][%d] does not hold component %d of plane %d' % (nm, i, c, comp, k), None, fn_where(S.fn))
                for nm, comp in (('ax', 0), ('ay', 1), ('az', 2)):
                    got = S.out('a0', (OFF[nm] + 3 * i + c) * sz, sz, lt)
                    base = pl[4 * k + comp]
                    ok = got.op == 'call' and got.attr == 'fabs' and (got.args[0] is base or T.equiv(got.args[0], base))
                    if not ok and not (got.op == 'absi' and got.args[0] is base):
                        # fabs distributes over conditionals in the term layer: compare through fabs of the expected
                        w2 = T.call('fabs', [base], lt)
                        if got is not w2 and not T.equiv(got, w2):
                            return ('%s[%d][%d] is not |component %d of plane %d|' % (nm, i, c, comp, k), None, fn_where(S.fn))
            return (None, 'plane k -> [k/3][k%3] for normal x,y,z, |normal| x,y,z and distance', fn_where(S.fn))
        ob('FrustumTest::setFrustum', 'R16.ft', ft_storage)

        def ft_pred(name, what, sgn):
            def f():
                S = S_(name)
                o = S.out('a0', 0, 1, 'i8')
                ctx = P.Ctx()
                def mem(nm, k): return atom(ctx, T.inp('a1', (OFF[nm] + k) * sz, sz, lt))
                lv = T.leaves(o, 4096)
                true_leaves = [l for l in lv if l[1].op == 'const' and l[1].attr[1] & 1]
                if len(true_leaves) != 1: return ('expected exactly one accepting path, found %d' % len(true_leaves), None, fn_where(S.fn))
                lits = true_leaves[0][0]
                tests = [(c, v) for c, v in lits if c.op == 'fcmp' and any(a.op == 'const' and T.const_value(a) == 0 for a in c.args) and c.attr in ('ole', 'olt')]
                found = set()
                for c, v in tests:
                    # accepted when d < 0:  !(0 <= d)
                    lhs = [a for a in c.args if not (a.op == 'const')]
                    if not lhs: continue
                    if not (c.attr == 'ole' and c.args[0].op == 'const' and v is False) and not (c.attr == 'olt' and c.args[1].op == 'const' and v is True):
                        return ('a plane test accepts on %s %s' % (T.show(c, 2)[:80], v), None, fn_where(S.fn))
                    d = ctx.rat(lhs[0])
                    for k in range(6):
                        N = [mem('nx', k), mem('ny', k), mem('nz', k)]; A = [mem('ax', k), mem('ay', k), mem('az', k)]; off = mem('off', k)
                        if what == 'pt':
                            cen = [atom(ctx, agg.slot_in('a2', i, t)) for i in range(3)]; extra = ({}, ONE)
                        elif what == 'box':
                            mn = [atom(ctx, agg.slot_in('a2', i, t)) for i in range(3)]; mx = [atom(ctx, agg.slot_in('a2', 3 + i, t)) for i in range(3)]
                            cen = [ctx.rmul(ctx.radd(a_, b_), (P.pconst(Fraction(1, 2)), ONE)) for a_, b_ in zip(mn, mx)]
                            ext = [ctx.radd(b_, neg(c_)) for b_, c_ in zip(mx, cen)]
                            extra = ({}, ONE)
                            for i in range(3): extra = ctx.radd(extra, ctx.rmul(A[i], ext[i]))
                        else:
                            cen = [atom(ctx, agg.slot_in('a2', i, t)) for i in range(3)]; extra = atom(ctx, agg.slot_in('a2', 3, t))
                        want = neg(off)
                        for i in range(3): want = ctx.radd(want, ctx.rmul(N[i], cen[i]))
                        want = ctx.radd(want, extra if sgn > 0 else neg(extra))
                        if ctx.requal(d, want): found.add(k)
                if found != set(range(6)):
                    return ('the accepting path tests planes %s; all six must be tested with n.c %s %s - d < 0' % (sorted(found), '+' if sgn > 0 else '-', {'pt': '0', 'box': '|n|.extent', 'sph': 'radius'}[what]), None, fn_where(S.fn))
                return (None, 'accepts only if n.c %s %s - d < 0 for all six planes' % ('+' if sgn > 0 else '-', {'pt': '0', 'box': '|n|.extent', 'sph': 'radius'}[what]), fn_where(S.fn))
            return f
        ob('FrustumTest::isVisible(point)', 'R16.ft', ft_pred('w_ft_vis_pt', 'pt', 1))
        ob('FrustumTest::isVisible(box)', 'R16.ft', ft_pred('w_ft_vis_box', 'box', -1))
        ob('FrustumTest::completelyContains(box)', 'R16.ft', ft_pred('w_ft_in_box', 'box', 1))
        ob('FrustumTest::isVisible(sphere)', 'R16.ft', ft_pred('w_ft_vis_sph', 'sph', -1))
        ob('FrustumTest::completelyContains(sphere)', 'R16.ft', ft_pred('w_ft_in_sph', 'sph', 1))
    # the throwing twins (projectionMatrixExc, normalizedZToDepthExc, worldRadiusExc, ...) are part of the same documented relations:
    # same value as the plain form wherever they return, and they return for every well-conditioned frustum (C07's twin rules)
    from . import c07
    g7 = [c07.gen(t, only='Frustum', tuname='c16_exc_' + t) for t in types]
    an7 = Analysed(ws, [g[0] for g in g7], rep)
    nex = 0
    for (tu7, pairs7), t in zip(g7, types):
        for p in pairs7:
            nex += 1
            c07.check_pair(rep, an7[tu7], p, t, rn=lambda k: 'R16.exc', exact=False)        # same function, not bit-identical arithmetic: that is C07's claim
    rep.floor('throwing frustum twins', nex, 10 * len(types))
    narrowing(rep, ws, [gen('d')], 'R16.prec')
    rep.floor('frustum obligations', len(rep.obs), 20 * len(types))
    rep.assumptions += ['exact real arithmetic at a generic point', '0 < near < far, left < right, bottom < top for the orientation rule', 'a wrapper\'s reference parameters do not alias']
    rep.undecided_clauses += ['planes(p, M) for a general (non-identity) M', 'long <-> T truncation in ZToDepth / DepthToZ', 'rounding']

def sign_of(ctx, r, pos_keys):
    """sign of a rational whose atoms in pos_keys are positive (sqrt / |.| atoms are non-negative): only
    polynomials whose monomials all have the same sign over positive atoms are decided"""
    def psign(p):
        s = None
        for m, c in p.items():
            for k, e in m:
                if k not in pos_keys and not (k < 0) and e % 2: return None
            sg = 1 if c > 0 else -1
            if s is None: s = sg
            elif s != sg: return None
        return s
    a, b = psign(ctx.reduce(r[0])), psign(ctx.reduce(r[1]))
    if a is None or b is None: return None
    return a * b
