"""Fact base for the PyImath rules (C19, C20): runs tools/pyrules (clang libTooling) over every PyImath
translation unit of the current tree with the flags of the real build, merges the per-TU facts and offers the
graph algorithms the rules need (guarded reachability, dominance, call-graph closure)."""
import os, json, glob, subprocess, re, hashlib
from concurrent.futures import ThreadPoolExecutor
from engine import build

VERIF = os.path.dirname(os.path.dirname(os.path.abspath(__file__)))
PYRULES = os.path.join(VERIF, 'build', 'pyrules')
PYDIR = 'src/python/PyImath'

class FactsError(Exception):
    pass

def cmake_sources(repo):
    """the .cpp files the PyImath build compiles (CMakeLists.txt of the directory)"""
    txt = open(os.path.join(repo, PYDIR, 'CMakeLists.txt')).read()
    return sorted(set(re.findall(r'\b([A-Za-z0-9_]+\.cpp)\b', txt)))

def run_pyrules(ws, repo, sources, dirs, tag='py', extra_flags=(), root=None, max_inst=2):
    if not os.path.exists(PYRULES):
        raise FactsError('build/pyrules missing: run ./setup.sh')
    cfg = ws.configure()
    flags = ['-std=gnu++17', '-I' + cfg, '-I' + os.path.join(repo, 'src', 'Imath'), '-I' + os.path.join(repo, PYDIR),
             '-I/usr/include/python3.11', '-I/usr/lib/llvm-14/lib/clang/14.0.6/include', '-Wno-everything', '-UNDEBUG'] + list(extra_flags)
    outdir = ws.path(tag)
    os.makedirs(outdir, exist_ok=True)
    def one(src):
        out = os.path.join(outdir, os.path.basename(src)[:-4] + '.json')
        cmd = [PYRULES, '-dir=' + ','.join(dirs), '-out=' + out, '-max-inst=%d' % max_inst, '-root=' + (root or (repo.rstrip('/') + '/')), src, '--'] + flags
        r = subprocess.run(cmd, stdout=subprocess.PIPE, stderr=subprocess.STDOUT, text=True)
        if r.returncode != 0 or not os.path.exists(out):
            raise FactsError('pyrules failed on %s:\n%s' % (src, r.stdout[-1500:]))
        with open(out) as f:
            return json.load(f)
    with ThreadPoolExecutor(max_workers=build.JOBS) as ex:
        return list(ex.map(one, sources))

def canon_cond(text, pol):
    """a != b  is the negation of  a == b"""
    depth = 0
    for i, ch in enumerate(text):
        if ch in '([{<' and not (ch == '<' and i + 1 < len(text) and text[i + 1] in '=<'): depth += ch != '<'
        elif ch in ')]}': depth -= 1
        elif ch == '!' and depth == 0 and text[i + 1:i + 2] == '=':
            return text[:i] + '==' + text[i + 2:], not pol
    return text, pol

def _split_top(text, op):
    parts = []; depth = 0; cur = ''; i = 0
    while i < len(text):
        ch = text[i]
        if ch in '([{': depth += 1
        elif ch in ')]}': depth -= 1
        if depth == 0 and text.startswith(op, i):
            parts.append(cur); cur = ''; i += len(op); continue
        cur += ch; i += 1
    parts.append(cur)
    return parts

def eval_cond(text, assume):
    """three-valued value of a condition text under assumptions on atomic condition texts (None = unknown).
    Needed where the CFG merges a short-circuit chain into one value before branching, e.g. if (!(a && b && c))"""
    text = text.strip()
    if text in assume: return assume[text]
    ct, pol = canon_cond(text, True)
    if ct in assume: return assume[ct] if pol else not assume[ct]
    # balanced outer parentheses
    if text.startswith('(') and text.endswith(')'):
        depth = 0
        for i, ch in enumerate(text):
            if ch == '(': depth += 1
            elif ch == ')':
                depth -= 1
                if depth == 0 and i < len(text) - 1: break
        else:
            return eval_cond(text[1:-1], assume)
        if depth == 0 and i == len(text) - 1: return eval_cond(text[1:-1], assume)
    for op, absorbing in (('||', True), ('&&', False)):
        parts = _split_top(text, op)
        if len(parts) > 1:
            vals = [eval_cond(p_, assume) for p_ in parts]
            if any(v is absorbing for v in vals): return absorbing
            if all(v is (not absorbing) for v in vals): return not absorbing
            return None
    if text.startswith('!') and not text.startswith('!='):
        v = eval_cond(text[1:], assume)
        return None if v is None else (not v)
    return None

class Fn:
    def __init__(self, d, tu):
        self.d = d; self.tu = tu
        self.name = d['name']; self.key = d['key']; self.events = d['events']
        self.blocks = {b['id']: b for b in d['blocks']}
        for b in self.blocks.values():
            if 'cond' in b:
                b['ccond'], b['cpol'] = canon_cond(b['cond'], b['pol'])
        self.entry = d.get('entry'); self.exit = d.get('exit')
    def __getitem__(self, k): return self.d[k]
    def get(self, k, dflt=None): return self.d.get(k, dflt)
    def short(self):
        return re.sub(r'<[^<>]*(<[^<>]*(<[^<>]*>[^<>]*)*>[^<>]*)*>', '', self.name)
    def conds(self):
        return sorted(set(b['ccond'] for b in self.blocks.values() if 'ccond' in b))
    def reach(self, assume=None, start=None, edges=None):
        """blocks reachable from the entry when the atomic conditions in `assume` (text -> bool) have the given value;
        control does not continue past a throw / noreturn element"""
        assume = assume or {}
        seen = set(); stack = [self.entry if start is None else start]
        while stack:
            b = stack.pop()
            if b in seen or b not in self.blocks: continue
            seen.add(b)
            blk = self.blocks[b]
            succ = blk['succ']
            if blk.get('leave') in ('throw', 'noreturn'):
                continue
            nxt = succ
            if 'ccond' in blk and assume and len(succ) == 2:
                v = eval_cond(blk['ccond'], assume)
                if v is not None:
                    val = v if blk['cpol'] else not v
                    nxt = [succ[0] if val else succ[1]]
            for s in nxt:
                if s is not None and s >= 0:
                    stack.append(s)
                    if edges is not None: edges.add((b, s))
        return seen
    def reaches(self, ev, assume=None):
        """is the event executed on some path consistent with the assumption"""
        r = self.reach(assume)
        b = ev.get('block', -1)
        if b not in r: return False
        blk = self.blocks[b]
        if 'leave_idx' in blk and ev.get('idx', -1) > blk['leave_idx'] >= 0: return False
        return True
    def normal_exit(self, assume=None):
        """can the function return normally under the assumption"""
        edges = set()
        self.reach(assume, edges=edges)
        return any(s == self.exit for b, s in edges)
    def dominators(self):
        if hasattr(self, '_dom'): return self._dom
        ids = sorted(self.reach())
        preds = {b: [] for b in ids}
        for b in ids:
            for s in self.blocks[b]['succ']:
                if s in preds: preds[s].append(b)
        dom = {b: set(ids) for b in ids}
        dom[self.entry] = {self.entry}
        changed = True
        while changed:
            changed = False
            for b in ids:
                if b == self.entry: continue
                ps = [dom[p] for p in preds[b]]
                new = (set.intersection(*ps) if ps else set()) | {b}
                if new != dom[b]: dom[b] = new; changed = True
        self._dom = dom
        return dom
    def dominates(self, a, b, ia=None, ib=None):
        if a == b and ia is not None and ib is not None: return ia <= ib
        return a in self.dominators().get(b, ())

class Facts:
    def __init__(self, tus):
        self.tus = tus
        self.fns = []                   # every analysed instance
        self.by_key = {}                # pattern key -> [Fn]
        self.records = {}; self.specs = []; self.vars = []
        seen = set()
        for tu in tus:
            for d in tu['functions']:
                ident = (d['key'], d.get('inst'))
                if ident in seen: continue
                seen.add(ident)
                f = Fn(d, tu['main'])
                self.fns.append(f); self.by_key.setdefault(f.key, []).append(f)
            for r in tu['records']: self.records.setdefault(r['name'], r)
            for s in tu['specs']:
                if s not in self.specs: self.specs.append(s)
            for v in tu['vars']: self.vars.append(v)
    def patterns(self):
        return self.by_key
    def overriders(self, key):
        """pattern keys of the functions overriding `key` (transitively)"""
        out = set(); work = [key]
        while work:
            k = work.pop()
            for f in self.fns:
                if k in f.get('overrides', []) and f.key not in out:
                    out.add(f.key); work.append(f.key)
        return out

def load(ws, repo, rep=None, sources=None, max_inst=2):
    srcs = sources or cmake_sources(repo)
    disk = sorted(os.path.basename(p) for p in glob.glob(os.path.join(repo, PYDIR, '*.cpp')))
    allsrc = sorted(set(srcs) | set(disk))
    paths = [os.path.join(repo, PYDIR, s) for s in allsrc if os.path.exists(os.path.join(repo, PYDIR, s))]
    if len(paths) < 30:
        raise FactsError('only %d PyImath sources found' % len(paths))
    tus = run_pyrules(ws, repo, paths, [PYDIR + '/'], max_inst=max_inst)
    fx = Facts(tus)
    if rep is not None:
        rep.extra['pyimath_translation_units'] = len(tus)
        rep.extra['functions_analysed'] = len(fx.by_key)
        rep.extra['function_instances'] = len(fx.fns)
        rep.extra['instantiations_per_pattern'] = max_inst
    return fx

def positive_examples(ws):
    """the tool must recognise the constructs the rules look for: a tiny TU under selftest/ with one of each"""
    src = os.path.join(VERIF, 'selftest', 'pyrules_pos.cpp')
    tus = run_pyrules(ws, VERIF, [src], ['selftest/'], tag='pypos', root=VERIF.rstrip('/') + '/')
    return Facts(tus)
