"""C11 - Euler angles in all 24 orders (decided part).  Wrappers are specialised per order, so the order's
flags and axis permutation are constants; the angles stay symbolic.

R11.order  Euler(p).order() == p and legal(p), for the 24 enumerators
R11.m      toMatrix44() == toMatrix33() bordered by (0,0,0,1); the matrix is orthonormal with determinant +1
R11.x      extract(Matrix33) and extract(Matrix44 with the same 3x3) have identical value graphs
R11.q      toQuat().toMatrix33() == toMatrix33() (half-angle identities)
R11.xyz    order XYZ: toMatrix44() == Matrix44::setEulerAngles
R11.perm   setXYZVector / toXYZVector / XYZ-layout constructor are mutually inverse slot permutations
R11.near   nearestRotation (six non-repeated fixed-axis orders): its alternative candidate is pi - angle on exactly the component
           that leaves Euler(order).setXYZVector(v).toMatrix33() unchanged (trig substitution), pi + angle on the other two
R11.mod    angleMod: congruent to its argument mod 2*pi with result in [-pi, pi] after fmod; simpleXYZRotation per slot
R11.re     the re-ordering constructor Euler(e, order): toMatrix33 of the result == toMatrix33(e) (t_i = tan(angle_i/2) rational
           parametrisation; quick: representatives of the 32 classes of order pairs, thorough: all 576 pairs)
R11.xe     extractEulerXYZ / extractEulerZYX / extractEuler(Matrix22|33) invert their builders under positive row scaling
R11.rt     extract(toMatrix33(angles)).toMatrix33() == toMatrix33(angles) on the generic cell (cos of the middle
           angle positive) and on the cell of the alternative angle triple (negative; t = tan(angle/2) parametrisation), using cos(atan2(y,x)) = x/sqrt(x^2+y^2), sin(atan2(y,x)) = y/sqrt(x^2+y^2)
"""
import math, struct
import os
from fractions import Fraction
from engine import term as T, agg, build, vg, poly as P, polycheck as PC
from engine.agg import ELEM, TU
from engine.report import HOLDS, VIOLATED, UNDECIDED
from .common import Analysed, fn_where, narrowing
from .c09 import ortho_check
from .c05 import ONE

ORDERS = ['XYZ', 'XZY', 'YZX', 'YXZ', 'ZXY', 'ZYX', 'XZX', 'XYX', 'YXY', 'YZY', 'ZYZ', 'ZXZ',
          'XYZr', 'XZYr', 'YZXr', 'YXZr', 'ZXYr', 'ZYXr', 'XZXr', 'XYXr', 'YXYr', 'YZYr', 'ZYZr', 'ZXZr']
HDR = agg.HEADER + '#include <ImathEuler.h>\n'

def gen(t, orders):
    E = ELEM[t][0]
    V = 'Vec3<%s>' % E; M3 = 'Matrix33<%s>' % E; M4 = 'Matrix44<%s>' % E; Eu = 'Euler<%s>' % E
    tu = TU('c11_' + t, header=HDR)
    a = tu.add
    for o in orders:
        P_ = '%s::%s' % (Eu, o)
        a('w_order_' + o, 'int& r', 'r = (int) %s(%s).order();' % (Eu, P_), o=o, k='order')
        a('w_ordval_' + o, 'int& r', 'r = (int) %s;' % P_, o=o, k='ordval')
        a('w_legal_' + o, 'bool& r', 'r = %s::legal(%s);' % (Eu, P_), o=o, k='legal')
        a('w_m33_' + o, '%s& m, const %s& a' % (M3, V), 'm = %s(a, %s, %s::IJKLayout).toMatrix33();' % (Eu, P_, Eu), o=o, k='m33')
        a('w_m44_' + o, '%s& m, const %s& a' % (M4, V), 'm = %s(a, %s, %s::IJKLayout).toMatrix44();' % (Eu, P_, Eu), o=o, k='m44')
        a('w_x33_' + o, '%s& r, const %s& m' % (V, M3), '%s e(%s); e.extract(m); r = e;' % (Eu, P_), o=o, k='x33')
        a('w_x44_' + o, '%s& r, const %s& m' % (V, M3), '%s e(%s); %s n(m[0][0], m[0][1], m[0][2], 0, m[1][0], m[1][1], m[1][2], 0, m[2][0], m[2][1], m[2][2], 0, 0, 0, 0, 1); e.extract(n); r = e;' % (Eu, P_, M4), o=o, k='x44')
        a('w_c33_' + o, '%s& r, const %s& m' % (V, M3), '%s e(m, %s); r = e;' % (Eu, P_), o=o, k='c33')
        a('w_c44_' + o, '%s& r, const %s& m' % (V, M3), '%s n(m[0][0], m[0][1], m[0][2], 0, m[1][0], m[1][1], m[1][2], 0, m[2][0], m[2][1], m[2][2], 0, 0, 0, 0, 1); %s e(n, %s); r = e;' % (M4, Eu, P_), o=o, k='c44')
        a('w_q_' + o, '%s& m, const %s& a' % (M3, V), 'm = %s(a, %s, %s::IJKLayout).toQuat().toMatrix33();' % (Eu, P_, Eu), o=o, k='q')
        if len(set(o[:3])) == 3:
            a('w_perm_' + o, '%s& r, const %s& v' % (V, V), '%s e(%s); e.setXYZVector(v); r = e.toXYZVector();' % (Eu, P_), o=o, k='perm')
            a('w_perm2_' + o, '%s& r, const %s& v' % (V, V), '%s e(v, %s, %s::XYZLayout); r = e.toXYZVector();' % (Eu, P_, Eu), o=o, k='perm')
            a('w_perm4_' + o, '%s& r, const %s& v' % (V, V), '%s e(v.x, v.y, v.z, %s, %s::XYZLayout); r = e.toXYZVector();' % (Eu, P_, Eu), o=o, k='perm')
            a('w_perm5_' + o, '%s& r, const %s& v' % (V, V), '%s e(v.x, v.y, v.z, %s, %s::IJKLayout); r = e;' % (Eu, P_, Eu), o=o, k='perm')
            a('w_perm3_' + o, '%s& r, const %s& v' % (V, V), '%s e(v, %s, %s::IJKLayout); %s w = e.toXYZVector(); %s f(%s); f.setXYZVector(w); r = f;' % (Eu, P_, Eu, V, Eu, P_), o=o, k='perm')
    a('w_seteuler', '%s& m, const %s& a' % (M4, V), 'm.setEulerAngles(a);', k='seteuler')
    # extractEulerXYZ / extractEulerZYX / extractEuler against their builders, rows scaled by positive factors s
    scale44 = 'for (int i = 0; i < 3; ++i) for (int j = 0; j < 3; ++j) m[i][j] *= s[i];'
    for o in ('XYZ', 'ZYX'):
        a('w_xe_' + o, '%s& n, const %s& a, const %s& s' % (M3, V, V), '%s m = %s(a, %s::%s).toMatrix44(); %s %s r; extractEuler%s(m, r); n = %s(r, %s::%s).toMatrix33();' % (M4, Eu, Eu, o, scale44, V, o, Eu, Eu, o), o=o, k='xe')
        a('w_xb_' + o, '%s& n, const %s& a' % (M3, V), 'n = %s(a, %s::%s).toMatrix33();' % (Eu, Eu, o), o=o, k='xb')
    M2 = 'Matrix22<%s>' % E
    a('w_xe_33', '%s& n, const %s& a, const %s& s' % (M2, E, V), '%s m; m.setRotation(a); for (int i = 0; i < 2; ++i) for (int j = 0; j < 2; ++j) m[i][j] *= s[i]; %s r; extractEuler(m, r); n.setRotation(r);' % (M3, E), k='xe')
    a('w_xe_22', '%s& n, const %s& a, const %s& s' % (M2, E, V), '%s m; m.setRotation(a); for (int i = 0; i < 2; ++i) for (int j = 0; j < 2; ++j) m[i][j] *= s[i]; %s r; extractEuler(m, r); n.setRotation(r);' % (M2, E), k='xe')
    a('w_xb_22', '%s& n, const %s& a' % (M2, E), 'n.setRotation(a);', k='xb')
    a('w_angleMod', 'float& r, const %s& x' % E, 'r = %s::angleMod(x);' % Eu, k='mod')
    a('w_simpleXYZ', '%s& x, const %s& tgt' % (V, V), '%s::simpleXYZRotation(x, tgt);' % Eu, k='simple')
    return tu

NONREP = ['XYZ', 'XZY', 'YZX', 'YXZ', 'ZXY', 'ZYX']

def gen_near(t):
    """nearestRotation per non-repeated fixed-axis order with simpleXYZRotation opaque (its in/out vector is then an
    argument of the call node), and the matrix of an XYZ-layout angle vector of that order"""
    E = ELEM[t][0]
    V = 'Vec3<%s>' % E; M3 = 'Matrix33<%s>' % E; Eu = 'Euler<%s>' % E
    tu = TU('c11n_' + t, header=HDR, opaque=('17simpleXYZRotation',))
    for o in NONREP:
        P_ = '%s::%s' % (Eu, o)
        tu.add('w_near_' + o, '%s& x, const %s& tgt' % (V, V), '%s::nearestRotation(x, tgt, %s);' % (Eu, P_), o=o, k='near')
        tu.add('w_vecmat_' + o, '%s& m, const %s& v' % (M3, V), '%s e(0, 0, 0, %s); e.setXYZVector(v); m = e.toMatrix33();' % (Eu, P_), o=o, k='vecmat')
    return tu

ONE_ = P.pconst(1)

def gen_xquat(t):
    """extract(Quat) with extract(Matrix33) left as a call: the matrix handed over, and the matrix of the quaternion"""
    E = ELEM[t][0]
    Q = 'Quat<%s>' % E; M3 = 'Matrix33<%s>' % E; Eu = 'Euler<%s>' % E
    tu = TU('c11q_' + t, header=HDR + '#include <ImathQuat.h>\n', opaque=('7extractERKNS_8Matrix33',))
    tu.add('w_xquat', '%s& e, const %s& q' % (Eu, Q), 'e.extract(q);', k='xquat')
    tu.add('w_qmat', '%s& m, const %s& q' % (M3, Q), 'm = q.toMatrix33();', k='aux')
    return tu

def gen_mknear(t):
    """makeNear with nearestRotation left as a call"""
    E = ELEM[t][0]; Eu = 'Euler<%s>' % E
    tu = TU('c11m_' + t, header=HDR, opaque=('15nearestRotation',))
    tu.add('w_makeNear', '%s& e, const %s& target' % (Eu, Eu), 'e.makeNear(target);', k='mknear')
    return tu

def check_mknear(rep, R, t):
    """R11.near (makeNear): both angle vectors handed to nearestRotation are expressed in this object's order, so the order
    argument is this object's order() - computed from the object's own bit fields, not from the target's"""
    E, sz, lt = ELEM[t]
    oid = 'makeNear<%s>' % E
    S = R.get('w_makeNear')
    if S is None:
        rep.ob(oid, 'R11.near', UNDECIDED, R.err.get('w_makeNear', 'not analysed')[:300]); return
    where = fn_where(S.fn)
    calls = [c for nm, c, ln in S.calls if '15nearestRotation' in nm]
    if len(calls) != 1:
        rep.ob(oid, 'R11.near', VIOLATED if not calls else UNDECIDED, '%d calls of nearestRotation, expected 1' % len(calls), where); return
    args = [a for a in calls[0].args if a.ty not in ('mem', 'ptr')]
    if not args:
        rep.ob(oid, 'R11.near', UNDECIDED, 'the order argument of nearestRotation was not recognised', where); return
    order = args[-1]
    bases = set(); st = [order]; seen = set()
    while st:
        x = st.pop()
        if x.id in seen: continue
        seen.add(x.id); st.extend(x.args)
        if x.op == 'in': bases.add(x.attr[0])
    ok = bases == {'a0'}
    rep.ob(oid, 'R11.near', HOLDS if ok else VIOLATED,
           'nearestRotation is given the order of the object whose angles are adjusted' if ok else
           'the order handed to nearestRotation is computed from %s; both angle vectors are in this object\'s order (the target is re-ordered first), so it has to be this object\'s order(): with another middle axis the alternative solution (pi + a, pi - b, pi + c) flips the wrong angle' % (sorted(bases) or 'a constant'), where)

def check_xquat(rep, R, t):
    """R11.xq: extract(Quat q) extracts from the rotation matrix of q: on every path the nine entries handed to
    extract(Matrix33) equal q.toMatrix33() as polynomials in the components of q (so a sign-canonicalised -q is fine, the
    conjugate - the inverse rotation - is not); that extract(Matrix33) inverts toMatrix33 is R11.rt"""
    E, sz, lt = ELEM[t]
    oid = 'extract(Quat)<%s>' % E
    S, SM = R.get('w_xquat'), R.get('w_qmat')
    if S is None or SM is None:
        rep.ob(oid, 'R11.xq', UNDECIDED, (R.err.get('w_xquat') or R.err.get('w_qmat') or 'not analysed')[:300]); return
    where = fn_where(S.fn)
    try:
        calls = [c for nm, c, ln in S.calls if '7extractERKNS_8Matrix33' in nm]
        if len(calls) != 1:
            rep.ob(oid, 'R11.xq', VIOLATED if not calls else UNDECIDED, '%d calls of extract(Matrix33), expected 1' % len(calls), where); return
        call = calls[0]
        mems = [a for a in call.args if a.ty == 'mem']
        ents = None
        def cells(mem):
            # a frozen memory term, possibly behind conditionals: offset -> value (conditionals pushed into the values)
            if mem.op == 'ite':
                a_, b_ = cells(mem.args[1]), cells(mem.args[2])
                if a_ is None or b_ is None or set(a_) != set(b_): return None
                return {k: T.ite(mem.args[0], a_[k], b_[k]) for k in a_}
            if mem.op != 'mem': return None
            d = {}
            a = mem.args[1:]
            for i in range(0, len(a), 2): d[T.const_value(a[i])] = a[i + 1]
            return d
        for m_ in mems:
            d = cells(m_)
            if d is not None and all(i * sz in d for i in range(9)) and all(d[i * sz].ty == lt for i in range(9)):
                ents = [d[i * sz] for i in range(9)]; break
        if ents is None:
            rep.ob(oid, 'R11.xq', UNDECIDED, 'the matrix argument of extract(Matrix33) was not recognised', where); return
        qin = [agg.slot_in('a1', i, t) for i in range(4)]
        want = [SM.out('a0', i * sz, sz, lt) for i in range(9)]
        ncase = 0
        for asg, res in PC.generic_cases(ents, P.Ctx(), enumerate_cond=lambda c: c.op == 'fcmp'):
            ctx = P.Ctx(); ncase += 1
            # a sign test x < 0 decided on this path fixes |x| (the select idiom -x / x is read as |x| by the term layer)
            for c, v in asg.items():
                if c.op == 'fcmp' and c.attr in ('olt', 'ole', 'ogt', 'oge'):
                    for xi, ki in ((0, 1), (1, 0)):
                        x, k = c.args[xi], c.args[ki]
                        if k.op == 'const' and T.const_value(k) == 0 and x.op != 'const':
                            neg = (c.attr in ('olt', 'ole')) == (xi == 0)        # the test reads "x is negative" when true
                            isneg = neg if v else (not neg)
                            ab = ctx.rat(T.mk('absi', None, (x,), x.ty))[0]
                            if len(ab) == 1:
                                (mono, coef), = ab.items()
                                if len(mono) == 1 and mono[0][1] == 1 and coef == 1:
                                    px = ctx.rat(x)
                                    if px[1] == ONE_: ctx.lin[mono[0][0]] = P.pneg(px[0]) if isneg else px[0]
            for i in range(9):
                a_, b_ = ctx.rat(res[i]), ctx.rat(want[i])
                if not ctx.requal(a_, b_):
                    rep.ob(oid, 'R11.xq', VIOLATED, 'when %s the matrix handed to extract() has entry [%d][%d] = %s, q.toMatrix33() has %s: the angles are those of another rotation' % (PC.show_asg(asg) or 'always', i // 3, i % 3, P.show_rat(a_, ctx)[:120], P.show_rat(b_, ctx)[:120]), where); return
        rep.ob(oid, 'R11.xq', HOLDS, 'the matrix handed to extract(Matrix33) is q.toMatrix33() on all %d path(s)' % ncase, where)
    except (P.NotPoly, PC.Undecided, vg.Unsupported, OverflowError) as e:
        rep.ob(oid, 'R11.xq', UNDECIDED, repr(e)[:300], where)

def check_near(rep, R, t):
    """R11.near: the alternative candidate of nearestRotation is (pi + a, pi - a, pi + a) with the minus sign on exactly
    the component for which Euler(order).setXYZVector(.).toMatrix33() is invariant, i.e. it denotes the same rotation"""
    import math
    E, sz, lt = ELEM[t]
    for o in NONREP:
        oid = 'nearestRotation[%s]<%s>' % (o, E)
        S = R.get('w_near_' + o); SM = R.get('w_vecmat_' + o)
        if S is None or SM is None:
            rep.ob(oid, 'R11.near', UNDECIDED, R.err.get('w_near_' + o, R.err.get('w_vecmat_' + o, 'not analysed'))); continue
        where = fn_where(S.fn)
        try:
            calls = [c for nm, c, ln in S.calls if 'simpleXYZRotation' in nm]
            if len(calls) != 2:
                rep.ob(oid, 'R11.near', VIOLATED if calls else UNDECIDED, '%d calls of simpleXYZRotation, expected 2 (the angles themselves and the alternative)' % len(calls), where); continue
            first, second = calls
            def cells(mem):
                d = {}
                if mem.op == 'mem':
                    a = mem.args[1:]
                    for i in range(0, len(a), 2): d[T.const_value(a[i])] = a[i + 1]
                return d
            m2 = [a for a in second.args if a.ty == 'mem'][0]
            c2 = cells(m2)
            signs = {}
            for c in range(3):
                v = c2.get(c * sz)
                if v is not None and v.op == 'fptrunc': v = v.args[0]        # float: M_PI +- x is formed in double
                if v is None or v.op != 'fadd': signs[c] = None; continue
                cs = [x for x in v.args if x.op == 'const']; xs = [x for x in v.args if x.op != 'const']
                if len(cs) != 1 or len(xs) != 1 or abs(float(T.const_value(cs[0])) - math.pi) > 1e-6: signs[c] = None; continue
                x = xs[0]; neg = False
                if x.op == 'fneg': x = x.args[0]; neg = True
                if x.op == 'fpext': x = x.args[0]
                if x.op == 'fneg': x = x.args[0]; neg = not neg
                # x must be component c of the vector left by the first call
                ok = x.op == 'sel' and x.args[0].op == 'callmem' and x.args[0].args[0] is first and T.const_value(x.args[1]) == c * sz
                signs[c] = ('-' if neg else '+') if ok else None
            if any(v is None for v in signs.values()):
                rep.ob(oid, 'R11.near', VIOLATED, 'the alternative angles are not pi +- (simplified angle) per component: %s' % signs, where); continue
            # matrix invariance under the substitution
            mat = [SM.out('a0', i * sz, sz, lt) for i in range(9)]
            v = [agg.slot_in('a1', i, t) for i in range(3)]
            ctx = P.Ctx()
            base = [ctx.rat(x) for x in mat]
            def akey(cx, node):
                (mono, _), = cx.rat(node)[0].items()
                return mono[0][0]
            negate = set()
            for c in range(3):
                negate.add(akey(ctx, T.call('cos', [v[c]], lt)))                            # cos(pi +- a) = -cos a
                if signs[c] == '+': negate.add(akey(ctx, T.call('sin', [v[c]], lt)))       # sin(pi + a) = -sin a ; sin(pi - a) = sin a
            def flip(poly):
                out = {}
                for mono, co in poly.items():
                    sg = 1
                    for k_, pw in mono:
                        if k_ in negate and pw % 2: sg = -sg
                    out[mono] = co * sg
                return out
            diff = [i for i in range(9) if not ctx.requal((flip(base[i][0]), flip(base[i][1])), base[i])]
            minus = [c for c in range(3) if signs[c] == '-']
            rep.ob(oid, 'R11.near', VIOLATED if diff else HOLDS,
                   'the alternative (pi%sx, pi%sy, pi%sz) is a different rotation for this order (entry [%d][%d] changes): the sign flip belongs on the middle rotation axis' % (signs[0], signs[1], signs[2], diff[0] // 3, diff[0] % 3) if diff else
                   'alternative = pi - angle on component %s, pi + angle on the others: same rotation matrix for order %s' % ('xyz'[minus[0]] if len(minus) == 1 else minus, o), where)
        except (P.NotPoly, vg.Unsupported, OverflowError, IndexError) as e:
            rep.ob(oid, 'R11.near', UNDECIDED, repr(e)[:300], where)

def gen_reorder(t, pairs):
    """the re-ordering constructor Euler(e, order) for ordered pairs (from, to) of orders: matrix of the result"""
    E = ELEM[t][0]
    V = 'Vec3<%s>' % E; M3 = 'Matrix33<%s>' % E; Eu = 'Euler<%s>' % E
    tu = TU('c11r_' + t, header=HDR)
    for f, o in pairs:
        tu.add('w_re_%s_%s' % (f, o), '%s& m, const %s& a' % (M3, V), '%s e(a, %s::%s, %s::IJKLayout); %s r(e, %s::%s); m = r.toMatrix33();' % (Eu, Eu, f, Eu, Eu, Eu, o), f=f, o=o, k='re')
    return tu

def order_bits():
    """enumerator values of the 24 orders, read from the header of the tree under analysis"""
    import re
    txt = open(os.path.join(build.REPO, 'src', 'Imath', 'ImathEuler.h')).read()
    vals = {m.group(1): int(m.group(2), 16) for m in re.finditer(r'\b([XYZ]{3}r?)\s*=\s*(0x[0-9a-fA-F]+)\s*,', txt)}
    if not all(o in vals for o in ORDERS): raise vg.Unsupported('Euler::Order enumerators not found in ImathEuler.h')
    return vals

def reorder_pairs(tier):
    """thorough: all 576 ordered pairs.  quick: representatives of every class of pairs - which of initial axis, frame and
    parity agree, and whether source / target repeat the first axis (32 classes) - three per class, one where both repeat
    (those cost ~15 s each)"""
    allp = [(f, o) for f in ORDERS for o in ORDERS]
    if tier != 'quick': return allp
    v = order_bits()
    cls = {}
    for f, o in allp:
        a, b = v[f], v[o]
        key = ((a ^ b) & 0x3000 == 0, (a ^ b) & 1 == 0, (a ^ b) & 0x100 == 0, bool(a & 0x10), bool(b & 0x10))
        cls.setdefault(key, []).append((f, o))
    out = []
    for key, ps in sorted(cls.items()):
        n = 1 if key[3] and key[4] else 3
        step = max(1, len(ps) // n)
        out += ps[::step][:n]
    return out

_RE = {}
def _re_pair(job):
    """toMatrix33(Euler(e_from, to)) == toMatrix33(e_from) on the generic cell of the source's middle angle.  Sines and
    cosines of the three source angles are rational in t_i = tan(angle_i / 2) (middle angle of a non-repeated order measured
    from pi/2, so that the cell is t_1 > 0 either way): the roots taken by extract() are then roots of syntactic squares."""
    tname, f, o = job
    st = _RE[tname]
    t = st['t']; E, sz, lt = ELEM[t]
    S, SM = st['R'].get('w_re_%s_%s' % (f, o)), st['RM'].get('w_m33_' + f)
    oid = 'Euler(Euler(a,%s),%s)<%s>' % (f, o, E)
    if S is None or SM is None:
        return (oid, UNDECIDED, (st['R'].err.get('w_re_%s_%s' % (f, o)) or st['RM'].err.get('w_m33_' + f) or 'not analysed')[:300], None)
    where = fn_where(S.fn)
    try:
        ang = [agg.slot_in('a1', i, t) for i in range(3)]
        re_ = [S.out('a0', i * sz, sz, lt) for i in range(9)]; m3 = [SM.out('a0', i * sz, sz, lt) for i in range(9)]
        rep_from = len(set(f[:3])) == 2
        for negc in ((False, True) if st.get('both_cells') else (False,)):
            ctx = tan_half_ctx(ang, t, not rep_from, mid_negative=negc)
            for i in range(9):
                a_, b_ = ctx.rat(re_[i]), ctx.rat(m3[i])
                if not ctx.requal(a_, b_):
                    return (oid, VIOLATED, 'entry [%d][%d] of the re-ordered rotation is %s, the source rotation has %s (t_i = tan(angle_i/2)%s)' % (i // 3, i % 3, P.show_rat(a_, ctx)[:140], P.show_rat(b_, ctx)[:140], ', source middle angle in the other cell' if negc else ''), where)
        return (oid, HOLDS, 'the re-ordered angles give the source rotation on %s' % ('both cells of the source middle angle' if st.get('both_cells') else 'the generic cell'), where)
    except (P.NotPoly, PC.Undecided, vg.Unsupported, OverflowError) as e:
        return (oid, UNDECIDED, repr(e)[:300], where)

def tan_half_ctx(ang, t, mid_from_half_pi, mid_negative=False):
    """Ctx in which cos/sin of the listed angle nodes are rational in t_i = tan(angle_i/2); the middle angle (index 1) is
    measured from pi/2 when mid_from_half_pi, and t_1 > 0 is the generic cell; atan2 compositions expanded"""
    E, sz, lt = ELEM[t]
    ctx = P.Ctx(); ctx.cancel = True
    install_atan2_rules(ctx)
    orig = ctx.call
    tk = [ctx.key(T.inp('t#%d' % i, 0, sz, lt)) for i in range(len(ang))]
    if len(ang) > 1: ctx.positive.add(tk[1])
    def call(n):
        if n.attr in ('cos', 'sin') and len(n.args) == 1:
            for i in range(len(ang)):
                if n.args[0] is ang[i]:
                    tt = P.patom(tk[i]); one = P.pconst(1)
                    den = P.padd(one, P.pmul(tt, tt)); c_ = P.psub(one, P.pmul(tt, tt)); s_ = P.pscale(tt, 2)
                    if i == 1 and mid_from_half_pi: c_, s_ = s_, c_
                    if i == 1 and mid_negative:
                        # the other cell: cos(middle) < 0 (non-repeated orders) / sin(middle) < 0 (repeated orders)
                        if mid_from_half_pi: c_ = P.pneg(c_)
                        else: s_ = P.pneg(s_)
                    return (c_ if n.attr == 'cos' else s_, den)
        return orig(n)
    ctx.call = call
    return ctx

def roundtrip_other_cell(SM, SX, o, t, ang):
    """toMatrix33(extract(toMatrix33(a))) == toMatrix33(a) on the cell where extract() returns the *other* angle triple
    (cos of the middle angle negative; repeated orders: sine negative)"""
    E, sz, lt = ELEM[t]
    m3 = [SM.out('a0', i * sz, sz, lt) for i in range(9)]
    xin = [agg.slot_in('a1', i, t) for i in range(9)]
    ex = [T.subst(SX.out('a0', i * sz, sz, lt), dict(zip(xin, m3))) for i in range(3)]
    back = [T.subst(x, dict(zip(ang, ex))) for x in m3]
    repeated = len(set(o[:3])) == 2
    ctx = tan_half_ctx(ang, t, not repeated, mid_negative=True)
    for i in range(9):
        a_, b_ = ctx.rat(back[i]), ctx.rat(m3[i])
        if not ctx.requal(a_, b_):
            return ('entry [%d][%d] after extract and rebuild is %s, original %s' % (i // 3, i % 3, P.show_rat(a_, ctx)[:160], P.show_rat(b_, ctx)[:160]), None, fn_where(SX.fn))
    return (None, 'the rebuilt matrix equals the original on the cell of the alternative angle triple', fn_where(SX.fn))

def check_xeuler(rep, R, t):
    """R11.xe: extractEulerXYZ / extractEulerZYX / extractEuler invert their builders (Euler(r, order).toMatrix44(),
    setRotation), also when the rows carry positive scale factors (they normalise the rows first)"""
    E, sz, lt = ELEM[t]
    for name, build_, nang, dim in (('w_xe_XYZ', 'w_xb_XYZ', 3, 3), ('w_xe_ZYX', 'w_xb_ZYX', 3, 3), ('w_xe_33', 'w_xb_22', 1, 2), ('w_xe_22', 'w_xb_22', 1, 2)):
        oid = {'w_xe_XYZ': 'extractEulerXYZ', 'w_xe_ZYX': 'extractEulerZYX', 'w_xe_33': 'extractEuler(Matrix33)', 'w_xe_22': 'extractEuler(Matrix22)'}[name] + '<%s>' % E
        S, SB = R.get(name), R.get(build_)
        if S is None or SB is None:
            rep.ob(oid, 'R11.xe', UNDECIDED, (R.err.get(name) or R.err.get(build_) or 'not analysed')[:300]); continue
        where = fn_where(S.fn)
        try:
            n = dim * dim
            o = [S.out('a0', i * sz, sz, lt) for i in range(n)]; b = [SB.out('a0', i * sz, sz, lt) for i in range(n)]
            for _ in range(12):
                pre = {}
                for c in set(c_ for x in o for c_ in P.all_conds(x)):
                    if c.op == 'fcmp' and c.attr == 'olt' and c.args[1].op == 'const' and 0 < T.const_value(c.args[1]) < Fraction(1, 10 ** 30): pre[c] = False       # lengthTiny path
                    elif c.op == 'fcmp' and c.attr in ('oeq', 'une') and any(z.op == 'const' and T.const_value(z) == 0 for z in c.args): pre[c] = (c.attr == 'une')  # length != 0
                if not pre: break
                o = [T.resolve(x, pre) for x in o]
            ang = [agg.slot_in('a1', i, t) for i in range(nang)] if nang == 3 else [agg.scalar_in('a1', t)]
            ctx = tan_half_ctx(ang, t, nang == 3)
            for i in range(3): ctx.positive.add(ctx.key(agg.slot_in('a2', i, t)))
            bad = None
            for i in range(n):
                a_, b_ = ctx.rat(o[i]), ctx.rat(b[i])
                if not ctx.requal(a_, b_):
                    bad = 'entry [%d][%d] rebuilt from the extracted angle(s) is %s, the builder gives %s' % (i // dim, i % dim, P.show_rat(a_, ctx)[:140], P.show_rat(b_, ctx)[:140]); break
            rep.ob(oid, 'R11.xe', VIOLATED if bad else HOLDS, bad or 'rebuilding from the extracted angles gives the builder\'s rotation, for every positive row scaling (generic cell)', where, nontrivial=True)
        except (P.NotPoly, PC.Undecided, vg.Unsupported, OverflowError) as e:
            rep.ob(oid, 'R11.xe', UNDECIDED, repr(e)[:300], where)

def check_reorder(rep, R, RM, t, pairs, both_cells=False):
    import multiprocessing
    _RE[t] = dict(t=t, R=R, RM=RM, both_cells=both_cells)
    jobs = [(t, f, o) for f, o in pairs]
    # heavy (repeated -> repeated) pairs first so that the pool drains evenly
    jobs.sort(key=lambda j: -(len(set(j[1][:3])) == 2 and len(set(j[2][:3])) == 2))
    with multiprocessing.get_context('fork').Pool(build.JOBS) as pool:
        res = pool.map(_re_pair, jobs, chunksize=1)
    for oid, st, msg, where in res:
        rep.ob(oid, 'R11.re', st, msg, where, nontrivial=True)

def main(rep, ws, tier):
    types = 'f' if tier == 'quick' else 'fd'
    orders = ORDERS
    tus = [gen(t, orders) for t in types]; tun = [gen_near(t) for t in types]
    pairs = reorder_pairs(tier)
    tur = [gen_reorder(t, pairs) for t in types]
    tuq = [gen_xquat(t) for t in types]
    an = Analysed(ws, tus + tun + tur + tuq, rep)
    for tq, t in zip(tuq, types): check_xquat(rep, an[tq], t)
    tum_ = [gen_mknear(t) for t in types]
    anm = Analysed(ws, tum_, rep)
    for tm_, t in zip(tum_, types): check_mknear(rep, anm[tm_], t)
    for tn, t in zip(tun, types):
        check_near(rep, an[tn], t)
    for tr, tu, t in zip(tur, tus, types):
        check_reorder(rep, an[tr], an[tu], t, pairs, both_cells=(tier != 'quick'))
    rep.floor('re-ordering constructor pairs', sum(1 for o in rep.obs if o['rule'] == 'R11.re'), len(pairs) * len(types))
    for tu, t in zip(tus, types):
        R = an[tu]; E, sz, lt = ELEM[t]
        def S_(name):
            S = R.get(name)
            if S is None: raise vg.Unsupported(R.err.get(name, 'not analysed'))
            return S
        def outs(S, n): return [S.out('a0', i * sz, sz, lt) for i in range(n)]
        ang = [agg.slot_in('a1', i, t) for i in range(3)]
        def halfangle_ctx():
            ctx = P.Ctx()
            for x in ang:
                hs = [T.binop('fmul', x, T.fp_from_value(lt, 0.5), lt), T.binop('fdiv', x, T.fp_from_value(lt, 2.0), lt)]
                h = hs[0]
                ch, sh = ctx.rat(T.call('cos', [h], lt))[0], ctx.rat(T.call('sin', [h], lt))[0]
                def akey(node):
                    (mono, _), = ctx.rat(node)[0].items()
                    return mono[0][0]
                ctx.lin[akey(T.call('cos', [x], lt))] = P.psub(P.pscale(P.pmul(ch, ch), 2), P.pconst(1))
                ctx.lin[akey(T.call('sin', [x], lt))] = P.pscale(P.pmul(sh, ch), 2)
            ctx.memo.clear()
            return ctx
        for o in orders:
            def ob(name, rule, fn):
                oid = '%s[%s]<%s>' % (name, o, E)
                try:
                    bad, ok, where = fn()
                except (P.NotPoly, PC.Undecided, vg.Unsupported, OverflowError) as e:
                    rep.ob(oid, rule, UNDECIDED, repr(e)[:300]); return
                rep.ob(oid, rule, VIOLATED if bad else HOLDS, bad or ok, where, nontrivial=True)
            def order_():
                a_, b_, c_ = S_('w_order_' + o).out('a0', 0, 4, 'i32'), S_('w_ordval_' + o).out('a0', 0, 4, 'i32'), S_('w_legal_' + o).out('a0', 0, 1, 'i8')
                ok = a_ is b_ and a_.op == 'const' and c_.op == 'const' and c_.attr[1] == 1
                return (None if ok else 'Euler(%s).order() = %s, enumerator = %s, legal = %s' % (o, T.show(a_), T.show(b_), T.show(c_)), 'order() == %s (%#06x), legal' % (o, b_.attr[1] if b_.op == 'const' else 0), fn_where(S_('w_order_' + o).fn))
            ob('order', 'R11.order', order_)
            def m_():
                m3 = outs(S_('w_m33_' + o), 9); m4 = outs(S_('w_m44_' + o), 16)
                zero = T.const_fp(lt, 0); one = T.fp_from_value(lt, 1.0)
                for i in range(4):
                    for j in range(4):
                        want = m3[i * 3 + j] if (i < 3 and j < 3) else (one if i == j else zero)
                        g = m4[i * 4 + j]
                        if g is not want and not T.equiv(g, want):
                            ctx = P.Ctx()
                            if not ctx.requal(ctx.rat(g), ctx.rat(want)):
                                return ('toMatrix44[%d][%d] = %s, toMatrix33 gives %s' % (i, j, T.show(g, 3)[:120], T.show(want, 3)[:120]), None, fn_where(S_('w_m44_' + o).fn))
                ctx = P.Ctx()
                rows = [[ctx.rat(m3[i * 3 + j]) for j in range(3)] for i in range(3)]
                e = ortho_check(ctx, rows)
                if e: return ('toMatrix33: ' + e, None, fn_where(S_('w_m33_' + o).fn))
                return (None, 'toMatrix44 = bordered toMatrix33; orthonormal, det +1', fn_where(S_('w_m33_' + o).fn))
            ob('toMatrix', 'R11.m', m_)
            def x_():
                a_, b_ = outs(S_('w_x33_' + o), 3), outs(S_('w_x44_' + o), 3)
                for i in range(3):
                    if a_[i] is not b_[i] and not T.equiv(a_[i], b_[i], 100000):
                        return ('angle %d: extract(Matrix33) gives %s, extract(Matrix44) gives %s' % (i, T.show(a_[i], 4)[:160], T.show(b_[i], 4)[:160]), None, fn_where(S_('w_x44_' + o).fn))
                # the constructors from a matrix are extract() with the requested order
                for nm, ref in (('w_c33_', a_), ('w_c44_', b_)):
                    c_ = outs(S_(nm + o), 3)
                    for i in range(3):
                        if c_[i] is not ref[i] and not T.equiv(c_[i], ref[i], 100000):
                            return ('angle %d: Euler(%s, order) gives %s, extract() gives %s' % (i, 'Matrix33' if nm == 'w_c33_' else 'Matrix44', T.show(c_[i], 4)[:160], T.show(ref[i], 4)[:160]), None, fn_where(S_(nm + o).fn))
                return (None, 'identical value graphs for the three angles (extract on both matrix types, constructors from both)', fn_where(S_('w_x33_' + o).fn))
            ob('extract 3x3 vs 4x4', 'R11.x', x_)
            def q_():
                qm = outs(S_('w_q_' + o), 9); m3 = outs(S_('w_m33_' + o), 9)
                ctx = halfangle_ctx()
                for i in range(9):
                    if not ctx.requal(ctx.rat(qm[i]), ctx.rat(m3[i])):
                        return ('entry [%d][%d]: via toQuat %s, toMatrix33 %s' % (i // 3, i % 3, P.show_rat(ctx.rat(qm[i]), ctx)[:140], P.show_rat(ctx.rat(m3[i]), ctx)[:140]), None, fn_where(S_('w_q_' + o).fn))
                return (None, 'toQuat().toMatrix33() = toMatrix33() modulo half-angle identities', fn_where(S_('w_q_' + o).fn))
            ob('toQuat', 'R11.q', q_)
            if len(set(o[:3])) == 3:
                def perm_():
                    v = [agg.slot_in('a1', i, t) for i in range(3)]
                    for nm in ('w_perm_', 'w_perm2_', 'w_perm3_', 'w_perm4_', 'w_perm5_'):
                        r = outs(S_(nm + o), 3)
                        if not all(a_ is b_ for a_, b_ in zip(r, v)):
                            return ('%s round trip gives %s' % ({'w_perm_': 'setXYZVector->toXYZVector', 'w_perm2_': 'XYZLayout constructor->toXYZVector', 'w_perm3_': 'toXYZVector->setXYZVector', 'w_perm4_': 'scalar XYZLayout constructor->toXYZVector', 'w_perm5_': 'scalar IJKLayout constructor->slots'}[nm], [T.show(x, 2) for x in r]), None, fn_where(S_(nm + o).fn))
                    return (None, 'setXYZVector, toXYZVector and the XYZ-layout constructor are mutually inverse permutations', fn_where(S_('w_perm_' + o).fn))
                ob('xyz permutation', 'R11.perm', perm_)
            if True:
                def rt_():
                    return roundtrip(S_('w_m33_' + o), S_('w_x33_' + o), o, t, ang)
                ob('extract o toMatrix33', 'R11.rt', rt_)
                def rt2_():
                    return roundtrip_other_cell(S_('w_m33_' + o), S_('w_x33_' + o), o, t, ang)
                ob('extract o toMatrix33 [other cell]', 'R11.rt', rt2_)
        # XYZ == setEulerAngles
        try:
            m4 = outs(S_('w_m44_XYZ'), 16); se = outs(S_('w_seteuler'), 16)
            ctx = P.Ctx(); bad = None
            for i in range(16):
                if not ctx.requal(ctx.rat(m4[i]), ctx.rat(se[i])): bad = 'entry [%d][%d] differs' % (i // 4, i % 4); break
            rep.ob('Euler(XYZ).toMatrix44 == Matrix44::setEulerAngles<%s>' % E, 'R11.xyz', VIOLATED if bad else HOLDS, bad or '16 entries equal', fn_where(S_('w_seteuler').fn))
        except (vg.Unsupported, P.NotPoly) as e:
            rep.ob('Euler(XYZ).toMatrix44 == Matrix44::setEulerAngles<%s>' % E, 'R11.xyz', UNDECIDED, str(e))
        check_anglemod(rep, R, t)
        check_xeuler(rep, R, t)
    narrowing(rep, ws, [gen('d', orders), gen_near('d')], 'R11.prec', allow={'Euler<double>::angleMod': 'angleMod is single precision by the statement of C11', 'Euler<double>::simpleXYZRotation': 'through angleMod, single precision by the statement of C11'})
    rep.floor('per-order obligations', sum(1 for o in rep.obs if o['rule'] in ('R11.order', 'R11.m', 'R11.x', 'R11.q')), 96 * len(types))
    rep.extra['orders_enumerated'] = len(ORDERS)
    rep.extra['exhaustive_over_orders'] = True
    rep.assumptions += ['exact real arithmetic; sin/cos atoms with sin^2+cos^2 = 1', 'R11.rt: generic cell with cos(middle angle) > 0 (repeated-axis orders: sin(middle angle) > 0)']
    rep.undecided_clauses += ['extract at and near gimbal lock, and the alternate-solution cell (cos of the middle angle negative)', 'makeNear / nearestRotation "within pi" claims']

def roundtrip(SM, SX, o, t, ang):
    """toMatrix33(extract(toMatrix33(a))) == toMatrix33(a) with atan2 rules, on the generic cell"""
    E, sz, lt = ELEM[t]
    m3 = [SM.out('a0', i * sz, sz, lt) for i in range(9)]
    xin = [agg.slot_in('a1', i, t) for i in range(9)]
    ex = [T.subst(SX.out('a0', i * sz, sz, lt), dict(zip(xin, m3))) for i in range(3)]
    back = [T.subst(x, dict(zip(ang, ex))) for x in m3]
    ctx = P.Ctx(); ctx.cancel = True
    # positivity cell: the cosine (or sine, for repeated-axis orders) of the middle angle is positive
    repeated = len(set(o[:3])) == 2
    if repeated:
        r_ = ctx.rat(ang[1])
        ctx.prefer_sin.add(((tuple(sorted(r_[0].items())), tuple(sorted(r_[1].items()))),))
        ctx.memo.clear()
    mid = T.call('sin' if repeated else 'cos', [ang[1]], lt)
    (mono, _), = ctx.rat(mid)[0].items()
    ctx.positive.add(mono[0][0])
    install_atan2_rules(ctx)
    for i in range(9):
        a_, b_ = ctx.rat(back[i]), ctx.rat(m3[i])
        if not ctx.requal(a_, b_):
            return ('entry [%d][%d] after extract and rebuild is %s, original %s' % (i // 3, i % 3, P.show_rat(a_, ctx)[:160], P.show_rat(b_, ctx)[:160]), None, fn_where(SX.fn))
    return (None, 'the rebuilt matrix equals the original on the generic cell (cos/sin of atan2 expanded algebraically)', fn_where(SX.fn))

def install_atan2_rules(ctx):
    """cos(atan2(y,x)) = x/sqrt(x^2+y^2), sin(atan2(y,x)) = y/sqrt(x^2+y^2): handled inside Ctx.call through a hook"""
    orig = ctx.call
    def call(n):
        if n.attr in ('cos', 'sin') and len(n.args) == 1:
            a = n.args[0]
            neg = False
            if a.op == 'fneg': a = a.args[0]; neg = True
            if a.op == 'call' and a.attr == 'atan2':
                y, x = ctx.rat(a.args[0]), ctx.rat(a.args[1])
                h2 = ctx.radd(ctx.rmul(x, x), ctx.rmul(y, y))
                h = ctx.rdiv(ctx.sqrt_poly(h2[0]), ctx.sqrt_poly(h2[1]))
                r = ctx.rdiv(x if n.attr == 'cos' else y, h)
                if neg and n.attr == 'sin': r = (P.pneg(r[0]), r[1])
                return r
        return orig(n)
    ctx.call = call

def check_anglemod(rep, R, t):
    E, sz, lt = ELEM[t]
    S = R.get('w_angleMod')
    oid = 'angleMod<%s>' % E
    if S is None:
        rep.ob(oid, 'R11.mod', UNDECIDED, R.err.get('w_angleMod', '')); return
    where = fn_where(S.fn)
    o = S.out('a0', 0, 4, 'float')
    x = agg.scalar_in('a1', t)
    pi = Fraction(struct.unpack('<f', struct.pack('<f', math.pi))[0]) if lt == 'float' else Fraction(math.pi)
    two_pi = Fraction(struct.unpack('<f', struct.pack('<f', float(2 * pi)))[0]) if lt == 'float' else 2 * pi
    # find the fmod node
    fm = None
    stack = [o]; seen = set()
    while stack:
        z = stack.pop()
        if z.id in seen: continue
        seen.add(z.id)
        if z.op in ('frem',) or (z.op == 'call' and z.attr == 'fmod'): fm = z; break
        stack.extend(z.args)
    if fm is None:
        rep.ob(oid, 'R11.mod', VIOLATED, 'no fmod reduction: %s' % T.show(o, 4)[:200], where); return
    per = fm.args[1]
    if not (fm.args[0] is x and per.op == 'const' and abs(T.const_value(per) - two_pi) < Fraction(1, 10 ** 5)):
        rep.ob(oid, 'R11.mod', VIOLATED, 'reduction is %s, expected fmod(angle, 2*pi)' % T.show(fm, 3), where); return
    period = T.const_value(per)
    body = o
    while body.op in ('fptrunc', 'fpext'): body = body.args[0]
    A_ = T.arg(94, fm.ty)
    bad = None; seen_k = set()
    # every assignment of the (possibly nested) tests; infeasible ones are removed by interval reasoning on a = fmod(...)
    for asg in PC.enumerate_cases([body]):
        leaf = T.resolve(body, asg)
        ctx = P.Ctx()
        lo, hi = -period, period            # a in (-2pi, 2pi)
        feasible = True
        for c, v in asg.items():
            if not (c.op == 'fcmp' and c.attr in ('olt', 'ole')): feasible = None; break
            l_, r_ = T.resolve(c.args[0], asg), T.resolve(c.args[1], asg)
            def lin(z):
                while z.op in ('fpext', 'fptrunc'): z = z.args[0]
                if z.op == 'const': return (0, T.const_value(z))
                d_ = ctx.radd(ctx.rat(T.subst(z, {fm: A_})), (P.pneg(ctx.rat(A_)[0]), P.pconst(1)))
                if d_[0] and not (len(d_[0]) == 1 and () in d_[0]): return None
                return (1, d_[0].get((), 0))
            L, Rr = lin(l_), lin(r_)
            if L is None or Rr is None or L[0] == Rr[0]: feasible = None; break
            # (a + cl) < cr   or   cl < (a + cr)
            if L[0] == 1:
                bound = Rr[1] - L[1]          # a < bound  (when v) / a >= bound
                if v: hi = min(hi, bound)
                else: lo = max(lo, bound)
            else:
                bound = L[1] - Rr[1]          # a > bound (when v) / a <= bound
                if v: lo = max(lo, bound)
                else: hi = min(hi, bound)
        if feasible is None:
            bad = 'a test of angleMod is not a comparison of the reduced angle with a constant'; break
        if lo >= hi: continue
        d = ctx.radd(ctx.rat(T.subst(leaf, {fm: A_})), (P.pneg(ctx.rat(A_)[0]), P.pconst(1)))
        if d[0] and not (len(d[0]) == 1 and () in d[0]):
            bad = 'an exit is not fmod(...) + k*2*pi: %s' % T.show(leaf, 3)[:160]; break
        k = (d[0].get((), 0)) / period
        if k not in (-1, 0, 1): bad = 'an exit shifts by %s periods' % k; break
        seen_k.add(int(k))
        # result range for a in (lo, hi): must lie within [-pi, pi]
        rlo, rhi = lo + k * period, hi + k * period
        eps = Fraction(1, 10 ** 6)
        if rlo < -pi - eps or rhi > pi + eps:
            bad = 'for fmod values in (%.4f, %.4f) the result lies in (%.4f, %.4f), outside [-pi, pi]' % (float(lo), float(hi), float(rlo), float(rhi)); break
    if not bad and seen_k != {-1, 0, 1}: bad = 'corrections present: %s (expected -1, 0, +1 periods)' % sorted(seen_k)
    rep.ob(oid, 'R11.mod', VIOLATED if bad else HOLDS, bad or 'fmod(angle, 2*pi), then +2*pi below -pi, -2*pi above pi: congruent and within [-pi, pi]', where)
    S2 = R.get('w_simpleXYZ')
    oid2 = 'simpleXYZRotation<%s>' % E
    if S2 is None:
        rep.ob(oid2, 'R11.mod', UNDECIDED, R.err.get('w_simpleXYZ', '')); return
    bad = None
    for i in range(3):
        xi = agg.slot_in('a0', i, t); ti = agg.slot_in('a1', i, t)
        d = T.binop('fsub', xi, ti, lt)
        am = T.subst(o, {x: d})
        want = T.binop('fadd', ti, T.cast('fptrunc', am, 'float', lt) if lt != 'float' and False else (am if lt == 'float' else T.cast('fpext', am, 'float', lt)), lt)
        got = S2.out('a0', i * sz, sz, lt)
        if got is not want and not T.equiv(got, want, 50000):
            ctx = P.Ctx()
            bad = 'slot %d is %s, expected target + angleMod(x - target)' % (i, T.show(got, 3)[:200]); break
    rep.ob(oid2, 'R11.mod', VIOLATED if bad else HOLDS, bad or 'per slot: target_i + angleMod(x_i - target_i)', fn_where(S2.fn))
