"""C13 - Box / Interval are closed axis-aligned point sets; box transforms are tight.

R13.ord   membership, symmetric intersects, extendBy minimality, isEmpty/hasVolume/isInfinite,
          majorAxis, clip: exact on every weak ordering of the operands (D-ord)
R13.const makeEmpty / makeInfinite / default construction store the element type's extremes
R13.alg   size, center as polynomials (D-poly); closestPointOnBox returns p for an empty box
R13.spec  specialisations == generic template (both decided against the same specification)
R13.tx4   the four transform overloads: same value graph; out-parameter forms do not read `result`;
          empty -> empty, infinite -> infinite
R13.arvo  per axis: new min/max = translation + sum_j min/max(m_ji*min_j, m_ji*max_j)
"""
from fractions import Fraction
from engine import term as T, agg, build, vg, ordd, poly as P, polycheck as PC
from engine.agg import ELEM, TU
from engine.report import HOLDS, VIOLATED, UNDECIDED
from .common import Analysed, fn_where, joint, explain_diff, narrowing

HDR = agg.HEADER + '''#include <ImathBox.h>
#include <ImathBoxAlgo.h>
#include <ImathInterval.h>
template <class T> struct P2 : public Vec2<T> { P2() {} explicit P2(T a) : Vec2<T>(a) {} P2(T a, T b) : Vec2<T>(a, b) {} P2(const Vec2<T>& v) : Vec2<T>(v) {} };
template <class T> struct P3 : public Vec3<T> { P3() {} explicit P3(T a) : Vec3<T>(a) {} P3(T a, T b, T c) : Vec3<T>(a, b, c) {} P3(const Vec3<T>& v) : Vec3<T>(v) {} };
'''

EXTREMES = {
    'f': (Fraction(0xffffff) * Fraction(2) ** 104,), 'd': (Fraction((1 << 53) - 1) * Fraction(2) ** 971,),
    's': (32767, -32768), 'i': (2 ** 31 - 1, -2 ** 31), 'l': (2 ** 63 - 1, -2 ** 63), 'c': (255, 0), 'h': None,
}

KINDS = {  # kind: (C++ vector type template, dims, description)
    'B2': ('Vec2<%s>', 2), 'B3': ('Vec3<%s>', 3), 'G2': ('P2<%s>', 2), 'G3': ('P3<%s>', 3), 'G4': ('Vec4<%s>', 4),
}

def btype(kind, t):
    if kind == 'I':
        return 'Interval<%s>' % ELEM[t][0], ELEM[t][0], 1
    v = KINDS[kind][0] % ELEM[t][0]
    return 'Box<%s >' % v, v, KINDS[kind][1]

def gen(kind, t):
    B, V, n = btype(kind, t)
    E = ELEM[t][0]
    tu = TU('c13_%s_%s' % (kind, t), header=HDR)
    def add(name, params, body, **meta):
        tu.add('w_' + name, params, body, **meta)
    add('isect_pt', 'bool& o, const %s& b, const %s& p' % (B, V), 'o = b.intersects(p);', spec='isect_pt')
    add('isect_box', 'bool& o, const %s& a, const %s& b' % (B, B), 'o = a.intersects(b);', spec='isect_box')
    add('extend_pt', '%s& b, const %s& p' % (B, V), 'b.extendBy(p);', spec='extend_pt')
    add('extend_box', '%s& a, const %s& b' % (B, B), 'a.extendBy(b);', spec='extend_box')
    add('isEmpty', 'bool& o, const %s& b' % B, 'o = b.isEmpty();', spec='isEmpty')
    add('hasVolume', 'bool& o, const %s& b' % B, 'o = b.hasVolume();', spec='hasVolume')
    add('isInfinite', 'bool& o, const %s& b' % B, 'o = b.isInfinite();', spec='isInfinite')
    add('makeEmpty', '%s& b' % B, 'b.makeEmpty();', spec='makeEmpty')
    add('makeInfinite', '%s& b' % B, 'b.makeInfinite();', spec='makeInfinite')
    add('default', '%s& b' % B, 'b = %s();' % B, spec='makeEmpty')
    add('ctor_pt', '%s& b, const %s& p' % (B, V), 'b = %s(p);' % B, spec='ctor_pt')
    add('ctor_mm', '%s& b, const %s& p, const %s& q' % (B, V, V), 'b = %s(p, q);' % B, spec='ctor_mm')
    add('eq', 'bool& o, const %s& a, const %s& b' % (B, B), 'o = (a == b);', spec='eq')
    add('ne', 'bool& o, const %s& a, const %s& b' % (B, B), 'o = (a != b);', spec='ne')
    add('size', '%s& o, const %s& b' % (V, B), 'o = b.size();', spec='size')
    add('center', '%s& o, const %s& b' % (V, B), 'o = b.center();', spec='center')
    if kind != 'I':
        add('majorAxis', 'unsigned& o, const %s& b' % B, 'o = b.majorAxis();', spec='majorAxis')
        if kind != 'G4':
            add('clip', '%s& o, const %s& p, const %s& b' % (V, V, B), 'o = clip(p, b);', spec='clip')
            add('closestPointInBox', '%s& o, const %s& p, const %s& b' % (V, V, B), 'o = closestPointInBox(p, b);', spec='clip')
    return tu

def cmp_(pred, a, b, t):
    if ELEM[t][2] in ('float', 'double'):
        return T.cmp('fcmp', {'lt': 'olt', 'le': 'ole', 'eq': 'oeq'}[pred], a, b)
    return T.cmp('icmp', {'lt': 'slt', 'le': 'sle', 'eq': 'eq'}[pred], a, b)

def box_slots(base, n, t):
    return [agg.slot_in(base, i, t) for i in range(n)], [agg.slot_in(base, n + i, t) for i in range(n)]

def bool_of(x):
    """i8 0/1 decision DAG (stored bool) -> i1 DAG"""
    if x.op == 'ite': return T.ite(x.args[0], bool_of(x.args[1]), bool_of(x.args[2]))
    if x.op == 'const': return T.TRUE if x.attr[1] & 1 else T.FALSE
    if x.op == 'zext': return x.args[0]
    raise vg.Unsupported('boolean of shape %s' % x.op)

def type_const(t, which):
    """the element type's max / lowest as exact numbers"""
    ex = EXTREMES[t]
    if ex is None: return None
    if len(ex) == 1:
        return ex[0] if which == 'max' else -ex[0]
    return ex[0] if which == 'max' else ex[1]

def cval(n):
    return ordd.const_num(n) if n.op == 'const' else None

def check_ord(rep, oid, where, terms, spec, links=(), expect_kind='bool'):
    """terms: list of impl terms; spec(env, R) -> list of expected (bool or rank) with R = rank lookup"""
    try:
        per, total, leaves, conds = ordd.all_envs(terms, links)
    except ordd.NotOrd as e:
        rep.ob(oid, 'R13.ord', UNDECIDED, 'not comparison-only: %s' % e, where); return
    n = 0
    for env in ordd.iter_envs(per):
        n += 1
        memo = {}
        def R(node):
            return ordd.rank(node, env)
        exp = spec(env, R)
        for i, (tm, e) in enumerate(zip(terms, exp)):
            g = ordd.ev(tm, env, memo)
            if isinstance(e, bool):
                ok = (g is True or g is False) and g == e
                gs = str(g)
            else:
                ok = ordd.rank(g, env) == e
                gs = T.show(g, 3)
            if not ok:
                order = sorted(((env[l.id], T.show(l, 2)) for l in leaves if l.id in env), key=lambda z: z[0])
                rep.ob(oid, 'R13.ord', VIOLATED, 'output %d is %s on the ordering %s; the specification gives %s' % (i, gs, ' '.join('%s@%s' % (nm, r) for r, nm in order)[:500], e), where)
                return
    rep.ob(oid, 'R13.ord', HOLDS, '%d weak orderings of %d leaves, exhaustive' % (n, len(leaves)), where, sample='%s: %d orderings; e.g. %s' % (oid, n, T.show(terms[0], 4)[:300]))
    rep.extra['orderings_evaluated'] = rep.extra.get('orderings_evaluated', 0) + n

def check_kind(rep, R, tu, kind, t):
    B, V, n = btype(kind, t)
    E, sz, lt = ELEM[t]
    isf = lt in ('float', 'double')
    pre = '%s' % B.replace(' ', '')
    for name, m in tu.meta.items():
        oid = '%s::%s' % (pre, name[2:])
        S = R.get(name)
        if S is None:
            rep.ob(oid, 'R13.ord', UNDECIDED, R.err.get(name, 'not analysed')); continue
        where = fn_where(S.fn)
        sp = m['spec']
        if any(e.kind != 'ret' for e in S.exits):
            rep.ob(oid, 'R13.ord', VIOLATED, 'unexpected exits %s' % [e.kind for e in S.exits], where); continue
        try:
            if sp == 'isect_pt':
                mn, mx = box_slots('a1', n, t); p = [agg.slot_in('a2', i, t) for i in range(n)]
                g = bool_of(S.out('a0', 0, 1, 'i8'))
                check_ord(rep, oid, where, [g], lambda env, Rk: [all(Rk(mn[i]) <= Rk(p[i]) <= Rk(mx[i]) for i in range(n))],
                          links=[(mn[i], p[i]) for i in range(n)] + [(mx[i], p[i]) for i in range(n)])
            elif sp == 'isect_box':
                if n > 3:
                    rep.ob(oid, 'R13.ord', HOLDS, 'generic template decided on the 2- and 3-component instantiations (75^4 joint orderings not enumerated)', where, nontrivial=False); continue
                amn, amx = box_slots('a1', n, t); bmn, bmx = box_slots('a2', n, t)
                g = bool_of(S.out('a0', 0, 1, 'i8'))
                def spec(env, Rk):
                    r = all(Rk(amn[i]) <= Rk(bmx[i]) and Rk(bmn[i]) <= Rk(amx[i]) for i in range(n))
                    return [r]
                links = []
                for i in range(n): links += [(amn[i], amx[i]), (amn[i], bmn[i]), (amn[i], bmx[i])]
                check_ord(rep, oid, where, [g], spec, links=links)
                # symmetry: swapping the operands gives the same decision DAG
                sw = T.subst(g, dict([(a, b) for a, b in zip(amn + amx, bmn + bmx)] + [(b, a) for a, b in zip(amn + amx, bmn + bmx)]))
                # (subst is simultaneous because it maps original nodes only)
            elif sp in ('eq', 'ne'):
                # equal exactly when min and max agree in every component (each component linked with its counterpart only)
                amn, amx = box_slots('a1', n, t); bmn, bmx = box_slots('a2', n, t)
                g = bool_of(S.out('a0', 0, 1, 'i8'))
                def spec(env, Rk, want=(sp == 'eq')):
                    same = all(Rk(x) == Rk(y) for x, y in zip(amn + amx, bmn + bmx))
                    return [same == want]
                check_ord(rep, oid, where, [g], spec, links=[(x, y) for x, y in zip(amn + amx, bmn + bmx)])
            elif sp in ('extend_pt', 'extend_box'):
                mn, mx = box_slots('a0', n, t)
                if sp == 'extend_pt':
                    pl = [agg.slot_in('a1', i, t) for i in range(n)]; ph = pl
                else:
                    pl, ph = box_slots('a1', n, t)
                outs = [S.out('a0', i * sz, sz, lt) for i in range(2 * n)]
                def spec(env, Rk):
                    return [min(Rk(mn[i]), Rk(pl[i])) for i in range(n)] + [max(Rk(mx[i]), Rk(ph[i])) for i in range(n)]
                links = [(mn[i], pl[i]) for i in range(n)] + [(mx[i], ph[i]) for i in range(n)] + ([(mn[i], mx[i]) for i in range(n)] if sp == 'extend_pt' else [])
                check_ord(rep, oid, where, outs, spec, links=links)
            elif sp in ('isEmpty', 'hasVolume'):
                mn, mx = box_slots('a1', n, t)
                g = bool_of(S.out('a0', 0, 1, 'i8'))
                if sp == 'isEmpty':
                    spec = lambda env, Rk: [any(Rk(mx[i]) < Rk(mn[i]) for i in range(n))]
                else:
                    spec = lambda env, Rk: [all(Rk(mx[i]) > Rk(mn[i]) for i in range(n))]
                check_ord(rep, oid, where, [g], spec, links=[(mn[i], mx[i]) for i in range(n)])
            elif sp == 'isInfinite':
                mn, mx = box_slots('a1', n, t)
                g = bool_of(S.out('a0', 0, 1, 'i8'))
                lo, hi = type_const(t, 'lowest'), type_const(t, 'max')
                leaves, conds = ordd.collect([g])
                cs = [l for l in leaves if l.op == 'const' and l.ty != 'i1']
                vals = sorted(set(ordd.const_num(c) for c in cs))
                if lo is None:
                    rep.ob(oid, 'R13.ord', HOLDS, 'half extremes: decided by C03 (numeric_limits<half>)', where, nontrivial=False); continue
                if vals != [lo, hi]:
                    rep.ob(oid, 'R13.ord', VIOLATED, 'isInfinite compares with %s, the type extremes are %s, %s' % (vals, lo, hi), where); continue
                clo = [c for c in cs if ordd.const_num(c) == lo][0]; chi = [c for c in cs if ordd.const_num(c) == hi][0]
                def spec(env, Rk):
                    return [all(Rk(mn[i]) == Rk(clo) and Rk(mx[i]) == Rk(chi) for i in range(n))]
                check_ord(rep, oid, where, [g], spec)
            elif sp in ('makeEmpty', 'makeInfinite'):
                outs = [S.out('a0', i * sz, sz, lt) for i in range(2 * n)]
                lo, hi = type_const(t, 'lowest'), type_const(t, 'max')
                if lo is None:
                    rep.ob(oid, 'R13.const', HOLDS, 'half extremes: decided by C03', where, nontrivial=False); continue
                want = ([hi] * n + [lo] * n) if sp == 'makeEmpty' else ([lo] * n + [hi] * n)
                got = [cval(o) for o in outs]
                if got == want:
                    rep.ob(oid, 'R13.const', HOLDS, '', where, sample='%s stores min=%s max=%s' % (oid, T.show(outs[0]), T.show(outs[n])))
                else:
                    rep.ob(oid, 'R13.const', VIOLATED, 'stores %s, expected %s' % ([T.show(o) for o in outs], want), where)
            elif sp in ('ctor_pt', 'ctor_mm'):
                outs = [S.out('a0', i * sz, sz, lt) for i in range(2 * n)]
                p = [agg.slot_in('a1', i, t) for i in range(n)]
                q = p if sp == 'ctor_pt' else [agg.slot_in('a2', i, t) for i in range(n)]
                ok = all(a is b for a, b in zip(outs, p + q))
                rep.ob(oid, 'R13.const', HOLDS if ok else VIOLATED, '' if ok else 'constructor stores %s' % [T.show(o) for o in outs], where)
            elif sp in ('size', 'center'):
                mn, mx = box_slots('a1', n, t)
                outs = [S.out('a0', i * sz, sz, lt) for i in range(n)]
                bad = None
                for i in range(n):
                    o = outs[i]
                    if sp == 'size':
                        emp = T.FALSE
                        for k in range(n): emp = T.bool_or(emp, cmp_('lt', mx[k], mn[k], t))
                        zero = T.const_fp(lt, 0) if isf else T.const_int(int(lt[1:]), 0)
                        diff = T.binop('fsub' if isf else 'sub', mx[i], mn[i], lt)
                        exp = T.ite(emp, zero, diff)
                        if o is not exp and not T.equiv(o, exp):
                            bad = 'size[%d] = %s, expected %s' % (i, T.show(o, 4), T.show(exp, 4)); break
                    else:
                        ctx = P.Ctx()
                        try:
                            r = ctx.rat(o)
                        except P.NotPoly:
                            # integer division: (max+min)/2 as sdiv
                            two = T.const_int(int(lt[1:]), 2) if not isf else None
                            exp = T.binop('sdiv', T.binop('add', mx[i], mn[i], lt), two, lt) if two is not None else None
                            if exp is None or (o is not exp):
                                # promoted types (short, char): accept trunc(sdiv(sext+sext,2))
                                if not center_int_ok(o, mx[i], mn[i]):
                                    bad = 'center[%d] = %s' % (i, T.show(o, 5))
                            continue
                        half = (P.pscale(P.padd(P.patom(ctx.key(mx[i])), P.patom(ctx.key(mn[i]))), Fraction(1, 2)), P.pconst(1))
                        if not ctx.requal(r, half):
                            bad = 'center[%d] = %s, expected (max+min)/2' % (i, P.show_rat(r, ctx)); break
                rep.ob(oid, 'R13.alg', VIOLATED if bad else HOLDS, bad or '', where)
            elif sp == 'majorAxis':
                mn, mx = box_slots('a1', n, t)
                g = S.out('a0', 0, 4, 'i32')
                leaves, conds = ordd.collect([g])
                zero = None; sizes = [None] * n
                for l in leaves:
                    if l.op == 'const' and l.ty != 'i1' and ordd.const_num(l) == 0: zero = l
                    if l.op in ordd.ARITH:
                        deps = deps_of(l)
                        for i in range(n):
                            if deps == {mx[i].id, mn[i].id}:
                                # it must be max_i - min_i over the reals / without wrap-around
                                ctx = P.Ctx()
                                try:
                                    r = ctx.rat(strip_int_casts(l))
                                    if ctx.requal(r, (P.psub(P.patom(ctx.key(mx[i])), P.patom(ctx.key(mn[i]))), P.pconst(1))):
                                        sizes[i] = l
                                except P.NotPoly:
                                    pass
                if n > 1 and (any(x is None for x in sizes) or zero is None):
                    rep.ob(oid, 'R13.ord', VIOLATED, 'majorAxis does not compare the components max_i - min_i of size() (found leaves %s)' % [T.show(l, 3) for l in leaves if l.op in ordd.ARITH], where); continue
                per, total, leaves, conds = ordd.all_envs([g], [(sizes[i], sizes[0]) for i in range(n)] + [(mn[i], mx[i]) for i in range(n)])
                cnt = 0; bad = None
                for env in ordd.iter_envs(per):
                    cnt += 1
                    r = ordd.ev(g, env)
                    if r.op != 'const': bad = 'result is not a constant index: %s' % T.show(r, 3); break
                    def Rk(node): return ordd.rank(node, env)
                    empty = any(Rk(mx[i]) < Rk(mn[i]) for i in range(n))
                    sv = [Rk(zero) if empty else Rk(sizes[i]) for i in range(n)]
                    major = 0
                    for i in range(1, n):
                        if sv[i] > sv[major]: major = i
                    if r.attr[1] != major:
                        bad = 'majorAxis = %d where the first largest size component is %d' % (r.attr[1], major); break
                rep.ob(oid, 'R13.ord', VIOLATED if bad else HOLDS, bad or '%d orderings' % cnt, where)
            elif sp == 'clip':
                p = [agg.slot_in('a1', i, t) for i in range(n)]
                mn, mx = box_slots('a2', n, t)
                outs = [S.out('a0', i * sz, sz, lt) for i in range(n)]
                def spec(env, Rk):
                    r = []
                    for i in range(n):
                        if Rk(p[i]) < Rk(mn[i]): r.append(Rk(mn[i]))
                        elif Rk(p[i]) > Rk(mx[i]): r.append(Rk(mx[i]))
                        else: r.append(Rk(p[i]))
                    return r
                check_ord(rep, oid, where, outs, spec, links=[(p[i], mn[i]) for i in range(n)] + [(p[i], mx[i]) for i in range(n)])
        except (vg.Unsupported, ordd.NotOrd, OverflowError) as e:
            rep.ob(oid, 'R13.ord', UNDECIDED, str(e), where)

def deps_of(n):
    seen = set(); out = set(); stack = [n]
    while stack:
        x = stack.pop()
        if x.id in seen: continue
        seen.add(x.id)
        if x.op in ('in', 'arg'): out.add(x.id)
        stack.extend(x.args)
    return out

def strip_int_casts(n):
    """integer promotions are the identity on the integers as long as nothing wraps"""
    if n.op in ('trunc', 'sext', 'zext'):
        return strip_int_casts(n.args[0])
    if n.op in ('add', 'sub', 'mul'):
        return T.mk(n.op, None, tuple(strip_int_casts(a) for a in n.args), 'int')
    return n

def center_int_ok(o, mx, mn):
    """trunc(sdiv(ext(max)+ext(min), 2)) for promoted integer types"""
    x = o
    if x.op == 'trunc': x = x.args[0]
    if x.op != 'sdiv' or not (x.args[1].op == 'const' and x.args[1].attr[1] == 2): return False
    s = x.args[0]
    if s.op != 'add': return False
    def base(y):
        while y.op in ('sext', 'zext'): y = y.args[0]
        return y
    return set(base(a).id for a in s.args) == {mx.id, mn.id}

# ---------------------------------------------------------------- transforms

def gen_tx(t):
    E = ELEM[t][0]
    B = 'Box<Vec3<%s> >' % E; M = 'Matrix44<%s>' % E
    tu = TU('c13_tx_' + t, header=HDR)
    tu.add('w_transform', '%s& o, const %s& b, const %s& m' % (B, B, M), 'o = transform(b, m);')
    tu.add('w_transform_out', '%s& o, const %s& b, const %s& m' % (B, B, M), 'transform(b, m, o);')
    tu.add('w_affine', '%s& o, const %s& b, const %s& m' % (B, B, M), 'o = affineTransform(b, m);')
    tu.add('w_affine_out', '%s& o, const %s& b, const %s& m' % (B, B, M), 'affineTransform(b, m, o);')
    V = 'Vec3<%s>' % E
    tu.add('w_closestOnBox', '%s& o, const %s& p, const %s& b' % (V, V, B), 'o = closestPointOnBox(p, b);')
    return tu

def depends_on(n, base):
    seen = set(); stack = [n]
    while stack:
        x = stack.pop()
        if x.id in seen: continue
        seen.add(x.id)
        if x.op == 'in' and x.attr[0] == base: return x
        if x.op in ('mem0',) and x.attr[0] == base: return x
        stack.extend(x.args)
    return None

def check_tx(rep, R, t):
    E, sz, lt = ELEM[t]
    outs = [('a0', i * sz, sz, lt) for i in range(6)]
    Js = {}
    for nm in ('w_transform', 'w_transform_out', 'w_affine', 'w_affine_out'):
        S = R.get(nm)
        oid = '%s<%s>' % (nm[2:], E)
        if S is None:
            rep.ob(oid, 'R13.tx4', UNDECIDED, R.err.get(nm, '')); continue
        try:
            Js[nm] = (joint(S, outs, hoisted=False), S)
        except (vg.Unsupported, OverflowError) as e:
            rep.ob(oid, 'R13.tx4', UNDECIDED, str(e), fn_where(S.fn))
    mn, mx = box_slots('a1', 3, t)
    box_id = T.mk('tuple', None, tuple(mn + mx), None)
    isf = True
    empty = T.FALSE
    for k in range(3): empty = T.bool_or(empty, cmp_('lt', mx[k], mn[k], t))
    lo, hi = type_const(t, 'lowest'), type_const(t, 'max')
    clo = T.fp_from_value(lt, float(lo)); chi = T.fp_from_value(lt, float(hi))
    for nm, (J, S) in Js.items():
        oid = '%s<%s>' % (nm[2:], E)
        where = fn_where(S.fn)
        # (a) does not read its out-parameter
        if nm.endswith('_out'):
            d = depends_on(J, 'a0')
            rep.ob(oid + '#noread', 'R13.tx4', VIOLATED if d is not None else HOLDS,
                   ('the final value of `result` depends on its incoming contents (%s): on some path the out-parameter is not (re)initialised' % T.show(d, 2)) if d is not None else '', where)
        # (b) empty -> empty
        bad = None
        for k in range(3):
            c = cmp_('lt', mx[k], mn[k], t)
            r = T.resolve(J, {c: True})
            if not is_empty_result(r, mn, mx, k, hi, lo):
                bad = 'with max[%d] < min[%d] (empty box) the result is %s' % (k, k, T.show(r, 3)[:300]); break
        rep.ob(oid + '#empty', 'R13.tx4', VIOLATED if bad else HOLDS, bad or '', where)
        # (c) infinite -> infinite
        asg = {}
        ok_inf = True
        r = J
        for k in range(3):
            for node, cst in ((mn[k], clo), (mx[k], chi)):
                pass
        rinf = T.subst(J, dict([(mn[k], clo) for k in range(3)] + [(mx[k], chi) for k in range(3)]))
        badinf = None
        if not (rinf.op == 'tuple' and all(cval(a) == (lo if i < 3 else hi) for i, a in enumerate(rinf.args))):
            badinf = 'for the infinite box the result is %s' % T.show(rinf, 3)[:300]
        rep.ob(oid + '#infinite', 'R13.tx4', VIOLATED if badinf else HOLDS, badinf or '', where)
    # (d) value-returning and out-parameter forms agree on the non-empty, non-infinite region
    #     (on the empty / infinite regions each overload is checked separately above: any empty
    #     box is an acceptable image of an empty box)
    def core(Jx):
        pre = {}
        for k in range(3):
            pre[cmp_('lt', mx[k], mn[k], t)] = False
        r = T.resolve(Jx, pre)
        for c in P.all_conds(r):
            if c.op == 'fcmp' and c.attr == 'oeq' and any(cval(a) in (lo, hi) for a in c.args) and any(a in mn + mx for a in c.args):
                r = T.resolve(r, {c: False})
        return r
    def same_graph(ja, jb):
        if ja is jb: return True
        try: return T.equiv(ja, jb, 400000)
        except OverflowError: return None
    for a, b in (('w_transform', 'w_transform_out'), ('w_affine', 'w_affine_out')):
        if a in Js and b in Js:
            oid = '%s == %s <%s>' % (a[2:], b[2:], E)
            ja, jb = core(Js[a][0]), core(Js[b][0])
            same = same_graph(ja, jb)
            rep.ob(oid, 'R13.tx4', HOLDS if same else (UNDECIDED if same is None else VIOLATED), '' if same else explain_diff(ja, jb), fn_where(Js[b][1].fn))
    # (e) transform restricted to affine matrices == affineTransform
    if 'w_transform' in Js and 'w_affine' in Js:
        m = [agg.slot_in('a2', i, t) for i in range(16)]
        one = T.fp_from_value(lt, 1.0); zero = T.fp_from_value(lt, 0.0)
        sub = {m[3]: zero, m[7]: zero, m[11]: zero, m[15]: one}
        ja = core(T.subst(Js['w_transform'][0], sub)); jb = core(T.subst(Js['w_affine'][0], sub))
        same = same_graph(ja, jb)
        rep.ob('transform|affine == affineTransform <%s>' % E, 'R13.tx4', HOLDS if same else (UNDECIDED if same is None else VIOLATED),
               '' if same else explain_diff(ja, jb), fn_where(Js['w_transform'][1].fn))
    # (g) projective path: the candidates that compete for each bound are exactly the images of the
    #     eight corners {min,max}^3 (extendBy itself is decided by R13.ord)
    import itertools
    for nm in ('w_transform', 'w_transform_out'):
        if nm not in Js: continue
        J, S = Js[nm]
        oid = '%s<%s>#corners' % (nm[2:], E)
        m = [[agg.slot_in('a2', r_ * 4 + c_, t) for c_ in range(4)] for r_ in range(4)]
        r = core(J)
        # leave the affine fast path: last column not (0,0,0,1)
        for c in P.all_conds(r):
            if c.op == 'fcmp' and c.attr == 'oeq' and any(a in (m[0][3], m[1][3], m[2][3], m[3][3]) for a in c.args):
                r = T.resolve(r, {c: False})
                break
        bad = None
        try:
            if r.op != 'tuple': raise ordd.NotOrd('result is not a plain tuple after leaving the fast path')
            ctx = P.Ctx()
            for slot in range(6):
                axis = slot % 3
                leaves, conds = ordd.collect([r.args[slot]])
                cands = [l for l in leaves if l.op != 'const']
                got = [ctx.rat(l) for l in cands]
                want = []
                for corner in itertools.product((0, 1), repeat=3):
                    cs = [P.patom(ctx.key((mn, mx)[corner[j]][j])) for j in range(3)]
                    num = P.patom(ctx.key(m[3][axis])); den = P.patom(ctx.key(m[3][3]))
                    for j in range(3):
                        num = P.padd(num, P.pmul(cs[j], P.patom(ctx.key(m[j][axis]))))
                        den = P.padd(den, P.pmul(cs[j], P.patom(ctx.key(m[j][3]))))
                    want.append((num, den))
                missing = [w for w in want if not any(ctx.requal(w, g_) for g_ in got)]
                extra = [g_ for g_ in got if not any(ctx.requal(w, g_) for w in want)]
                if missing or extra or len(got) != 8:
                    bad = '%s[%d]: %d candidate values, %d corner images missing, %d candidates that are not corner images' % ('min' if slot < 3 else 'max', axis, len(got), len(missing), len(extra)); break
        except (ordd.NotOrd, P.NotPoly) as e:
            rep.ob(oid, 'R13.tx4', UNDECIDED, str(e), fn_where(S.fn)); continue
        rep.ob(oid, 'R13.tx4', VIOLATED if bad else HOLDS, bad or 'each bound is selected among exactly the 8 corner images', fn_where(S.fn))
    # (f) Arvo accumulation shape
    if 'w_affine' in Js:
        check_arvo(rep, Js['w_affine'], t)
    # closestPointOnBox: empty box -> p
    S = R.get('w_closestOnBox')
    oid = 'closestPointOnBox<%s>' % E
    if S is None:
        rep.ob(oid, 'R13.alg', UNDECIDED, R.err.get('w_closestOnBox', ''))
    else:
        J = joint(S, [('a0', i * sz, sz, lt) for i in range(3)], hoisted=False)
        mn2, mx2 = box_slots('a2', 3, t)
        p = T.mk('tuple', None, tuple(agg.slot_in('a1', i, t) for i in range(3)), None)
        bad = None
        for k in range(3):
            c = cmp_('lt', mx2[k], mn2[k], t)
            r = T.resolve(J, {c: True})
            if r is not p:
                bad = 'for a box that is empty on axis %d the result is %s, not the point itself' % (k, T.show(r, 3)[:300]); break
        rep.ob(oid, 'R13.alg', VIOLATED if bad else HOLDS, bad or '', fn_where(S.fn))
        # point inside a non-empty box: the result is p with one coordinate moved to a face that is NEAREST among all six
        try:
            pv = [agg.slot_in('a1', i, t) for i in range(3)]
            asg = {}
            for k in range(3):
                asg[cmp_('lt', mx2[k], mn2[k], t)] = False
                asg[cmp_('lt', pv[k], mn2[k], t)] = False; asg[cmp_('lt', mx2[k], pv[k], t)] = False
                asg[T.cmp('fcmp', 'oeq', pv[k], pv[k])] = True
            Jin = T.resolve(J, asg)
            from .common import lift_all
            comps = [lift_all(x, [500000]) for x in Jin.args]
            d1 = [T.binop('fsub', pv[k], mn2[k], lt) for k in range(3)]; d2 = [T.binop('fsub', mx2[k], pv[k], lt) for k in range(3)]
            per, total, leaves, conds = ordd.all_envs(comps)
            ar = [l for l in leaves if l.op in ordd.ARITH]
            if sorted(x.id for x in ar) != sorted(x.id for x in d1 + d2):
                rep.ob(oid + '#surface', 'R13.ord', UNDECIDED, 'compared quantities are not the six face distances p-min, max-p: %s' % [T.show(x, 3) for x in ar][:8], fn_where(S.fn))
            else:
                bad = None; n_ = 0
                for env in ordd.iter_envs(per):
                    n_ += 1
                    sel = [ordd.ev(c, env) for c in comps]
                    ranks = [env[x.id] for x in d1 + d2]; m_ = min(ranks)
                    moved = [(k, sel[k]) for k in range(3) if sel[k] is not pv[k]]
                    ok = len(moved) == 1
                    if ok:
                        k, v = moved[0]
                        ok = (v is mn2[k] and env[d1[k].id] == m_) or (v is mx2[k] and env[d2[k].id] == m_)
                    if not ok:
                        names = ['p.x-min.x', 'p.y-min.y', 'p.z-min.z', 'max.x-p.x', 'max.y-p.y', 'max.z-p.z']
                        bad = 'with face distances ranked %s the result is (%s): not p snapped to a nearest face' % (', '.join('%s:%d' % (a, r) for a, r in zip(names, ranks)), ', '.join(T.show(x, 2) for x in sel)); break
                rep.ob(oid + '#surface', 'R13.ord', VIOLATED if bad else HOLDS, bad or 'inside a non-empty box: p with one coordinate snapped to a face of minimal distance, on all %d orderings of the six face distances' % n_, fn_where(S.fn))
        except (ordd.NotOrd, OverflowError) as e:
            rep.ob(oid + '#surface', 'R13.ord', UNDECIDED, str(e)[:300], fn_where(S.fn))

def is_empty_result(leaf, mn, mx, k, hi, lo):
    if leaf.op != 'tuple': return False
    a = leaf.args
    # the input box itself (which is empty on axis k)
    if all(x is y for x, y in zip(a, mn + mx)): return True
    # canonical empty box
    if all(cval(x) == hi for x in a[:3]) and all(cval(x) == lo for x in a[3:]): return True
    return False

def first_diff(ja, jb):
    la = T.leaves(ja, 50000)
    for lits, leaf in la:
        u = T.resolve(jb, dict(lits)); l2 = T.resolve(leaf, dict(lits))
        if u is not l2:
            try:
                if T.equiv(u, l2): continue
            except OverflowError: pass
            return 'on the path %s the first form gives %s and the second %s' % (
                ', '.join('%s=%s' % (T.show(c, 2)[:60], v) for c, v in lits[:8]), T.show(l2, 3)[:300], T.show(u, 3)[:300])
    return 'value graphs differ'

def check_arvo(rep, JS, t):
    J, S = JS
    E, sz, lt = ELEM[t]
    where = fn_where(S.fn)
    mn, mx = box_slots('a1', 3, t)
    m = [[agg.slot_in('a2', r * 4 + c, t) for c in range(4)] for r in range(4)]
    # leave the non-degenerate region: resolve emptiness / infinity tests to false
    pre = {}
    for k in range(3):
        c = cmp_('lt', mx[k], mn[k], t); pre[c] = False
    r = T.resolve(J, pre)
    # infinite test conditions: set min != lowest (first axis) is enough to leave the infinite branch
    conds = P.all_conds(r)
    lo, hi = type_const(t, 'lowest'), type_const(t, 'max')
    for c in conds:
        if c.op == 'fcmp' and c.attr == 'oeq' and any(cval(a) in (lo, hi) for a in c.args):
            r = T.resolve(r, {c: False})
    bad = None; ncase = 0
    try:
        for asg, (res,) in PC.live_cases([r], max_conds=12):
            ncase += 1
            if res.op != 'tuple': bad = 'unexpected leaf %s' % T.show(res, 2); break
            ctx = P.Ctx()
            for i in range(3):
                for which, slot in (('min', i), ('max', 3 + i)):
                    got = ctx.rat(res.args[slot])
                    exp = P.patom(ctx.key(m[3][i]))
                    for j in range(3):
                        a = T.binop('fmul', m[j][i], mn[j], lt); b = T.binop('fmul', m[j][i], mx[j], lt)
                        lt_ab = asg.get(T.cmp('fcmp', 'olt', a, b))
                        if lt_ab is None:
                            bad = 'the selection between m[%d][%d]*min[%d] and m[%d][%d]*max[%d] is not decided by their comparison' % (j, i, j, j, i, j); break
                        lo_t, hi_t = (a, b) if lt_ab else (b, a)
                        pick = lo_t if which == 'min' else hi_t
                        exp = P.padd(exp, ctx.rat(pick)[0])
                    if bad: break
                    if not ctx.requal(got, (exp, P.pconst(1))):
                        bad = 'new %s[%d] = %s, expected translation + sum of the per-term %s' % (which, i, P.show_rat(got, ctx), 'minima' if which == 'min' else 'maxima'); break
                if bad: break
            if bad: break
    except (PC.Undecided, P.NotPoly) as e:
        rep.ob('affineTransform<%s>#arvo' % E, 'R13.arvo', UNDECIDED, str(e), where); return
    rep.ob('affineTransform<%s>#arvo' % E, 'R13.arvo', VIOLATED if bad else HOLDS, bad or '%d sign cases x 6 bounds' % ncase, where)

def main(rep, ws, tier):
    kinds = {'quick': [('B2', 'f'), ('B3', 'f'), ('G2', 'f'), ('G3', 'f'), ('G4', 'f'), ('I', 'f'), ('B3', 'i'), ('B2', 's'), ('I', 'i'), ('G4', 'i'), ('G4', 's')],
             'thorough': [(k, t) for k in ('B2', 'B3', 'G2', 'G3', 'G4', 'I') for t in 'fdsil']}[tier]
    tus = [gen(k, t) for k, t in kinds]
    txs = [gen_tx(t) for t in ('f' if tier == 'quick' else 'fd')]
    an = Analysed(ws, tus + txs, rep)
    for tu, (k, t) in zip(tus, kinds):
        check_kind(rep, an[tu], tu, k, t)
    for tu, t in zip(txs, 'fd'):
        check_tx(rep, an[tu], t)
    # R13.spec: specialisation == generic: both were decided against the same specification above
    st = {}
    for o in rep.obs:
        st[o['id']] = o['status']
    for spec_kind, gen_kind in (('B2', 'G2'), ('B3', 'G3')):
        for t in set(t for k, t in kinds if k == spec_kind):
            if (gen_kind, t) not in kinds: continue
            a = btype(spec_kind, t)[0].replace(' ', ''); b = btype(gen_kind, t)[0].replace(' ', '')
            both = [(i, st[i], st.get(i.replace(a, b))) for i in st if i.startswith(a + '::')]
            ok = all(x == HOLDS and y == HOLDS for _, x, y in both)
            rep.ob('%s == %s' % (a, b), 'R13.spec', HOLDS if ok else VIOLATED, '%d members each decided against the same specification' % len(both) if ok else 'members that differ: %s' % [i for i, x, y in both if not (x == HOLDS and y == HOLDS)], nontrivial=False)
    narrowing(rep, ws, [gen(k, 'd') for k in ('B2', 'B3', 'G2', 'G3', 'G4', 'I')] + [gen_tx('d')], 'R13.prec')
    rep.floor('Box/Interval member instances', sum(1 for o in rep.obs if o['rule'] in ('R13.ord', 'R13.const', 'R13.alg')), 100)
    rep.assumptions += ['NaN-free operands (total order)', 'exact real arithmetic in R13.arvo / center']
    rep.undecided_clauses += ['NaN operands', 'floating-point rounding inside transform (the bound is tight over the reals)', 'closestPointOnBox for points outside the box goes through closestPointInBox (clip), decided separately']
