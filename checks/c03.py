"""C03 - half is a coherent numeric type (decided part).

R03.cmp    the eight compound operators are f2h(fop(h2f(lhs), h2f(rhs) | rhs)) with the named float operation
R03.neg    unary minus == bits ^ 0x8000
R03.class  over the exponent/mantissa cell lattice exactly one of zero/normalized/denormalized/infinity/NaN
           holds, with the IEEE meaning; isFinite <=> E < 31; isNegative <=> sign bit
R03.lim    numeric_limits<half> bit patterns and integer constants recomputed from (p = 11, emax = 15);
           each HALF_* literal (both #if arms) rounds to nearest binary16 to the corresponding pattern
R03.round  round(n), n = 0..9 and n >= 10: sign re-attached unchanged, low 10-n significand bits cleared,
           round-half-up on the magnitude by threshold reasoning (within half a unit of n-bit precision),
           truncation exactly when rounding reaches the infinity pattern
R03.io     operator<< inserts float(h) once and touches no formatting state; operator>> extracts one float and stores half(f)
R03.hf     halfFunction: table size = loop bound = 2^16 = index range; decision order NaN -> inf (by sign)
           -> outside domain -> f(x), for both signs and zero / subnormal / normal exponent fields; operator() returns _lut[x.bits()]
"""
import re, subprocess, math
from fractions import Fraction
from engine import term as T, build, vg, bits as B
from engine.agg import TU
from engine.report import HOLDS, VIOLATED, UNDECIDED
from .common import Analysed, fn_where, hoist

def gen():
    tu = TU('c03', header='#include <half.h>\n#include <halfLimits.h>\n#include <limits>\nusing namespace IMATH_INTERNAL_NAMESPACE;\n', opaque=build.HALF_OPAQUE)
    for nm, op in (('add', '+'), ('sub', '-'), ('mul', '*'), ('div', '/')):
        tu.add('w_%s_hh' % nm, 'half& a, const half& b', 'a %s= b;' % op, kind='cmp', op=nm, rhs='half')
        tu.add('w_%s_hf' % nm, 'half& a, const float& b', 'a %s= b;' % op, kind='cmp', op=nm, rhs='float')
    tu.add('w_neg', 'half& o, const half& a', 'o = -a;', kind='neg')
    for p in ('isFinite', 'isNormalized', 'isDenormalized', 'isZero', 'isNan', 'isInfinity', 'isNegative'):
        tu.add('w_' + p, 'bool& o, const half& a', 'o = a.%s();' % p, kind='class', pred=p)
    for f in ('min', 'max', 'lowest', 'epsilon', 'round_error', 'infinity', 'quiet_NaN', 'signaling_NaN', 'denorm_min'):
        tu.add('w_lim_' + f, 'unsigned short& o', 'o = std::numeric_limits<half>::%s().bits();' % f, kind='lim', what=f)
    for f in ('posInf', 'negInf', 'qNan', 'sNan'):
        tu.add('w_half_' + f, 'unsigned short& o', 'o = half::%s().bits();' % f, kind='lim', what='half::' + f)
    for f in ('digits', 'digits10', 'max_digits10', 'radix', 'min_exponent', 'min_exponent10', 'max_exponent', 'max_exponent10'):
        tu.add('w_int_' + f, 'int& o', 'o = std::numeric_limits<half>::%s;' % f, kind='limint', what=f)
    for f in ('is_signed', 'has_infinity', 'has_quiet_NaN', 'has_signaling_NaN', 'is_specialized', 'is_integer', 'is_exact'):
        tu.add('w_bool_' + f, 'int& o', 'o = std::numeric_limits<half>::%s ? 1 : 0;' % f, kind='limint', what=f)
    # n is unsigned: "n >= 10 returns the operand" has to hold up to UINT_MAX (a signed intermediate would wrap beyond INT_MAX)
    for n in list(range(0, 11)) + [12, 200, 2147483647, 2147483648, 4294967280, 4294967295]:
        tu.add('w_round_%d' % n, 'half& o, const half& a', 'o = a.round(%du);' % n, kind='round', n=n)
    return tu

P_ = 11; EMAX = 15
def pattern_of(x):
    """nearest binary16 pattern (ties to even) of a positive rational"""
    x = Fraction(x)
    if x == 0: return 0
    e = math.floor(math.log2(x))
    while Fraction(2) ** e > x: e -= 1
    while Fraction(2) ** (e + 1) <= x: e += 1
    e = max(e, -14)
    q = x / Fraction(2) ** (e - 10)          # in units of the last place
    n = math.floor(q); r = q - n
    if r > Fraction(1, 2) or (r == Fraction(1, 2) and n % 2): n += 1
    if n >= 2048: n //= 2; e += 1
    if e > EMAX: return 0x7c00
    if n < 1024: return n                      # subnormal
    return ((e + 15) << 10) | (n - 1024)

LIMS = {
    'min': 0x0400, 'max': 0x7bff, 'lowest': 0xfbff, 'epsilon': pattern_of(Fraction(1, 2 ** 10)), 'round_error': pattern_of(Fraction(1, 2)),
    'infinity': 0x7c00, 'denorm_min': 0x0001, 'half::posInf': 0x7c00, 'half::negInf': 0xfc00,
}
INTS = {
    'digits': P_, 'digits10': math.floor((P_ - 1) * math.log10(2)), 'max_digits10': math.ceil(P_ * math.log10(2) + 1), 'radix': 2,
    'min_exponent': -13, 'max_exponent': EMAX + 1, 'min_exponent10': -4, 'max_exponent10': 4,
    'is_signed': 1, 'has_infinity': 1, 'has_quiet_NaN': 1, 'has_signaling_NaN': 1, 'is_specialized': 1, 'is_integer': 0, 'is_exact': 0,
}

def cell_eval(term, word, E, mzero):
    """evaluate a boolean term for exponent field E and mantissa zero / non-zero"""
    fixed = dict((10 + i, (E >> i) & 1) for i in range(5))
    if mzero:
        for i in range(10): fixed[i] = 0
    ev = B.Evaluator(word, 16, fixed=fixed)
    # mantissa non-zero: nodes whose bits are exactly the mantissa get the range [1, 0x3ff]
    if not mzero:
        seen = set(); stack = [term]
        while stack:
            x = stack.pop()
            if x.id in seen: continue
            seen.add(x.id); stack.extend(x.args)
            if x.ty and x.ty.startswith('i') and x.ty != 'i1' and x.op not in ('const',):
                try:
                    av = B.Evaluator(word, 16, fixed=fixed).ev(x)
                except B.NotBits:
                    continue
                nz = [(i, b) for i, b in enumerate(av.bits) if b != 0]
                if nz and all(b == ('in', i) for i, b in nz) and set(i for i, _ in nz) == set(range(10)):
                    ev.ranges[x.id] = (1, 0x3ff)
                if nz and all(b == ('in', i) or b in (0, 1) for i, b in nz) and set(i for i, b in nz if b not in (0, 1)) == set(range(10)) and all(i < 15 for i, _ in nz):
                    base = sum(1 << i for i, b in nz if b == 1)
                    ev.ranges[x.id] = (base + 1, base + 0x3ff)
    def value(t):
        if t is T.TRUE: return True
        if t is T.FALSE: return False
        if t.op == 'not':
            v = value(t.args[0]); return None if v is None else (not v)
        if t.op == 'ite':
            c = value(t.args[0])
            if c is None:
                a, b = value(t.args[1]), value(t.args[2])
                return a if a == b else None
            return value(t.args[1] if c else t.args[2])
        if t.op == 'icmp':
            return c02_truth(t, ev)
        return None
    return value(term)

def c02_truth(c, ev):
    from .c02 import cond_truth
    r = cond_truth(c, ev)
    if r is None and c.op == 'icmp' and c.attr == 'eq':
        try:
            a, b = ev.ev(c.args[0]), ev.ev(c.args[1])
            if a.lo > b.hi or b.lo > a.hi: return False
        except B.NotBits:
            pass
    return r

def bool_of(x):
    if x.op == 'ite': return T.ite(x.args[0], bool_of(x.args[1]), bool_of(x.args[2]))
    if x.op == 'const': return T.TRUE if x.attr[1] & 1 else T.FALSE
    if x.op == 'zext' and x.args[0].ty == 'i1': return x.args[0]
    if x.ty and x.ty.startswith('i'):
        # an integer 0/1 value used as a bool
        w = int(x.ty[1:])
        return T.cmp('icmp', 'ne', T.binop('and', x, T.const_int(w, 1), x.ty), T.const_int(w, 0))
    raise vg.Unsupported('boolean of shape %s' % x.op)

def ranges_from(lits):
    """intervals for nodes that the path compares with constants (through zext/trunc)"""
    rg = {}
    def put(n, lo, hi):
        a, b = rg.get(n.id, (0, (1 << 64) - 1))
        rg[n.id] = (max(a, lo), min(b, hi))
        if n.op in ('zext',) and n.args[0].ty != 'i1': put(n.args[0], lo, hi)
    for c, v in lits:
        if c.op != 'icmp': continue
        a, b = c.args
        if c.attr == 'ult':
            if b.op == 'const':
                k = b.attr[1]
                if v: put(a, 0, k - 1)
                else: put(a, k, (1 << 64) - 1)
            elif a.op == 'const':
                k = a.attr[1]
                if v: put(b, k + 1, (1 << 64) - 1)
                else: put(b, 0, k)
    return rg

def macro_values(ws):
    out = {}
    for lang, extra in (('c++', []), ('c++', ['-D_WIN32', '-D_MSC_VER=1900', '-fsyntax-only'])):
        pass
    src = open(build.REPO + '/src/Imath/half.h').read()
    res = {}
    for m in re.finditer(r'#\s*define\s+(HALF_(?:DENORM_MIN|NRM_MIN|MIN|MAX|EPSILON))\s+([0-9.eE+\-]+)f?\s*$', src, re.M):
        res.setdefault(m.group(1), []).append(m.group(2))
    return res

def main(rep, ws, tier):
    tu = gen()
    an = Analysed(ws, [tu], rep)
    R = an[tu]
    h_in = lambda base: T.inp(base, 0, 2, 'i16')
    f2h = [n for n in R.I.funcs if 'imath_float_to_half' in n]; h2f = [n for n in R.I.funcs if 'imath_half_to_float' in n]
    classes = {}
    for name, m in tu.meta.items():
        S = R.get(name)
        kind = m['kind']
        rule = {'cmp': 'R03.cmp', 'neg': 'R03.neg', 'class': 'R03.class', 'lim': 'R03.lim', 'limint': 'R03.lim', 'round': 'R03.round'}[kind]
        oid = 'half::' + name[2:]
        if S is None:
            rep.ob(oid, rule, UNDECIDED, R.err.get(name, '')); continue
        where = fn_where(S.fn) or 'src/Imath/half.h'
        try:
            if kind == 'cmp':
                o = S.out('a0', 0, 2, 'i16')
                a = T.call(h2f[0], [h_in('a0')], 'float')
                b = T.call(h2f[0], [h_in('a1')], 'float') if m['rhs'] == 'half' else T.inp('a1', 0, 4, 'float')
                fop = {'add': 'fadd', 'sub': 'fsub', 'mul': 'fmul', 'div': 'fdiv'}[m['op']]
                exp = T.call(f2h[0], [T.binop(fop, a, b, 'float')], 'i16')
                rep.ob(oid, rule, HOLDS if o is exp else VIOLATED, '' if o is exp else 'computes %s, expected %s' % (T.show(o, 5)[:250], T.show(exp, 5)[:250]), where, sample='%s = %s' % (oid, T.show(o, 5)[:200]))
            elif kind == 'neg':
                o = S.out('a0', 0, 2, 'i16')
                ev = B.Evaluator(h_in('a1'), 16)
                av = ev.ev(o)
                want = [('in', i) for i in range(15)] + [('n', 15)]
                rep.ob(oid, rule, HOLDS if av.bits == want else VIOLATED, '' if av.bits == want else 'result bits %r, expected all bits kept and bit 15 flipped' % av, where)
            elif kind == 'class':
                g = bool_of(S.out('a0', 0, 1, 'i8'))
                classes[m['pred']] = (g, where)
            elif kind == 'lim':
                o = S.out('a0', 0, 2, 'i16')
                what = m['what']
                if o.op != 'const':
                    rep.ob(oid, rule, VIOLATED, 'not a constant pattern: %s' % T.show(o, 3), where); continue
                v = o.attr[1]
                if what in ('quiet_NaN', 'half::qNan'):
                    ok = (v & 0x7c00) == 0x7c00 and (v & 0x3ff) != 0 and (v & 0x200) != 0
                    det = 'pattern %#06x must be a NaN with the quiet bit set' % v
                elif what in ('signaling_NaN', 'half::sNan'):
                    ok = (v & 0x7c00) == 0x7c00 and (v & 0x3ff) != 0 and (v & 0x200) == 0
                    det = 'pattern %#06x must be a NaN with the quiet bit clear' % v
                else:
                    ok = v == LIMS[what]; det = 'pattern %#06x, the format gives %#06x' % (v, LIMS[what])
                rep.ob(oid, rule, HOLDS if ok else VIOLATED, det, where, sample='%s = %#06x' % (oid, v))
            elif kind == 'limint':
                o = S.out('a0', 0, 4, 'i32')
                ok = o.op == 'const' and T.signed(o) == INTS[m['what']]
                rep.ob(oid, rule, HOLDS if ok else VIOLATED, '%s = %s, the format (p=11, emax=15) gives %d' % (m['what'], T.show(o), INTS[m['what']]), where, nontrivial=False)
            elif kind == 'round':
                check_round(rep, oid, S, m['n'], where)
        except (vg.Unsupported, B.NotBits) as e:
            rep.ob(oid, rule, UNDECIDED, str(e), where)
    # classification partition over cells
    if len(classes) == 7:
        word = h_in('a1')
        bad = None; ncell = 0
        for E in range(32):
            for mz in (True, False):
                vals = {}
                for p, (g, where) in classes.items():
                    vals[p] = cell_eval(g, word, E, mz)
                want = {'isZero': E == 0 and mz, 'isDenormalized': E == 0 and not mz, 'isNormalized': 1 <= E <= 30, 'isInfinity': E == 31 and mz, 'isNan': E == 31 and not mz, 'isFinite': E < 31}
                for p, wv in want.items():
                    if vals[p] is None:
                        bad = '%s is not decided by exponent/mantissa class (E=%d, M%s0)' % (p, E, '=' if mz else '!='); break
                    if vals[p] != wv:
                        bad = '%s() is %s for exponent field %d and mantissa %s zero; IEEE classification gives %s' % (p, vals[p], E, '' if mz else 'non-', wv); break
                if bad: break
                ncell += 1
            if bad: break
        rep.ob('half::classification', 'R03.class', VIOLATED if bad else HOLDS, bad or '%d cells (32 exponent fields x mantissa zero/non-zero): exactly one class each, isFinite <=> E < 31' % ncell, classes['isNan'][1])
        g = classes['isNegative'][0]
        ev = B.Evaluator(word, 16)
        ok = False
        if g.op in ('icmp', 'not'):
            c = g.args[0] if g.op == 'not' else g
            try:
                av = [ev.ev(a) for a in c.args]
                nz = [[(i, b) for i, b in enumerate(a.bits) if b != 0] for a in av]
                ok = any(len(x) == 1 and x[0][1] == ('in', 15) for x in nz) or (c.attr == 'slt' and any(a.bits == [('in', i) for i in range(16)] for a in av))
            except B.NotBits:
                ok = False
        rep.ob('half::isNegative', 'R03.class', HOLDS if ok else VIOLATED, '' if ok else 'isNegative is %s, expected a test of bit 15 only' % T.show(g, 3), classes['isNegative'][1])
    else:
        rep.fail_incomplete('classification predicates missing')
    # HALF_* literals
    mv = macro_values(ws)
    pairs = {'HALF_DENORM_MIN': 0x0001, 'HALF_NRM_MIN': 0x0400, 'HALF_MIN': 0x0400, 'HALF_MAX': 0x7bff, 'HALF_EPSILON': LIMS['epsilon']}
    for k, want in pairs.items():
        vals = mv.get(k, [])
        if not vals:
            rep.ob('macro ' + k, 'R03.lim', UNDECIDED, 'literal not found', 'src/Imath/half.h'); continue
        bad = [v for v in vals if pattern_of(Fraction(v)) != want]
        rep.ob('macro ' + k, 'R03.lim', VIOLATED if bad else HOLDS, ('literal %s rounds to binary16 pattern %#06x, the format extreme is %#06x' % (bad[0], pattern_of(Fraction(bad[0])), want)) if bad else 'literals %s round to %#06x' % (vals, want), 'src/Imath/half.h', nontrivial=False)
    check_halffunction(rep, ws)
    check_stream_ops(rep, ws)
    rep.floor('half obligations', len(rep.obs), 52)
    rep.assumptions += ['conversions kept opaque (their own correctness is C01)']
    rep.undecided_clauses += ['text output followed by text input reproduces every finite half (depends on stream precision at run time)', 'agreement with the float classification of the converted value (follows from C01)']

def lift(n, depth=0):
    """distribute bitwise/arithmetic integer operations over value-level conditionals so that the
    conditional structure is at the top"""
    if n.op == 'ite':
        return T.ite(n.args[0], lift(n.args[1]), lift(n.args[2]))
    if n.op in ('or', 'and', 'xor', 'add', 'shl', 'lshr', 'trunc', 'zext') and depth < 12:
        args = [lift(a, depth + 1) for a in n.args]
        for i, a in enumerate(args):
            if a.op == 'ite':
                def mkop(x):
                    na = list(args); na[i] = x
                    return lift(T.rebuild(n, tuple(na)), depth + 1)
                return T.ite(a.args[0], mkop(a.args[1]), mkop(a.args[2]))
        return T.rebuild(n, tuple(args)) if any(p is not q for p, q in zip(args, n.args)) else n
    return n

def check_round(rep, oid, S, n, where):
    o = S.out('a0', 0, 2, 'i16')
    word = T.inp('a1', 0, 2, 'i16')
    if n >= 10:
        rep.ob(oid, 'R03.round', HOLDS if o is word else VIOLATED, '' if o is word else 'round(%d) changes the value: %s' % (n, T.show(o, 3)), where, nontrivial=False)
        return
    k = 10 - n                      # number of cleared low bits
    o = lift(o)
    lv = T.leaves(o, 64)
    bad = None
    kinds = set()
    for lits, leaf in lv:
        ev0 = B.Evaluator(word, 16, ranges=ranges_from(lits))
        av = ev0.ev(leaf)
        if av.bits[15] != ('in', 15):
            bad = 'sign bit of the result is %s, expected the input sign' % (av.bits[15],); break
        if any(b != 0 for b in av.bits[:k]):
            bad = 'low %d significand bits are not cleared: %r' % (k, av); break
        # truncation leaf: bits k..14 are the input bits
        if av.bits[k:15] == [('in', i) for i in range(k, 15)]:
            kinds.add('trunc')
            # must be guarded by "rounded magnitude >= 0x7c00"
            thr = None
            for c, v in lits:
                if c.op != 'icmp' or c.attr != 'ult': continue
                a, b = c.args
                if a.op == 'const' and v is True: X, t_ = b, a.attr[1] + 1      # K < X
                elif b.op == 'const' and v is False: X, t_ = a, b.attr[1]        # !(X < K)
                else: continue
                scale = k - 1 if X.op == 'add' else 0                            # compared before / after shifting back
                thr = t_ << scale
            if thr != 0x7c00:
                bad = 'truncation happens when the rounded magnitude reaches %s; it must be exactly when it reaches the infinity pattern 0x7c00' % (hex(thr) if thr is not None else 'no recognisable threshold'); break
        else:
            kinds.add('round')
            # rounding leaf: ((e >> (k-1)) + ((e >> (k-1)) & 1)) << (k-1)   with e = h & 0x7fff
            e = analyse_round_leaf(leaf, word, k)
            if e: bad = e; break
    if not bad and kinds != {'trunc', 'round'}:
        bad = 'round(%d) has exits %s; expected a rounding exit and a truncating exit for overflow' % (n, sorted(kinds))
    rep.ob(oid, 'R03.round', VIOLATED if bad else HOLDS, bad or 'sign kept, low %d bits cleared, round-half-up on the magnitude (within half a unit), truncation only when rounding reaches 0x7c00' % k, where)

def analyse_round_leaf(leaf, word, k):
    """or(sign, shl(add(x, and(x,1)), k-1)) with x = lshr(e, k-1), e = word & 0x7fff: rounds the magnitude to a
    multiple of 2^k, up exactly when the remainder is >= 2^(k-1)  (threshold reasoning: x = 2q + b, x + b = 2(q + b))"""
    parts = []
    def flat(x):
        if x.op == 'or':
            for a in x.args: flat(a)
        else: parts.append(x)
    flat(leaf)
    ev = B.Evaluator(word, 16)
    if k == 1:
        sh = [p for p in parts if p.op == 'add']
        if len(sh) != 1:
            return 'rounding exit is not sign | rounded: %s' % T.show(leaf, 4)[:200]
        summ = sh[0]
    else:
        sh = [p for p in parts if p.op == 'shl' or (p.op == 'and' and any(a.op == 'shl' for a in p.args))]
        if len(sh) != 1:
            return 'rounding exit is not sign | (rounded << %d): %s' % (k - 1, T.show(leaf, 4)[:200])
        s = sh[0]
        if s.op == 'and': s = [a for a in s.args if a.op == 'shl'][0]
        if not (s.args[1].op == 'const' and s.args[1].attr[1] == k - 1):
            return 'rounded value is shifted back by %s, expected %d' % (T.show(s.args[1]), k - 1)
        summ = s.args[0]
    if summ.op != 'add':
        return 'no rounding increment before shifting back (%s)' % T.show(summ, 3)
    x, b = summ.args
    if b.op != 'and': x, b = b, x
    if b.op != 'and' or not any(a.op == 'const' and a.attr[1] == 1 for a in b.args):
        return 'rounding increment is %s, expected the bit just below the kept bits' % T.show(b, 3)
    try:
        xv = ev.ev(x); bv = ev.ev(b)
    except B.NotBits as ex:
        return str(ex)
    want_x = [('in', i) for i in range(k - 1, 15)] + [0] * (k)
    want_x = want_x[:16]
    if xv.bits != want_x:
        return 'the rounded quantity is %r, expected (h & 0x7fff) >> %d' % (xv, k - 1)
    if bv.bits[0] != ('in', k - 1) or any(z != 0 for z in bv.bits[1:]):
        return 'rounding increment is %r, expected input bit %d (the first discarded bit)' % (bv, k - 1)
    return None

def check_stream_ops(rep, ws):
    """R03.io: operator<<(ostream&, half) performs exactly one stream operation, the insertion of float(h), and touches no
    formatting state (precision, flags, width); operator>> extracts one float and stores half(f).  The text round trip of
    a finite half is then that of its float value under the caller's stream state."""
    import os
    hdr = '#include <iostream>\n#include "%s"\nusing namespace IMATH_INTERNAL_NAMESPACE;\n' % os.path.join(build.REPO, 'src', 'Imath', 'half.cpp')
    tu = TU('c03io', header=hdr, opaque=tuple(build.HALF_OPAQUE) + ('St8ios_base', 'St9basic_ios'))
    tu.add('w_out', 'std::ostream& s, const half& h', 's << h;', kind='io')
    tu.add('w_in', 'std::istream& s, half& h', 's >> h;', kind='io')
    try:
        mod = ws.module(tu.name, tu.source(), opaque=tu.opaque)
    except build.BuildError as e:
        rep.ob('half::operator<<', 'R03.io', UNDECIDED, str(e)[:300], 'src/Imath/half.cpp'); return
    I = vg.Interp(mod)
    where = 'src/Imath/half.cpp'
    try:
        S = I.run('w_out')
        std = [(n, c) for n, c, ln in S.calls if n.startswith('_ZNS') or n.startswith('_ZSt') or 'basic_ostream' in n or 'ios_base' in n]
        h = T.inp('a1', 0, 2, 'i16')
        ins = [c for n, c in std if n.startswith('_ZNSolsEf')]          # std::ostream::operator<<(float)
        def harmless(n, c):
            # reading formatting state changes nothing; a precision that is at least max_digits10 of half (5), or the restore
            # of a value read before, keeps every finite half's text readable back
            if n.startswith('_ZNKSt8ios_base') or n.startswith('_ZNKSt9basic_ios'): return True
            if n.startswith('_ZNSt8ios_base9precisionE'):
                a = c.args[-1]
                if a.op == 'const' and a.ty == 'i64' and 5 <= a.attr[1] < 2 ** 31: return True
                if a.op == 'call' and '_ZNKSt8ios_base9precisionEv' in str(a.attr): return True
                if a.op == 'call' and '_ZNSt8ios_base9precisionE' in str(a.attr): return True     # value returned by an earlier set
            return False
        other = [n for n, c in std if not n.startswith('_ZNSolsEf') and not harmless(n, c)]
        payload_ok = False
        if len(ins) == 1:
            vals = [a for a in ins[0].args if a.ty == 'float']
            payload_ok = len(vals) == 1 and vals[0].op == 'call' and 'imath_half_to_float' in str(vals[0].attr) and vals[0].args[0] is h
        ok = len(ins) == 1 and not other and payload_ok
        rep.ob('half::operator<<', 'R03.io', HOLDS if ok else VIOLATED,
               'one insertion of float(h), no other stream operation' if ok else
               ('the stream is also operated on through %s (formatting state such as the precision decides whether the text reads back to the same half)' % other[0] if other else 'expected exactly one insertion of float(h); found %d insertions (payload float(h): %s)' % (len(ins), payload_ok)), where)
    except vg.Unsupported as e:
        rep.ob('half::operator<<', 'R03.io', UNDECIDED, str(e)[:300], where)
    try:
        S = I.run('w_in')
        std = [(n, c) for n, c, ln in S.calls if n.startswith('_ZNS') or n.startswith('_ZSt')]
        ext = [c for n, c in std if n.startswith('_ZNSirsERf')]           # std::istream::operator>>(float&)
        other = [n for n, c in std if not n.startswith('_ZNSirsERf')]
        o = S.out('a1', 0, 2, 'i16')
        conv = o.op == 'call' and 'imath_float_to_half' in str(o.attr)
        ok = len(ext) == 1 and not other and conv
        rep.ob('half::operator>>', 'R03.io', HOLDS if ok else VIOLATED, 'one extraction of a float f, h = half(f)' if ok else 'extractions: %d, other stream operations: %s, stored value %s' % (len(ext), other[:2], T.show(o, 3)[:120]), where)
    except vg.Unsupported as e:
        rep.ob('half::operator>>', 'R03.io', UNDECIDED, str(e)[:300], where)

def check_halffunction(rep, ws):
    """structural analysis of the constructor's loop on one symbolic iteration"""
    src = '''#include <half.h>
#include <halfFunction.h>
using namespace IMATH_INTERNAL_NAMESPACE;
extern "C" float ext_fn(unsigned short);
struct Fn { float operator()(half x) const { return ext_fn(x.bits()); } };
extern "C" {
void w_hf_ctor(halfFunction<float>* self, const half& lo, const half& hi, const float& d, const float& pi, const float& ni, const float& nn) { new (self) halfFunction<float>(Fn(), lo, hi, d, pi, ni, nn); }
void w_hf_call(float& o, const halfFunction<float>& f, const half& x) { o = f(x); }
}
'''
    where = 'src/Imath/halfFunction.h'
    try:
        bc = ws.compile('c03_hf', '#include <new>\n' + src)
        mod = ws.irx(bc, opaque=build.HALF_OPAQUE, prefixes=('w_',), no_unroll=True)
    except build.BuildError as e:
        rep.ob('halfFunction', 'R03.hf', UNDECIDED, str(e)[:300], where); return
    I = vg.Interp(mod)
    # operator()
    try:
        S = I.run('w_hf_call')
        o = S.out('a0', 0, 4, 'float')
        ok = o.op == 'sel' and o.args[1].op in ('mul', 'shl')
        idx = o.args[1] if o.op == 'sel' else None
        good = False
        if idx is not None:
            src_idx = [a for a in idx.args if a.op != 'const']
            cst = [a for a in idx.args if a.op == 'const']
            if src_idx and cst:
                z = src_idx[0]
                while z.op in ('zext', 'sext'): z = z.args[0]
                good = z is T.inp('a2', 0, 2, 'i16') and ((idx.op == 'mul' and cst[0].attr[1] == 4) or (idx.op == 'shl' and cst[0].attr[1] == 2))
        rep.ob('halfFunction::operator()', 'R03.hf', HOLDS if good else VIOLATED, 'returns _lut[x.bits()] unmodified' if good else 'returns %s' % T.show(o, 4)[:200], where)
    except vg.Unsupported as e:
        rep.ob('halfFunction::operator()', 'R03.hf', UNDECIDED, str(e), where)
    # constructor: loop structure from the IR
    fn = I.funcs.get('w_hf_ctor')
    if fn is None or not fn.get('cyclic'):
        rep.ob('halfFunction::halfFunction', 'R03.hf', UNDECIDED, 'constructor loop not found (function %s)' % ('missing' if fn is None else 'acyclic'), where); return
    alloc = None; bound = None
    for b in fn['blocks']:
        for i in b['insts']:
            if i['op'] in ('call', 'invoke') and i.get('callee') in ('_Znam', '_Znwm'):
                a = i['ops'][0]
                if a['k'] == 'ci': alloc = int(a['v'])
            if i['op'] == 'icmp' and any(o.get('k') == 'ci' and int(o['v']) in (65536, 65535) for o in i['ops']):
                bound = (i['pred'], [int(o['v']) for o in i['ops'] if o.get('k') == 'ci'][0])
    okb = bound in (('slt', 65536), ('ult', 65536), ('eq', 65536), ('ne', 65536), ('sle', 65535), ('ule', 65535), ('sgt', 65535), ('ugt', 65535))
    rep.ob('halfFunction::halfFunction#size', 'R03.hf', HOLDS if (alloc == 65536 * 4 and okb) else VIOLATED,
           'allocates %s bytes (= 65536 x sizeof(float)), loop bound %s' % (alloc, bound), where)
    try:
        S = I.run_loop_body('w_hf_ctor')
    except (vg.Unsupported, AttributeError) as e:
        rep.ob('halfFunction::halfFunction#order', 'R03.hf', UNDECIDED, 'loop body: %s' % e, where); return
    val = S.get('stored')
    if val is None:
        rep.ob('halfFunction::halfFunction#order', 'R03.hf', UNDECIDED, 'no table store found in the loop body', where); return
    iv, idx, v = val
    word = iv
    nanv, posv, negv, dflt = T.inp('a6', 0, 4, 'float'), T.inp('a4', 0, 4, 'float'), T.inp('a5', 0, 4, 'float'), T.inp('a3', 0, 4, 'float')
    bad = None
    def ev_cell(E, mz, sign):
        fixed = dict((10 + i, (E >> i) & 1) for i in range(5)); fixed[15] = sign
        if mz:
            for i in range(10): fixed[i] = 0
        ev = B.Evaluator(word, 32, fixed=fixed)
        t = v
        for _ in range(30):
            asg = {}
            for c in T.atoms_of(t):
                tr = c02_truth(c, ev)
                if tr is None and not mz:
                    # mantissa != 0 tests
                    try:
                        avs = [ev.ev(a) for a in c.args]
                        if c.op == 'icmp' and c.attr == 'eq' and any(a.known() and a.value() == 0 for a in avs):
                            o = [a for a in avs if not (a.known() and a.value() == 0)]
                            if o and set(i for i, b in enumerate(o[0].bits) if b != 0) == set(range(10)): tr = False
                    except B.NotBits:
                        pass
                if tr is not None: asg[c] = tr
            if not asg: break
            t = T.resolve(t, asg)
        return t
    for sign in (0, 1):
        t = ev_cell(31, False, sign)
        if t is not nanv: bad = 'NaN patterns store %s, expected nanValue' % T.show(t, 3)[:200]
        t = ev_cell(31, True, sign)
        if t is not (negv if sign else posv): bad = bad or '%s infinity stores %s' % ('negative' if sign else 'positive', T.show(t, 3)[:200])
    finite_cells = [(E_, mz_, sg_) for sg_ in (0, 1) for (E_, mz_) in ((0, True), (0, False), (15, False), (15, True), (30, False))]
    for (E_, mz_, sg_) in finite_cells:
      t = ev_cell(E_, mz_, sg_)
      if not bad:
          lo_in, hi_in = T.inp('a1', 0, 2, 'i16'), T.inp('a2', 0, 2, 'i16')
          def is_h2f_of(n, what):
              return n.op == 'call' and 'imath_half_to_float' in str(n.attr) and (n.args[0] is what if what is not None else n.args[0].op == 'trunc')
          ok = True; nf = 0
          for lits, leaf in T.leaves(t, 64):
              below = [v for c, v in lits if c.op == 'fcmp' and c.attr == 'olt' and is_h2f_of(c.args[0], None) and is_h2f_of(c.args[1], lo_in)]
              above = [v for c, v in lits if c.op == 'fcmp' and c.attr == 'olt' and is_h2f_of(c.args[0], hi_in) and is_h2f_of(c.args[1], None)]
              if leaf is dflt:
                  if not (any(below) or any(above)): ok = False
              elif leaf.op == 'call' and 'ext_fn' in str(leaf.attr):
                  nf += 1
                  if below != [False] or above != [False]: ok = False
              else:
                  ok = False
          if not ok or nf != 1: bad = 'finite patterns (exponent field %d, mantissa %s, sign %d) store %s, expected (x < domainMin || x > domainMax ? defaultValue : f(x))' % (E_, 'zero' if mz_ else 'non-zero', sg_, T.show(t, 4)[:300])
    rep.ob('halfFunction::halfFunction#order', 'R03.hf', VIOLATED if bad else HOLDS, bad or 'NaN -> nanValue, +-inf -> pos/negInfValue, else outside [domainMin, domainMax] -> defaultValue, else f(x); stored at index i', where)
