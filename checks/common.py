import os, sys, time
from concurrent.futures import ProcessPoolExecutor
from engine import vg, term as T, build, agg, poly
from engine.report import HOLDS, VIOLATED, UNDECIDED

def where_of(S):
    """source location (file:line) of the analysed function: the smallest line in /repo seen"""
    best = None
    for b in S.fn['blocks']:
        for i in b['insts']:
            f = i.get('file')
            if f and '/src/' in f and 'line' in i and not f.startswith('/usr'):
                key = (build.repo_rel(f), i['line'])
                if 'imath_verif_' in f:
                    continue
                if best is None or key < best:
                    best = key
    return '%s:%d' % best if best else None

def fn_where(fn):
    """file:line of the function(s) of /repo that the wrapper calls directly"""
    ds = [d for d in fn.get('direct', []) if d['file'].startswith(build.REPO) and d['line']]
    if ds:
        return ', '.join('%s:%d (%s)' % (build.repo_rel(d['file']), d['line'], d['name']) for d in ds[:3])
    best = None
    for b in fn['blocks']:
        for i in b['insts']:
            f = i.get('file')
            if f and i.get('line') and f.startswith(build.REPO):
                key = (build.repo_rel(f), i['line'])
                if best is None or key < best:
                    best = key
    return '%s:%d' % best if best else None

class TUResult:
    def __init__(self, tu, module):
        self.tu = tu
        self.meta = tu.meta
        self.sum = {}; self.err = {}
        self.I = vg.Interp(module)
        self.interp = {}
        for name in tu.meta:
            self.interp[name] = self.I
            if name not in self.I.funcs:
                self.err[name] = 'wrapper vanished from the module'
                continue
            try:
                self.sum[name] = self.I.run(name)
            except vg.Unsupported as e:
                self.err[name] = 'outside the analysed fragment: %s' % e
            except RecursionError:
                self.err[name] = 'recursion limit'
    def get(self, name):
        return self.sum.get(name)

class Analysed:
    """all wrappers of a set of TUs, interpreted; index by TU name"""
    def __init__(self, ws, tus, rep=None):
        mods = ws.modules([t.spec() for t in tus])
        self.by_tu = {}
        for t in tus:
            self.by_tu[t.name] = TUResult(t, mods[t.name])
            if rep is not None:
                rep.units.append({'tu': t.name, 'wrappers': len(t.meta)})
    def __getitem__(self, tu):
        return self.by_tu[tu.name if hasattr(tu, 'name') else tu]

def slots_out(S, base, n, t):
    _, sz, lt = agg.ELEM[t]
    return [S.out(base, i * sz, sz, lt) for i in range(n)]

def written_exact(S, base, n, t):
    """True iff the function writes only the n slots of `base` (at slot granularity)"""
    _, sz, lt = agg.ELEM[t]
    w = S.written(base)
    return set(w.keys()) <= set(i * sz for i in range(n)) and all(w[k] == sz for k in w)

# ---------------------------------------------------------------- joint results / twins

def joint(S, outs, with_ret=None, hoisted=True):
    """one decision DAG over all exits whose leaves are tuples of the listed outputs
    outs: list of (base, off, size, llvm type); with_ret: llvm type of the return value or None"""
    items = []
    for e in S.exits:
        if e.kind == 'ret':
            vals = [S.interp.load_from(e.mem, b, off, sz, ty) for (b, off, sz, ty) in outs]
            if with_ret:
                vals.append(e.ret)
            v = T.mk('tuple', None, tuple(vals), None)
        elif e.kind == 'throw':
            v = T.mk('throw', e.exc, (), None)
        elif e.kind == 'unwind':
            continue
        else:
            v = T.mk('abort', e.kind, (), None)
        for p in e.paths:
            items.append((p, v))
    r = vg.build_tree(items)
    return hoist(r) if hoisted else r

_hoist_memo = {}
def hoist(n):
    """lift value-level ites that sit directly in tuple components to the top, so that leaves
    of the resulting decision DAG are tuples of ite-free-at-top values"""
    r = _hoist_memo.get(n.id)
    if r is not None:
        return r
    if n.op == 'ite':
        r = T.ite(n.args[0], hoist(n.args[1]), hoist(n.args[2]))
    elif n.op == 'tuple':
        v = min([T._top(a) for a in n.args if a.op == 'ite'] or [None], key=lambda x: (x is None, x))
        if v is None:
            r = n
        else:
            hi = T.mk('tuple', None, tuple(T._cof(a, v, True) for a in n.args), None)
            lo = T.mk('tuple', None, tuple(T._cof(a, v, False) for a in n.args), None)
            r = T.ite(T._nodes[v], hoist(hi), hoist(lo))
    else:
        r = n
    _hoist_memo[n.id] = r
    return r

_lift_memo = {}
def lift_all(n, budget=None):
    """full Shannon lifting: the result is an ordered decision DAG whose conditions are atomic
    (contain no conditional themselves) and whose leaves are conditional-free values.  Two
    graphs computing the same function of the same atomic conditions lift to graphs that agree
    leaf by leaf.  budget = [remaining node constructions] (OverflowError when exhausted)"""
    r = _lift_memo.get(n.id)
    if r is not None:
        return r
    if budget is not None:
        budget[0] -= 1
        if budget[0] < 0: raise OverflowError('lifting budget exhausted')
    if not n.args:
        r = n
    elif n.op == 'ite':
        r = T.ite(lift_all(n.args[0], budget), lift_all(n.args[1], budget), lift_all(n.args[2], budget))
    else:
        args = [lift_all(a, budget) for a in n.args]
        tops = [T._top(a) for a in args if a.op == 'ite']
        if not tops:
            r = n if all(p is q for p, q in zip(args, n.args)) else T.rebuild(n, tuple(args))
        else:
            v = min(tops)
            hi = T.rebuild(n, tuple(T._cof(a, v, True) if a.op == 'ite' else a for a in args))
            lo = T.rebuild(n, tuple(T._cof(a, v, False) if a.op == 'ite' else a for a in args))
            r = T.ite(T._nodes[v], lift_all(hi, budget), lift_all(lo, budget))
    _lift_memo[n.id] = r
    return r

def twin_same(JC, JU):
    """R07.same: on every non-throwing leaf of the checked form the unchecked form has the
    identical leaf.  Returns (ok, detail, n_leaves)"""
    lv = T.leaves(JC, 20000)
    n = 0
    for lits, leaf in lv:
        if leaf.op == 'throw':
            continue
        n += 1
        u = T.resolve(JU, dict(lits))
        leaf = T.resolve(leaf, dict(lits))
        if u is not leaf:
            try:
                if T.equiv(u, leaf):
                    continue
            except OverflowError:
                pass
            # locate first differing component
            det = 'results differ'
            if u.op == 'tuple' and leaf.op == 'tuple':
                for i, (x, y) in enumerate(zip(leaf.args, u.args)):
                    if x is not y:
                        det = 'output %d: checked form gives %s, unchecked form gives %s' % (i, T.show(x, 4)[:300], T.show(y, 4)[:300])
                        break
            elif u.op == 'ite':
                det = 'the unchecked form additionally depends on %s' % T.show(u.args[0], 3)
            else:
                det = 'checked form returns %s where unchecked form gives %s' % (T.show(leaf, 3)[:200], T.show(u, 3)[:200])
            return False, det + ' (on the path %s)' % ', '.join('%s=%s' % (T.show(c, 2)[:80], v) for c, v in lits[:6]), n
    return True, '', n

def region(J, pred):
    """boolean DAG of the region where leaf predicate holds"""
    memo = {}
    def rec(x):
        r = memo.get(x.id)
        if r is None:
            if x.op == 'ite':
                r = T.ite(x.args[0], rec(x.args[1]), rec(x.args[2]))
            else:
                r = T.TRUE if pred(x) else T.FALSE
            memo[x.id] = r
        return r
    return rec(J)


def explain_diff(x, y, budget=20000):
    """walk down to the first pair of sub-terms that are not equivalent"""
    path = []
    a, b = x, y
    for _ in range(60):
        if a.op == b.op and len(a.args) == len(b.args) and a.args and a.attr == b.attr:
            nxt = None
            for i, (p, q) in enumerate(zip(a.args, b.args)):
                if p is q: continue
                try:
                    e = T.equiv(p, q, budget)
                except OverflowError:
                    e = False
                if not e:
                    nxt = (p, q, i); break
            if nxt is None: break
            path.append('%s#%d' % (a.op, nxt[2]))
            a, b = nxt[0], nxt[1]
        else:
            break
    return 'first form has %s where second has %s (at %s)' % (T.show(a, 4)[:300], T.show(b, 4)[:300], '/'.join(path[-8:]))

def bare_length_uses(outs, slots, lt):
    """uses of sqrt(sum of squares of `slots`) that are NOT the large-length branch of Vec::length()'s guard
    ite(dot < c, lengthTiny, sqrt(dot)).  A vector that is normalised by such a bare square root is mapped to zero /
    loses its direction when the squared length underflows, which length() (C08) is there to prevent."""
    from engine import poly as P
    ctx = P.Ctx()
    want = None
    for a in slots:
        sq = P.ppow(P.patom(ctx.key(a)), 2)
        want = sq if want is None else P.padd(want, sq)
    parents = {}; seen = set(); st = list(outs)
    while st:
        x = st.pop()
        if x.id in seen: continue
        seen.add(x.id)
        for a in x.args:
            parents.setdefault(a.id, []).append(x); st.append(a)
    bad = []; n = 0
    for nid, ps in parents.items():
        nd = T._nodes[nid]
        if not (nd.op == 'call' and 'sqrt' in str(nd.attr) and len(nd.args) == 1): continue
        try:
            r = ctx.rat(nd.args[0])
        except P.NotPoly:
            continue
        if not ctx.requal(r, (want, P.pconst(1))): continue
        n += 1
        for p_ in ps:
            ok = p_.op == 'ite' and (p_.args[1] is nd or p_.args[2] is nd) and p_.args[0].op == 'fcmp' and p_.args[0].attr in ('olt', 'ole') \
                 and p_.args[0].args[0] is nd.args[0] and p_.args[0].args[1].op == 'const' and T.const_value(p_.args[0].args[1]) > 0 and p_.args[2] is nd
            if not ok: bad.append(p_)
    return n, bad


# ---------------------------------------------------------------- precision narrowing (effect rule on the raw IR)

def narrowing(rep, ws, tus, rule, allow=None, floor=5):
    """`rule`: no double-only instantiation reached from the (T = double) wrapper TUs rounds an intermediate to single
    precision (engine/narrow.py).  allow: {substring of the demangled function: reason} for documented exceptions."""
    from concurrent.futures import ThreadPoolExecutor
    from engine import narrow
    allow = allow or {}
    ws.configure()
    def one(tu):
        return tu.name, narrow.scan(ws, 'narrow_' + tu.name, tu.source())
    with ThreadPoolExecutor(max_workers=build.JOBS) as ex:
        res = dict(ex.map(one, tus))
    fns = set(); sites = {}
    for name, r in res.items():
        fns.update(r['functions'])
        for s in r['sites']:
            sites.setdefault((s['dem'], s['what'], s.get('file'), s.get('line')), s)
    def short(d):
        d = d.replace('Imath_3_2::', '').replace('Imath::', '')
        return d.split('(')[0].split(' ')[-1] if '(' in d else d
    rep.floor('double instantiations scanned for narrowing (%s)' % rule, len(fns), floor)
    nviol = 0; allowed = []
    for (dem, what, fil, line), s in sorted(sites.items(), key=lambda kv: (kv[0][0], str(kv[0][2]), str(kv[0][3]), kv[0][1])):
        why = next((r for k, r in allow.items() if k in dem), None)
        if why:
            allowed.append('%s (%s)' % (short(dem), why)); continue
        nviol += 1
        rep.ob('%s#narrow[%s]' % (short(dem), what.split(' ')[-1] if s['kind'] == 'call' else 'fptrunc'), rule, VIOLATED,
               '%s, instantiated for double only, rounds an intermediate to single precision: %s; about half the digits of the double result are lost' % (dem[:160], what),
               '%s:%s (%s)' % (fil, line, short(dem)))
    if not nviol:
        rep.ob('narrow<double>', rule, HOLDS, '%d double-only instantiations reached from the wrappers; no fptrunc to float, no single-precision libm call, no float-returning callee%s'
               % (len(fns), ('; documented exceptions: ' + ', '.join(sorted(set(allowed)))) if allowed else ''))

# ---------------------------------------------------------------- homogeneity-degree intervals (range rule)

def degree_ranges(outs):
    """Abstract evaluation of value graphs in the domain of homogeneity-degree intervals, one interval per argument base:
    in -> [1,1] in its own base, const -> [0,0], + and ite -> hull, * -> sum, / -> difference, sqrt -> half.
    Returns (deg, sites) with deg(node) -> {base: (lo, hi)} and sites = the divisors and sqrt radicands met, as
    (kind, node, {base: (lo, hi)}).  A divisor of degree 2 in an argument underflows to zero where the argument is
    still far from the smallest normal number (|x| < sqrt(min)), and overflows where it is far from max."""
    from fractions import Fraction
    memo = {}
    Z = Fraction(0)
    def hull(ds):
        r = {}
        keys = set(k for d in ds for k in d)
        for k in keys:
            los = [d.get(k, (Z, Z))[0] for d in ds]; his = [d.get(k, (Z, Z))[1] for d in ds]
            r[k] = (min(los), max(his))
        return r
    def add(x, y, sg=1):
        r = {}
        for k in set(x) | set(y):
            a = x.get(k, (Z, Z)); b = y.get(k, (Z, Z))
            r[k] = (a[0] + b[0], a[1] + b[1]) if sg > 0 else (a[0] - b[1], a[1] - b[0])
        return r
    def deg(n):
        r = memo.get(n.id)
        if r is not None: return r
        op = n.op
        if op == 'in': r = {n.attr[0]: (Fraction(1), Fraction(1))}
        elif op == 'fadd': r = hull([deg(a) for a in n.args])
        elif op == 'fmul':
            r = {}
            for a in n.args: r = add(r, deg(a))
        elif op == 'fdiv': r = add(deg(n.args[0]), deg(n.args[1]), -1)
        elif op in ('fneg', 'absi', 'fpext', 'fptrunc'): r = deg(n.args[0])
        elif op == 'call' and n.attr == 'sqrt': r = {k: (v[0] / 2, v[1] / 2) for k, v in deg(n.args[0]).items()}
        elif op == 'call' and 'fabs' in str(n.attr): r = deg(n.args[0])
        elif op == 'ite': r = hull([deg(n.args[1]), deg(n.args[2])])
        else: r = {}
        memo[n.id] = r
        return r
    sites = []
    seen = set(); st = list(outs)
    while st:
        x = st.pop()
        if x.id in seen: continue
        seen.add(x.id); st.extend(x.args)
        if x.op == 'fdiv': sites.append(('divisor', x.args[1], deg(x.args[1])))
        elif x.op == 'call' and x.attr == 'sqrt': sites.append(('radicand', x.args[0], deg(x.args[0])))
    return deg, sites
