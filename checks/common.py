import os, sys, time
from concurrent.futures import ProcessPoolExecutor
from engine import vg, term as T, build, agg, poly
from engine.report import HOLDS, VIOLATED, UNDECIDED

def where_of(S):
    """source location (file:line) of the analysed function: the smallest line in /repo seen"""
    best = None
    for b in S.fn['blocks']:
        for i in b['insts']:
            f = i.get('file')
            if f and '/src/' in f and 'line' in i and not f.startswith('/usr'):
                key = (build.repo_rel(f), i['line'])
                if 'imath_verif_' in f:
                    continue
                if best is None or key < best:
                    best = key
    return '%s:%d' % best if best else None

def fn_where(fn):
    best = None
    for b in fn['blocks']:
        for i in b['insts']:
            f = i.get('file')
            if f and 'line' in i and f.startswith(build.REPO):
                key = (build.repo_rel(f), i['line'])
                if best is None or key < best:
                    best = key
    return '%s:%d' % best if best else None

class TUResult:
    def __init__(self, tu, module):
        self.tu = tu
        self.meta = tu.meta
        self.sum = {}; self.err = {}
        self.I = vg.Interp(module)
        self.interp = {}
        for name in tu.meta:
            self.interp[name] = self.I
            if name not in self.I.funcs:
                self.err[name] = 'wrapper vanished from the module'
                continue
            try:
                self.sum[name] = self.I.run(name)
            except vg.Unsupported as e:
                self.err[name] = 'outside the analysed fragment: %s' % e
            except RecursionError:
                self.err[name] = 'recursion limit'
    def get(self, name):
        return self.sum.get(name)

class Analysed:
    """all wrappers of a set of TUs, interpreted; index by TU name"""
    def __init__(self, ws, tus, rep=None):
        mods = ws.modules([t.spec() for t in tus])
        self.by_tu = {}
        for t in tus:
            self.by_tu[t.name] = TUResult(t, mods[t.name])
            if rep is not None:
                rep.units.append({'tu': t.name, 'wrappers': len(t.meta)})
    def __getitem__(self, tu):
        return self.by_tu[tu.name if hasattr(tu, 'name') else tu]

def slots_out(S, base, n, t):
    _, sz, lt = agg.ELEM[t]
    return [S.out(base, i * sz, sz, lt) for i in range(n)]

def written_exact(S, base, n, t):
    """True iff the function writes only the n slots of `base` (at slot granularity)"""
    _, sz, lt = agg.ELEM[t]
    w = S.written(base)
    return set(w.keys()) <= set(i * sz for i in range(n)) and all(w[k] == sz for k in w)
