"""C02 - every half-conversion back-end and language mode returns identical bits (decided part).

R02.lang   per back-end {table, no-table, F16C}: the value graphs of both conversions are identical
           when half.h is compiled as C11, C++14, C++17, C++20
R02.shift  no-table (bit-shift) half->float: closed forms per exponent cell (normal, inf/NaN, zero)
           equal the IEEE definition that R01.table verifies entry-wise for the table
R02.f2h    the software float->half is one and the same code in the table and no-table builds
R02.f16c   rounding immediate of vcvtps2ph is round-to-nearest(-even), exceptions suppressed or not;
           the half->float instruction receives h unmodified
R02.pp     each macro configuration selects the intended back-end; half.cpp defines the table iff
           !IMATH_HALF_NO_LOOKUP_TABLE; the generated ImathConfig.h only defines IMATH_HALF_USE_LOOKUP_TABLE
R02.sw     (the C01 rules R01.*, run again here): the software conversion shared by the table and no-table builds is IEEE
           round-to-nearest-even, i.e. equals what the F16C instruction computes
R02.gen    table generator halfToFloat(): closed forms per exponent cell (E >= 1, and zero) equal the
           same IEEE definition (hence equal the table on 63,490 entries) - without running it
"""
import os, re
from engine import term as T, build, vg, bits as B
from engine.report import HOLDS, VIOLATED, UNDECIDED
from .common import hoist

PROBE_C = '''#include <half.h>
unsigned short w_f2h(float f) { return imath_float_to_half(f); }
float w_h2f(unsigned short h) { return imath_half_to_float(h); }
'''
PROBE_CPP = '''#include <half.h>
extern "C" {
unsigned short w_f2h(float f) { return imath_float_to_half(f); }
float w_h2f(unsigned short h) { return imath_half_to_float(h); }
}
'''
LANGS = [('c', 'gnu11', PROBE_C), ('c++', 'gnu++14', PROBE_CPP), ('c++', 'gnu++17', PROBE_CPP), ('c++', 'gnu++20', PROBE_CPP)]
BACKENDS = [('table', []), ('notable', ['-DIMATH_HALF_NO_LOOKUP_TABLE']), ('f16c', ['-mf16c'])]

def uses(n, pred):
    seen = set(); stack = [n]
    while stack:
        x = stack.pop()
        if x.id in seen: continue
        seen.add(x.id)
        if pred(x): return x
        stack.extend(x.args)
    return None

def cond_truth(c, ev):
    if c.op != 'icmp': return None
    try:
        a, b = ev.ev(c.args[0]), ev.ev(c.args[1])
    except B.NotBits:
        return None
    if c.attr == 'ult':
        if a.hi < b.lo: return True
        if a.lo >= b.hi: return False
    if c.attr == 'eq':
        if a.known() and b.known(): return a.value() == b.value()
        if a.hi < b.lo or b.hi < a.lo: return False
        # some bit known different
        for x, y in zip(a.bits, b.bits):
            if x in (0, 1) and y in (0, 1) and x != y: return False
    return None

def resolve_cell(term, ev):
    """resolve every condition decided by the cell's known bits"""
    for _ in range(40):
        asg = {}
        for c in T.atoms_of(term):
            t = cond_truth(c, ev)
            if t is not None: asg[c] = t
        if not asg: break
        term = T.resolve(term, asg)
    return term

def expected_bits(E, zero=False):
    if zero: return [0] * 31 + [('in', 15)]
    if E == 31: exp = 0xff
    else: exp = E + 112
    return [0] * 13 + [('in', i) for i in range(10)] + [(exp >> i) & 1 for i in range(8)] + [('in', 15)]

def check_cells(rep, rule, oid, term, word, where, what):
    """term: i32 result as a function of the 16-bit word `word`"""
    bad = None; ncell = 0
    for E in list(range(1, 32)) + ['zero']:
        if E == 'zero':
            fixed = dict((i, 0) for i in range(15))
            want = expected_bits(0, True)
        else:
            fixed = dict((10 + i, (E >> i) & 1) for i in range(5))
            want = expected_bits(E)
        ev = B.Evaluator(word, 16, fixed=fixed)
        t2 = resolve_cell(term, ev)
        try:
            av = ev.ev(t2)
        except B.NotBits as e:
            bad = 'exponent cell %s: %s' % (E, e); break
        if E == 'zero':
            want = [0] * 31 + [('in', 15)]
        if av.bits != want:
            bad = 'for half exponent field %s the result bits are %r; IEEE binary16 -> binary32 gives %s' % (E, av, B.AV(32, want)); break
        ncell += 1
    rep.ob(oid, rule, VIOLATED if bad else HOLDS, bad or '%d exponent cells (normal 1..30: s|E+112|M<<13, 31: s|0xff|M<<13, zero): 63,490 of 65,536 patterns' % ncell, where,
           sample=None if bad else '%s: %s' % (what, T.show(term, 4)[:300]))

def check_f16c(rep, f, where, rule='R02.f16c'):
    """f = (float->half graph, half->float graph) of the F16C build"""
    c = uses(f[0], lambda y: y.op == 'call' and 'vcvtps2ph' in str(y.attr))
    if c is None:
        rep.ob('vcvtps2ph immediate', rule, VIOLATED, 'no vcvtps2ph in the F16C float->half', where)
    else:
        imm = c.args[1]
        ok = imm.op == 'const' and (imm.attr[1] & 0x7) == 0
        rep.ob('vcvtps2ph immediate', rule, HOLDS if ok else VIOLATED, 'imm8 = %s: rounding control = nearest-even, MXCSR not consulted' % (imm.attr[1] if imm.op == 'const' else '?') if ok else
               'rounding immediate is %s: bits 1:0 must be 00 (round to nearest even) and bit 2 clear (do not use MXCSR.RC)' % T.show(imm), where)
        src = c.args[0]
        ok2 = src.op == 'insertelement' and src.args[1].op == 'arg'
        rep.ob('vcvtps2ph operand', rule, HOLDS if ok2 else VIOLATED, '' if ok2 else 'the converted value is %s, expected the argument unmodified' % T.show(src, 3), where, nontrivial=False)
        # ... on every path: the F16C float->half has no branch (a software early-out for some class of inputs would bypass the
        # instruction, and with it the hardware's rounding and NaN handling, for that class only)
        br = uses(f[0], lambda y: y.op == 'ite')
        rep.ob('vcvtps2ph on every path', rule, HOLDS if br is None else VIOLATED, 'the F16C float->half is the instruction\'s result for every input (no branch)' if br is None else
               'the F16C float->half branches on %s: inputs on the other arm are not converted by the instruction (%s)' % (T.show(br.args[0], 3)[:120], T.show(br.args[1], 3)[:100]), where, nontrivial=False)
    h = f[1]
    ok3 = h.op == 'fpext' and h.args[0].op == 'bitcast' and h.args[0].args[0].op == 'arg'
    rep.ob('vcvtph2ps operand', rule, HOLDS if ok3 else VIOLATED, '' if ok3 else 'half->float on F16C is %s, expected the conversion of h unmodified' % T.show(h, 4), where, nontrivial=False)

def f16c_graphs(ws):
    """value graphs of the two conversion functions in the F16C build (C11)"""
    flags = dict(BACKENDS)['f16c']; lang, std, src = LANGS[0]
    mod = ws.module('c02_f16c_only', src, lang=lang, std=std, extra=flags, prefixes=('w_',))
    I = vg.Interp(mod)
    return (hoist(I.run('w_f2h').ret()), hoist(I.run('w_h2f').ret()), I)

def env_rule_software(rep, ws, rule, where='src/Imath/half.h'):
    """the integer-only rule for the two software back-ends as compiled for C11 (used by C01, whose own scope is the table build)"""
    FPOPS = ('fadd', 'fmul', 'fdiv', 'frem', 'fptosi', 'fptoui', 'sitofp', 'uitofp', 'fptrunc', 'fpext', 'fcmp', 'fneg')
    lang, std, src = LANGS[0]
    for bname, flags in BACKENDS[:2]:
        try:
            mod = ws.module('c01_env_%s' % bname, src, lang=lang, std=std, extra=flags, prefixes=('w_',))
            I = vg.Interp(mod)
            gs = (hoist(I.run('w_f2h').ret()), hoist(I.run('w_h2f').ret()))
        except (build.BuildError, vg.Unsupported) as e:
            rep.ob('software conversion[%s]: integer only' % bname, rule, UNDECIDED, str(e)[:300], where); continue
        for i, fn in enumerate(('imath_float_to_half', 'imath_half_to_float')):
            hit = uses(gs[i], lambda y: y.op in FPOPS or (y.op == 'call' and y.ty in ('float', 'double')))
            rep.ob('%s[%s]: integer only' % (fn, bname), rule, VIOLATED if hit is not None else HOLDS,
                   'the %s back-end computes with a floating-point operation (%s): the result then depends on the caller\'s floating-point environment (denormals-are-zero / flush-to-zero turn subnormal values into zero)' % (bname, T.show(hit, 3)[:120]) if hit is not None else 'bit operations only', where, nontrivial=False)

def fpexc_rule(rep, ws, rule, where='src/Imath/half.h'):
    """IMATH_HALF_ENABLE_FP_EXCEPTIONS is a documented build option of the bit-shift conversion: it raises FE_OVERFLOW /
    FE_UNDERFLOW and nothing else.  The value graph of each conversion function compiled with the option (table and
    no-table build, C11 and C++17) is the graph compiled without it - feraiseexcept is an effect, not a value."""
    n = 0
    for bname, flags in BACKENDS[:2]:
        for lang, std, src in (LANGS[0], LANGS[2]):
            try:
                g = []
                for opt in ([], ['-DIMATH_HALF_ENABLE_FP_EXCEPTIONS']):
                    mod = ws.module('c02_fpexc_%s_%s_%d' % (bname, std.replace('+', 'p'), len(opt)), src, lang=lang, std=std, extra=flags + opt, prefixes=('w_',))
                    I = vg.Interp(mod)
                    g.append((hoist(I.run('w_f2h').ret()), hoist(I.run('w_h2f').ret())))
            except (build.BuildError, vg.Unsupported) as e:
                rep.ob('FP-exceptions build[%s,%s]' % (bname, std), rule, UNDECIDED, str(e)[:300], where); continue
            for i, fn in enumerate(('imath_float_to_half', 'imath_half_to_float')):
                n += 1
                same = g[0][i] is g[1][i]
                det = ''
                if not same:
                    # name a cell: the first path on which the two graphs differ
                    det = 'with IMATH_HALF_ENABLE_FP_EXCEPTIONS the conversion returns %s, without it %s' % (T.show(g[1][i], 5)[:220], T.show(g[0][i], 5)[:220])
                rep.ob('%s[%s,%s]: FP-exceptions build == plain build' % (fn, bname, std), rule, HOLDS if same else VIOLATED, det, where, nontrivial=False)
    return n

def main(rep, ws, tier):
    ws.configure()
    graphs = {}
    for bname, flags in BACKENDS:
        for lang, std, src in LANGS:
            key = (bname, std)
            try:
                mod = ws.module('c02_%s_%s' % (bname, std.replace('+', 'p')), src, lang=lang, std=std, extra=flags, prefixes=('w_',))
                I = vg.Interp(mod)
                graphs[key] = (hoist(I.run('w_f2h').ret()), hoist(I.run('w_h2f').ret()), I)
                rep.units.append({'tu': 'half.h probe', 'backend': bname, 'language': std})
            except (build.BuildError, vg.Unsupported) as e:
                rep.ob('probe[%s,%s]' % key, 'R02.lang', UNDECIDED, str(e)[:300])
    where = 'src/Imath/half.h'
    # R02.lang
    for bname, _ in BACKENDS:
        ref = graphs.get((bname, 'gnu11'))
        if ref is None: continue
        for lang, std, _ in LANGS[1:]:
            g = graphs.get((bname, std))
            if g is None: continue
            for i, fn in enumerate(('imath_float_to_half', 'imath_half_to_float')):
                same = g[i] is ref[i]
                rep.ob('%s[%s]: C11 == %s' % (fn, bname, std), 'R02.lang', HOLDS if same else VIOLATED,
                       '' if same else 'value graph compiled as %s differs from the C11 one: %s vs %s' % (std, T.show(g[i], 4)[:200], T.show(ref[i], 4)[:200]), where,
                       sample='%s[%s] = %s' % (fn, bname, T.show(ref[i], 4)[:200]) if i == 1 else None)
    # R02.pp: back-end selection
    t = graphs.get(('table', 'gnu11')); n = graphs.get(('notable', 'gnu11')); f = graphs.get(('f16c', 'gnu11'))
    def has_table(x): return uses(x, lambda y: y.op == 'in' and str(y.attr[0]).startswith('g:imath_half_to_float_table')) is not None
    def has_intr(x): return uses(x, lambda y: (y.op == 'call' and 'vcvtp' in str(y.attr)) or (y.op == 'fpext' and y.attr[0] == 'half')) is not None
    if t and n and f:
        ok = has_table(t[1]) and not has_table(n[1]) and not has_intr(n[1]) and has_intr(f[1]) and has_intr(f[0]) and not has_table(f[1])
        rep.ob('back-end selection', 'R02.pp', HOLDS if ok else VIOLATED, 'default -> table lookup, IMATH_HALF_NO_LOOKUP_TABLE -> bit shifts, __F16C__ -> hardware' if ok else
               'macro configurations do not select the intended back-ends (table:%s notable uses table:%s f16c intrinsic:%s)' % (has_table(t[1]), has_table(n[1]), has_intr(f[1])), where)
        # software float->half identical in table / no-table builds
        same = t[0] is n[0]
        rep.ob('imath_float_to_half: table build == no-table build', 'R02.f2h', HOLDS if same else VIOLATED, '' if same else 'the software float->half differs between the two software builds', where)
    # R02.env: the software back-ends are bit manipulations - no floating-point operation, whose result would depend on the
    # caller's floating-point environment (rounding mode, flush-to-zero / denormals-are-zero)
    FPOPS = ('fadd', 'fmul', 'fdiv', 'frem', 'fptosi', 'fptoui', 'sitofp', 'uitofp', 'fptrunc', 'fpext', 'fcmp', 'fneg')
    def fp_op(x): return uses(x, lambda y: y.op in FPOPS or (y.op == 'call' and y.ty in ('float', 'double')))
    for bname in ('table', 'notable'):
        for std in [l[1] for l in LANGS]:
            g = graphs.get((bname, std))
            if g is None: continue
            for i, fn in enumerate(('imath_float_to_half', 'imath_half_to_float')):
                hit = fp_op(g[i])
                rep.ob('%s[%s,%s]: integer only' % (fn, bname, std), 'R02.env', VIOLATED if hit is not None else HOLDS,
                       'the %s back-end computes with a floating-point operation (%s): its result then depends on the floating-point environment of the caller - with denormals-are-zero or flush-to-zero set (any program linked with -ffast-math) subnormal values come out as zero, while the table and the F16C instruction are unaffected' % (bname, T.show(hit, 3)[:120]) if hit is not None else
                       'bit operations only (the float is only reinterpreted)', where, nontrivial=False)
    fpexc_rule(rep, ws, 'R02.fpexc')
    # half.cpp defines the table iff !NO_LOOKUP_TABLE
    try:
        bc = ws.compile_file('c02_half_notable', build.REPO + '/src/Imath/half.cpp', extra=['-DIMATH_HALF_NO_LOOKUP_TABLE'])
        mod = ws.irx(bc, prefixes=('@none@',), noopt=True, all_globals=True)
        has = any('imath_half_to_float_table' in g['name'] and 'init' in g for g in mod['globals'])
        bc2 = ws.compile_file('c02_half_table', build.REPO + '/src/Imath/half.cpp')
        mod2 = ws.irx(bc2, prefixes=('@none@',), noopt=True, all_globals=True)
        has2 = any(g['name'] == 'imath_half_to_float_table' and 'init' in g for g in mod2['globals'])
        ok = (not has) and has2
        rep.ob('half.cpp table definition', 'R02.pp', HOLDS if ok else VIOLATED, 'table defined iff !IMATH_HALF_NO_LOOKUP_TABLE' if ok else 'table defined with NO_LOOKUP_TABLE: %s; without: %s' % (has, has2), 'src/Imath/half.cpp')
    except build.BuildError as e:
        rep.ob('half.cpp table definition', 'R02.pp', UNDECIDED, str(e)[:300])
    cfg = open(os.path.join(ws.cfg, 'ImathConfig.h')).read()
    defs = re.findall(r'^\s*#\s*define\s+(IMATH_HALF_\w+)', cfg, re.M)
    ok = set(defs) <= {'IMATH_HALF_USE_LOOKUP_TABLE'}
    rep.ob('ImathConfig.h half macros', 'R02.pp', HOLDS if ok else VIOLATED, 'generated config defines %s' % (defs or 'no IMATH_HALF_* macro'), 'config/ImathConfig.h.in', nontrivial=False)
    # R02.shift
    if n:
        r = n[1]
        inner = r.args[0] if r.op == 'bitcast' else r
        word = uses(r, lambda y: y.op == 'arg')
        if word is None:
            rep.ob('imath_half_to_float[no-table] cells', 'R02.shift', UNDECIDED, 'no input word found', where)
        else:
            check_cells(rep, 'R02.shift', 'imath_half_to_float[no-table] cells', inner, word, where, 'bit-shift half->float')
    # R02.f16c
    if f:
        check_f16c(rep, f, where)
    # R02.gen
    gsrc = '#define main imath_gen_main\n#include "%s/src/Imath/toFloat.cpp"\nextern "C" {\n' % build.REPO
    for E in range(1, 32):
        gsrc += 'unsigned w_gen_%d(unsigned short y) { return halfToFloat((unsigned short)((y & 0x83ff) | (%d << 10))); }\n' % (E, E)
    gsrc += 'unsigned w_gen_zero(unsigned short y) { return halfToFloat((unsigned short)(y & 0x8000)); }\n}\n'
    try:
        mod = ws.module('c02_gen', gsrc, prefixes=('w_',))
        I = vg.Interp(mod)
        bad = None; ncell = 0
        for E in list(range(1, 32)) + ['zero']:
            S = I.run('w_gen_%s' % E)
            r = hoist(S.ret())
            word = uses(r, lambda y: y.op == 'arg')
            if E == 'zero':
                fixed = dict((i, 0) for i in range(15)); want = [0] * 31 + [('in', 15)]
            else:
                fixed = dict((10 + i, (E >> i) & 1) for i in range(5)); want = expected_bits(E)
            if word is None:
                bad = 'cell %s: result does not depend on the input' % E; break
            ev = B.Evaluator(word, 16, fixed=fixed)
            r2 = resolve_cell(r, ev)
            av = ev.ev(r2)
            if av.bits != want:
                bad = 'generator output for exponent field %s is %r; IEEE gives %s' % (E, av, B.AV(32, want)); break
            ncell += 1
        rep.ob('toFloat.cpp halfToFloat cells', 'R02.gen', VIOLATED if bad else HOLDS, bad or '%d exponent cells equal the IEEE closed forms that the shipped table satisfies entry-wise (C01 R01.table)' % ncell, 'src/Imath/toFloat.cpp (halfToFloat)')
    except (build.BuildError, vg.Unsupported, B.NotBits) as e:
        rep.ob('toFloat.cpp halfToFloat cells', 'R02.gen', UNDECIDED, str(e)[:300], 'src/Imath/toFloat.cpp')
    rep.floor('probe compilations', len(graphs), 12)
    rep.assumptions += ['x86-64 clang 14 as the compiler of all configurations']
    # R02.gen (count): the generator's main() calls halfToFloat once for each of the 65,536 patterns, in order from 0
    try:
        gsrc2 = '#define main imath_gen_main\n#include "%s/src/Imath/toFloat.cpp"\n' % build.REPO
        bc2 = ws.compile('c02_genmain', gsrc2)
        mod2 = ws.irx(bc2, prefixes=('imath_gen_main', '_Z14imath_gen_mainv'), no_unroll=True, opaque=('St',))
        fm = [f_ for f_ in mod2['functions'] if 'imath_gen_main' in f_['name']]
        if not fm:
            rep.fail_incomplete('anchor vanished: main() of toFloat.cpp')
        else:
            fm = fm[0]
            ids = {}; blk = {}
            for b_ in fm['blocks']:
                for i_ in b_['insts']: ids[i_.get('id')] = i_; blk[i_.get('id')] = b_['id']
            def is_inc(vid, pid):
                x_ = ids.get(vid, {}); io = x_.get('ops', [])
                return x_.get('op') == 'add' and any(o_.get('k') == 'v' and o_.get('id') == pid for o_ in io) and any(o_.get('k') == 'ci' and int(o_['v']) == 1 for o_ in io)
            counters = []
            for i_ in ids.values():
                if i_.get('op') == 'phi' and i_.get('fn') == 'imath_gen_main':
                    ops_ = i_['ops']
                    init = [o_ for o_, _ in ops_ if o_.get('k') == 'ci']; nxt = [o_ for o_, _ in ops_ if o_.get('k') == 'v']
                    if len(init) == 1 and len(nxt) == 1 and int(init[0]['v']) == 0 and is_inc(nxt[0]['id'], i_['id']): counters.append(i_)
            bad = None
            if len(counters) != 1: bad = 'expected one counter running 0, 1, 2, ... in main(), found %d' % len(counters)
            else:
                cnt = counters[0]; w_ = int(cnt['bits'])
                bounds = [i_ for i_ in ids.values() if i_.get('op') == 'icmp' and blk[i_['id']] == blk[cnt['id']] and any(o_.get('k') == 'v' and o_.get('id') == cnt['id'] for o_ in i_['ops'])]
                if len(bounds) != 1: bad = 'the loop over the patterns has no single bound test on its counter'
                else:
                    bd = bounds[0]; k_ = [o_ for o_ in bd['ops'] if o_.get('k') == 'ci']
                    lim = int(k_[0]['v']) if k_ else None
                    n_iter = lim if bd.get('pred') in ('ult', 'slt') else (lim + 1 if bd.get('pred') in ('ule', 'sle') else None)
                    if n_iter != 65536 or w_ < 17:
                        bad = 'the generator prints %s entries (counter of %d bits, test %s %s); the table has 65536, one per half pattern' % (n_iter if n_iter is not None and w_ >= 17 else ('at most %d' % min(n_iter or 1 << w_, (1 << w_) - 1)), w_, bd.get('pred'), lim)
                    else:
                        calls = [i_ for i_ in ids.values() if i_.get('op') == 'call' and 'halfToFloat' in str(i_.get('callee', ''))]
                        inl = [i_ for i_ in ids.values() if i_.get('fn') == 'halfToFloat']
                        if not calls and not inl: bad = 'halfToFloat is not evaluated inside the loop'
            rep.ob('toFloat.cpp main: one entry per pattern', 'R02.gen', VIOLATED if bad else HOLDS, bad or 'counter 0, 1, ... tested `< 65536` in a type wider than 16 bits: 65536 entries, halfToFloat(i) for each', 'src/Imath/toFloat.cpp (main)')
    except (build.BuildError, KeyError, ValueError) as e:
        rep.ob('toFloat.cpp main: one entry per pattern', 'R02.gen', UNDECIDED, str(e)[:300], 'src/Imath/toFloat.cpp')
    rep.undecided_clauses += ['subnormal cell (E = 0, M != 0) of the bit-shift path (count-leading-zeros renormalisation) and of the generator (while loop)',
                              'F16C instruction semantics (outside the source); NaN payload on F16C', 'the generator\'s text formatting of the table']
    # The F16C back-end rounds as IEEE (round-to-nearest-even, R02.f16c); the software back-ends agree with it iff
    # the shared software conversion is itself IEEE-exact - which is what the C01 rules decide.  They are run here
    # as part of this property so that a change of the software rounding is reported as a back-end divergence too.
    from . import c01
    rep._c01_from_c02 = True      # the F16C rules were already evaluated above (R02.f16c)
    c01.main(rep, ws, tier)

