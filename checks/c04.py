"""C04 - aggregates are component-wise (DESIGN section 4, C04).

R04.cw   every operator spelling: out slot i == scalar op on slot i   (D-term, IEEE-exact)
R04.eq   ==, != , equalWithAbsError/RelError: connective over all slots of scalar predicate
R04.map  ctors / setValue / getValue / operator[] / converting ctors: slot identity maps
R04.layout  compile-time witnesses (sizeof/offsetof/standard layout, interop traits)
R04.io   stream insertion sequence: ( c0 sep c1 ... ) one separator between components
"""
import subprocess, os
from engine import term as T, agg, build, vg
from engine.agg import ELEM, AGG, MATDIM, cpp, TU
from engine.report import HOLDS, VIOLATED, UNDECIDED
from .common import Analysed, slots_out, written_exact, fn_where

QUICK_TYPES = {
    'V2': 'fhs', 'V3': 'fhs', 'V4': 'fhs', 'C3': 'fhc', 'C4': 'fhc', 'S6': 'f', 'Q': 'f',
    'M22': 'f', 'M33': 'f', 'M44': 'f',
}
THOROUGH_TYPES = {
    'V2': 'fdhsilc', 'V3': 'fdhsilc', 'V4': 'fdhsilc', 'C3': 'fdhsilc', 'C4': 'fdhsilc', 'S6': 'fd', 'Q': 'fd',
    'M22': 'fd', 'M33': 'fd', 'M44': 'fd',
}
OPNAME = {'+': 'add', '-': 'sub', '*': 'mul', '/': 'div'}

# which component-wise spellings each class offers (confirmed by reading the headers)
def cw_ops(c):
    bin_self = {'V2': '+-*/', 'V3': '+-*/', 'V4': '+-*/', 'C3': '+-*/', 'C4': '+-*/', 'S6': '+-*/', 'Q': '+-', 'M22': '+-', 'M33': '+-', 'M44': '+-'}[c]
    assign_self = {'Q': '+-'}.get(c, bin_self)
    sc = '*/'
    sc_assign = '*/'
    ops = []
    for o in bin_self: ops.append(('bin', o))
    for o in assign_self: ops.append(('binassign', o))
    for o in sc: ops.append(('sc', o))
    for o in sc_assign: ops.append(('scassign', o))
    ops.append(('lsc', '*'))
    ops.append(('neg', '-'))
    if c != 'Q': ops.append(('negate', '-'))
    if c in MATDIM:
        ops.append(('scassign', '+')); ops.append(('scassign', '-'))
    return ops

def gen_tu(c, t):
    A = cpp(c, t); E = ELEM[t][0]
    tu = TU('c04_%s_%s' % (c, t), opaque=build.HALF_OPAQUE)
    n = AGG[c][1]
    # scalar references: what the language says the operation on T is
    for o, nm in OPNAME.items():
        tu.add('ref_%s' % nm, '%s& o, const %s& a, const %s& b' % (E, E, E), 'o = %s(a %s b);' % (E, o), kind='ref')
    tu.add('ref_neg', '%s& o, const %s& a' % (E, E), 'o = %s(-a);' % E, kind='ref')
    tu.add('ref_eq', 'bool& o, const %s& a, const %s& b' % (E, E), 'o = (a == b);', kind='ref')
    tu.add('ref_ne', 'bool& o, const %s& a, const %s& b' % (E, E), 'o = (a != b);', kind='ref')
    tu.add('ref_eqabs', 'bool& o, const %s& a, const %s& b, const %s& e' % (E, E, E), 'o = IMATH_INTERNAL_NAMESPACE::equalWithAbsError(a, b, e);', kind='ref')
    tu.add('ref_eqrel', 'bool& o, const %s& a, const %s& b, const %s& e' % (E, E, E), 'o = IMATH_INTERNAL_NAMESPACE::equalWithRelError(a, b, e);', kind='ref')
    for kind, o in cw_ops(c):
        nm = OPNAME[o]
        w = 'w_%s_%s' % (kind, nm)
        if kind == 'bin':
            tu.add(w, '%s& out, const %s& a, const %s& b' % (A, A, A), 'out = a %s b;' % o, kind=kind, op=nm)
        elif kind == 'binassign':
            tu.add(w, '%s& a, const %s& b' % (A, A), 'a %s= b;' % o, kind=kind, op=nm)
        elif kind == 'sc':
            tu.add(w, '%s& out, const %s& a, const %s& s' % (A, A, E), 'out = a %s s;' % o, kind=kind, op=nm)
        elif kind == 'scassign':
            tu.add(w, '%s& a, const %s& s' % (A, E), 'a %s= s;' % o, kind=kind, op=nm)
            # the scalar operand is one of the aggregate's own components: every slot is combined with its value at the call
            for k_ in sorted(set((0, n - 2))):
                memb = ('a[%d][%d]' % (k_ // MATDIM[c], k_ % MATDIM[c])) if c in MATDIM else 'a.' + AGG[c][2][k_]
                tu.add(w + '_self%d' % k_, '%s& a' % A, 'a %s= %s;' % (o, memb), kind='scassign_self', op=nm, slot=k_)
        elif kind == 'lsc':
            tu.add(w, '%s& out, const %s& s, const %s& a' % (A, E, A), 'out = s %s a;' % o, kind=kind, op=nm)
        elif kind == 'neg':
            tu.add(w, '%s& out, const %s& a' % (A, A), 'out = -a;', kind=kind, op='neg')
        elif kind == 'negate':
            tu.add(w, '%s& a' % A, 'a.negate();', kind=kind, op='neg')
    if c == 'S6':
        # scalar * Shear6<T> is a template over the scalar type S: the product is formed in the common type of S and T
        E2 = ELEM['d' if t == 'f' else 'f'][0]
        tu.add('ref_lscmix', '%s& o, const %s& s, const %s& a' % (E, E2, E), 'o = %s(s * a);' % E, kind='ref')
        tu.add('w_lscmix_mul', '%s& out, const %s& s, const %s& a' % (A, E2, A), 'out = s * a;', kind='lscmix', op='lscmix')
    # equality family
    tu.add('w_eq', 'bool& o, const %s& a, const %s& b' % (A, A), 'o = (a == b);', kind='eq', op='eq')
    tu.add('w_ne', 'bool& o, const %s& a, const %s& b' % (A, A), 'o = (a != b);', kind='eq', op='ne')
    if c in ('V2', 'V3', 'V4', 'C4', 'S6') and t in 'fdi':
        # the comparison operators are templates over the other operand's element type: the components are compared as the
        # language compares a T with an S (in their common type), not after a conversion to T
        t2 = {'f': 'd', 'd': 'f', 'i': 'f'}[t]; E2 = ELEM[t2][0]; A2 = cpp(c, t2)
        tu.add('ref_eqmix', 'bool& o, const %s& a, const %s& b' % (E, E2), 'o = (a == b);', kind='ref')
        tu.add('ref_nemix', 'bool& o, const %s& a, const %s& b' % (E, E2), 'o = (a != b);', kind='ref')
        tu.add('w_eqmix', 'bool& o, const %s& a, const %s& b' % (A, A2), 'o = (a == b);', kind='eq', op='eqmix', t2=t2)
        tu.add('w_nemix', 'bool& o, const %s& a, const %s& b' % (A, A2), 'o = (a != b);', kind='eq', op='nemix', t2=t2)
    if c not in ('Q', 'C4') and t in 'fd' or (c in ('V2', 'V3', 'V4', 'C3') and t not in 'h'):
        tu.add('w_eqabs', 'bool& o, const %s& a, const %s& b, const %s& e' % (A, A, E), 'o = a.equalWithAbsError(b, e);', kind='eq', op='eqabs')
        tu.add('w_eqrel', 'bool& o, const %s& a, const %s& b, const %s& e' % (A, A, E), 'o = a.equalWithRelError(b, e);', kind='eq', op='eqrel')
    # slot maps
    gen_maps(tu, c, t)
    return tu

def gen_maps(tu, c, t):
    A = cpp(c, t); E = ELEM[t][0]; n = AGG[c][1]
    args = ', '.join('const %s& s%d' % (E, i) for i in range(n))
    vals = ', '.join('s%d' % i for i in range(n))
    outs = ', '.join('%s& s%d' % (E, i) for i in range(n))
    tu.add('w_copy', '%s& out, const %s& a' % (A, A), '%s tmp(a); out = tmp;' % A, kind='map', perm=list(range(n)))
    tu.add('w_assign', '%s& out, const %s& a' % (A, A), 'out = a;', kind='map', perm=list(range(n)))
    if c in ('V2', 'V3', 'V4', 'C3', 'C4', 'S6'):
        ctor = {'Q': None}.get(c, '%s(%s)' % (A, vals))
        tu.add('w_ctor_slots', '%s& out, %s' % (A, args), 'out = %s;' % ctor, kind='mapsc', perm=list(range(n)))
        if c != 'S6':
            tu.add('w_ctor_splat', '%s& out, const %s& s0' % (A, E), 'out = %s(s0);' % A, kind='mapsc', perm=[0] * n)
        tu.add('w_setValue', '%s& out, %s' % (A, args), 'out.setValue(%s);' % vals, kind='mapsc', perm=list(range(n)))
        tu.add('w_setValueV', '%s& out, const %s& a' % (A, A), 'out.setValue(a);', kind='map', perm=list(range(n)))
        tu.add('w_getValue', 'const %s& a, %s' % (A, outs), 'a.getValue(%s);' % vals, kind='mapout', perm=list(range(n)))
        tu.add('w_getValueV', '%s& out, const %s& a' % (A, A), 'a.getValue(out);', kind='map', perm=list(range(n)))
    if c == 'Q':
        tu.add('w_ctor_slots', '%s& out, %s' % (A, args), 'out = %s(s0, s1, s2, s3);' % A, kind='mapsc', perm=list(range(n)))
        tu.add('w_ctor_rv', '%s& out, const %s& s0, const Vec3<%s>& v' % (A, E, E), 'out = %s(s0, v);' % A, kind='mapq')
    if c in MATDIM:
        d = MATDIM[c]
        tu.add('w_ctor_slots', '%s& out, %s' % (A, args), 'out = %s(%s);' % (A, vals), kind='mapsc', perm=list(range(n)))
        tu.add('w_ctor_splat', '%s& out, const %s& s0' % (A, E), 'out = %s(s0);' % A, kind='mapsc', perm=[0] * n)
        tu.add('w_assign_splat', '%s& out, const %s& s0' % (A, E), 'out = s0;', kind='mapsc', perm=[0] * n)
        tu.add('w_ctor_arr', '%s& out, const %s (&a)[%d][%d]' % (A, E, d, d), 'out = %s(a);' % A, kind='map', perm=list(range(n)))
        tu.add('w_setValueV', '%s& out, const %s& a' % (A, A), 'out.setValue(a);', kind='map', perm=list(range(n)))
        tu.add('w_getValueV', '%s& out, const %s& a' % (A, A), 'a.getValue(out);', kind='map', perm=list(range(n)))
        tu.add('w_transposed_twice', '%s& out, const %s& a' % (A, A), 'out = a.transposed().transposed();', kind='map', perm=list(range(n)))
        for i in range(d):
            for j in range(d):
                tu.add('w_idx_%d_%d' % (i, j), '%s& o, const %s& a' % (E, A), 'o = a[%d][%d];' % (i, j), kind='idxget', slot=i * d + j)
                tu.add('w_idxset_%d_%d' % (i, j), '%s& a, const %s& s' % (A, E), 'a[%d][%d] = s;' % (i, j), kind='idxset', slot=i * d + j)
        tu.add('w_ptr', '%s& o, const %s& a' % (A, A), 'const %s* p = a.getValue(); %s* q = o.getValue(); for (int i = 0; i < %d; i++) q[i] = p[i];' % (E, E, n), kind='map', perm=list(range(n)))
    else:
        for i in range(n):
            tu.add('w_idx_%d' % i, '%s& o, const %s& a' % (E, A), 'o = a[%d];' % i, kind='idxget', slot=i)
            tu.add('w_idxset_%d' % i, '%s& a, const %s& s' % (A, E), 'a[%d] = s;' % i, kind='idxset', slot=i)
            nm = AGG[c][2][i]
            tu.add('w_named_%d' % i, '%s& o, const %s& a' % (E, A), 'o = a.%s;' % nm, kind='idxget', slot=i)
        if c not in ('Q', 'C4'):
            tu.add('w_ptr', '%s& o, const %s& a' % (A, A), 'const %s* p = a.getValue(); %s* q = o.getValue(); for (int i = 0; i < %d; i++) q[i] = p[i];' % (E, E, n), kind='map', perm=list(range(n)))
    # constructors / assignments from a smaller aggregate: the named slots are copied, the others get the documented constant
    if t in 'fd':
        V3 = 'Vec3<%s>' % E
        if c == 'S6':
            tu.add('w_ctor_xyz', '%s& out, const %s& s0, const %s& s1, const %s& s2' % (A, E, E, E), 'out = %s(s0, s1, s2);' % A, kind='mapz', src='scalars', perm=[0, 1, 2, 0.0, 0.0, 0.0])
            tu.add('w_ctor_vec3', '%s& out, const %s& a' % (A, V3), 'out = %s(a);' % A, kind='mapz', src='agg', perm=[0, 1, 2, 0.0, 0.0, 0.0])
            tu.add('w_assign_vec3', '%s& out, const %s& a' % (A, V3), 'out = a;', kind='mapz', src='agg', perm=[0, 1, 2, 0.0, 0.0, 0.0])
            tu.add('w_ctor_default', '%s& out' % A, 'out = %s();' % A, kind='mapz', src='agg', perm=[0.0] * 6)
        if c == 'V4':
            tu.add('w_ctor_vec3', '%s& out, const %s& a' % (A, V3), 'out = %s(a);' % A, kind='mapz', src='agg', perm=[0, 1, 2, 1.0])
        if c == 'M44':
            # Matrix44(Matrix33 r, Vec3 t): r in the upper-left block, t in the last row, (0,0,0,1) as last column
            pm = []
            for i in range(4):
                for j in range(4):
                    pm.append(('a1', i * 3 + j) if (i < 3 and j < 3) else ('a2', j) if (i == 3 and j < 3) else (1.0 if i == 3 else 0.0))
            tu.add('w_ctor_rt', '%s& out, const Matrix33<%s>& r, const %s& tt' % (A, E, V3), 'out = %s(r, tt);' % A, kind='mapz', src='multi', perm=pm)
        if c in MATDIM:
            tu.add('w_ctor_default', '%s& out' % A, 'out = %s();' % A, kind='mapz', src='agg', perm=[1.0 if i // MATDIM[c] == i % MATDIM[c] else 0.0 for i in range(n)])
            tu.add('w_makeIdentity', '%s& out' % A, 'out.makeIdentity();', kind='mapz', src='agg', perm=[1.0 if i // MATDIM[c] == i % MATDIM[c] else 0.0 for i in range(n)])
        if c in ('C3', 'C4', 'V2', 'V3', 'V4') and False:
            pass
    # converting constructors (component-wise cast)
    for t2 in ('f', 'd', 'i', 'h', 's'):
        if t2 == t: continue
        if c in MATDIM or c in ('S6', 'Q'):
            if not (t in 'fd' and t2 in 'fd'): continue
        if c in ('C3', 'C4') and t2 not in 'fh': continue
        if c == 'Q': continue
        A2 = cpp(c, t2); E2 = ELEM[t2][0]
        tu.add('ref_cast_%s' % t2, '%s& o, const %s& a' % (E, E2), 'o = %s(a);' % E, kind='ref')
        tu.add('w_conv_%s' % t2, '%s& out, const %s& a' % (A, A2), 'out = %s(a);' % A, kind='conv', src=t2)
    # interop with foreign types (Vec only)
    if c in ('V2', 'V3', 'V4') and t in 'fd':
        names = AGG[c][2]
        tu.header = tu.header  # struct definitions are appended once per TU
        st = 'struct For_%s_%s { %s; };' % (c, t, '; '.join('%s %s' % (E, nm) for nm in names))
        sub = 'struct Sub_%s_%s { %s d[%d]; %s& operator[](int i) { return d[i]; } const %s& operator[](int i) const { return d[i]; } };' % (c, t, E, n, E, E)
        tu.header += st + '\n' + sub + '\n'
        tu.add('w_interop_ctor', '%s& out, const For_%s_%s& a' % (A, c, t), 'out = %s(a);' % A, kind='map', perm=list(range(n)))
        tu.add('w_interop_assign', '%s& out, const For_%s_%s& a' % (A, c, t), 'out = a;', kind='map', perm=list(range(n)))
        tu.add('w_interop_sub_ctor', '%s& out, const Sub_%s_%s& a' % (A, c, t), 'out = %s(a);' % A, kind='map', perm=list(range(n)))
        tu.add('w_interop_sub_assign', '%s& out, const Sub_%s_%s& a' % (A, c, t), 'out = a;', kind='map', perm=list(range(n)))
    if c in MATDIM and t in 'fd':
        d = MATDIM[c]
        sub = 'struct Sub2_%s_%s { %s d[%d][%d]; %s* operator[](int i) { return d[i]; } const %s* operator[](int i) const { return d[i]; } };' % (c, t, E, d, d, E, E)
        tu.header += sub + '\n'
        tu.add('w_interop_sub_ctor', '%s& out, const Sub2_%s_%s& a' % (A, c, t), 'out = %s(a);' % A, kind='map', perm=list(range(n)))
        tu.add('w_interop_sub_assign', '%s& out, const Sub2_%s_%s& a' % (A, c, t), 'out = a;', kind='map', perm=list(range(n)))


def ref_term(an, name, nargs):
    """the scalar reference as (term, [input nodes])"""
    S = an.get(name)
    if S is None:
        return None
    return S

def check_tu(rep, an, tu, c, t):
    A = cpp(c, t)
    n = AGG[c][1]; _, sz, lt = ELEM[t]
    pre = '%s<%s>' % (c, ELEM[t][0])
    refs = {}
    def ref(name):
        S = an.get(name)
        if S is None:
            return None
        m = an.meta[name]
        return S
    def ref_out(name, oty=None, osz=None):
        S = an.get(name)
        if S is None: return None
        return S.out('a0', 0, osz or sz, oty or lt)
    def inst(term, mapping):
        return T.subst(term, mapping)
    a_in = lambda base, i: agg.slot_in(base, i, t)
    s_in = lambda base: agg.scalar_in(base, t)

    for name, m in tu.meta.items():
        kind = m['kind']
        if kind == 'ref':
            continue
        oid = '%s::%s' % (pre, name[2:])
        S = an.get(name)
        if S is None:
            rep.ob(oid, 'R04.' + ('cw' if kind in ('bin', 'binassign', 'sc', 'scassign', 'scassign_self', 'lsc', 'lscmix', 'neg', 'negate') else 'eq' if kind == 'eq' else 'map'),
                   UNDECIDED, an.err.get(name, 'not analysed'))
            continue
        where = fn_where(S.fn)
        if any(e.kind != 'ret' for e in S.exits):
            rep.ob(oid, 'R04.cw', VIOLATED, 'component-wise operation has a non-returning exit (%s)' % [e.kind for e in S.exits], where)
            continue
        if kind in ('bin', 'binassign', 'sc', 'scassign', 'scassign_self', 'lsc', 'lscmix', 'neg', 'negate'):
            op = m['op']
            r = ref_out('ref_' + op)
            if r is None:
                rep.ob(oid, 'R04.cw', UNDECIDED, 'scalar reference not analysed: ' + an.err.get('ref_' + op, ''), where); continue
            outbase = 'a0'
            bad = []
            got = slots_out(S, outbase, n, t)
            for i in range(n):
                if kind == 'bin': mp = {s_in('a1'): a_in('a1', i), s_in('a2'): a_in('a2', i)}
                elif kind == 'binassign': mp = {s_in('a1'): a_in('a0', i), s_in('a2'): a_in('a1', i)}
                elif kind == 'sc': mp = {s_in('a1'): a_in('a1', i), s_in('a2'): s_in('a2')}
                elif kind == 'scassign': mp = {s_in('a1'): a_in('a0', i), s_in('a2'): s_in('a1')}
                elif kind == 'scassign_self': mp = {s_in('a1'): a_in('a0', i), s_in('a2'): a_in('a0', m['slot'])}
                elif kind == 'lsc': mp = {s_in('a1'): s_in('a1'), s_in('a2'): a_in('a2', i)}
                elif kind == 'lscmix': mp = {s_in('a2'): a_in('a2', i)}
                elif kind == 'neg': mp = {s_in('a1'): a_in('a1', i)}
                elif kind == 'negate': mp = {s_in('a1'): a_in('a0', i)}
                exp = inst(r, mp)
                if got[i] is not exp:
                    # integer x / x: the compiler folds it to 1 (x = 0 is undefined behaviour): equal wherever defined
                    if kind == 'scassign_self' and i == m['slot'] and op == 'div' and not lt.startswith(('f', 'd', 'h')) and got[i].op == 'const' and got[i].attr[1] == 1:
                        continue
                    bad.append((i, exp, got[i]))
            if not written_exact(S, outbase, n, t):
                bad.append((-1, None, None))
            if bad:
                i, exp, g = bad[0]
                det = ('slot %s: expected %s, found %s' % (agg.slot_name(c, i), T.show(exp), T.show(g))) if i >= 0 else 'writes outside the %d slots of the result' % n
                rep.ob(oid, 'R04.cw', VIOLATED, det + (' (+%d more slots)' % (len(bad) - 1) if len(bad) > 1 else ''), where)
            else:
                rep.ob(oid, 'R04.cw', HOLDS, '', where, sample='%s slot %s = %s' % (oid, agg.slot_name(c, n - 1), T.show(got[n - 1])))
        elif kind == 'eq':
            op = m['op']
            r = ref_out('ref_' + op, 'i8', 1)
            g = S.out('a0', 0, 1, 'i8')
            if r is None:
                rep.ob(oid, 'R04.eq', UNDECIDED, 'scalar reference not analysed', where); continue
            def as_bool(x):
                # i8 0/1 decision DAG -> i1 DAG
                def rec(y):
                    if y.op == 'ite': return T.ite(y.args[0], rec(y.args[1]), rec(y.args[2]))
                    if y.op == 'const': return T.TRUE if y.attr[1] & 1 else T.FALSE
                    if y.op == 'zext': return y.args[0]
                    raise vg.Unsupported('boolean result of unexpected shape %s' % y.op)
                return rec(x)
            try:
                rb = as_bool(r); gb = as_bool(g)
            except vg.Unsupported as e:
                rep.ob(oid, 'R04.eq', UNDECIDED, str(e), where); continue
            t2 = m.get('t2')
            if t2: op = op[:2]
            exp = T.FALSE if op == 'ne' else T.TRUE
            for i in range(n):
                mp = {s_in('a1'): a_in('a1', i), s_in('a2'): a_in('a2', i)}
                if t2: mp = {s_in('a1'): a_in('a1', i), agg.scalar_in('a2', t2): agg.slot_in('a2', i, t2)}
                if op in ('eqabs', 'eqrel'): mp[s_in('a3')] = s_in('a3')
                term = inst(rb, mp)
                exp = T.bool_or(exp, term) if op == 'ne' else T.bool_and(exp, term)
            if gb is exp:
                rep.ob(oid, 'R04.eq', HOLDS, '', where, sample='%s = %s' % (oid, T.show(gb, 4)))
            else:
                # which slots does the result depend on?
                dep = set()
                stack = [gb]; seen = set()
                while stack:
                    x = stack.pop()
                    if x.id in seen: continue
                    seen.add(x.id)
                    if x.op == 'in': dep.add(x.attr[:2])
                    stack.extend(x.args)
                missing = [(b, agg.slot_name(c, i)) for b in ('a1', 'a2') for i in range(n) if (b, i * sz) not in dep]
                rep.ob(oid, 'R04.eq', VIOLATED, 'result is not the %s over all slots of the scalar predicate; slots not examined: %s; found %s' %
                       ('disjunction' if op == 'ne' else 'conjunction', missing, T.show(gb, 5)), where)
        elif kind in ('map', 'mapsc', 'mapout', 'idxget', 'idxset', 'conv', 'mapq', 'mapz'):
            bad = None
            if kind == 'mapz':
                got = slots_out(S, 'a0', n, t)
                for i, src in enumerate(m['perm']):
                    if isinstance(src, float): exp = T.fp_from_value(lt, src); what = 'the constant %g' % src
                    elif isinstance(src, tuple): exp = agg.slot_in(src[0], src[1], t); what = 'slot %d of argument %s' % (src[1], src[0])
                    elif m['src'] == 'scalars': exp = agg.scalar_in('a%d' % (1 + src), t); what = 'argument %d' % src
                    else: exp = agg.slot_in('a1', src, t); what = 'source slot %d' % src
                    if got[i] is not exp:
                        bad = 'slot %s holds %s, expected %s' % (agg.slot_name(c, i), T.show(got[i]), what); break
                if not bad and not written_exact(S, 'a0', n, t): bad = 'writes outside the result slots'
            elif kind == 'map':
                got = slots_out(S, 'a0', n, t)
                for i, src in enumerate(m['perm']):
                    if got[i] is not a_in('a1', src):
                        bad = 'slot %s holds %s, expected source slot %s' % (agg.slot_name(c, i), T.show(got[i]), agg.slot_name(c, src)); break
                if not bad and not written_exact(S, 'a0', n, t): bad = 'writes outside the result slots'
            elif kind == 'mapsc':
                got = slots_out(S, 'a0', n, t)
                for i, src in enumerate(m['perm']):
                    if got[i] is not agg.scalar_in('a%d' % (1 + src), t):
                        bad = 'slot %s holds %s, expected argument %d' % (agg.slot_name(c, i), T.show(got[i]), src); break
                if not bad and not written_exact(S, 'a0', n, t): bad = 'writes outside the result slots'
            elif kind == 'mapout':
                for i, src in enumerate(m['perm']):
                    g = S.out('a%d' % (1 + i), 0, sz, lt)
                    if g is not a_in('a0', src):
                        bad = 'output %d holds %s, expected slot %s' % (i, T.show(g), agg.slot_name(c, src)); break
            elif kind == 'mapq':
                got = slots_out(S, 'a0', n, t)
                exp = [agg.scalar_in('a1', t)] + [agg.slot_in('a2', i, t) for i in range(3)]
                for i in range(4):
                    if got[i] is not exp[i]: bad = 'slot %s holds %s' % (agg.slot_name(c, i), T.show(got[i])); break
            elif kind == 'idxget':
                g = S.out('a0', 0, sz, lt)
                if g is not a_in('a1', m['slot']):
                    bad = 'reads %s, expected slot %s' % (T.show(g), agg.slot_name(c, m['slot']))
            elif kind == 'idxset':
                w = S.written('a0')
                if set(w.keys()) != {m['slot'] * sz}:
                    bad = 'writes byte offsets %s, expected only slot %s' % (sorted(w.keys(), key=str), agg.slot_name(c, m['slot']))
                elif S.out('a0', m['slot'] * sz, sz, lt) is not agg.scalar_in('a1', t):
                    bad = 'stores %s' % T.show(S.out('a0', m['slot'] * sz, sz, lt))
            elif kind == 'conv':
                t2 = m['src']
                r = an.get('ref_cast_' + t2)
                if r is None:
                    rep.ob(oid, 'R04.map', UNDECIDED, 'cast reference not analysed', where); continue
                rt = r.out('a0', 0, sz, lt)
                got = slots_out(S, 'a0', n, t)
                for i in range(n):
                    exp = T.subst(rt, {agg.scalar_in('a1', t2): agg.slot_in('a1', i, t2)})
                    if got[i] is not exp:
                        bad = 'slot %s holds %s, expected %s' % (agg.slot_name(c, i), T.show(got[i]), T.show(exp)); break
            if bad:
                rep.ob(oid, 'R04.map', VIOLATED, bad, where)
            else:
                rep.ob(oid, 'R04.map', HOLDS, '', where)


# ---------------------------------------------------------------- layout witnesses (compile-time)

def layout_tu(types_of):
    lines = [agg.HEADER, '#include <cstddef>\n#include <type_traits>\n#include <ImathTypeTraits.h>\n']
    n = 0
    for c, ts in types_of.items():
        for t in ts:
            A = cpp(c, t); E = ELEM[t][0]; cnt = AGG[c][1]
            lines.append('static_assert(sizeof(%s) == %d * sizeof(%s), "W%d size %s");' % (A, cnt, E, n, A)); n += 1
            lines.append('static_assert(std::is_standard_layout<%s>::value, "W%d standard layout %s");' % (A, n, A)); n += 1
            if c in MATDIM:
                lines.append('static_assert(offsetof(%s, x) == 0 && sizeof(((%s*)0)->x) == sizeof(%s), "W%d x[][] %s");' % (A, A, A, n, A)); n += 1
                d = MATDIM[c]
                lines.append('static_assert(std::is_same<decltype(((%s*)0)->x), %s[%d][%d]>::value, "W%d row-major array %s");' % (A, E, d, d, n, A)); n += 1
            elif c == 'Q':
                lines.append('static_assert(offsetof(%s, r) == 0 && offsetof(%s, v) == sizeof(%s), "W%d r,v %s");' % (A, A, E, n, A)); n += 1
            else:
                for i, nm in enumerate(AGG[c][2]):
                    lines.append('static_assert(offsetof(%s, %s) == %d * sizeof(%s), "W%d offset %s::%s");' % (A, nm, i, E, n, A, nm)); n += 1
    # interop traits: accept / reject menagerie
    lines.append('''
struct F_xy { float x, y; }; struct F_xyz { float x, y, z; }; struct F_xyzw { float x, y, z, w; };
struct F_xyi { int x; float y; }; struct F_sub2 { float d[2]; float& operator[](int i){return d[i];} const float& operator[](int i) const {return d[i];} };
struct F_sub3 { float d[3]; float& operator[](int i){return d[i];} const float& operator[](int i) const {return d[i];} };
struct F_dsub3 { float d[3][3]; float* operator[](int i){return d[i];} const float* operator[](int i) const {return d[i];} };
''')
    wit = [
        ('has_xy<F_xy, float>::value', True), ('has_xy<F_xyz, float>::value', False), ('has_xy<F_xyi, float>::value', False),
        ('has_xyz<F_xyz, float>::value', True), ('has_xyz<F_xy, float>::value', False), ('has_xyz<F_xyzw, float>::value', False),
        ('has_xyzw<F_xyzw, float>::value', True), ('has_xyzw<F_xyz, float>::value', False),
        ('has_xy<F_xy, double>::value', False),
        ('has_subscript<F_sub2, float, 2>::value', True), ('has_subscript<F_sub3, float, 3>::value', True), ('has_subscript<F_sub3, float, 2>::value', False),
        ('has_subscript<F_xy, float, 2>::value', False),
        ('has_double_subscript<F_dsub3, float, 3, 3>::value', True), ('has_double_subscript<F_dsub3, float, 4, 4>::value', False),
        ('has_double_subscript<F_sub3, float, 3, 3>::value', False),
    ]
    for e, v in wit:
        lines.append('static_assert(%s(%s), "W%d trait %s");' % ('' if v else '!', e, n, e.replace('"', ''))); n += 1
    return '\n'.join(lines), n

def check_consteval(rep, ws):
    """constant-evaluated accessors: under C++23 (`__cpp_if_consteval`) the const operator[] of Vec2/3/4 takes a branch of its
    own, which no run-time translation unit contains.  Witnesses: for a constexpr vector built from distinct values,
    v[i] is slot i - as static_asserts compiled with -std=c++2b (and c++20, where the branch is absent but the named
    members and constructors are still constant-evaluated)."""
    import re
    lines = ['#include <ImathVec.h>', '#include <ImathColor.h>', 'using namespace IMATH_NAMESPACE;']
    n = 0
    names = {2: 'xy', 3: 'xyz', 4: 'xyzw'}
    for d in (2, 3, 4):
        for E in ('int', 'float', 'double', 'short', 'long'):
            vals = [10 * (k + 1) + k for k in range(d)]
            v = 'c_%d_%s' % (d, E)
            lines.append('constexpr Vec%d<%s> %s(%s);' % (d, E, v, ', '.join('%s(%d)' % (E, x) for x in vals)))
            for i in range(d):
                lines.append('static_assert(%s.%s == %s(%d), "W%d Vec%d<%s> member %s");' % (v, names[d][i], E, vals[i], n, d, E, names[d][i])); n += 1
    cxx23 = len(lines)
    lines.append('#ifdef __cpp_if_consteval')
    for d in (2, 3, 4):
        for E in ('int', 'float', 'double', 'short', 'long'):
            vals = [10 * (k + 1) + k for k in range(d)]
            v = 'c_%d_%s' % (d, E)
            for i in range(d):
                lines.append('static_assert(%s[%d] == %s(%d), "W%d constant-evaluated Vec%d<%s>::operator[](%d) const is not slot %s");' % (v, i, E, vals[i], n, d, E, i, names[d][i])); n += 1
    lines.append('#else')
    lines.append('#error "W-1 the C++23 witnesses need __cpp_if_consteval"')
    lines.append('#endif')
    p = ws.path('c04_consteval.cpp')
    with open(p, 'w') as f: f.write('\n'.join(lines) + '\n')
    r = subprocess.run(['clang++', '-std=c++2b', '-fsyntax-only', '-ferror-limit=0', '-Wno-everything'] + ws.include_flags() + [p], stdout=subprocess.PIPE, stderr=subprocess.STDOUT, text=True)
    failed = {}; other = []
    for line in r.stdout.splitlines():
        m = re.search(r'static_assert failed.*"W(\d+) ([^"]*)"', line)
        if m: failed[int(m.group(1))] = m.group(2)
        elif 'error:' in line: other.append(line)
    if other:
        rep.ob('constant evaluation::witness-TU', 'R04.map', UNDECIDED, 'witness TU does not compile as C++23: ' + other[0][:300]); return 0
    rep.ob('constant evaluation::witnesses', 'R04.map', VIOLATED if failed else HOLDS,
           ('compile-time witnesses failed: ' + '; '.join(failed[k] for k in sorted(failed))[:600]) if failed else '%d static_assert witnesses compiled as C++23: named members and constant-evaluated operator[] are slot-identity maps' % n,
           'src/Imath/ImathVec.h (operator[] const, `if consteval` branch)')
    rep.extra['consteval_witnesses'] = n
    return n

def check_layout(rep, ws, types_of):
    src, n = layout_tu(types_of)
    p = ws.path('c04_layout.cpp')
    with open(p, 'w') as f: f.write(src)
    r = subprocess.run(['clang++', '-std=gnu++17', '-fsyntax-only', '-ferror-limit=0', '-Wno-everything', '-Wno-invalid-offsetof'] + ws.include_flags() + [p],
                       stdout=subprocess.PIPE, stderr=subprocess.STDOUT, text=True)
    failed = {}
    import re
    other = []
    for line in r.stdout.splitlines():
        m = re.search(r'static_assert failed.*"W(\d+) ([^"]*)"', line)
        if m: failed[int(m.group(1))] = m.group(2)
        elif 'error:' in line: other.append(line)
    if other:
        rep.ob('layout::witness-TU', 'R04.layout', UNDECIDED, 'witness TU does not compile: ' + other[0][:300])
        return
    rep.ob('layout::witnesses', 'R04.layout', VIOLATED if failed else HOLDS,
           ('compile-time witnesses failed: ' + '; '.join(sorted(failed.values()))) if failed else '',
           'src/Imath (record layouts)', sample='%d static_assert witnesses (sizeof == N*sizeof(T), offsetof(member i) == i*sizeof(T), standard layout, interop traits accept/reject)' % n)
    rep.extra['layout_witnesses'] = n


# ---------------------------------------------------------------- stream output (D-effect)

IO_CLASSES = ['V2', 'V3', 'V4', 'C4', 'S6', 'Q', 'M22', 'M33', 'M44']

def gen_io_tu(t='f'):
    tu = TU('c04_io_' + t, header='#include <iostream>\n#include <iomanip>\n' + agg.HEADER)
    for c in IO_CLASSES:
        A = cpp(c, t)
        tu.add('w_io_%s' % c, 'std::ostream& s, const %s& a' % A, 's << a;', kind='io', cls=c)
    return tu

def io_events(S, c, t):
    """ordered list of insertion events from the opaque std:: calls in the wrapper"""
    ev = []
    _, sz, lt = ELEM[t]
    for name, node, line in S.calls:
        args = [a for a in node.args if a.ty != 'mem']
        if 'setw' in name or name.startswith('_ZStlsIcSt11char_traitsIcEERSt13basic_ostreamIT_T0_ES6_St5_Setw'):
            ev.append(('setw',)); continue
        payload = args[1:] if len(args) > 1 else []
        def root(x, depth=0):
            # the stream object an insertion goes to: the chain s << a << b passes the stream through the returned reference
            if x.op == 'ptr': return x.attr
            if x.op == 'call' and depth < 64:
                aa = [y for y in x.args if y.ty != 'mem']
                return root(aa[0], depth + 1) if aa else None
            return None
        strm = root(args[0]) if args else None
        if 'copyfmt' in name:
            ev.append(('copyfmt', strm, root(args[1]) if len(args) > 1 else None)); continue
        kind = None
        for a in payload:
            if a.op == 'const' and a.ty == 'i8':
                kind = ('lit', chr(a.attr[1])); break
            if a.op == 'ptr' and a.attr.startswith('g:.str'):
                kind = ('lit', 'str:' + a.attr[2:]); break
            src = a
            while src.op in ('fpext', 'sext', 'zext', 'sitofp') : src = src.args[0]
            if src.op == 'in' and src.attr[0] == 'a1':
                kind = ('slot', src.attr[1] // sz); break
        if kind:
            ev.append(kind + (strm,))
        else:
            ev.append(('other', name))
    return ev

def check_io(rep, ws, an, tu, t='f'):
    for name, m in tu.meta.items():
        c = m['cls']; oid = 'operator<<(%s<%s>)' % (c, ELEM[t][0])
        S = an.get(name)
        if S is None:
            rep.ob(oid, 'R04.io', UNDECIDED, an.err.get(name, '')); continue
        where = fn_where(S.fn)
        I = an.interp[name]
        def lit_text(k):
            if k.startswith('str:'):
                g = I.globals.get(k[4:])
                cells = I.global_cells(k[4:]) if g else None
                if cells is None: return None
                bs = []
                for off in sorted(o for o in cells if isinstance(o, int)):
                    v = cells[off][1]
                    if v.op == 'const': bs.append(v.attr[1])
                return bytes(bs).split(b'\0')[0].decode('latin1')
            return k
        ev = io_events(S, c, t)
        toks = []
        streams = {}
        for e in ev:
            if e[0] in ('lit', 'slot'): streams[e[2]] = streams.get(e[2], 0) + 1; e = e[:2]
            if e[0] == 'lit':
                s = lit_text(e[1])
                if s is None:
                    toks.append(('?',))
                else:
                    for ch in s: toks.append(('lit', ch))
            elif e[0] == 'slot': toks.append(e)
        # every token goes into the caller's stream, whose formatting state (precision, flags, fill) is the one that applies; a
        # private stream is only equivalent when it takes the whole state over (copyfmt)
        foreign = [k for k in streams if k != 'a0']
        copied = set(e[1] for e in ev if e[0] == 'copyfmt' and e[2] == 'a0')
        if [k for k in foreign if k not in copied]:
            rep.ob(oid, 'R04.io', VIOLATED, '%d of the insertions go into another stream object (%s) than the one passed in, without copyfmt: the components are then formatted with that stream\'s precision and fill, not the caller\'s' % (sum(streams[k] for k in foreign), ', '.join(str(k) for k in foreign)), where); continue
            # setw / flags / other formatting calls carry no text
        n = AGG[c][1]
        # expected grammar: '(' slot0 (ws+ slot_i)* ')' optional trailing newline; whitespace = ' ' or '\n'
        def fail(msg):
            rep.ob(oid, 'R04.io', VIOLATED, msg + '; insertion sequence: ' + ' '.join(x[1] if x[0] == 'lit' else '<%s>' % agg.slot_name(c, x[1]) if x[0] == 'slot' else '?' for x in toks).replace('\n', '\\n'), where)
        seq = list(toks)
        if not seq or seq[0] != ('lit', '('):
            fail('output does not start with one opening parenthesis'); continue
        pos = 1; ok = True; msg = ''
        d = MATDIM.get(c)
        for i in range(n):
            if i > 0:
                wsn = 0; nl = 0
                while pos < len(seq) and seq[pos][0] == 'lit' and seq[pos][1] in ' \n\t':
                    nl += seq[pos][1] == '\n'; wsn += 1; pos += 1
                if wsn == 0:
                    ok = False; msg = 'no whitespace separator before component %s' % agg.slot_name(c, i); break
                if d:
                    want_nl = 1 if i % d == 0 else 0
                    if nl != want_nl:
                        ok = False; msg = 'row structure: %d newline(s) before component %s, expected %d' % (nl, agg.slot_name(c, i), want_nl); break
                elif wsn != 1 or nl:
                    ok = False; msg = 'components of a one-line type must be separated by exactly one space (before %s)' % agg.slot_name(c, i); break
            if pos >= len(seq) or seq[pos] != ('slot', i):
                ok = False; msg = 'component %s expected at position %d' % (agg.slot_name(c, i), pos); break
            pos += 1
        if ok:
            if pos >= len(seq) or seq[pos] != ('lit', ')'):
                ok = False; msg = 'missing closing parenthesis after the last component'
            else:
                pos += 1
                rest = seq[pos:]
                if any(x[0] != 'lit' or x[1] not in '\n' for x in rest):
                    ok = False; msg = 'unexpected output after the closing parenthesis'
        if ok and sum(1 for x in seq if x == ('lit', '(')) != 1:
            ok = False; msg = 'more than one opening parenthesis'
        if not ok:
            fail(msg)
        else:
            rep.ob(oid, 'R04.io', HOLDS, '', where, sample='%s: %s' % (oid, ' '.join(x[1] if x[0] == 'lit' else '<%s>' % agg.slot_name(c, x[1]) for x in toks).replace('\n', '\\n')))


def main(rep, ws, tier):
    types_of = QUICK_TYPES if tier == 'quick' else THOROUGH_TYPES
    tus = []; index = []
    for c, ts in types_of.items():
        for t in ts:
            tu = gen_tu(c, t); tus.append(tu); index.append((tu, c, t))
    io_tu = gen_io_tu('f')
    an = Analysed(ws, tus + [io_tu], rep)
    for tu, c, t in index:
        check_tu(rep, an[tu], tu, c, t)
    check_layout(rep, ws, types_of)
    ncw = check_consteval(rep, ws)
    rep.floor('constant-evaluation witnesses', ncw, 90)
    check_io(rep, ws, an[io_tu], io_tu)
    ncw = sum(1 for o in rep.obs if o['rule'] == 'R04.cw')
    rep.floor('component-wise operator instances', ncw, 280 if tier == 'quick' else 640)
    rep.floor('equality instances', sum(1 for o in rep.obs if o['rule'] == 'R04.eq'), 40)
    rep.floor('slot-map instances', sum(1 for o in rep.obs if o['rule'] == 'R04.map'), 300)
    rep.floor('stream operators', sum(1 for o in rep.obs if o['rule'] == 'R04.io'), 9)
    rep.assumptions += ['distinct reference parameters of a wrapper do not alias', 'IEEE-exact term equality (no re-association); NaN payloads not modelled']
    rep.undecided_clauses += ['printed form of an individual component (delegated to iostream)']
