"""C08 - length() and normalisation (Vec2/3/4 x float/double).

R08.len   length() = ite(dot(v,v) < c, lengthTiny(), sqrt(dot(v,v))) with c >= numeric_limits<T>::min();
          length2() = dot(v,v)
R08.tiny  lengthTiny() = ite(m == 0, 0, m * sqrt(sum_i (|a_i|/m)^2)), m = max_i |a_i| (D-ord),
          every slot exactly once, scaling by a true division by m (no reciprocal)
R08.norm  normalise family returns a_i / length() per slot, as that very quotient (no reciprocal); normalize/normalized guard length == 0
R08.zero  the only constant-zero leaf of length() is behind max_i|a_i| == 0
R08.dim   the three dimension copies satisfy the same rules (reported per dimension)
"""
from fractions import Fraction
from engine import term as T, agg, build, vg, ordd, poly as P, polycheck as PC
from engine.agg import ELEM, TU
from engine.report import HOLDS, VIOLATED, UNDECIDED
from .common import Analysed, fn_where, narrowing

MINNORM = {'float': Fraction(1, 2 ** 126), 'double': Fraction(1, 2 ** 1022)}

def gen(t):
    E = ELEM[t][0]
    tu = TU('c08_' + t)
    for n in (2, 3, 4):
        V = 'Vec%d<%s>' % (n, E)
        tu.add('w_length%d' % n, '%s& o, const %s& v' % (E, V), 'o = v.length();', n=n, kind='length')
        tu.add('w_length2_%d' % n, '%s& o, const %s& v' % (E, V), 'o = v.length2();', n=n, kind='length2')
        tu.add('w_dot%d' % n, '%s& o, const %s& v' % (E, V), 'o = v.dot(v);', n=n, kind='aux')
        tu.add('w_dotop%d' % n, '%s& o, const %s& v' % (E, V), 'o = v ^ v;', n=n, kind='aux')
        tu.add('w_normalize%d' % n, '%s& v' % V, 'v.normalize();', n=n, kind='norm', base='a0', sentinel='same')
        tu.add('w_normalizeExc%d' % n, '%s& v' % V, 'v.normalizeExc();', n=n, kind='norm', base='a0', sentinel='throw')
        tu.add('w_normalizeNonNull%d' % n, '%s& v' % V, 'v.normalizeNonNull();', n=n, kind='norm', base='a0', sentinel=None)
        tu.add('w_normalized%d' % n, '%s& o, const %s& v' % (V, V), 'o = v.normalized();', n=n, kind='norm', base='a1', sentinel='zero')
        tu.add('w_normalizedExc%d' % n, '%s& o, const %s& v' % (V, V), 'o = v.normalizedExc();', n=n, kind='norm', base='a1', sentinel='throw')
        tu.add('w_normalizedNonNull%d' % n, '%s& o, const %s& v' % (V, V), 'o = v.normalizedNonNull();', n=n, kind='norm', base='a1', sentinel=None)
    return tu

def absnorm(n, memo=None):
    """rewrite the conditional-negation idiom into fabs (real semantics: signs of zero / NaN aside)"""
    if memo is None: memo = {}
    def rec(x):
        r = memo.get(x.id)
        if r is not None: return r
        if x.op in ('ite', 'absi'):
            a = P.abs_idiom(x)
            if a is not None:
                r = T.call('fabs', [rec(a)], x.ty)
                memo[x.id] = r
                return r
        if not x.args:
            r = x
        else:
            na = tuple(rec(a) for a in x.args)
            r = x if all(p is q for p, q in zip(na, x.args)) else T.rebuild(x, na)
        memo[x.id] = r
        return r
    return rec(n)

def parents_of(root, target):
    out = []; seen = set(); stack = [root]
    while stack:
        x = stack.pop()
        if x.id in seen: continue
        seen.add(x.id)
        for i, a in enumerate(x.args):
            if a is target: out.append((x, i))
        stack.extend(x.args)
    return out

def analyse_length(L, base, n, t):
    """returns (None, parts) or (error message, None). parts: dot, const, tiny, M"""
    E, sz, lt = ELEM[t]
    a = [agg.slot_in(base, i, t) for i in range(n)]
    if L.op != 'ite':
        return 'length() has no small-magnitude branch (result %s)' % T.show(L, 3), None
    c, tiny, fast = L.args
    if not (c.op == 'fcmp' and c.attr in ('olt', 'ole') and c.args[1].op == 'const'):
        return 'length() does not branch on `squared length < constant` (condition %s)' % T.show(c, 3), None
    dotn, cst = c.args
    cv = T.const_value(cst)
    if isinstance(cv, str) or cv < MINNORM[lt]:
        return 'threshold %s is below numeric_limits<T>::min(): the sqrt path would see a subnormal (inexact) squared length' % cv, None
    ctx = P.Ctx()
    want = {}
    for x in a: want = P.padd(want, P.ppow(P.patom(ctx.key(x)), 2))
    try:
        if not ctx.requal(ctx.rat(dotn), (want, P.pconst(1))):
            return 'the tested quantity %s is not the dot product of the vector with itself' % P.show_rat(ctx.rat(dotn), ctx), None
    except P.NotPoly as e:
        return 'squared length: %s' % e, None
    if not (fast.op == 'call' and fast.attr == 'sqrt' and fast.args[0] is dotn):
        return 'fast path is %s, expected sqrt of the tested squared length' % T.show(fast, 3), None
    # ---- tiny branch
    tn = absnorm(tiny)
    if tn.op != 'ite':
        return 'lengthTiny() has no zero-vector guard (%s)' % T.show(tn, 3), None
    c2, z, body = tn.args
    if not (c2.op == 'fcmp' and c2.attr == 'oeq'):
        return 'lengthTiny() guard is %s' % T.show(c2, 3), None
    M = [x for x in c2.args if not (x.op == 'const')]
    zc = [x for x in c2.args if x.op == 'const']
    if len(M) != 1 or not zc or T.const_value(zc[0]) != 0:
        return 'lengthTiny() guard %s does not compare the maximum with zero' % T.show(c2, 3), None
    M = M[0]
    if not (z.op == 'const' and T.const_value(z) == 0):
        return 'lengthTiny() returns %s for the zero vector' % T.show(z, 3), None
    # M is max_i |a_i| : D-ord over the fabs leaves
    fabs = [T.call('fabs', [x], lt) for x in a]
    try:
        per, total, leaves, conds = ordd.all_envs([M], [(fabs[i], fabs[0]) for i in range(n)])
        if set(l.id for l in leaves) != set(f.id for f in fabs):
            return 'the scaling factor depends on %s, expected exactly |a_i| of every slot' % [T.show(l, 2) for l in leaves], None
        for env in ordd.iter_envs(per):
            r = ordd.ev(M, env)
            if ordd.rank(r, env) != max(env[f.id] for f in fabs):
                return 'the scaling factor is not the largest |a_i| (picks %s)' % T.show(r, 2), None
    except ordd.NotOrd as e:
        return 'scaling factor: %s' % e, None
    # body = M * sqrt(sum (|a_i|/M)^2)
    if not (body.op == 'fmul' and any(x is M for x in body.args)):
        return 'lengthTiny() result %s is not max * sqrt(...)' % T.show(body, 3), None
    other = [x for x in body.args if x is not M]
    if len(other) != 1 or not (other[0].op == 'call' and other[0].attr == 'sqrt'):
        return 'lengthTiny() result %s is not max * sqrt(...)' % T.show(body, 3), None
    SUM = other[0].args[0]
    mu = T.arg(91, lt)
    SUMm = T.subst(SUM, {M: mu})
    # true division by max: every use of max inside the sum is as a divisor
    for parent, idx in parents_of(SUMm, mu):
        if not (parent.op == 'fdiv' and idx == 1):
            return 'the maximum is used as %s operand %d: scaling must be a true division by max (1/max overflows for subnormal max)' % (parent.op, idx), None
        if parent.args[0].op == 'const':
            return 'reciprocal of the maximum is formed (%s)' % T.show(parent, 2), None
    ctx = P.Ctx()
    try:
        got = ctx.rat(SUMm)
        want = {}
        for x in a: want = P.padd(want, P.ppow(P.patom(ctx.key(x)), 2))
        if not ctx.requal(got, (want, P.ppow(P.patom(ctx.key(mu)), 2))):
            return 'scaled sum of squares is %s, expected sum_i (|a_i|/max)^2 over every slot' % P.show_rat(got, ctx), None
    except P.NotPoly as e:
        return 'scaled sum: %s' % e, None
    return None, dict(dot=dotn, const=cv, M=M)

def main(rep, ws, tier):
    types = 'f' if tier == 'quick' else 'fd'
    tus = [gen(t) for t in types]
    an = Analysed(ws, tus, rep)
    for tu, t in zip(tus, types):
        R = an[tu]; E, sz, lt = ELEM[t]
        lengths = {}
        for name, m in tu.meta.items():
            oid = '%s<%s>' % (name[2:], E)
            S = R.get(name)
            if S is None:
                rep.ob(oid, 'R08.len', UNDECIDED, R.err.get(name, '')); continue
            where = fn_where(S.fn); n = m['n']
            if m['kind'] == 'aux': continue
            if m['kind'] == 'length':
                L = S.out('a0', 0, sz, lt)
                err, parts = analyse_length(L, 'a1', n, t)
                lengths[n] = L
                rep.ob(oid, 'R08.len', VIOLATED if err else HOLDS, err or 'threshold %s >= min()' % float(parts['const']), where, sample=None if err else '%s = %s' % (oid, T.show(L, 4)[:400]))
                if not err:
                    rep.ob(oid + '#tiny', 'R08.tiny', HOLDS, 'max*sqrt(sum (|a_i|/max)^2), true divisions, max = largest |a_i| on all %d orderings' % len(ordd.weak_orderings(n)), where)
                    rep.ob(oid + '#zero', 'R08.zero', HOLDS, 'zero only behind max|a_i| == 0; fast path is sqrt of a value >= threshold > 0', where, nontrivial=False)
            elif m['kind'] == 'length2':
                L2 = S.out('a0', 0, sz, lt)
                ctx = P.Ctx()
                want = {}
                for i in range(n): want = P.padd(want, P.ppow(P.patom(ctx.key(agg.slot_in('a1', i, t))), 2))
                try:
                    ok = ctx.requal(ctx.rat(L2), (want, P.pconst(1)))
                except P.NotPoly:
                    ok = False
                # ... and it is the dot product term for term: the same value in floating point, not only over the reals
                # (a regrouped sum differs from dot(v, v) in the last place)
                exact = None
                if ok:
                    for w_ in ('w_dot%d' % n, 'w_dotop%d' % n):
                        Sd = R.get(w_)
                        if Sd is None: continue
                        D_ = Sd.out('a0', 0, sz, lt)
                        if not (D_ is L2 or T.equiv(D_, L2, 20000)):
                            exact = 'length2() = %s is the dot product over the reals but not the value of %s = %s in floating point (the additions are grouped differently)' % (T.show(L2, 5)[:160], 'v.dot(v)' if w_.startswith('w_dot%d' % n) and not w_.startswith('w_dotop') else 'v ^ v', T.show(D_, 5)[:160])
                            break
                rep.ob(oid, 'R08.len', HOLDS if (ok and not exact) else VIOLATED, '' if (ok and not exact) else (exact or 'length2() = %s' % T.show(L2, 4)), where)
        for name, m in tu.meta.items():
            if m['kind'] != 'norm': continue
            oid = '%s<%s>' % (name[2:], E)
            S = R.get(name)
            if S is None:
                rep.ob(oid, 'R08.norm', UNDECIDED, R.err.get(name, '')); continue
            where = fn_where(S.fn); n = m['n']; base = m['base']
            L = lengths.get(n)
            if L is None:
                rep.ob(oid, 'R08.norm', UNDECIDED, 'length() of this dimension was not analysed', where); continue
            if base != 'a1':
                L = T.subst(L, dict((agg.slot_in('a1', i, t), agg.slot_in(base, i, t)) for i in range(n)))
            a = [agg.slot_in(base, i, t) for i in range(n)]
            outs = [S.out('a0', i * sz, sz, lt) for i in range(n)]
            lam = T.arg(92, lt)
            bad = None
            zero_guard = T.cmp('fcmp', 'oeq', L, T.const_fp(lt, 0))
            for i, o in enumerate(outs):
                # resolve the guard
                nz = T.resolve(o, {zero_guard: False})
                zz = T.resolve(o, {zero_guard: True})
                sent = m['sentinel']
                if sent is None:
                    if zz is not nz:
                        bad = 'slot %d of the NonNull form depends on length() == 0' % i; break
                elif sent == 'same' and zz is not a[i]: bad = 'slot %d for a null vector is %s, expected the unchanged component' % (i, T.show(zz, 3)); break
                elif sent == 'zero' and not (zz.op == 'const' and T.const_value(zz) == 0): bad = 'slot %d for a null vector is %s, expected 0' % (i, T.show(zz, 3)); break
                elif sent == 'throw' and zz.op != 'throw': bad = 'slot %d: the Exc form does not throw for a null vector (%s)' % (i, T.show(zz, 3)); break
                nzs = T.subst(nz, {L: lam})
                ctx = P.Ctx()
                try:
                    got = ctx.rat(nzs)
                except P.NotPoly as e:
                    bad = 'slot %d = %s is not a_i / length() (%s)' % (i, T.show(nz, 3)[:200], e); break
                if not ctx.requal(got, (P.patom(ctx.key(a[i])), P.patom(ctx.key(lam)))):
                    bad = 'slot %d = %s, expected a_%d / length()' % (i, P.show_rat(got, ctx), i); break
                # ... by a true division of the component (the library's own comment: multiplying by 1/length() overflows
                # for a subnormal length and loses an ulp otherwise)
                vals = [l for _, l in T.leaves(nzs, 64) if not (l.op == 'throw')]
                if any(not (v.op == 'fdiv' and v.args[0] is a[i] and v.args[1] is lam) for v in vals):
                    w = [v for v in vals if not (v.op == 'fdiv' and v.args[0] is a[i] and v.args[1] is lam)][0]
                    bad = 'slot %d is computed as %s, not as the quotient a_%d / length(): a reciprocal of a subnormal length is infinite' % (i, T.show(w, 4)[:160], i); break
            rep.ob(oid, 'R08.norm', VIOLATED if bad else HOLDS, bad or '', where)
    rep.floor('length/normalise instances', len(rep.obs), 30 * len(types))
    narrowing(rep, ws, [gen('d')], 'R08.prec')
    rep.assumptions += ['abs idiom (x >= 0 ? x : -x) read as |x| (signed zeros / NaN aside)', 'exact real arithmetic for the scaled-sum identity']
    rep.undecided_clauses += ['the ulp bounds themselves', 'the ulp bound of the quotient itself']
