"""C14 - ray-box / line-box intersection: the twelve per-face blocks are images of one another (decided part).

The two functions are analysed as whole value graphs and *specialised*: direction components of the
other axes are set to 0 and the origin is premised inside the slab of those axes, which isolates one axis
block (single-axis rays) or two blocks in sequence (two-axis rays: the second block runs on a non-initial
tFrontMax/tBackMin state).

R14.axes   J_y = sigma_xy(J_x), J_z = sigma_xz(J_x); J_xz = sigma_yz(J_xy), J_yz = sigma_xy(J_xz)   (D-term, after renaming)
R14.refl   within a block the dir < 0 arm is the image of the dir > 0 arm under (pos,dir,min,max,out) -> (-pos,-dir,-max,-min,-out)
           (real-semantics negation normal form)
R14.empty  the result is false whenever the box is empty; R14.wrap intersects(box,ray) = intersects(box,ray,ignored)
R14.guard  every division by a direction component happens on a path that passed the overflow guard on that component
R14.order  (D-ord) with every direction component positive, the per-face quotients abstracted to ordered values
           tf_k=(min_k-pos_k)/dir_k, tb_k=(max_k-pos_k)/dir_k and  pos_k REL min_k  read as  0 REL tf_k, the function is
           evaluated on EVERY weak ordering of {tf_k, tb_k, -1, 0, TMAX} (tf_k <= tb_k) and compared with the slab oracle
           hit <=> max(0, tf) <= min(tb)   [line: max(tf) <= min(tb)],  ip = origin if inside, else the face point of an
           axis attaining max tf (other coordinates clamp(pos + tf*dir)), entry/exit likewise for max tf / min tb.
           Overflow regimes (guard false: the quotient is replaced by TMAX) are enumerated as well for intersects.
R14.par    a ray parallel to a slab (dir_k == 0) whose origin is outside that slab misses
R14.inside origin inside the box: true and ip = origin
"""
import itertools
from engine import ordd
from fractions import Fraction
from engine import term as T, agg, build, vg, poly as P
from engine.agg import ELEM, TU
from engine.report import HOLDS, VIOLATED, UNDECIDED
from .common import Analysed, fn_where, hoist, explain_diff, lift_all, narrowing

HDR = agg.HEADER + '#include <ImathBoxAlgo.h>\n#include <ImathLine.h>\n'

def gen(t):
    E = ELEM[t][0]
    B = 'Box<Vec3<%s> >' % E; L = 'Line3<%s>' % E; V = 'Vec3<%s>' % E
    tu = TU('c14_' + t, header=HDR, opaque=('5clampI',))
    tu.add('w_isect', 'bool& r, const %s& b, const %s& l, %s& ip' % (B, L, V), 'r = intersects(b, l, ip);', box='a1', line='a2', outs=['a3'])
    tu.add('w_isect2', 'bool& r, const %s& b, const %s& l' % (B, L), 'r = intersects(b, l);', box='a1', line='a2', outs=[])
    tu.add('w_fee', 'bool& r, const %s& l, const %s& b, %s& en, %s& ex' % (L, B, V, V), 'r = findEntryAndExitPoints(l, b, en, ex);', box='a2', line='a1', outs=['a3', 'a4'])
    return tu

class Names:
    def __init__(self, m, t):
        self.t = t
        self.mn = [agg.slot_in(m['box'], i, t) for i in range(3)]; self.mx = [agg.slot_in(m['box'], 3 + i, t) for i in range(3)]
        self.pos = [agg.slot_in(m['line'], i, t) for i in range(3)]; self.dir = [agg.slot_in(m['line'], 3 + i, t) for i in range(3)]
        self.outs = m['outs']

def fold0(J):
    """exact IEEE folds that appear once a direction component is the constant zero:
    (+-0) * finite constant = +-0, and  |x| < +-0  is false for every x (NaN included)"""
    memo = {}
    def iszero(x): return x.op == 'const' and x.attr[0] in ('float', 'double') and T.const_value(x) == 0
    def rec(x):
        r = memo.get(x.id)
        if r is not None: return r
        if not x.args: r = x
        else:
            na = tuple(rec(a) for a in x.args)
            r = x if all(p is q for p, q in zip(na, x.args)) else T.rebuild(x, na)
            if r.op == 'fmul' and all(T.is_const(a) for a in r.args) and any(iszero(a) for a in r.args):
                vals = [T.const_value(a) for a in r.args]
                if all(isinstance(v, (int, Fraction)) for v in vals):
                    w = 31 if r.ty == 'float' else 63
                    sign = (r.args[0].attr[1] >> w) ^ (r.args[1].attr[1] >> w)
                    r = T.const_fp(r.ty, sign << w)
            if r.op == 'fcmp' and r.attr == 'olt' and iszero(r.args[1]) and (r.args[0].op == 'absi' or (r.args[0].op == 'call' and r.args[0].attr in ('fabs', 'fabsf', 'llvm.fabs'))):
                r = T.FALSE
        memo[x.id] = r
        return r
    return rec(J)

def specialise(J, N, active, lt):
    """zero the direction on the inactive axes and premise the origin inside those slabs (and a non-empty box)"""
    zero = T.const_fp(lt, 0)
    sub = dict((N.dir[j], zero) for j in range(3) if j not in active)
    J = fold0(T.subst(J, sub))
    for _ in range(12):
        asg = {}
        for c in T.atoms_of(J) + inner_conds(J):
            if c.op != 'fcmp' or c.attr not in ('olt', 'ole'): continue
            a, b = c.args
            for j in range(3):
                # emptiness of the box on any axis: false
                if c.attr == 'olt' and a is N.mx[j] and b is N.mn[j]: asg[c] = False
                if c.attr == 'ole' and a is N.mn[j] and b is N.mx[j]: asg[c] = True
                if j in active: continue
                if c.attr == 'olt' and ((a is N.pos[j] and b is N.mn[j]) or (a is N.mx[j] and b is N.pos[j])): asg[c] = False
                if c.attr == 'ole' and ((a is N.mn[j] and b is N.pos[j]) or (a is N.pos[j] and b is N.mx[j])): asg[c] = True
        if not asg: break
        J = fold0(T.resolve(J, asg))
    return J

def inner_conds(n):
    return P.all_conds(n)

def perm_subst(J, N, p, out_slots, sz, lt):
    """rename inputs by the axis permutation p (list: new axis for old axis i) and permute the output tuple"""
    sub = {}
    for i in range(3):
        for arr in (N.mn, N.mx, N.pos, N.dir):
            sub[arr[i]] = arr[p[i]]
        # prior contents of the output points (an output that is not written keeps them)
        for ob_ in out_slots:
            sub[T.inp(ob_, i * sz, sz, lt)] = T.inp(ob_, p[i] * sz, sz, lt)
    J2 = T.subst(J, sub)
    # permute tuple components: tuple = (result, out0.x, out0.y, out0.z, out1.x ...)
    def perm_tuple(x):
        if x.op == 'ite': return T.ite(x.args[0], perm_tuple(x.args[1]), perm_tuple(x.args[2]))
        if x.op != 'tuple': return x
        a = list(x.args)
        new = [a[0]]
        for k in range((len(a) - 1) // 3):
            blk = a[1 + 3 * k: 4 + 3 * k]
            nb = [None] * 3
            for i in range(3): nb[p[i]] = blk[i]
            new += nb
        return T.mk('tuple', None, tuple(new), None)
    return perm_tuple(J2)

def negnorm(n, memo=None):
    """normal form for negations, exact up to the sign of a zero: every sum is X or -X with the
    operand of least id positive (-(a+b) = (-a)+(-b)), negations of products/quotients are on the
    outside (term layer), cmp(-a,-b) = cmp(b,a), cmp(-a,c) = cmp(-c,a), |-y| = |y|"""
    if memo is None: memo = {}
    def sid(x): return x.args[0].id if x.op == 'fneg' else x.id
    def rec(x):
        r = memo.get(x.id)
        if r is not None: return r
        if not x.args:
            r = x
        elif x.op == 'fneg':
            y = x.args[0]
            if y.op == 'ite': r = T.ite(rec(y.args[0]), rec(T.fneg(y.args[1])), rec(T.fneg(y.args[2])))
            else: r = T.fneg(rec(y))
        elif x.op == 'fadd':
            na, nb = rec(x.args[0]), rec(x.args[1])
            first = min((na, nb), key=sid)
            if first.op == 'fneg': r = T.fneg(T.binop('fadd', T.fneg(na), T.fneg(nb), x.ty))
            else: r = T.binop('fadd', na, nb, x.ty)
        elif x.op == 'fcmp':
            na, nb = rec(x.args[0]), rec(x.args[1])
            if x.attr in ('olt', 'ole'):
                if na.op == 'fneg' and nb.op == 'fneg': na, nb = nb.args[0], na.args[0]
                elif na.op == 'fneg' and (nb.op == 'const' or sid(na) < nb.id): na, nb = T.fneg(nb), na.args[0]
                elif nb.op == 'fneg' and (na.op == 'const' or sid(nb) < na.id): na, nb = nb.args[0], T.fneg(na)
            r = T.cmp('fcmp', x.attr, na, nb)
        elif x.op == 'absi':
            # |-y| and |y| differ at most in the sign of a zero, which no comparison observes
            y = rec(x.args[0])
            r = T.rebuild(x, (y.args[0] if y.op == 'fneg' else y,))
        else:
            na = tuple(rec(a) for a in x.args)
            r = x if all(p is q for p, q in zip(na, x.args)) else T.rebuild(x, na)
        memo[x.id] = r
        return r
    return rec(n)

def reflect_subst(J, N, axis, sz=None, lt=None):
    """(pos, dir, min, max) on `axis` -> (-pos, -dir, -max, -min); outputs on that axis negated"""
    a = axis
    sub = {N.pos[a]: T.fneg(N.pos[a]), N.dir[a]: T.fneg(N.dir[a]), N.mn[a]: T.fneg(N.mx[a]), N.mx[a]: T.fneg(N.mn[a])}
    for ob_ in N.outs:
        x = T.inp(ob_, a * sz, sz, lt); sub[x] = T.fneg(x)
    J2 = T.subst(J, sub)
    def neg_out(x):
        if x.op == 'ite': return T.ite(x.args[0], neg_out(x.args[1]), neg_out(x.args[2]))
        if x.op != 'tuple': return x
        al = list(x.args)
        for k in range((len(al) - 1) // 3):
            i = 1 + 3 * k + a
            al[i] = T.fneg(al[i])
        return T.mk('tuple', None, tuple(al), None)
    return negnorm(neg_out(J2))

def same_function(A, B, limit=400000):
    """A and B are decision DAGs over the same atomic conditions (possibly in different orders):
    equal iff on every leaf path of A the other resolves to the identical leaf.  Returns (ok, detail)"""
    if A is B: return True, ''
    try:
        A = lift_all(A, [2000000]); B = lift_all(B, [2000000])
        if A is B: return True, 'identical after lifting'
        lv = T.leaves(A, limit)
    except OverflowError:
        return None, 'too many leaves'
    for lits, leaf in lv:
        d = dict(lits)
        r = T.resolve(B, d)
        l2 = T.resolve(leaf, d)
        if r is not l2:
            try:
                if T.equiv(r, l2, 20000): continue
            except OverflowError:
                pass
            return False, 'on the path %s: image gives %s, sibling gives %s' % (', '.join('%s=%s' % (T.show(c, 2)[:50], v) for c, v in lits[:6]), T.show(l2, 3)[:200], T.show(r, 3)[:200])
    return True, '%d leaf paths' % len(lv)

def _wo_vars(n):
    return ordd.weak_orderings(n)

def order_envs(vars_, consts, premises):
    """every weak ordering of the variables with the finite constants (sorted by value, kept in order)
    interleaved at every class or gap; premises(env) filters.  yields env: node id -> rank"""
    cs = sorted(consts, key=lambda c: ordd.const_num(c))
    for wo in _wo_vars(len(vars_)):
        k = (max(wo) + 1) if wo else 0
        base = {v.id: Fraction(2 * r) for v, r in zip(vars_, wo)}      # classes at even ranks 0..2k-2
        if not premises(base): continue
        # positions: classes (even) and gaps (odd, -1 .. 2k-1); several constants may share a gap (ordered inside it)
        slots = list(range(-1, 2 * k))
        def place(i, lo, env):
            if i == len(cs):
                yield dict(env); return
            for p_ in slots:
                if p_ < lo[0]: continue
                if p_ == lo[0]:
                    if p_ % 2 == 0: continue            # two distinct constants cannot tie with the same class
                    r = lo[1] + Fraction(1, 8)          # same gap, just above the previous constant
                else:
                    r = Fraction(p_)
                env[cs[i].id] = r
                yield from place(i + 1, (p_, r), env)
            env.pop(cs[i].id, None)
        yield from place(0, (-2, Fraction(-2)), dict(base))

def order_rule(rep, fname, E, J, N, m, sz, lt, where, axes, line, tier):
    """J: list of components (result, outs...) ; axes: active axes; the others were specialised away"""
    has_derived = [False]
    zero = T.const_fp(lt, 0)
    tmaxbits = 0x7f7fffff if lt == 'float' else 0x7fefffffffffffff
    TMAX = T.const_fp(lt, tmaxbits); NTMAX = T.fneg(TMAX)
    TF = {k: T.inp('tf', k * sz, sz, lt) for k in axes}; TB = {k: T.inp('tb', k * sz, sz, lt) for k in axes}
    dmin = {k: T.binop('fsub', N.mn[k], N.pos[k], lt) for k in axes}; dmax = {k: T.binop('fsub', N.mx[k], N.pos[k], lt) for k in axes}
    qf = {k: T.binop('fdiv', dmin[k], N.dir[k], lt) for k in axes}; qb = {k: T.binop('fdiv', dmax[k], N.dir[k], lt) for k in axes}
    tup = T.mk('tuple', None, tuple(J), None)
    # all active directions positive
    asg = {}
    for k in axes:
        asg[T.cmp('fcmp', 'olt', zero, N.dir[k])] = True; asg[T.cmp('fcmp', 'olt', N.dir[k], zero)] = False
        asg[T.cmp('fcmp', 'ole', zero, N.dir[k])] = True
    tup = T.resolve(tup, asg)
    # guard atoms
    def guards(t):
        front = {}; back = {}; big = {}
        for c in set(T.atoms_of(t) + inner_conds(t)):
            if c.op != 'fcmp' or c.attr not in ('olt', 'ole'): continue
            l_, r_ = c.args
            for k in axes:
                if l_.op == 'const' and T.const_value(l_) == 1 and r_ is N.dir[k] and c.attr == 'olt': big[k] = c
                if r_.op == 'fmul' and any(z is N.dir[k] for z in r_.args) and any(z is TMAX for z in r_.args) and c.attr == 'olt':
                    x = l_.args[0] if l_.op == 'absi' else l_
                    if x is dmin[k]: front.setdefault(k, []).append(c)
                    elif x is dmax[k]: back.setdefault(k, []).append(c)
        return front, back, big
    front, back, big = guards(tup)
    missing = [k for k in axes if k not in front or k not in back or k not in big]
    if missing:
        rep.ob('%s<%s>#order%s' % (fname, E, ''.join('xyz'[k] for k in axes)), 'R14.order', UNDECIDED, 'overflow guard atoms of axis %s not recognised' % missing, where); return
    regimes = []
    # per axis: 'G' both faces guarded, 'B' back face unguarded, 'U' both unguarded (front unguarded implies back unguarded since min <= max)
    opts = ['G'] if line else ['G', 'B', 'U']
    for combo in itertools.product(opts, repeat=len(axes)):
        regimes.append(('le1', combo))
    regimes.append(('gt1', tuple('G' for _ in axes)))
    total = 0; bad = None
    for reg, combo in regimes:
        a2 = {}
        for k, st in zip(axes, combo):
            a2[big[k]] = (reg == 'gt1')
            for c in front[k]: a2[c] = st != 'U'
            for c in back[k]: a2[c] = st == 'G'
        t2 = T.resolve(tup, a2)
        sub = {}
        for k, st in zip(axes, combo):
            sub[qf[k]] = TF[k]; sub[qb[k]] = TB[k]
        t2 = T.subst(t2, sub)
        # pos/min/max comparisons -> 0/tf/tb comparisons (dir > 0)
        memo = {}
        def absx(x):
            r = memo.get(x.id)
            if r is not None: return r
            if not x.args: r = x
            elif x.op == 'fcmp' and x.attr in ('olt', 'ole'):
                r = None
                for k in axes:
                    mp = {N.pos[k].id: zero, N.mn[k].id: TF[k], N.mx[k].id: TB[k]}
                    if x.args[0].id in mp and x.args[1].id in mp:
                        r = T.cmp('fcmp', x.attr, mp[x.args[0].id], mp[x.args[1].id])
                if r is None:
                    na = tuple(absx(a) for a in x.args); r = x if all(p is q for p, q in zip(na, x.args)) else T.rebuild(x, na)
            else:
                na = tuple(absx(a) for a in x.args); r = x if all(p is q for p, q in zip(na, x.args)) else T.rebuild(x, na)
            memo[x.id] = r
            return r
        t2 = absx(t2)
        comps = [lift_all(c, [4000000]) for c in t2.args]
        # unguarded faces: the oracle uses the saturated parameter
        tfv = {k: (TMAX if st == 'U' else TF[k]) for k, st in zip(axes, combo)}
        tbv = {k: (TB[k] if st == 'G' else TMAX) for k, st in zip(axes, combo)}
        vars_ = [TF[k] for k, st in zip(axes, combo) if st != 'U'] + [TB[k] for k, st in zip(axes, combo) if st == 'G']
        try:
            leaves, conds = ordd.collect(comps)
            leaves = [l for c in conds for l in ordd.cmp_leaves(c)]
        except ordd.NotOrd as e:
            rep.ob('%s<%s>#order%s' % (fname, E, ''.join('xyz'[k] for k in axes)), 'R14.order', UNDECIDED, 'result is not order-only after abstraction: %s' % e, where); return
        pinned = {}
        for k, st in zip(axes, combo):           # an unguarded face has d >= TMAX*dir: its parameter is beyond TMAX
            if st == 'U': pinned[TF[k].id] = Fraction(10 ** 6 + 1)
            if st != 'G': pinned[TB[k].id] = Fraction(10 ** 6 + 2)
        extra = [l for l in leaves if l.op != 'const' and l not in vars_ and l.id not in pinned]
        # a compared value that is an ordered value times a positive constant (a tolerance factor 1 + eps): in the order abstraction it
        # sits infinitesimally further from zero (c > 1) or nearer to it (c < 1) than the value itself - a realisable ordering (take the
        # other values far apart), so a disagreement with the oracle found there is a counterexample; no disagreement there proves nothing
        derived = []
        for l in list(extra):
            lm = l; negd = False
            if l.op == 'fneg' and l.args[0].op == 'fmul': lm = l.args[0]; negd = True
            if lm.op == 'fmul' and len(lm.args) == 2:
                cs_ = [a for a in lm.args if a.op == 'const']; vs_ = [a for a in lm.args if a.op != 'const' or a is TMAX or a is NTMAX]
                if negd and len(vs_) >= 1:
                    # -(V * c) = (-V) * c
                    vs_ = [NTMAX if a is TMAX else TMAX if a is NTMAX else None for a in vs_]
                    if None in vs_: continue
                    if len(cs_) == 2: cs_ = [a for a in lm.args if a is not TMAX and a is not NTMAX]
                if len(cs_) == 2 and not negd: vs_ = [a for a in lm.args if a is TMAX or a is NTMAX]; cs_ = [a for a in lm.args if a not in vs_]
                if len(cs_) == 1 and len(vs_) == 1 and (vs_[0] in vars_ or vs_[0].id in pinned or vs_[0] is TMAX or vs_[0] is NTMAX):
                    cv = T.const_value(cs_[0])
                    if not isinstance(cv, str) and cv > 0 and cv != 1:
                        derived.append((l, vs_[0], 1 if cv > 1 else -1)); extra.remove(l)
        if derived: has_derived[0] = True
        if extra:
            rep.ob('%s<%s>#order%s' % (fname, E, ''.join('xyz'[k] for k in axes)), 'R14.order', UNDECIDED, 'unexpected compared value %s' % T.show(extra[0], 3)[:120], where); return
        consts = list({l.id: l for l in leaves if l.op == 'const' and l.ty != 'i1' and l is not TMAX and l is not NTMAX}.values())
        if zero not in consts: consts.append(zero)
        def prem(env):
            for k, st in zip(axes, combo):
                if st == 'G' and env[TF[k].id] > env[TB[k].id]: return False
            return True
        BIG = Fraction(10 ** 6)
        for env in order_envs(vars_, consts, prem):
            env[TMAX.id] = BIG; env[NTMAX.id] = -BIG; env.update(pinned)
            for l_, v_, away in derived:
                rv_ = env[v_.id]; r0_ = env[zero.id]
                env[l_.id] = rv_ + Fraction(away, 16) * (1 if rv_ > r0_ else -1 if rv_ < r0_ else 0)
            total += 1
            mm = {}
            got = ordd.ev(comps[0], env, mm)
            if not isinstance(got, bool):
                got = bool(got.attr[1]) if got.op == 'const' else None
            rk = lambda x: ordd.rank(x, env)
            r0 = rk(zero)
            fmax = max(rk(tfv[k]) for k in axes); bmin = min(rk(tbv[k]) for k in axes)
            inside = all(rk(tfv[k]) <= r0 <= rk(tbv[k]) for k in axes)
            want = (fmax <= bmin) if line else (max(fmax, r0) <= bmin)
            def desc():
                names = {TF[k].id: 'tf_' + 'xyz'[k] for k in axes}; names.update({TB[k].id: 'tb_' + 'xyz'[k] for k in axes})
                for c in consts: names[c.id] = T.show(c)
                it = sorted(((r, names[i]) for i, r in env.items() if i in names))
                return ' '.join('%s%s' % (('= ' if idx and it[idx - 1][0] == r else ('< ' if idx else '')), nm) for idx, (r, nm) in enumerate(it))
            if got is None or got != want:
                bad = 'regime %s/%s, ordering %s: returns %s, slab oracle %s' % (reg, ''.join(combo), desc(), got, want); break
            if not want: continue
            # reported points
            outs = [[ordd.ev(c, env, mm) for c in comps[1 + 3 * q: 4 + 3 * q]] for q in range(len(m['outs']))]
            def point(tq_of, face, key, sel):
                """admissible points: for each axis j attaining sel over key"""
                best = sel(rk(key[k]) for k in axes)
                res = []
                for j in axes:
                    if rk(key[j]) != best: continue
                    pt = []
                    for o in range(3):
                        if o == j: pt.append(face[j])
                        else:
                            d_o = N.dir[o] if o in axes else zero
                            arg = T.binop('fadd', N.pos[o], T.binop('fmul', key[j], d_o, lt), lt)
                            pt.append(('clamp', arg, N.mn[o], N.mx[o]))
                    res.append(pt)
                return res
            def matches(gotpt, pt):
                for g, w in zip(gotpt, pt):
                    if isinstance(w, tuple):
                        if not (g.op == 'call' and 'clamp' in str(g.attr) and len(g.args) == 3 and g.args[0] is w[1] and g.args[1] is w[2] and g.args[2] is w[3]): return False
                    elif g is not w: return False
                return True
            if not line:
                if inside:
                    okp = all(outs[0][o] is N.pos[o] for o in range(3)); wantd = 'the origin'
                else:
                    cands = point(None, {k: N.mn[k] for k in axes}, tfv, max)
                    okp = any(matches(outs[0], c) for c in cands); wantd = 'the min face of an axis attaining max tf'
                if not okp:
                    bad = 'regime %s/%s, ordering %s: ip = (%s), expected %s' % (reg, ''.join(combo), desc(), ', '.join(T.show(x, 4)[:80] for x in outs[0]), wantd); break
            else:
                ce = point(None, {k: N.mn[k] for k in axes}, tfv, max); cx = point(None, {k: N.mx[k] for k in axes}, tbv, min)
                if not any(matches(outs[0], c) for c in ce):
                    bad = 'ordering %s: entry = (%s), expected the min face of an axis attaining max tf' % (desc(), ', '.join(T.show(x, 4)[:80] for x in outs[0])); break
                if not any(matches(outs[1], c) for c in cx):
                    bad = 'ordering %s: exit = (%s), expected the max face of an axis attaining min tb' % (desc(), ', '.join(T.show(x, 4)[:80] for x in outs[1])); break
        if bad: break
    if has_derived[0] and not bad:
        rep.ob('%s<%s>#order-%s' % (fname, E, ''.join('xyz'[k] for k in axes)), 'R14.order', UNDECIDED, 'a compared value is an ordered value scaled by a constant: no disagreement with the slab oracle where the scaled value stays next to the original, other orderings not explored', where); return
    rep.ob('%s<%s>#order-%s' % (fname, E, ''.join('xyz'[k] for k in axes)), 'R14.order', VIOLATED if bad else HOLDS,
           bad or '%d weak orderings x guard regimes (%d regimes): result and reported points equal the slab oracle' % (total, len(regimes)), where,
           sample='%d orderings' % total)

def main(rep, ws, tier):
    types = 'f' if tier == 'quick' else 'fd'
    tus = [gen(t) for t in types]
    an = Analysed(ws, tus, rep)
    for tu, t in zip(tus, types):
        R = an[tu]; E, sz, lt = ELEM[t]
        for name in ('w_isect', 'w_fee'):
            m = tu.meta[name]
            fname = {'w_isect': 'intersects(box,ray,ip)', 'w_fee': 'findEntryAndExitPoints'}[name]
            S = R.get(name)
            if S is None:
                rep.ob('%s<%s>' % (fname, E), 'R14.axes', UNDECIDED, R.err.get(name, '')); continue
            where = fn_where(S.fn)
            N = Names(m, t)
            comps = [S.out('a0', 0, 1, 'i8')]
            for ob_ in m['outs']: comps += [S.out(ob_, i * sz, sz, lt) for i in range(3)]
            J = T.mk('tuple', None, tuple(comps), None)
            # ---- R14.empty
            bad = None
            for k in range(3):
                c = T.cmp('fcmp', 'olt', N.mx[k], N.mn[k])
                r = T.resolve(comps[0], {c: True})
                if not (r.op == 'const' and r.attr[1] == 0): bad = 'with max[%d] < min[%d] (empty box) the result is %s' % (k, k, T.show(r, 3)[:200]); break
            rep.ob('%s<%s>#empty' % (fname, E), 'R14.empty', VIOLATED if bad else HOLDS, bad or 'false for an empty box on every axis', where)
            # ---- specialisations
            spec = {}
            for act in ((0,), (1,), (2,), (0, 1), (0, 2), (1, 2)):
                sj = specialise(J, N, act, lt)
                spec[act] = list(sj.args) if sj.op == 'tuple' else None
                if spec[act] is None:
                    raise vg.Unsupported('specialisation did not keep the tuple shape')
            ax = 'xyz'
            def comps_same(A, Bc):
                tot = 0
                for k, (x, y) in enumerate(zip(A, Bc)):
                    ok, det = same_function(x, y)
                    if not ok: return ok, 'component %d: %s' % (k, det)
                    tot += 1
                return True, '%d components' % tot
            def cmp_img(src, dst, p, label):
                imgt = perm_subst(T.mk('tuple', None, tuple(spec[src]), None), N, p, m['outs'], sz, lt)
                img = list(imgt.args)
                same, det = comps_same(img, spec[dst])
                rep.ob('%s<%s>#%s' % (fname, E, label), 'R14.axes', HOLDS if same else (UNDECIDED if same is None else VIOLATED),
                       'identical value graphs after renaming (%s)' % det if same else det, where,
                       sample=None if not same else '%s %s: %d nodes' % (fname, label, sum(T.size(x) for x in spec[dst])))
            cmp_img((0,), (1,), [1, 0, 2], 'y-block = sigma_xy(x-block)')
            cmp_img((0,), (2,), [2, 1, 0], 'z-block = sigma_xz(x-block)')
            cmp_img((0, 1), (0, 2), [0, 2, 1], 'x;z = sigma_yz(x;y)')
            cmp_img((0, 2), (1, 2), [1, 0, 2], 'y;z = sigma_xy(x;z)')
            # ---- reflection per axis
            for a in range(3):
                Ja = T.mk('tuple', None, tuple(spec[(a,)]), None)
                zero = T.const_fp(lt, 0)
                cpos = T.cmp('fcmp', 'olt', zero, N.dir[a]); cneg = T.cmp('fcmp', 'olt', N.dir[a], zero)
                cge = T.cmp('fcmp', 'ole', zero, N.dir[a])
                plus = T.resolve(Ja, {cpos: True, cneg: False, cge: True})
                minus = T.resolve(Ja, {cpos: False, cneg: True, cge: False})
                img = reflect_subst(plus, N, a, sz, lt)
                # the image was produced under dir > 0 for the *reflected* variable, i.e. dir < 0 for the original
                img = T.resolve(img, {cpos: False, cneg: True, cge: False})
                tgt = minus
                if img.op != 'tuple' or tgt.op != 'tuple':
                    raise vg.Unsupported('reflection did not keep the tuple shape')
                # lift first (so that every comparison is between conditional-free operands), then normalise negations
                same, det = comps_same([negnorm(lift_all(x, [2000000])) for x in img.args], [negnorm(lift_all(x, [2000000])) for x in tgt.args])
                rep.ob('%s<%s>#reflect-%s' % (fname, E, ax[a]), 'R14.refl', HOLDS if same else (UNDECIDED if same is None else VIOLATED),
                       'the dir < 0 arm is the mirror image of the dir > 0 arm (%s)' % det if same else det, where)
            # ---- guards
            badg = None; ndiv = 0
            def guard_leaves(act):
                try:
                    return [ll for comp in spec[act] for ll in T.leaves(lift_all(comp, [2000000]), 200000)]
                except OverflowError as e:
                    rep.ob('%s<%s>#guard-%s' % (fname, E, ''.join('xyz'[q] for q in act)), 'R14.guard', UNDECIDED, 'the specialised form has too many paths to enumerate (%s)' % e, where)
                    return []
            for act in ((0,), (1,), (2,), (0, 1), (1, 2)):
                for lits, leaf in guard_leaves(act):
                    d = dict(lits)
                    seen = set(); stack = [leaf]
                    while stack:
                        x = stack.pop()
                        if x.id in seen: continue
                        seen.add(x.id); stack.extend(x.args)
                        if x.op == 'fdiv' and any(x.args[1] is dd for dd in N.dir):
                            ndiv += 1
                            den = x.args[1]; num = x.args[0]
                            ok = False
                            for c, v in lits:
                                if c.op != 'fcmp' or c.attr not in ('olt', 'ole'): continue
                                l_, r_ = c.args
                                # dir > 1  /  dir < -1
                                if v and ((l_.op == 'const' and abs(T.const_value(l_)) == 1 and r_ is den) or (r_.op == 'const' and abs(T.const_value(r_)) == 1 and l_ is den)): ok = True
                                # d < TMAX*dir  /  d > TMAX*dir
                                for p_, q_ in ((l_, r_), (r_, l_)):
                                    if q_.op == 'fneg': q_ = q_.args[0]
                                    if p_.op == 'absi': p_ = p_.args[0]
                                    if v and p_ is num and q_.op == 'fmul' and any(z is den for z in q_.args) and any(z.op == 'const' for z in q_.args): ok = True
                            if not ok and badg is None:
                                badg = 'a quotient by %s is computed on a path without the overflow guard on that component (%s)' % (T.show(den), T.show(x, 3)[:120])
            rep.ob('%s<%s>#guard' % (fname, E), 'R14.guard', VIOLATED if badg else HOLDS, badg or '%d quotient occurrences, each behind dir > 1 or d < TMAX*dir (or the mirrored test)' % ndiv, where)
            # ---- R14.order
            line = (name == 'w_fee')
            order_rule(rep, fname, E, spec[(0, 1)], N, m, sz, lt, where, (0, 1), line, tier)
            if True:
                full = specialise(J, N, (0, 1, 2), lt)
                order_rule(rep, fname, E, list(full.args), N, m, sz, lt, where, (0, 1, 2), line, tier)
            # ---- R14.par / R14.inside
            zero = T.const_fp(lt, 0)
            badp = None; npar = 0
            for k in range(3):
                Jk = fold0(T.subst(J, {N.dir[k]: zero}))
                for c, cn in ((T.cmp('fcmp', 'olt', N.pos[k], N.mn[k]), T.cmp('fcmp', 'ole', N.mn[k], N.pos[k])), (T.cmp('fcmp', 'olt', N.mx[k], N.pos[k]), T.cmp('fcmp', 'ole', N.pos[k], N.mx[k]))):
                    npar += 1
                    r = T.resolve(Jk.args[0], {c: True, cn: False})
                    r = T.resolve(r, dict((T.cmp('fcmp', 'olt', N.mx[q], N.mn[q]), False) for q in range(3)))
                    if not (r.op == 'const' and r.attr[1] == 0) and badp is None:
                        badp = 'dir.%s == 0 and %s: the result is not false (%s)' % ('xyz'[k], T.show(c, 3), T.show(r, 3)[:160])
            rep.ob('%s<%s>#parallel' % (fname, E), 'R14.par', VIOLATED if badp else HOLDS, badp or '%d (axis, side) cases: a ray parallel to a slab and outside it misses' % npar, where)
            if not line:
                ins = {}
                for q in range(3):
                    ins[T.cmp('fcmp', 'olt', N.pos[q], N.mn[q])] = False; ins[T.cmp('fcmp', 'olt', N.mx[q], N.pos[q])] = False
                    ins[T.cmp('fcmp', 'olt', N.mx[q], N.mn[q])] = False
                    ins[T.cmp('fcmp', 'ole', N.mn[q], N.pos[q])] = True; ins[T.cmp('fcmp', 'ole', N.pos[q], N.mx[q])] = True
                r = T.resolve(J, ins)
                ok = r.op == 'tuple' and r.args[0].op == 'const' and r.args[0].attr[1] == 1 and all(r.args[1 + q] is N.pos[q] for q in range(3))
                rep.ob('%s<%s>#inside' % (fname, E), 'R14.inside', HOLDS if ok else VIOLATED, 'origin inside the closed box: true, ip = origin' if ok else 'with the origin inside the box the function gives %s' % T.show(r, 3)[:200], where)
        # ---- wrapper
        S2 = R.get('w_isect2'); S1 = R.get('w_isect')
        if S1 is not None and S2 is not None:
            a_, b_ = S1.out('a0', 0, 1, 'i8'), S2.out('a0', 0, 1, 'i8')
            same = a_ is b_
            if not same:
                try: same = T.equiv(a_, b_, 400000)
                except OverflowError: same = None
            rep.ob('intersects(box,ray)<%s>' % E, 'R14.wrap', HOLDS if same else (UNDECIDED if same is None else VIOLATED), 'same boolean as intersects(box,ray,ip)' if same else 'differs from the three-argument form', fn_where(S2.fn))
    narrowing(rep, ws, [gen('d')], 'R14.prec')
    rep.floor('ray-box obligations', len(rep.obs), 26 * len(types))
    rep.assumptions += ['the specialised rays (one or two non-zero direction components, origin inside the other slabs) reach every one of the 12 per-face blocks',
                        'reflection compared up to the sign of zeros (negation normal form)',
                        'R14.order: NaN-free inputs; the per-face quotients are abstract ordered values (monotone rounding of (min-pos)/dir <= (max-pos)/dir is taken as tf <= tb), clamp is an opaque callee']
    rep.undecided_clauses += ['closeness of the quotients and of pos + t*dir to the exact rational values (rounding), i.e. "on the ray to within rounding"',
                              'all-negative / mixed-sign direction octants are covered through R14.refl per block, not by a separate ordering enumeration',
                              'line-box overflow regimes (guard false) of findEntryAndExitPoints are covered by R14.par/R14.axes only']
