"""C05 - products, transposes, minors, determinants equal their algebraic definitions.

R05.def     each output slot's D-poly normal form == the textbook polynomial / rational function
R05.spell   all spellings of one product have equal normal forms (follows from R05.def per
            spelling; reported per spelling)
R05.nocancel no monomial cancels while expanding the implementation's expression
R05.laws    (thorough) cofactor expansion with minorOf along every row/column, det(A^T)
"""
import itertools
from fractions import Fraction
from engine import term as T, agg, build, vg, poly as P, polycheck as PC
from engine.agg import ELEM, AGG, MATDIM, cpp, TU
from engine.report import HOLDS, VIOLATED, UNDECIDED
from .common import Analysed, fn_where, narrowing

def perm_sign(p):
    s = 1
    p = list(p)
    for i in range(len(p)):
        while p[i] != i:
            j = p[i]; p[i], p[j] = p[j], p[i]; s = -s
    return s

class Sym:
    """polynomial atoms for the slots of wrapper parameters"""
    def __init__(self, ctx, t):
        self.ctx = ctx; self.t = t
    def s(self, base, i=0):
        return self.ctx.reduce(P.patom(self.ctx.key(agg.slot_in(base, i, self.t))))
    def vec(self, base, n):
        return [self.s(base, i) for i in range(n)]
    def mat(self, base, d):
        return [[self.s(base, i * d + j) for j in range(d)] for i in range(d)]

def det(m):
    n = len(m)
    r = {}
    for p in itertools.permutations(range(n)):
        term = P.pconst(perm_sign(p))
        for i in range(n):
            term = P.pmul(term, m[i][p[i]])
        r = P.padd(r, term)
    return r

def matmul(a, b):
    n = len(a)
    return [[sum_p(P.pmul(a[i][k], b[k][j]) for k in range(n)) for j in range(n)] for i in range(n)]

def sum_p(it):
    r = {}
    for x in it: r = P.padd(r, x)
    return r

ONE = P.pconst(1)

def gen_tu(t):
    E = ELEM[t][0]
    tu = TU('c05_' + t)
    V = {n: 'Vec%d<%s>' % (n, E) for n in (2, 3, 4)}
    M = {d: 'Matrix%d%d<%s>' % (d, d, E) for d in (2, 3, 4)}
    Q = 'Quat<%s>' % E
    def add(name, params, body, **meta):
        tu.add('w_' + name, params, body, **meta)
    for n in (2, 3, 4):
        add('dot%d' % n, '%s& o, const %s& a, const %s& b' % (E, V[n], V[n]), 'o = a.dot(b);', spec='dot', n=n, fam='dot%d' % n)
        add('dotop%d' % n, '%s& o, const %s& a, const %s& b' % (E, V[n], V[n]), 'o = a ^ b;', spec='dot', n=n, fam='dot%d' % n)
    add('cross2', '%s& o, const %s& a, const %s& b' % (E, V[2], V[2]), 'o = a.cross(b);', spec='cross2', fam='cross2')
    add('cross2op', '%s& o, const %s& a, const %s& b' % (E, V[2], V[2]), 'o = a % b;', spec='cross2', fam='cross2')
    add('cross3', '%s& o, const %s& a, const %s& b' % (V[3], V[3], V[3]), 'o = a.cross(b);', spec='cross3', fam='cross3')
    add('cross3op', '%s& o, const %s& a, const %s& b' % (V[3], V[3], V[3]), 'o = a % b;', spec='cross3', fam='cross3')
    add('cross3assign', '%s& a, const %s& b' % (V[3], V[3]), 'a %= b;', spec='cross3', inplace=True, fam='cross3')
    add('quatmul', '%s& o, const %s& a, const %s& b' % (Q, Q, Q), 'o = a * b;', spec='quatmul', fam='quatmul')
    add('quatmulassign', '%s& a, const %s& b' % (Q, Q), 'a *= b;', spec='quatmul', inplace=True, fam='quatmul')
    add('quatdot', '%s& o, const %s& a, const %s& b' % (E, Q, Q), 'o = a ^ b;', spec='quatdot', fam='quatdot')
    for d in (2, 3, 4):
        add('matmul%d' % d, '%s& o, const %s& a, const %s& b' % (M[d], M[d], M[d]), 'o = a * b;', spec='matmul', d=d, fam='matmul%d' % d)
        add('matmulassign%d' % d, '%s& a, const %s& b' % (M[d], M[d]), 'a *= b;', spec='matmul', d=d, inplace=True, fam='matmul%d' % d)
        add('transposed%d' % d, '%s& o, const %s& a' % (M[d], M[d]), 'o = a.transposed();', spec='transpose', d=d, fam='transpose%d' % d)
        add('transpose%d' % d, '%s& a' % M[d], 'a.transpose();', spec='transpose', d=d, inplace=True, fam='transpose%d' % d)
        add('trace%d' % d, '%s& o, const %s& a' % (E, M[d]), 'o = a.trace();', spec='trace', d=d, fam='trace%d' % d)
        add('det%d' % d, '%s& o, const %s& a' % (E, M[d]), 'o = a.determinant();', spec='det', d=d, fam='det%d' % d)
        # vector * matrix, same dimension (plain)
        add('vecmat%d' % d, '%s& o, const %s& v, const %s& m' % (V[d], V[d], M[d]), 'o = v * m;', spec='vecmat', d=d, fam='vecmat%d' % d)
        add('vecmatassign%d' % d, '%s& v, const %s& m' % (V[d], M[d]), 'v *= m;', spec='vecmat', d=d, inplace=True, fam='vecmat%d' % d)
    add('matmul4_static2', '%s& o, const %s& a, const %s& b' % (M[4], M[4], M[4]), 'o = %s::multiply(a, b);' % M[4], spec='matmul', d=4, fam='matmul4')
    add('matmul4_static3', '%s& o, const %s& a, const %s& b' % (M[4], M[4], M[4]), '%s::multiply(a, b, o);' % M[4], spec='matmul', d=4, fam='matmul4')
    # the out-parameter may be one of the operands: the product is that of the values the operands had on entry
    add('matmul4_static3_out_is_b', '%s& b, const %s& a' % (M[4], M[4]), '%s::multiply(a, b, b);' % M[4], spec='matmul', d=4, fam='matmul4', bases=('a1', 'a0'))
    add('matmul4_static3_out_is_a', '%s& a, const %s& b' % (M[4], M[4]), '%s::multiply(a, b, a);' % M[4], spec='matmul', d=4, fam='matmul4', bases=('a0', 'a1'))
    add('matmul4_static3_square', '%s& a' % M[4], '%s::multiply(a, a, a);' % M[4], spec='matmul', d=4, fam='matmul4', bases=('a0', 'a0'))
    # homogeneous
    for d in (3, 4):
        n = d - 1
        add('hvecmat%d' % d, '%s& o, const %s& v, const %s& m' % (V[n], V[n], M[d]), 'o = v * m;', spec='hvecmat', d=d, fam='hvecmat%d' % d)
        add('hvecmatassign%d' % d, '%s& v, const %s& m' % (V[n], M[d]), 'v *= m;', spec='hvecmat', d=d, inplace=True, fam='hvecmat%d' % d)
        add('multVecMatrix%d' % d, '%s& o, const %s& v, const %s& m' % (V[n], V[n], M[d]), 'm.multVecMatrix(v, o);', spec='hvecmat', d=d, fam='hvecmat%d' % d)
        add('multDirMatrix%d' % d, '%s& o, const %s& v, const %s& m' % (V[n], V[n], M[d]), 'm.multDirMatrix(v, o);', spec='dirmat', d=d, fam='dirmat%d' % d)
    add('multDirMatrix2', '%s& o, const %s& v, const %s& m' % (V[2], V[2], M[2]), 'm.multDirMatrix(v, o);', spec='vecmat', d=2, fam='vecmat2')
    # the (src, dst) member forms must also be right when called in place (dst aliases src): every output is
    # computed from the *original* components
    for d in (3, 4):
        n = d - 1
        add('multVecMatrix%d_inplace' % d, '%s& v, const %s& m' % (V[n], M[d]), 'm.multVecMatrix(v, v);', spec='hvecmat', d=d, inplace=True, fam='hvecmat%d' % d)
        add('multDirMatrix%d_inplace' % d, '%s& v, const %s& m' % (V[n], M[d]), 'm.multDirMatrix(v, v);', spec='dirmat', d=d, inplace=True, fam='dirmat%d' % d)
    add('multDirMatrix2_inplace', '%s& v, const %s& m' % (V[2], M[2]), 'm.multDirMatrix(v, v);', spec='vecmat', d=2, inplace=True, fam='vecmat2')
    add('outer3', '%s& o, const %s& a, const %s& b' % (M[3], V[3], V[3]), 'o = outerProduct(a, b);', spec='outer', d=3, fam='outer3')
    add('outer4', '%s& o, const %s& a, const %s& b' % (M[4], V[4], V[4]), 'o = outerProduct(a, b);', spec='outer', d=4, fam='outer4')
    for d in (3, 4):
        for r in range(d):
            for c in range(d):
                add('minor%d_%d_%d' % (d, r, c), '%s& o, const %s& a' % (E, M[d]), 'o = a.minorOf(%d, %d);' % (r, c), spec='minor', d=d, r=r, c=c, fam='minorOf%d' % d)
    # fastMinor: the index tuples used by the library plus a sweep
    for rs in itertools.combinations(range(4), 3):
        for cs in itertools.combinations(range(4), 3):
            add('fastminor4_%s_%s' % (''.join(map(str, rs)), ''.join(map(str, cs))), '%s& o, const %s& a' % (E, M[4]),
                'o = a.fastMinor(%d, %d, %d, %d, %d, %d);' % (rs + cs), spec='fastminor', d=4, rs=rs, cs=cs, fam='fastMinor4')
    for rs in itertools.combinations(range(3), 2):
        for cs in itertools.combinations(range(3), 2):
            add('fastminor3_%s_%s' % (''.join(map(str, rs)), ''.join(map(str, cs))), '%s& o, const %s& a' % (E, M[3]),
                'o = a.fastMinor(%d, %d, %d, %d);' % (rs + cs), spec='fastminor', d=3, rs=rs, cs=cs, fam='fastMinor3')
    return tu

def spec_for(m, sym):
    """returns list of (slot index in output, Rat) and the output base/kind"""
    k = m['spec']
    inpl = m.get('inplace')
    A = 'a0' if inpl else 'a1'
    B = 'a1' if inpl else 'a2'
    if m.get('bases'): A, B = m['bases']          # out-parameter forms called with the result aliasing an operand
    if k == 'dot':
        a, b = sym.vec('a1', m['n']), sym.vec('a2', m['n'])
        return [(sum_p(P.pmul(x, y) for x, y in zip(a, b)), ONE)]
    if k == 'cross2':
        a, b = sym.vec('a1', 2), sym.vec('a2', 2)
        return [(P.psub(P.pmul(a[0], b[1]), P.pmul(a[1], b[0])), ONE)]
    if k == 'cross3':
        a, b = sym.vec(A, 3), sym.vec(B, 3)
        return [(P.psub(P.pmul(a[(i + 1) % 3], b[(i + 2) % 3]), P.pmul(a[(i + 2) % 3], b[(i + 1) % 3])), ONE) for i in range(3)]
    if k == 'quatmul':
        a, b = sym.vec(A, 4), sym.vec(B, 4)
        r1, v1, r2, v2 = a[0], a[1:], b[0], b[1:]
        out = [(P.psub(P.pmul(r1, r2), sum_p(P.pmul(x, y) for x, y in zip(v1, v2))), ONE)]
        for i in range(3):
            cr = P.psub(P.pmul(v1[(i + 1) % 3], v2[(i + 2) % 3]), P.pmul(v1[(i + 2) % 3], v2[(i + 1) % 3]))
            out.append((sum_p([P.pmul(r1, v2[i]), P.pmul(r2, v1[i]), cr]), ONE))
        return out
    if k == 'quatdot':
        a, b = sym.vec('a1', 4), sym.vec('a2', 4)
        return [(sum_p(P.pmul(x, y) for x, y in zip(a, b)), ONE)]
    d = m.get('d')
    if k == 'matmul':
        a, b = sym.mat(A, d), sym.mat(B, d)
        c = matmul(a, b)
        return [(c[i][j], ONE) for i in range(d) for j in range(d)]
    if k == 'transpose':
        a = sym.mat(A, d)
        return [(a[j][i], ONE) for i in range(d) for j in range(d)]
    if k == 'trace':
        a = sym.mat('a1', d)
        return [(sum_p(a[i][i] for i in range(d)), ONE)]
    if k == 'det':
        return [(det(sym.mat('a1', d)), ONE)]
    if k == 'vecmat':
        v, mm = sym.vec(A, d), sym.mat(B, d)
        return [(sum_p(P.pmul(v[i], mm[i][j]) for i in range(d)), ONE) for j in range(d)]
    if k in ('hvecmat', 'dirmat'):
        n = d - 1
        v, mm = sym.vec(A, n), sym.mat(B, d)
        if k == 'dirmat':
            return [(sum_p(P.pmul(v[i], mm[i][j]) for i in range(n)), ONE) for j in range(n)]
        w = P.padd(sum_p(P.pmul(v[i], mm[i][n]) for i in range(n)), mm[n][n])
        return [(P.padd(sum_p(P.pmul(v[i], mm[i][j]) for i in range(n)), mm[n][j]), w) for j in range(n)]
    if k == 'outer':
        a, b = sym.vec('a1', d), sym.vec('a2', d)
        return [(P.pmul(a[i], b[j]), ONE) for i in range(d) for j in range(d)]
    if k == 'minor':
        a = sym.mat('a1', d)
        rows = [i for i in range(d) if i != m['r']]; cols = [j for j in range(d) if j != m['c']]
        return [(det([[a[i][j] for j in cols] for i in rows]), ONE)]
    if k == 'fastminor':
        a = sym.mat('a1', d)
        return [(det([[a[i][j] for j in m['cs']] for i in m['rs']]), ONE)]
    raise KeyError(k)

def out_terms(S, m, t):
    _, sz, lt = ELEM[t]
    n = {'dot': 1, 'cross2': 1, 'cross3': 3, 'quatmul': 4, 'quatdot': 1, 'trace': 1, 'det': 1, 'minor': 1, 'fastminor': 1}.get(m['spec'])
    if n is None:
        d = m['d']
        n = {'matmul': d * d, 'transpose': d * d, 'vecmat': d, 'hvecmat': d - 1, 'dirmat': d - 1, 'outer': d * d}[m['spec']]
    return [S.out('a0', i * sz, sz, lt) for i in range(n)]

def slot_label(m, i):
    d = m.get('d')
    if m['spec'] in ('matmul', 'transpose', 'outer'):
        return '[%d][%d]' % (i // d, i % d)
    return '[%d]' % i

def names_for(t):
    names = {}
    return names

def check_fn(rep, S, m, t, oid):
    where = fn_where(S.fn)
    if any(e.kind != 'ret' for e in S.exits):
        rep.ob(oid, 'R05.def', VIOLATED, 'unexpected non-returning exit %s' % [e.kind for e in S.exits], where); return
    outs = out_terms(S, m, t)
    bad = []; cancelled = 0; ncases = 0
    try:
        for asg, res in PC.live_cases(outs):
            ctx, contra = PC.ctx_for(asg)
            if contra: continue
            ncases += 1
            sym = Sym(ctx, t)
            spec = spec_for(m, sym)
            for i, (term, sp) in enumerate(zip(res, spec)):
                P.CANCEL[0] = 0
                r = ctx.rat(term)
                cancelled += P.CANCEL[0]
                sp = (ctx.reduce(sp[0]), ctx.reduce(sp[1]))
                if not ctx.requal(r, sp):
                    bad.append((i, PC.show_asg(asg), P.show_rat(r, ctx), P.show_rat(sp, ctx)))
    except (P.NotPoly, PC.Undecided) as e:
        rep.ob(oid, 'R05.def', UNDECIDED, str(e), where); return
    if bad:
        i, a, got, exp = bad[0]
        slots = sorted(set(slot_label(m, b[0]) for b in bad))
        rep.ob(oid, 'R05.def', VIOLATED, 'slot(s) %s differ from the definition; e.g. slot %s%s: found %s, definition %s' %
               (','.join(slots), slot_label(m, i), (' when ' + a) if a else '', got, exp), where)
    else:
        ctx0 = P.Ctx()
        rep.ob(oid, 'R05.def', HOLDS, '%d case(s)' % ncases, where, sample='%s slot[0] = %s' % (oid, T.show(outs[0], 5)[:400]))
    rep.ob(oid + '#nocancel', 'R05.nocancel', HOLDS if cancelled == 0 else VIOLATED,
           '' if cancelled == 0 else '%d monomial(s) cancel during expansion: the implementation is not a plain signed sum of products' % cancelled, where, nontrivial=False)

def check_mixed_wide(rep, ws):
    """double vector times float matrix (all spellings, Vec2/3/4 against Matrix33/44): the result has the vector's type, so no
    value on the way to a result component is rounded to float (an fptrunc would cut the product to 24 bits), and each
    component is the textbook sum over the reals"""
    tu = TU('c05_mixedwide')
    specs = []
    for vn, d, homog in ((3, 4, True), (3, 3, False), (2, 3, True), (4, 4, False)):
        V = 'Vec%d<double>' % vn; M = 'Matrix%d%d<float>' % (d, d)
        full = (vn == d)
        tu.add('w_vm_%d_%d' % (vn, d), '%s& o, const %s& v, const %s& m' % (V, V, M), 'o = v * m;', vn=vn, d=d, homog=homog and not full)
        tu.add('w_vmassign_%d_%d' % (vn, d), '%s& v, const %s& m' % (V, M), 'v *= m;', vn=vn, d=d, homog=homog and not full, inplace=True)
        if not full:
            tu.add('w_multVec_%d_%d' % (vn, d), '%s& o, const %s& v, const %s& m' % (V, V, M), 'm.multVecMatrix(v, o);', vn=vn, d=d, homog=True)
            tu.add('w_multDir_%d_%d' % (vn, d), '%s& o, const %s& v, const %s& m' % (V, V, M), 'm.multDirMatrix(v, o);', vn=vn, d=d, homog=False, dironly=True)
    try:
        mod = ws.module(tu.name, tu.source(), opaque=())
    except build.BuildError as e:
        rep.ob('mixed-type products (double x float)', 'R05.def', UNDECIDED, str(e)[:300]); return
    I = vg.Interp(mod)
    for name, m in tu.meta.items():
        oid = '%s<double x float>' % name[2:]
        try:
            S = I.run(name)
            where = fn_where(S.fn)
            vn, d = m['vn'], m['d']; vb, mb = ('a0', 'a1') if m.get('inplace') else ('a1', 'a2')
            bad = None
            for j in range(vn):
                o = S.out('a0', 8 * j, 8, 'double')
                hit = None; seen = set(); st = [o]
                while st and hit is None:
                    x = st.pop()
                    if x.id in seen: continue
                    seen.add(x.id); st.extend(x.args)
                    if x.op == 'fptrunc': hit = x
                if hit is not None:
                    bad = 'component %d passes through a conversion to float (%s): the double result keeps 24 significant bits' % (j, T.show(hit, 3)[:100]); break
                ctx = P.Ctx()
                got = ctx.rat(o)
                vin = [T.inp(vb, 8 * i, 8, 'double') for i in range(vn)]
                def col(c):
                    w = {}
                    for k in range(vn): w = P.padd(w, P.pmul(P.patom(ctx.key(vin[k])), P.patom(ctx.key(T.inp(mb, 4 * (k * d + c), 4, 'float')))))
                    if vn < d and not m.get('dironly'): w = P.padd(w, P.patom(ctx.key(T.inp(mb, 4 * (vn * d + c), 4, 'float'))))
                    return w
                want = (col(j), col(vn) if m['homog'] else P.pconst(1))
                if not ctx.requal(got, want): bad = 'component %d is %s, not the definition' % (j, P.show_rat(got, ctx)[:100]); break
            rep.ob(oid, 'R05.def', VIOLATED if bad else HOLDS, bad or 'textbook sums, computed without any conversion to float', where)
        except (vg.Unsupported, P.NotPoly) as e:
            rep.ob(oid, 'R05.def', UNDECIDED, repr(e)[:300])

def check_mixed(rep, ws):
    """vector of one element type times a matrix of another (integer vector, float matrix): the sums of products are formed in
    the common type from the converted vector components and rounded to the vector's type once, at the end"""
    tu = TU('c05_mixed')
    V, M4, M3 = 'Vec3<int>', 'Matrix44<float>', 'Matrix33<float>'
    tu.add('w_vm44', '%s& o, const %s& v, const %s& m' % (V, V, M4), 'o = v * m;', d=4, homog=True)
    tu.add('w_vmassign44', '%s& v, const %s& m' % (V, M4), 'v *= m;', d=4, homog=True, inplace=True)
    tu.add('w_multVec44', '%s& o, const %s& v, const %s& m' % (V, V, M4), 'm.multVecMatrix(v, o);', d=4, homog=True)
    tu.add('w_multDir44', '%s& o, const %s& v, const %s& m' % (V, V, M4), 'm.multDirMatrix(v, o);', d=4, homog=False)
    tu.add('w_vm33', '%s& o, const %s& v, const %s& m' % (V, V, M3), 'o = v * m;', d=3, homog=False)
    tu.add('w_vmassign33', '%s& v, const %s& m' % (V, M3), 'v *= m;', d=3, homog=False, inplace=True)
    try:
        mod = ws.module(tu.name, tu.source(), opaque=())
    except build.BuildError as e:
        rep.ob('mixed-type products', 'R05.def', UNDECIDED, str(e)[:300]); return
    I = vg.Interp(mod)
    for name, m in tu.meta.items():
        oid = '%s<int x float>' % name[2:]
        try:
            S = I.run(name)
            where = fn_where(S.fn)
            d = m['d']; vb, mb = ('a0', 'a1') if m.get('inplace') else ('a1', 'a2')
            vin = [T.inp(vb, 4 * i, 4, 'i32') for i in range(3)]
            bad = None
            for j in range(3):
                o = S.out('a0', 4 * j, 4, 'i32')
                roots = [o]
                if o.op in ('sdiv',): roots = list(o.args)
                for rnode in roots:
                    if rnode.op != 'fptosi': bad = 'component %d is %s: expected one rounding to the vector type at the end' % (j, T.show(rnode, 2)[:80]); break
                    seen = set(); st = [rnode.args[0]]
                    while st and not bad:
                        x = st.pop()
                        if x.id in seen: continue
                        seen.add(x.id); st.extend(x.args)
                        if x.op in ('fptosi', 'fptoui'): bad = 'component %d: a value is rounded to the integer type inside the sum of products (%s)' % (j, T.show(x, 2)[:80])
                        if x.op == 'in' and x.attr[0] == vb and x.ty == 'i32' and False: pass
                    if bad: break
                    ctx = P.Ctx()
                    got = ctx.rat(rnode.args[0])
                    col = j if rnode is roots[0] else 3
                    if len(roots) == 2 and rnode is roots[1]: col = 3
                    want = {}
                    for k in range(3): want = P.padd(want, P.pmul(P.patom(ctx.key(vin[k])), P.patom(ctx.key(T.inp(mb, 4 * (k * d + col), 4, 'float')))))
                    if m['homog']: want = P.padd(want, P.patom(ctx.key(T.inp(mb, 4 * (3 * d + col), 4, 'float'))))
                    if not ctx.requal(got, (want, P.pconst(1))): bad = 'component %d: the rounded value is %s, not the definition' % (j, P.show_rat(got, ctx)[:100])
                if bad: break
                if m['homog'] and len(roots) != 2: bad = 'component %d is not x / w' % j; break
            rep.ob(oid, 'R05.def', VIOLATED if bad else HOLDS, bad or 'sums of products of the converted components, rounded once', where)
        except (vg.Unsupported, P.NotPoly) as e:
            rep.ob(oid, 'R05.def', UNDECIDED, repr(e)[:300])

def main(rep, ws, tier):
    types = 'f' if tier == 'quick' else 'fd'
    tus = [gen_tu(t) for t in types]
    an = Analysed(ws, tus, rep)
    fams = {}
    for tu, t in zip(tus, types):
        R = an[tu]
        for name, m in tu.meta.items():
            oid = '%s<%s>' % (name[2:], ELEM[t][0])
            S = R.get(name)
            if S is None:
                rep.ob(oid, 'R05.def', UNDECIDED, R.err.get(name, 'not analysed')); continue
            check_fn(rep, S, m, t, oid)
            fams.setdefault((m['fam'], t), []).append(oid)
    check_mixed(rep, ws)
    check_mixed_wide(rep, ws)
    # R05.spell: spellings of one family all proved equal to the same definition
    status = {o['id']: o['status'] for o in rep.obs if o['rule'] == 'R05.def'}
    for (fam, t), oids in sorted(fams.items()):
        if len(oids) < 2: continue
        st = HOLDS if all(status.get(o) == HOLDS for o in oids) else (VIOLATED if any(status.get(o) == VIOLATED for o in oids) else UNDECIDED)
        rep.ob('spellings(%s<%s>)' % (fam, ELEM[t][0]), 'R05.spell', st, 'spellings: ' + ', '.join(oids) + ('' if st == HOLDS else ' do not all equal the definition'), nontrivial=False)
    narrowing(rep, ws, [gen_tu('d')], 'R05.prec')
    rep.floor('product/minor/determinant instances', sum(1 for o in rep.obs if o['rule'] == 'R05.def'), 100 * len(types))
    rep.assumptions += ['exact real arithmetic (D-poly): rounding is not modelled', 'distinct reference parameters do not alias (in-place forms analysed separately)']
    rep.undecided_clauses += ['the numeric value of the rounding bound (only the cancellation-free shape that the standard bound needs is decided)',
                              'det(A*B)=det(A)det(B) follows from R05.def and is not expanded separately']
