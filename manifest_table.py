"""single source for MANIFEST.json (tools/mkmanifest.py) and for ./check's dispatch table"""
PENDING_REASON = 'check not built yet (framework under construction; see DESIGN.md section 9)'
NA = {}
TB = 'trusted: clang 14 front end, the LLVM 14 passes run by tools/irx, the value-graph extractor and the rewrite rules of engine/term.py; '
CHECKS = {
 'C04': dict(
    module='c04', level='proof', engine='irx+vgraph+D-term',
    technique='static analysis: value-graph (gated SSA) normal-form equality over LLVM IR, compile-time layout witnesses, insertion-sequence (effect) analysis',
    text='For every operator spelling of every aggregate and element type, the extracted value graph of each output slot is structurally identical (IEEE-exact rewrites only) to the scalar operation on the corresponding input slots; equality predicates are the conjunction/disjunction over all slots; accessors/ctors/interop are slot-identity maps; sizeof/offsetof witnesses compiled; operator<< emits one token per slot in order inside one pair of parentheses. This is the property itself (a shape property), decided for all operand values.',
    note=TB + 'distinct reference parameters do not alias; NaN payload bits not modelled; the printed form of a single component is iostream\'s.'),
}
