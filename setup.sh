#!/bin/sh
# builds the analysis tools from files on disk only (offline)
set -e
cd "$(dirname "$0")"
mkdir -p build
CXXFLAGS="$(llvm-config-14 --cxxflags)"
clang++ $CXXFLAGS -O1 -fno-rtti tools/irx.cpp -o build/irx /usr/lib/llvm-14/lib/libLLVM-14.so
if [ -f tools/pyrules.cpp ]; then
  clang++ $CXXFLAGS -O1 -fno-rtti tools/pyrules.cpp -o build/pyrules /usr/lib/llvm-14/lib/libclang-cpp.so.14 /usr/lib/llvm-14/lib/libLLVM-14.so
fi
echo setup ok
