#!/bin/bash
# confirm a PyImath seeded change in its scratch worktree: bindings build, demo.py differs between the changed and the
# original tree, and the 38 C++ tests pass on the changed tree.  usage: confirm_pyseed.sh C19   (SEEDBASE=/tmp/seed4)
id=$1; base=${SEEDBASE:-/tmp/seed}; d=$base/$id; J=${J:-8}
cd $d || exit 2
git -C $d diff -- src > $base/$id.actual.diff
if ! diff -q $base/$id.actual.diff $d/seed/patch.diff >/dev/null; then echo "NOTE: patch.diff differs from worktree diff; using the worktree diff"; cp $base/$id.actual.diff $d/seed/patch.diff; fi
rm -rf $d/_b $d/_pb
echo "== C++ tests on changed tree"
cmake -G Ninja -S $d -B $d/_b >/dev/null && cmake --build $d/_b -j$J >/dev/null 2>&1 && ctest --test-dir $d/_b -j$J 2>&1 | tail -3 | tee $d/seed/ctest_changed.txt
rm -rf $d/_b
echo "== bindings, changed tree"
cmake -G Ninja -S $d -B $d/_pb -DPYTHON=ON -DBUILD_TESTING=OFF -DPython3_EXECUTABLE=/usr/bin/python3 >/dev/null && cmake --build $d/_pb -j$J >$d/seed/pybuild.log 2>&1 || { echo PYBUILD-FAILED; tail -5 $d/seed/pybuild.log; exit 1; }
(timeout 900 /usr/bin/python3 $d/seed/demo.py) > $d/seed/out_changed.txt 2>&1; echo "exit=$?" >> $d/seed/out_changed.txt; tail -5 $d/seed/out_changed.txt
git -C $d apply -R $d/seed/patch.diff || { echo REVERT-FAILED; exit 1; }
echo "== bindings, original tree"
cmake --build $d/_pb -j$J >>$d/seed/pybuild.log 2>&1
(timeout 900 /usr/bin/python3 $d/seed/demo.py) > $d/seed/out_original.txt 2>&1; echo "exit=$?" >> $d/seed/out_original.txt; tail -4 $d/seed/out_original.txt
git -C $d apply $d/seed/patch.diff
rm -rf $d/_pb $d/seed/pybuild.log
