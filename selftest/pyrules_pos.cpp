// Positive / negative examples for the PyImath rules: one violating and one conforming instance of every construct
// the rules of checks/c19.py and checks/c20.py look for.  Analysed by tools/pyrules on every run; if a rule stops
// firing on the *_bad instances (or starts firing on the *_good ones) the check reports analysis-incomplete.
#include <stdexcept>
#include <cstring>
#include <cstddef>

struct PyObject; typedef long Py_ssize_t;
extern "C" PyObject *PyTuple_GetItem(PyObject *, Py_ssize_t);
extern "C" Py_ssize_t PyTuple_Size(PyObject *);
extern "C" int PyType_Check_(PyObject *);
#define PyTuple_Check(op) PyType_Check_(op)
struct Py_buffer { void *buf; Py_ssize_t len; Py_ssize_t itemsize; char *format; Py_ssize_t *shape; };
typedef int (*getbufferproc)(PyObject *, Py_buffer *, int);
typedef void (*releasebufferproc)(PyObject *, Py_buffer *);
struct PyBufferProcs { getbufferproc bf_getbuffer; releasebufferproc bf_releasebuffer; };

namespace boost { namespace python {
template <int C, int W> struct with_custodian_and_ward_postcall {};
template <int N = 1> struct return_internal_reference {};
template <class T> struct class_ {
    template <class F> class_ &def(const char *, F) { return *this; }
    template <class F, class P> class_ &def(const char *, F, P) { return *this; }
};
}}

namespace PyImath {
struct Task { virtual ~Task() {} virtual void execute(size_t start, size_t end) = 0; };
void dispatchTask(Task &task, size_t length);

struct Idx { size_t *p = nullptr; void reset(size_t *q) { p = q; } size_t *get() const { return p; } size_t &operator[](size_t i) const { return p[i]; } };

template <class T> class FixedArray {
    T *_ptr; size_t _length; size_t _stride; bool _writable; Idx _indices; size_t _unmaskedLength;
  public:
    FixedArray(T *ptr, Py_ssize_t length, Py_ssize_t stride, bool writable = true) : _ptr(ptr), _length(length), _stride(stride), _writable(writable), _unmaskedLength(0) {}
    explicit FixedArray(Py_ssize_t length) : _ptr(new T[length]), _length(length), _stride(1), _writable(true), _unmaskedLength(0) {}
    FixedArray(const FixedArray &o) : _ptr(o._ptr), _length(o._length), _stride(o._stride), _writable(o._writable), _indices(o._indices), _unmaskedLength(o._unmaskedLength) {}
    // wprop_bad: a view of another array that is always writable
    FixedArray(FixedArray &o, int) : _ptr(o._ptr), _length(o._length), _stride(o._stride), _writable(true), _unmaskedLength(0) {}
    // inv_good: masked view aliasing the source
    FixedArray(FixedArray &o, const bool *mask) : _ptr(o._ptr), _length(0), _stride(o._stride), _writable(o._writable), _unmaskedLength(o._length) { _indices.reset(new size_t[o._length]); }
    // inv_bad: fresh compact storage but an index table
    FixedArray(const FixedArray &o, const char *) : _ptr(0), _length(o._length), _stride(1), _writable(true), _unmaskedLength(o._unmaskedLength) { _ptr = new T[_length]; _indices.reset(new size_t[_length]); }
    bool writable() const { return _writable; }
    Py_ssize_t len() const { return _length; }
    void makeReadOnly() { _writable = false; }
    void makeWritable_bad() { _writable = true; }
    void set_good(size_t i, const T &v) { if (!_writable) throw std::invalid_argument("read-only"); _ptr[i * _stride] = v; }
    void set_bad(size_t i, const T &v) { _ptr[i * _stride] = v; }
    // stride_bad: the storage pointer subscripted without the stride; stride_good: through a local that carries it
    void put_stride_bad(size_t i, const T &v) { if (!_writable) throw std::invalid_argument("read-only"); _ptr[i] = v; }
    void put_stride_good(size_t i, const T &v) { if (!_writable) throw std::invalid_argument("read-only"); size_t k = i * _stride; _ptr[k] = v; }
    T &ref_good(size_t i) { if (!_writable) throw std::invalid_argument("read-only"); return _ptr[i * _stride]; }
    const T &get(size_t i) const { return _ptr[i * _stride]; }
    const T &operator[](size_t i) const { return _ptr[i * _stride]; }
    T &unchecked_index(size_t i) { return _ptr[i * _stride]; }
    size_t match_dimension(const FixedArray &o) const { if (len() != o.len()) throw std::invalid_argument("dimensions"); return len(); }
    // alias_bad: the shallow copy of a const operand is written through; alias_good: it is only read
    FixedArray ifelse_bad(const FixedArray &other) { FixedArray tmp(other); tmp.set_good(0, T()); return tmp; }
    Py_ssize_t peek_good(const FixedArray &other) { FixedArray tmp(other); return tmp.len(); }
    FixedArray row_view(size_t i) { return FixedArray(&_ptr[i], 1, 1, _writable); }

    class WritableGoodAccess { T *_p; public: WritableGoodAccess(FixedArray &a) : _p(a._ptr) { if (!a.writable()) throw std::invalid_argument("read-only"); } };
    class WritableBadAccess { T *_p; public: WritableBadAccess(FixedArray &a) : _p(a._ptr) { if (!a.writable()) std::invalid_argument("read-only"); } };
};

// views through the escape hatch
inline FixedArray<int> view_good(FixedArray<int> &a) { return FixedArray<int>(&a.unchecked_index(0), a.len(), 1, a.writable()); }
inline FixedArray<int> view_bad(FixedArray<int> &a) { return FixedArray<int>(&a.unchecked_index(0), a.len(), 1); }
inline void poke_bad(FixedArray<int> &a) { a.unchecked_index(0) = 1; }
inline void poke_good(FixedArray<int> &a) { if (!a.writable()) throw std::invalid_argument("ro"); a.unchecked_index(0) = 1; }

// tuple indices
void use(PyObject *);
inline void tuple_good(PyObject *index) { if (!PyTuple_Check(index) || PyTuple_Size(index) != 2) throw std::invalid_argument("syntax"); use(PyTuple_GetItem(index, 0)); use(PyTuple_GetItem(index, 1)); }
inline void tuple_bad(PyObject *index) { use(PyTuple_GetItem(index, 0)); }

// bindings
inline void bind_all() {
    boost::python::class_<FixedArray<int>> c;
    c.def("good", &FixedArray<int>::row_view, boost::python::with_custodian_and_ward_postcall<0, 1>());
    c.def("bad", &FixedArray<int>::row_view, boost::python::with_custodian_and_ward_postcall<1, 0>());
    c.def("w", &FixedArray<int>::set_good); c.def("w", &FixedArray<int>::set_bad); c.def("r", &FixedArray<int>::ref_good, boost::python::return_internal_reference<1>());
    FixedArray<int> a(3), b(a, 1), e(a, "x"); bool m[3] = {true, false, true}; FixedArray<int> d(a, m);
    FixedArray<int>::WritableGoodAccess g(a); FixedArray<int>::WritableBadAccess h(a);
    a.makeReadOnly(); a.makeWritable_bad(); (void)a.get(0); (void)view_good(a); (void)view_bad(a); poke_bad(a); poke_good(a); tuple_good(nullptr); tuple_bad(nullptr);
}

// buffer protocol
template <class T> struct FixedArrayWidth { static const Py_ssize_t value; };
template <class T> struct FixedArrayAtomicSize { static const Py_ssize_t value; };
template <class T> struct FixedArrayDimension { static const Py_ssize_t value; };
template <> struct FixedArrayWidth<int> { static const Py_ssize_t value = 1; };
template <> struct FixedArrayAtomicSize<int> { static const Py_ssize_t value = sizeof(int); };
template <> struct FixedArrayDimension<int> { static const Py_ssize_t value = 1; };
template <> struct FixedArrayWidth<long> { static const Py_ssize_t value = 1; };
template <> struct FixedArrayAtomicSize<long> { static const Py_ssize_t value = sizeof(int); };   // traits_bad
template <> struct FixedArrayDimension<long> { static const Py_ssize_t value = 1; };

class BufferAPI {
  public:
    Py_ssize_t *shape; FixedArray<int> &_orig;
    BufferAPI(FixedArray<int> &a, unsigned length, unsigned interleave) : shape(new Py_ssize_t[2]), _orig(a) { shape[0] = Py_ssize_t(length); shape[1] = FixedArrayWidth<int>::value * interleave; }
    Py_ssize_t atomicSize() const { return FixedArrayAtomicSize<int>::value; }
    Py_ssize_t stride() const { return 1; }
    virtual Py_ssize_t numBytes() const { return _orig.len() * atomicSize() * stride(); }
    virtual ~BufferAPI() {}
};
struct GoodBufferAPI : BufferAPI { GoodBufferAPI(FixedArray<int> &a) : BufferAPI(a, 1, 1) {} Py_ssize_t numBytes() const override { return _orig.len() * atomicSize() * FixedArrayWidth<int>::value * stride(); } };
inline Py_ssize_t use_api(FixedArray<int> &a) { GoodBufferAPI g(a); BufferAPI b(a, 1, 1); return g.numBytes() + b.numBytes(); }
inline int getbuffer_bad(PyObject *, Py_buffer *view, int) { FixedArray<int> a(1); a.makeReadOnly(); a.set_good(0, 1); return 0; }
inline void release_good(PyObject *, Py_buffer *) {}
static PyBufferProcs procs = { getbuffer_bad, release_good };
inline FixedArray<int> *from_buffer_bad(Py_buffer &view) { FixedArray<int> *a = new FixedArray<int>(view.shape[0]); std::memcpy(&a->unchecked_index(0), view.buf, view.len); return a; }
inline FixedArray<int> *from_buffer_good(Py_buffer &view) {
    if (view.itemsize != (Py_ssize_t)sizeof(int)) throw std::invalid_argument("type");
    if (view.len != view.shape[0] * (Py_ssize_t)sizeof(int)) throw std::invalid_argument("size");
    FixedArray<int> *a = new FixedArray<int>(view.shape[0]); std::memcpy(&a->unchecked_index(0), view.buf, view.len); return a; }

// string table
struct Ent { int i; };
struct Tab { int n = 0; void insert(int) { ++n; } void erase(int) { --n; } Ent *find(int) const { return nullptr; } Ent *end() const { return nullptr; } };
template <class T> class StringTableT { Tab _table; public:
    int intern(const T &s) { const Tab &strings = _table; Ent *it = strings.find(0); if (it == strings.end()) { _table.insert(0); return 0; } return it->i; }
    void forget_bad(const T &) { _table.erase(0); } };
inline Py_ssize_t use_alias(FixedArray<int> &a, const FixedArray<int> &b) { FixedArray<int> c = a.ifelse_bad(b); return a.peek_good(b) + c.len(); }
inline int use_table() { StringTableT<int> t; t.forget_bad(1); return t.intern(2); }
// R19.own: a view shares the storage it refers to together with the handle that keeps that storage alive
struct AnyH { int *h = nullptr; AnyH() {} AnyH(const AnyH &o) : h(o.h) {} };
template <class T> class StringArrayT { StringTableT<T> &_table; AnyH _tableHandle; public:
    StringArrayT(StringTableT<T> &t, AnyH th) : _table(t), _tableHandle(th) {}
    // own_good
    StringArrayT(StringArrayT &s, int) : _table(s._table), _tableHandle(s._tableHandle) {}
    // own_bad: shares the table but not its owner
    StringArrayT(StringArrayT &s, long) : _table(s._table) {} };
inline void use_sarray() { StringTableT<int> t; StringArrayT<int> a(t, AnyH()); StringArrayT<int> b(a, 1); StringArrayT<int> c(a, 1L); (void) b; (void) c; }
}

// ---------------------------------------------------------------- C20 examples
extern "C" void PyErr_SetString(void *, const char *);
namespace PyImath {
struct GoodTask : Task { FixedArray<int> &r; const FixedArray<int> &a; GoodTask(FixedArray<int> &r_, const FixedArray<int> &a_) : r(r_), a(a_) {}
    void execute(size_t start, size_t end) override { for (size_t i = start; i < end; ++i) r.ref_good(i) = a.get(i); } };
struct IgnoresStartTask : Task { FixedArray<int> &r; IgnoresStartTask(FixedArray<int> &r_) : r(r_) {}
    void execute(size_t start, size_t end) override { for (size_t i = 0; i < end; ++i) r.ref_good(i) = 1; } };
struct Arr2 { int *p; int &operator[](size_t i) { return p[i]; } const int &operator[](size_t i) const { return p[i]; } };
struct NeighbourTask : Task { Arr2 r; int total; NeighbourTask() : total(0) {}
    void execute(size_t start, size_t end) override { for (size_t i = start; i < end; ++i) { r[i + 1] = r[i]; total = total + 1; } } };
struct DisjointTask : Task { Arr2 r; Arr2 a;
    void execute(size_t start, size_t end) override { for (size_t i = start; i < end; ++i) r[i] = a[i]; } };
struct ScratchTask : Task { Arr2 r; Arr2 a;
    void execute(size_t start, size_t end) override { int last = 0; for (size_t i = start; i < end; ++i) { if (a[i] > 0) last = a[i]; r[i] = last; } } };
struct ScratchOkTask : Task { Arr2 r; Arr2 a;
    void execute(size_t start, size_t end) override { int tmp = 0; for (size_t i = start; i < end; ++i) { if (a[i] > 0) tmp = a[i]; else tmp = -a[i]; r[i] = tmp; } } };
// shared_bad: state with static storage duration written from execute()
struct StaticStateTask : Task { Arr2 r;
    void execute(size_t start, size_t end) override { static int calls = 0; for (size_t i = start; i < end; ++i) { r[i] = calls; } calls = calls + 1; } };
struct PythonTask : Task { Arr2 r;
    void execute(size_t start, size_t end) override { for (size_t i = start; i < end; ++i) { r[i] = 0; } PyErr_SetString(nullptr, "x"); } };
// dispatch_bad: the range goes to the pool and is then run inline as well; dispatch_good: one or the other
struct WorkerPool { virtual ~WorkerPool() {} virtual void dispatch(Task &task, size_t length) = 0; virtual bool inWorkerThread() const = 0; static WorkerPool *currentPool(); };
inline void dispatchTask_bad(Task &task, size_t length) { WorkerPool *p = WorkerPool::currentPool(); if (length > 200 && p && !p->inWorkerThread()) p->dispatch(task, length); task.execute(0, length); }
inline void dispatchTask_good(Task &task, size_t length) { WorkerPool *p = WorkerPool::currentPool(); if (length > 200 && p && !p->inWorkerThread()) { p->dispatch(task, length); return; } task.execute(0, length); }
inline void run_dispatch_examples(Task &t) { dispatchTask_bad(t, 1); dispatchTask_good(t, 1); }
// elem_bad: an attribute of element 0 applied at every position; elem_good: position i from element i
inline FixedArray<int> negate_all_bad(const FixedArray<int> &a) { size_t len = a.len(); FixedArray<int> result(len); int s = a[0]; for (size_t i = 0; i < len; ++i) result.ref_good(i) = s - a[i]; return result; }
inline FixedArray<int> negate_all_good(const FixedArray<int> &a) { size_t len = a.len(); FixedArray<int> result(len); for (size_t i = 0; i < len; ++i) result.ref_good(i) = -a[i]; return result; }
inline void run_good(FixedArray<int> &r, const FixedArray<int> &a) { size_t len = r.match_dimension(a); GoodTask t(r, a); dispatchTask(t, len); }
inline void run_bad(FixedArray<int> &r, const FixedArray<int> &a) { size_t len = r.len(); GoodTask t(r, a); dispatchTask(t, len); }
inline void run_others(FixedArray<int> &r) { IgnoresStartTask t(r); dispatchTask(t, r.len()); NeighbourTask n; DisjointTask d; PythonTask p; ScratchTask s1; ScratchOkTask s2; StaticStateTask ss; ss.execute(0, 1); n.execute(0, 1); d.execute(0, 1); p.execute(0, 1); s1.execute(0, 1); s2.execute(0, 1); }
}
