#!/bin/bash
# like process_round.sh, but the checks run on a patched scratch copy (try_seed_copy.sh): /repo is never touched.
# usage: process_round_copy.sh /tmp/seed14 [ids...]
base=$1; shift; ids=${@:-$(ls $base | grep -E '^C[0-9]+$')}
export SEEDBASE=$base
for id in $ids; do
  [ -f $base/$id/seed/meta.json ] || { echo "$id: not finished"; continue; }
  c=
  [ -f $base/$id/seed/demo.cpp ] || { c=skip; }
  if [ "$c" != skip ]; then
    out=$(/verif/selftest/confirm_seed.sh $id 2>&1 | grep "tests passed\|exit=\|FAILED" | tr '\n' ' ')
  else out="(python demo: confirm separately)"; fi
  res=$(/verif/selftest/try_seed_copy.sh $id 2>&1 | grep "^check\|^VIOLATED\|^ANALYSIS" | head -2 | cut -c1-230 | tr '\n' ' ')
  echo "$id | $out | $res"
done
