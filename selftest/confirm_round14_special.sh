#!/bin/bash
# manual confirmations of round 14 seeds whose demos need special build lines
set -x
B=/tmp/seed14
# ---- C04 (C++23 demo, header-only)
d=$B/C04
cmake -G Ninja -S $d -B $d/_b >/dev/null && cmake --build $d/_b -j8 >/dev/null 2>&1
g++ -std=c++2b -O1 -I$d/src/Imath -I$d/_b/config $d/seed/demo.cpp -o $d/_b/demo && ($d/_b/demo > $d/seed/out_changed.txt 2>&1; echo "exit=$?" >> $d/seed/out_changed.txt)
git -C $d apply -R $d/seed/patch.diff
g++ -std=c++2b -O1 -I$d/src/Imath -I$d/_b/config $d/seed/demo.cpp -o $d/_b/demo0 && ($d/_b/demo0 > $d/seed/out_original.txt 2>&1; echo "exit=$?" >> $d/seed/out_original.txt)
git -C $d apply $d/seed/patch.diff
rm -rf $d/_b
tail -2 $d/seed/out_changed.txt $d/seed/out_original.txt
# ---- C02 (three parts)
d=$B/C02
cmake -G Ninja -S $d -B $d/_b >/dev/null && cmake --build $d/_b -j8 >/dev/null 2>&1
bld() { I="-I $d/src/Imath -I $d/_b/config"; for p in 1 2 3; do fl=""; [ $p = 3 ] && fl="-mf16c"; g++ -std=c++17 -O2 $I -DPART=$p $fl -c $d/seed/demo.cpp -o $d/_b/demo$p.o || return 1; done; g++ -std=c++17 -O2 $I $d/seed/demo.cpp $d/_b/demo1.o $d/_b/demo2.o $d/_b/demo3.o -o $d/_b/$1; }
bld demo && ($d/_b/demo > $d/seed/out_changed.txt 2>&1; echo "exit=$?" >> $d/seed/out_changed.txt)
git -C $d apply -R $d/seed/patch.diff
bld demo0 && ($d/_b/demo0 > $d/seed/out_original.txt 2>&1; echo "exit=$?" >> $d/seed/out_original.txt)
git -C $d apply $d/seed/patch.diff
rm -rf $d/_b
tail -2 $d/seed/out_changed.txt $d/seed/out_original.txt
# ---- C20 (C++ demo against the bindings)
d=$B/C20
rm -rf $d/_b $d/_pb
cmake -G Ninja -S $d -B $d/_b >/dev/null && cmake --build $d/_b -j8 >/dev/null 2>&1 && ctest --test-dir $d/_b -j8 2>&1 | tail -3 | tee $d/seed/ctest_changed.txt
rm -rf $d/_b
cmake -G Ninja -S $d -B $d/_pb -DPYTHON=ON -DBUILD_TESTING=OFF -DPython3_EXECUTABLE=/usr/bin/python3 >/dev/null && cmake --build $d/_pb -j8 > $d/seed/pybuild.log 2>&1 || { echo PYBUILD-FAILED; tail -5 $d/seed/pybuild.log; }
lib=$(ls $d/_pb/src/python/PyImath/libPyImath_Python*.so | head -1); ln=$(basename $lib | sed 's/^lib//; s/\.so$//')
bld20() { g++ -std=c++17 -O1 $d/seed/demo.cpp -o $d/seed/$1 -I$d/src/python/PyImath -I$d/src/Imath -I$d/_pb/config -I/usr/include/python3.11 -L$d/_pb/src/python/PyImath -Wl,-rpath,$d/_pb/src/python/PyImath -Wl,-rpath,$d/_pb/src/Imath -l$ln -lpython3.11; }
bld20 demo && ( (cd $d/_pb && PYTHONPATH=$(dirname $(find $d/_pb -name "imath*.so" | head -1)) timeout 900 $d/seed/demo) > $d/seed/out_changed.txt 2>&1; echo "exit=$?" >> $d/seed/out_changed.txt)
git -C $d apply -R $d/seed/patch.diff
cmake --build $d/_pb -j8 >> $d/seed/pybuild.log 2>&1
bld20 demo0 && ( (cd $d/_pb && PYTHONPATH=$(dirname $(find $d/_pb -name "imath*.so" | head -1)) timeout 900 $d/seed/demo0) > $d/seed/out_original.txt 2>&1; echo "exit=$?" >> $d/seed/out_original.txt)
git -C $d apply $d/seed/patch.diff
rm -rf $d/_pb $d/seed/pybuild.log $d/seed/demo $d/seed/demo0
tail -3 $d/seed/out_changed.txt $d/seed/out_original.txt
