#!/bin/bash
# confirm a seeded change in its scratch worktree: patch == worktree diff, builds, 38 tests pass,
# demo differs between changed and original tree.  usage: confirm_seed.sh C06 [extra link flags]
id=$1; base=${SEEDBASE:-/tmp/seed}; d=$base/$id; J=${J:-8}
set -o pipefail
cd $d || exit 2
git -C $d diff -- src > $base/$id.actual.diff
if ! diff -q $base/$id.actual.diff $d/seed/patch.diff >/dev/null; then echo "NOTE: patch.diff differs from worktree diff; using the worktree diff"; cp $base/$id.actual.diff $d/seed/patch.diff; fi
echo "== build + test changed tree"
rm -rf $d/_b $d/_b0
cmake -G Ninja -S $d -B $d/_b >/dev/null && cmake --build $d/_b -j$J >/dev/null 2>$d/seed/build_changed.err || { echo BUILD-FAILED; tail -5 $d/seed/build_changed.err; exit 1; }
ctest --test-dir $d/_b -j$J 2>&1 | tail -3 | tee $d/seed/ctest_changed.txt
demo=$(ls $d/seed/demo.cpp 2>/dev/null)
if [ -n "$demo" ]; then
  lib=$(ls $d/_b/src/Imath/libImath*.so | head -1)
  g++ -std=c++17 -O1 -I$d/src/Imath -I$d/_b/config $demo -o $d/_b/demo $lib -Wl,-rpath,$d/_b/src/Imath 2>$d/seed/demo_build.err || { echo DEMO-BUILD-FAILED; head -5 $d/seed/demo_build.err; }
  echo "== demo on changed tree"; (cd $d/_b && timeout 600 ./demo) > $d/seed/out_changed.txt 2>&1; echo "exit=$?" >> $d/seed/out_changed.txt; tail -6 $d/seed/out_changed.txt
  git -C $d apply -R $d/seed/patch.diff || { echo REVERT-FAILED; exit 1; }    # (git stash is shared between worktrees: never use it here)
  cmake -G Ninja -S $d -B $d/_b0 >/dev/null && cmake --build $d/_b0 -j$J >/dev/null 2>&1
  lib0=$(ls $d/_b0/src/Imath/libImath*.so | head -1)
  g++ -std=c++17 -O1 -I$d/src/Imath -I$d/_b0/config $demo -o $d/_b0/demo $lib0 -Wl,-rpath,$d/_b0/src/Imath 2>/dev/null
  echo "== demo on original tree"; (cd $d/_b0 && timeout 600 ./demo) > $d/seed/out_original.txt 2>&1; echo "exit=$?" >> $d/seed/out_original.txt; tail -4 $d/seed/out_original.txt
  git -C $d apply $d/seed/patch.diff
fi
rm -rf $d/_b $d/_b0
