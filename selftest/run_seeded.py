#!/usr/bin/env python3
"""Run every seeded change (seeded/<id>/patch.diff, written by independent agents from the property text alone)
against the checks listed in its meta.json ('caught_by'), on a scratch copy of /repo (VERIF_REPO).  Expect exit 1.
usage: selftest/run_seeded.py [Cxx ...]"""
import json, os, subprocess, sys, shutil, tempfile, glob
VERIF = os.path.dirname(os.path.dirname(os.path.abspath(__file__)))
want = [a.upper() for a in sys.argv[1:]]
scratch = tempfile.mkdtemp(prefix='imath_seed_', dir=os.environ.get('TMPDIR') or '/var/tmp')
bad = 0
try:
    for d in sorted(glob.glob(os.path.join(VERIF, 'seeded', '*'))):
        sid = os.path.basename(d)
        if want and sid.split('-')[0] not in want: continue
        meta = json.load(open(os.path.join(d, 'meta.json')))
        subprocess.run(['rsync', '-a', '--delete', '--exclude', '_build', '--exclude', '.git', '/repo/', scratch + '/'], check=True)
        r = subprocess.run(['patch', '-p1', '-s', '-d', scratch, '-i', os.path.join(d, 'patch.diff')], stdout=subprocess.PIPE, stderr=subprocess.STDOUT, text=True)
        if r.returncode != 0:
            print('%-8s STALE (patch does not apply): %s' % (sid, r.stdout.strip()[:120])); bad += 1; continue
        for c in meta.get('caught_by', [meta['property']]):
            r = subprocess.run([os.path.join(VERIF, 'check'), c, '--no-evidence'], env=dict(os.environ, VERIF_REPO=scratch), stdout=subprocess.PIPE, stderr=subprocess.STDOUT, text=True)
            v = [l for l in r.stdout.splitlines() if l.startswith('VIOLATED')]
            st = 'CAUGHT' if r.returncode == 1 else ('INCOMPLETE' if r.returncode == 2 else 'MISSED')
            if st != 'CAUGHT': bad += 1
            print('%-8s by %s: %s %s' % (sid, c, st, v[0][:160] if v else ''), flush=True)
finally:
    shutil.rmtree(scratch, ignore_errors=True)
sys.exit(1 if bad else 0)
