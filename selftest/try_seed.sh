#!/bin/bash
# apply a seeded change to /repo, run the property's check (and optionally others), undo. usage: try_seed.sh C06 [check ids...]
id=$1; shift; checks=${@:-$id}
patch=/verif/seeded/$id/patch.diff; [ -f $patch ] || patch=/tmp/seed/$id/seed/patch.diff
git -C /repo diff --quiet || { echo "/repo not clean"; exit 2; }
git -C /repo apply $patch || { echo "patch does not apply"; exit 2; }
for c in $checks; do
  timeout 1200 /verif/check $c --no-evidence > /tmp/seed/$id.$c.out 2>&1; rc=$?
  echo "check $c exit=$rc"; grep "^VIOLATED\|^ANALYSIS" /tmp/seed/$id.$c.out | cut -c1-330 | head -4
done
git -C /repo checkout -- . ; git -C /repo diff --quiet && echo "/repo restored"
