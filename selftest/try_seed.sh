#!/bin/bash
# apply a seeded change to /repo, run the property's check (and optionally others), undo. usage: try_seed.sh C06 [check ids...]
id=$1; shift; checks=${@:-$id}
base=${SEEDBASE:-/tmp/seed}; patch=$base/$id/seed/patch.diff; [ -f $patch ] || patch=/verif/seeded/$id/patch.diff
git -C /repo diff --quiet || { echo "/repo not clean"; exit 2; }
git -C /repo apply $patch || { echo "patch does not apply"; exit 2; }
for c in $checks; do
  timeout 1200 /verif/check $c --no-evidence > $base/$id.$c.out 2>&1; rc=$?
  echo "check $c exit=$rc"; grep "^VIOLATED\|^ANALYSIS" $base/$id.$c.out | cut -c1-330 | head -4
done
git -C /repo checkout -- . ; git -C /repo diff --quiet && echo "/repo restored"
