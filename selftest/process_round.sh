#!/bin/bash
# confirm and try every finished seed of one round (C++ demos); usage: process_round.sh /tmp/seed4 [ids...]
base=$1; shift; ids=${@:-$(ls $base | grep -E '^C[0-9]+$')}
export SEEDBASE=$base
for id in $ids; do
  [ -f $base/$id/seed/meta.json ] || { echo "$id: not finished"; continue; }
  [ -f $base/$id/seed/demo.cpp ] || { echo "$id: no demo.cpp (python demo: confirm separately)"; c=skip; }
  if [ "$c" != skip ]; then
    out=$(/verif/selftest/confirm_seed.sh $id 2>&1 | grep "tests passed\|exit=\|FAILED" | tr '\n' ' ')
  else out="(python)"; fi
  c=
  res=$(/verif/selftest/try_seed.sh $id 2>&1 | grep "^check\|^VIOLATED\|^ANALYSIS" | head -2 | cut -c1-230 | tr '\n' ' ')
  echo "$id | $out | $res"
done
