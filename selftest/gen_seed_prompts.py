#!/usr/bin/env python3
"""Write one prompt file per property for a round of independent seeding agents and create their scratch worktrees.
usage: gen_seed_prompts.py /tmp/seed5        (prompts: /tmp/seed5/<id>.prompt.txt, worktrees: /tmp/seed5/<id>)
The agents get the property text, the summaries of the changes earlier agents made for that property (so that they pick
another clause) and a worktree - nothing about the checks."""
import json, os, sys, glob, subprocess
VERIF = os.path.dirname(os.path.dirname(os.path.abspath(__file__)))
base = sys.argv[1]
os.makedirs(base, exist_ok=True)
props = [json.loads(l) for l in open(os.path.join(VERIF, 'properties.jsonl'))]
for p in props:
    pid = p['id']; d = os.path.join(base, pid)
    if not os.path.isdir(d):
        subprocess.run(['git', '-C', '/repo', 'worktree', 'add', '--detach', d, 'HEAD'], check=True, stdout=subprocess.DEVNULL, stderr=subprocess.DEVNULL)
    earlier = []
    for m in sorted(glob.glob(os.path.join(VERIF, 'seeded', pid + '*', 'meta.json'))):
        earlier.append(json.load(open(m))['summary'][:420].replace('\n', ' '))
    py = pid in ('C19', 'C20')
    build = ('cmake -G Ninja -S %s -B %s/_b >/dev/null && cmake --build %s/_b -j4 && ctest --test-dir %s/_b -j4' % (d, d, d, d))
    txt = 'You are working on a scratch copy (a git worktree) of the Imath C++ library located at %s . Work ONLY inside %s (never touch /repo, /verif or any other directory except temporary files under %s).\n\n' % (d, d, d)
    txt += 'Below is a semantic property of the library that users rely on. Your job is to play the role of a developer who introduces a realistic, subtle regression:\n\n'
    txt += 'Property %s: %s\n\nStatement: %s\n\nMust hold for: %s\n\n\nTASK\n' % (pid, p['title'], p['statement'], p['quantifier']['text'])
    txt += '1. Craft ONE small change to the library sources (under %s/src/, NOT the tests) that breaks this property, while the code still compiles and the library\'s existing test suite still passes. Build and test like this (use at most 4 cores):\n     %s\n   (38 tests; all must pass with your change.)\n' % (d, build)
    if py:
        txt += '   The property concerns the Python bindings (src/python/PyImath). Build them with\n     cmake -G Ninja -S %s -B %s/_pb -DPYTHON=ON -DBUILD_TESTING=OFF -DPython3_EXECUTABLE=/usr/bin/python3 >/dev/null && cmake --build %s/_pb -j6\n   (takes several minutes; the module is then importable with sys.path.insert(0, "%s/_pb/python3_11"); import imath). numpy is not installed.\n' % (d, d, d, d)
    if earlier:
        txt += '1b. Other developers have ALREADY made the following changes; yours must be in a DIFFERENT function / mechanism / clause of the property than all of them. Read the whole property statement sentence by sentence and pick a clause (or an overload / element type / dimension / code path) that none of them touched: ' + ' ; '.join('(%d) "%s"' % (i + 1, e) for i, e in enumerate(earlier)) + '\n'
    txt += '2. Prefer a change that needs something SPECIFIC to manifest - particular input values or ranges, one overload or element type out of several, one branch (e.g. a sign or zero-skipping branch), an argument-kind combination, a particular ordering - i.e. the kind of slip a code review and the existing tests would miss. Do not make a blatant change that breaks everything.\n'
    txt += 'NOTE: several developers work in sibling worktrees of the same repository at the same time: NEVER use `git stash` (the stash is shared between worktrees); to compare with the original tree use `git diff -- src > p.diff; git apply -R p.diff; ...; git apply p.diff`. Do all the work yourself (do not delegate to sub-agents).\n'
    txt += '3. Write a small demonstration (a C++ program, or a Python script for the Python bindings) that shows the property VIOLATED on the changed tree and HOLDING on the original tree. It must exit with status 1 when the property is violated and 0 when it holds. Compile it against the headers in %s/src/Imath and %s/_b/config (and link %s/_b/src/Imath/libImath*.so or compile half.cpp in if needed).\n' % (d, d, d)
    txt += '4. Leave these files in %s/seed/ :\n     patch.diff   - output of `git -C %s diff -- src` for your change (only the library change)\n     demo.cpp or demo.py - the demonstration, with a comment at the top saying how to build/run it and what output shows the violation\n     meta.json    - {"property": "%s", "summary": "<what was changed>", "needs_to_manifest": "<what specific inputs/conditions are needed>", "tests_pass": true, "commands_run": ["..."], "demo_output_changed": "<output on changed tree>", "demo_output_original": "<output on original tree>"}\n' % (d, d, pid)
    txt += '5. Finally remove your build directories %s/_b and %s/_pb (keep the source change applied in the worktree and keep %s/seed/).\n\nReport briefly: what you changed, that the 38 tests passed, and the demo outputs on both trees.\n' % (d, d, d)
    open(os.path.join(base, pid + '.prompt.txt'), 'w').write(txt)
    print(pid, len(earlier), 'earlier')
