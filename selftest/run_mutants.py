#!/usr/bin/env python3
"""Mutation self-test: apply each mutant (one textual edit of /repo's sources) to a scratch copy,
run the property's check against it with VERIF_REPO, and expect exit 1 naming the construct.
usage: selftest/run_mutants.py [Cxx ...] [--tier quick]
Not part of any registered check; it validates that the checks fire."""
import os, subprocess, sys, shutil, tempfile, json
VERIF = os.path.dirname(os.path.dirname(os.path.abspath(__file__)))
sys.path.insert(0, os.path.join(VERIF, 'selftest'))
from mutants import MUTANTS

def main():
    want = [a.upper() for a in sys.argv[1:] if not a.startswith('--')]
    scratch = tempfile.mkdtemp(prefix='imath_mut_', dir=os.environ.get('TMPDIR') or '/var/tmp')
    res = []
    try:
        for m in MUTANTS:
            if want and m['prop'] not in want and not any(m['id'].upper().startswith(w) for w in want): continue
            subprocess.run(['rsync', '-a', '--delete', '--exclude', '_build', '--exclude', '.git', '/repo/', scratch + '/'], check=True)
            p = os.path.join(scratch, m['file'])
            s = open(p).read()
            anchor = m.get('after')
            start = s.find(anchor) if anchor else 0
            if start < 0:
                res.append((m['id'], 'STALE (anchor not found)')); print(m['id'], 'STALE anchor'); continue
            i = s.find(m['old'], start)
            if i < 0:
                res.append((m['id'], 'STALE (pattern not found)')); print(m['id'], 'STALE pattern'); continue
            s = s[:i] + m['new'] + s[i + len(m['old']):]
            open(p, 'w').write(s)
            if m.get('extra_include'):
                p2 = os.path.join(scratch, m['extra_include'][0]); s2 = open(p2).read()
                k = s2.find('#include')
                open(p2, 'w').write(s2[:k] + m['extra_include'][1] + '\n' + s2[k:])
            env = dict(os.environ, VERIF_REPO=scratch)
            r = subprocess.run([os.path.join(VERIF, 'check'), m['prop'], '--tier', m.get('tier', 'quick'), '--no-evidence'], env=env, stdout=subprocess.PIPE, stderr=subprocess.STDOUT, text=True)
            viol = [l for l in r.stdout.splitlines() if l.startswith('VIOLATED')]
            status = 'CAUGHT' if r.returncode == 1 else ('INCOMPLETE(exit 2)' if r.returncode == 2 else 'MISSED')
            if m.get('expect') == 'missed' and status == 'MISSED': status = 'MISSED (expected: undecided clause)'
            if m.get('expect') == 'equivalent': status = 'QUIET (expected: behaviour-preserving edit)' if r.returncode == 0 else 'FALSE ALARM on a behaviour-preserving edit (exit %d)' % r.returncode
            res.append((m['id'], status + (': ' + viol[0][:200] if viol else '')))
            print('%-40s %s' % (m['id'], res[-1][1]), flush=True)
    finally:
        shutil.rmtree(scratch, ignore_errors=True)
    bad = [r for r in res if r[1].startswith('MISSED') and 'expected' not in r[1] or r[1].startswith('STALE') or r[1].startswith('FALSE ALARM') or r[1].startswith('INCOMPLETE')]
    print('%d mutants, %d caught, %d not caught' % (len(res), sum(1 for r in res if r[1].startswith('CAUGHT')), len(bad)))
    return 1 if bad else 0
sys.exit(main())
