#!/usr/bin/env python3
"""Store the confirmed seeds of one round under /verif/seeded/<id>-<suffix>/.
usage: store_round.py /tmp/seed4 r4 history.json     (history.json: {id: "missed at first: ..."}; absent = caught as built)"""
import json, os, sys, shutil
VERIF = os.path.dirname(os.path.dirname(os.path.abspath(__file__)))
base, suffix = sys.argv[1], sys.argv[2]
hist = json.load(open(sys.argv[3])) if len(sys.argv) > 3 else {}
for pid in sorted(os.listdir(base)):
    sd = os.path.join(base, pid, 'seed')
    if not os.path.isfile(os.path.join(sd, 'meta.json')): continue
    meta = json.load(open(os.path.join(sd, 'meta.json')))
    def tail(f, n=2):
        p = os.path.join(sd, f)
        return [l.rstrip() for l in open(p).read().splitlines()[-n:]] if os.path.exists(p) else []
    ch, orig = tail('out_changed.txt', 3), tail('out_original.txt', 3)
    if not ch or not orig or ch == orig:
        print(pid, 'NOT CONFIRMED (demo outputs missing or identical)'); continue
    tests = [l for l in tail('ctest_changed.txt', 4) if 'tests passed' in l]
    if not tests or not tests[0].startswith('100%'):
        print(pid, 'NOT CONFIRMED (tests)'); continue
    dst = os.path.join(VERIF, 'seeded', '%s-%s' % (pid, suffix))
    os.makedirs(dst, exist_ok=True)
    for f in os.listdir(sd):
        if f in ('patch.diff', 'demo.cpp', 'demo.py', 'out_changed.txt', 'out_original.txt', 'ctest_changed.txt'):
            shutil.copy(os.path.join(sd, f), os.path.join(dst, f))
    meta['author'] = 'independent sub-agent given only the property text, the summaries of earlier seeds of that property (to avoid duplicates) and a scratch worktree'
    meta['confirmed_by_us'] = {'commands': ['selftest/confirm_seed.sh %s with SEEDBASE=%s (confirm_pyseed.sh for C19/C20; C02: two translation units, one with -mf16c)' % (pid, base), 'selftest/try_seed.sh %s' % pid],
                               'tests': tests, 'demo_changed_tail': ch, 'demo_original_tail': orig}
    meta['caught_by'] = [pid]
    meta['check_history'] = hist.get(pid, 'caught by the check as built')
    json.dump(meta, open(os.path.join(dst, 'meta.json'), 'w'), indent=1)
    print(pid, 'stored', '(%s)' % meta['check_history'][:60])
