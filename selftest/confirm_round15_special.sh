#!/bin/bash
B=/tmp/seed15
d=$B/C01
head -30 $d/seed/demo.cpp | grep -n "g++\|-mf16c" | head -5
cmake -G Ninja -S $d -B $d/_b >/dev/null && cmake --build $d/_b -j8 >/dev/null 2>&1
lib=$(ls $d/_b/src/Imath/libImath*.so | head -1)
g++ -std=c++17 -O2 -mf16c -I$d/src/Imath -I$d/_b/config $d/seed/demo.cpp -o $d/_b/demo $lib -Wl,-rpath,$d/_b/src/Imath && ( (cd $d/_b && timeout 900 ./demo) > $d/seed/out_changed.txt 2>&1; echo "exit=$?" >> $d/seed/out_changed.txt)
git -C $d apply -R $d/seed/patch.diff
g++ -std=c++17 -O2 -mf16c -I$d/src/Imath -I$d/_b/config $d/seed/demo.cpp -o $d/_b/demo0 $lib -Wl,-rpath,$d/_b/src/Imath && ( (cd $d/_b && timeout 900 ./demo0) > $d/seed/out_original.txt 2>&1; echo "exit=$?" >> $d/seed/out_original.txt)
git -C $d apply $d/seed/patch.diff
rm -rf $d/_b
tail -n 2 $d/seed/out_changed.txt $d/seed/out_original.txt
cd /verif
SEEDBASE=$B J=8 selftest/confirm_pyseed.sh C19 > /var/tmp/pyc19_15.out 2>&1
SEEDBASE=$B J=8 selftest/confirm_pyseed.sh C20 > /var/tmp/pyc20_15.out 2>&1
