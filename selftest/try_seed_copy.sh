#!/bin/bash
# like try_seed.sh, but on a scratch copy of /repo (VERIF_REPO), so that /repo itself is never patched: safe while other checks run.
# usage: SEEDBASE=/tmp/seedN try_seed_copy.sh C06 [check ids...]
id=$1; shift; checks=${@:-$id}
base=${SEEDBASE:-/tmp/seed}; patch=$base/$id/seed/patch.diff; [ -f $patch ] || patch=/verif/seeded/$id/patch.diff
copy=$(mktemp -d /var/tmp/seedcopy_XXXXXX)
rsync -a --exclude _build --exclude .git /repo/ $copy/
(cd $copy && patch -p1 -s < $patch) || { echo "patch does not apply"; rm -rf $copy; exit 2; }
for c in $checks; do
  VERIF_REPO=$copy timeout 1800 /verif/check $c --no-evidence > $base/$id.$c.out 2>&1; rc=$?
  echo "check $c exit=$rc"; grep "^VIOLATED\|^ANALYSIS" $base/$id.$c.out | cut -c1-330 | head -4
done
rm -rf $copy
