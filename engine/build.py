"""Front end: configure /repo into a scratch dir, compile wrapper TUs to LLVM bitcode with clang,
normalise with tools/irx, load JSON.  Everything is rebuilt from VERIF_REPO's working tree on
every run; scratch lives under ${TMPDIR:-/var/tmp} and is removed at exit."""
import atexit, json, os, shutil, subprocess, sys, tempfile, hashlib
from concurrent.futures import ThreadPoolExecutor

VERIF = os.path.dirname(os.path.dirname(os.path.abspath(__file__)))
REPO = os.environ.get('VERIF_REPO', '/repo')
IRX = os.path.join(VERIF, 'build', 'irx')
JOBS = int(os.environ.get('VERIF_JOBS', '16'))

class BuildError(Exception):
    pass

class Workspace:
    def __init__(self):
        root = os.environ.get('TMPDIR') or '/var/tmp'
        # scratch of runs that were killed before their atexit handler ran (older than 3 hours)
        try:
            import time
            for n in os.listdir(root):
                p_ = os.path.join(root, n)
                if n.startswith('imath_verif_') and os.path.isdir(p_) and time.time() - os.path.getmtime(p_) > 3 * 3600:
                    shutil.rmtree(p_, ignore_errors=True)
        except OSError:
            pass
        self.dir = tempfile.mkdtemp(prefix='imath_verif_', dir=root)
        atexit.register(self.cleanup)
        self.cfg = None
        self.log = []

    def cleanup(self):
        shutil.rmtree(self.dir, ignore_errors=True)

    def path(self, *p):
        return os.path.join(self.dir, *p)

    def configure(self):
        """regenerate ImathConfig.h from the current tree (cmake configure only, ~3 s)"""
        if self.cfg: return self.cfg
        b = self.path('cfg')
        r = subprocess.run(['cmake', '-G', 'Ninja', '-S', REPO, '-B', b, '-DCMAKE_EXPORT_COMPILE_COMMANDS=ON', '-DBUILD_TESTING=OFF'],
                           stdout=subprocess.PIPE, stderr=subprocess.STDOUT, text=True)
        if r.returncode != 0 or not os.path.exists(os.path.join(b, 'config', 'ImathConfig.h')):
            raise BuildError('cmake configure failed:\n' + r.stdout[-2000:])
        self.cfg = os.path.join(b, 'config')
        return self.cfg

    def include_flags(self):
        return ['-I' + self.configure(), '-I' + os.path.join(REPO, 'src', 'Imath')]

    def compile(self, name, source, lang='c++', std=None, extra=()):
        """source text -> bitcode path"""
        ext = {'c++': '.cpp', 'c': '.c'}[lang]
        src = self.path(name + ext)
        with open(src, 'w') as f:
            f.write(source)
        out = self.path(name + '.bc')
        if lang == 'c++':
            cmd = ['clang++', '-std=' + (std or 'gnu++17')]
        else:
            cmd = ['clang', '-x', 'c', '-std=' + (std or 'gnu11')]
        cmd += ['-O0', '-Xclang', '-disable-O0-optnone', '-emit-llvm', '-c', '-ffp-contract=off', '-fno-math-errno',
                '-gline-tables-only', '-Wno-everything', '-UNDEBUG'] + self.include_flags() + list(extra) + [src, '-o', out]
        r = subprocess.run(cmd, stdout=subprocess.PIPE, stderr=subprocess.STDOUT, text=True)
        if r.returncode != 0:
            raise BuildError('clang failed for %s:\n%s' % (name, r.stdout[-3000:]))
        return out

    def compile_file(self, name, path, extra=(), std='gnu++17'):
        out = self.path(name + '.bc')
        cmd = ['clang++', '-std=' + std, '-O0', '-Xclang', '-disable-O0-optnone', '-emit-llvm', '-c', '-ffp-contract=off',
               '-fno-math-errno', '-gline-tables-only', '-Wno-everything'] + self.include_flags() + list(extra) + [path, '-o', out]
        r = subprocess.run(cmd, stdout=subprocess.PIPE, stderr=subprocess.STDOUT, text=True)
        if r.returncode != 0:
            raise BuildError('clang failed for %s:\n%s' % (path, r.stdout[-3000:]))
        return out

    def irx(self, bc, opaque=(), prefixes=('w_', 'ref_'), noopt=False, all_globals=False, dump_ll=False, no_unroll=False):
        out = bc[:-3] + '.json'
        cmd = [IRX, bc, out]
        if opaque: cmd += ['--opaque', ','.join(opaque)]
        cmd += ['--prefix', ','.join(prefixes)]
        if noopt: cmd.append('--no-opt')
        if all_globals: cmd.append('--all-globals')
        if no_unroll: cmd.append('--no-unroll')
        if dump_ll: cmd += ['--dump-ll', bc[:-3] + '.ll']
        r = subprocess.run(cmd, stdout=subprocess.PIPE, stderr=subprocess.STDOUT, text=True)
        if r.returncode != 0:
            raise BuildError('irx failed for %s:\n%s' % (bc, r.stdout[-2000:]))
        with open(out) as f:
            return json.load(f)

    def module(self, name, source, opaque=(), **kw):
        ckw = {k: kw.pop(k) for k in ('lang', 'std', 'extra') if k in kw}
        bc = self.compile(name, source, **ckw)
        return self.irx(bc, opaque=opaque, **kw)

    def modules(self, specs):
        """specs: list of dict(name, source, opaque, ...); compiled in parallel. returns {name: module}"""
        self.configure()
        def one(s):
            s = dict(s)
            name = s.pop('name'); src = s.pop('source')
            return name, self.module(name, src, **s)
        with ThreadPoolExecutor(max_workers=JOBS) as ex:
            return dict(ex.map(one, specs))

HALF_OPAQUE = ('imath_half_to_float', 'imath_float_to_half')

def ensure_tools():
    if not os.path.exists(IRX):
        r = subprocess.run([os.path.join(VERIF, 'setup.sh')], stdout=subprocess.PIPE, stderr=subprocess.STDOUT, text=True)
        if r.returncode != 0 or not os.path.exists(IRX):
            raise BuildError('tools not built and setup.sh failed:\n' + r.stdout[-2000:])

def repo_rel(path):
    if path and path.startswith(REPO):
        return path[len(REPO):].lstrip('/')
    return path
