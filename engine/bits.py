"""D-bits: abstract domain of bit patterns for integer terms.

An abstract value describes each bit of a W-bit integer as
   0 / 1            known constant
   ('in', k)        bit k of the (single) symbolic input word
   ('n', k)         complement of input bit k
   '?'              unknown
together with `ubu`, an upper bound on the numeric contribution of the '?' bits, and an interval
[lo, hi] for the whole value.  Transfer functions are exact for and/or/xor/shifts by constants,
trunc/zext/bitcast, and for additions whose carries provably cannot reach the known bits."""
from . import term as T

class NotBits(Exception):
    pass

class AV:
    __slots__ = ('w', 'bits', 'lo', 'hi')
    def __init__(self, w, bits, lo=None, hi=None):
        self.w = w; self.bits = list(bits)
        assert len(self.bits) == w
        klo = sum(1 << i for i, b in enumerate(self.bits) if b == 1)
        khi = sum(1 << i for i, b in enumerate(self.bits) if b != 0)
        self.lo = klo if lo is None else max(lo, klo)
        self.hi = khi if hi is None else min(hi, khi)
        # bits above the bit length of the upper bound are zero
        for i in range(self.hi.bit_length(), w):
            if self.bits[i] == '?': self.bits[i] = 0
    def known(self):
        return all(b in (0, 1) for b in self.bits)
    def value(self):
        return sum(1 << i for i, b in enumerate(self.bits) if b == 1)
    def __repr__(self):
        def s(b):
            if b in (0, 1): return str(b)
            if b == '?': return '?'
            return ('i%d' if b[0] == 'in' else '~i%d') % b[1]
        return '[' + ' '.join(s(b) for b in reversed(self.bits)) + '] in [%#x,%#x]' % (self.lo, self.hi)

def const(w, v):
    return AV(w, [(v >> i) & 1 for i in range(w)])

def inp(w):
    return AV(w, [('in', i) for i in range(w)])

def _and(a, b):
    if a == 0 or b == 0: return 0
    if a == 1: return b
    if b == 1: return a
    if a == b and a != '?': return a
    if a != '?' and b != '?' and a[1] == b[1] and a[0] != b[0]: return 0
    return '?'

def _or(a, b):
    if a == 1 or b == 1: return 1
    if a == 0: return b
    if b == 0: return a
    if a == b and a != '?': return a
    if a != '?' and b != '?' and a[1] == b[1] and a[0] != b[0]: return 1
    return '?'

def _not(a):
    if a in (0, 1): return 1 - a
    if a == '?': return '?'
    return ('n' if a[0] == 'in' else 'in', a[1])

def _xor(a, b):
    if a == 0: return b
    if b == 0: return a
    if a == 1: return _not(b)
    if b == 1: return _not(a)
    if a != '?' and b != '?' and a[1] == b[1]:
        return 0 if a[0] == b[0] else 1
    return '?'

def band(x, y): return AV(x.w, [_and(a, b) for a, b in zip(x.bits, y.bits)], 0, min(x.hi, y.hi))
def bor(x, y): return AV(x.w, [_or(a, b) for a, b in zip(x.bits, y.bits)], max(x.lo, y.lo), min((1 << x.w) - 1, x.hi + y.hi))
def bxor(x, y): return AV(x.w, [_xor(a, b) for a, b in zip(x.bits, y.bits)])

def shl(x, k):
    if k >= x.w: return const(x.w, 0)
    return AV(x.w, [0] * k + x.bits[:x.w - k], None, None if (x.hi << k) >= (1 << x.w) else x.hi << k)

def lshr(x, k):
    if k >= x.w: return const(x.w, 0)
    return AV(x.w, x.bits[k:] + [0] * k, x.lo >> k, x.hi >> k)

def trunc(x, w):
    return AV(w, x.bits[:w], None, x.hi if x.hi < (1 << w) else None)

def zext(x, w):
    return AV(w, x.bits + [0] * (w - x.w), x.lo, x.hi)

def add(x, y):
    """x + y where the carries provably stay inside a low window"""
    w = x.w
    if x.known() and y.known():
        return const(w, (x.value() + y.value()) & ((1 << w) - 1))
    if x.known(): x, y = y, x
    # y: constant, or small bounded value
    # window: bits below L may change; L = bit length of (max low part of x below L) + y.hi
    # find the smallest L such that (x's bits < L as max number) + y.hi < 2^L  and y has no bits >= L possible
    # y is a constant with tz trailing zeros: bits below tz are unchanged; above, add numerically over the
    # maximal run [tz, j) of constant bits of x, provided nothing carries out of the run and y has no bit >= j
    if y.known():
        c = y.value()
        tz = (c & -c).bit_length() - 1 if c else w
        j = tz
        while j < w and x.bits[j] in (0, 1): j += 1
        if (c >> j) == 0 or j == w:
            part = sum(1 << (i - tz) for i in range(tz, j) if x.bits[i] == 1) + (c >> tz)
            if j == w or part < (1 << (j - tz)):
                part &= (1 << (j - tz)) - 1
                return AV(w, x.bits[:tz] + [(part >> (i - tz)) & 1 for i in range(tz, j)] + x.bits[j:])
    ymax = y.hi
    for L in range(0, w + 1):
        xlow_max = min(sum(1 << i for i in range(L) if x.bits[i] != 0), x.hi)
        if ymax < (1 << L) and xlow_max + ymax < (1 << L):
            if L == 0:
                return AV(w, x.bits, x.lo, x.hi)
            # exact when both low parts are constants
            if all(b in (0, 1) for b in x.bits[:L]) and y.known():
                v = (sum(1 << i for i in range(L) if x.bits[i] == 1) + y.value())
                low = [(v >> i) & 1 for i in range(L)]
            else:
                low = ['?'] * L
                # b + b = 2b: identical (known-symbolic) lowest bits cancel to 0
                if L > 0 and x.bits[0] == y.bits[0] and x.bits[0] != '?':
                    low[0] = 0
            return AV(w, low + x.bits[L:], x.lo + y.lo, min(x.hi + y.hi, (1 << w) - 1))
    # interval reasoning modulo 2^w: both ends wrap the same number of times
    lo, hi = x.lo + y.lo, x.hi + y.hi
    if (lo >> w) == (hi >> w):
        lo &= (1 << w) - 1; hi &= (1 << w) - 1
        n = hi.bit_length()
        return AV(w, ['?'] * n + [0] * (w - n), lo, hi)
    return AV(w, ['?'] * w)

class Evaluator:
    """abstract evaluation of an integer term; `word` is the term whose bits are the symbolic input"""
    def __init__(self, word, w, fixed=None, ranges=None, words=None):
        """word: the symbolic input term (w bits); words: optional {term: (bit offset, width)} for several
        input terms laid out in one virtual word"""
        self.word = word; self.w = w
        self.words = dict((k.id, v) for k, v in (words or {}).items())
        self.fixed = fixed or {}      # input bit index -> 0/1  (cell enumeration)
        self.ranges = ranges or {}    # node id -> (lo, hi) path-derived interval
        self.memo = {}
    def inword(self):
        bits = [self.fixed.get(i, ('in', i)) for i in range(self.w)]
        return AV(self.w, bits)
    def ev(self, n):
        r = self.memo.get(n.id)
        if r is None:
            r = self._ev(n)
            rg = self.ranges.get(n.id)
            if rg is not None:
                r = AV(r.w, r.bits, max(r.lo, rg[0]), min(r.hi, rg[1]))
            self.memo[n.id] = r
        return r
    def _ev(self, n):
        if n is self.word:
            return self.inword()
        if n.id in self.words:
            off, wd = self.words[n.id]
            return AV(wd, [self.fixed.get(off + i, ('in', off + i)) for i in range(wd)])
        op = n.op
        if op == 'const' and n.attr[0].startswith('i'):
            return const(int(n.attr[0][1:]), n.attr[1])
        if op == 'bitcast':
            return self.ev(n.args[0])
        if op in ('and', 'or', 'xor'):
            a, b = self.ev(n.args[0]), self.ev(n.args[1])
            return {'and': band, 'or': bor, 'xor': bxor}[op](a, b)
        if op in ('shl', 'lshr'):
            a, k = self.ev(n.args[0]), self.ev(n.args[1])
            if k.known():
                return (shl if op == 'shl' else lshr)(a, k.value())
            if op == 'lshr':
                return AV(a.w, ['?'] * a.w, a.lo >> min(k.hi, a.w), a.hi >> min(k.lo, a.w))
            return AV(a.w, ['?'] * a.w)
        if op == 'trunc':
            return trunc(self.ev(n.args[0]), int(n.ty[1:]))
        if op == 'zext':
            a = n.args[0]
            if a.ty == 'i1':
                return AV(int(n.ty[1:]), ['?'] + [0] * (int(n.ty[1:]) - 1), 0, 1)
            return zext(self.ev(a), int(n.ty[1:]))
        if op == 'sext':
            a = self.ev(n.args[0]); w2 = int(n.ty[1:])
            return AV(w2, a.bits + [a.bits[-1]] * (w2 - a.w))
        if op == 'add':
            r = add(self.ev(n.args[0]), self.ev(n.args[1]))
            # x + (x & 1) is always even
            for x, b in ((n.args[0], n.args[1]), (n.args[1], n.args[0])):
                if b.op == 'and' and any(a is x for a in b.args) and any(a.op == 'const' and a.attr[1] == 1 for a in b.args):
                    r = AV(r.w, [0] + r.bits[1:], r.lo, r.hi)
            return r
        if op == 'sub':
            a, b = self.ev(n.args[0]), self.ev(n.args[1])
            if b.known():
                return add(a, const(a.w, (-b.value()) & ((1 << a.w) - 1)))
            if a.known() and b.lo is not None:
                return AV(a.w, ['?'] * a.w, max(0, a.value() - b.hi), a.value() - b.lo if a.value() >= b.lo else None)
            return AV(a.w, ['?'] * a.w)
        if op == 'ite':
            c = n.args[0]
            x, y = self.ev(n.args[1]), self.ev(n.args[2])
            zero_set = set()
            zc = [a for a in c.args if a.op == 'const' and a.attr[1] == 0] if c.op == 'icmp' and c.attr == 'eq' else []
            if zc:
                # on the true branch every input bit that feeds the tested value is zero
                try:
                    tv = self.ev([a for a in c.args if a is not zc[0]][0])
                    if all(b == 0 or (b != '?' and b != 1 and b[0] == 'in') for b in tv.bits):
                        zero_set = set(b[1] for b in tv.bits if b != 0)
                except NotBits:
                    pass
            def merge(a, b):
                if a == b and a != '?': return a
                if a == 0 and b != '?' and b not in (0, 1) and b[0] == 'in' and b[1] in zero_set: return b
                return '?'
            return AV(x.w, [merge(a, b) for a, b in zip(x.bits, y.bits)], min(x.lo, y.lo), max(x.hi, y.hi))
        if n.ty and n.ty.startswith('i') and n.ty != 'i1':
            w = int(n.ty[1:])
            return AV(w, ['?'] * w)
        raise NotBits('no bit-level image for %s' % op)
