"""Obligation bookkeeping, evidence files, known findings, exit codes (DESIGN 1.2, 2.8)."""
import json, os, sys, time

VERIF = os.path.dirname(os.path.dirname(os.path.abspath(__file__)))
HOLDS, VIOLATED, UNDECIDED = 'HOLDS', 'VIOLATED', 'UNDECIDED'

class Report:
    def __init__(self, pid, tier, level, technique):
        self.pid = pid; self.tier = tier; self.level = level; self.technique = technique
        self.t0 = time.time()
        self.obs = []
        self.floors = []
        self.notes = []
        self.samples = []
        self.assumptions = []
        self.trusted = ['clang 14 front end (AST / -O0 IR)', 'LLVM 14 passes sroa, early-cse, instcombine, simplifycfg, inline, loop-unroll (tools/irx)',
                        'value-graph extractor engine/vg.py', 'term rewrite rules engine/term.py']
        self.units = []
        self.undecided_clauses = []
        self.incomplete = []
        self.seed = int(os.environ.get('VERIF_SEED', '0') or 0)
        self.extra = {}
        self.write_evidence = True
        try:
            with open(os.path.join(VERIF, 'known_findings.json')) as f:
                self.known = json.load(f)['findings']
        except FileNotFoundError:
            self.known = []

    def ob(self, oid, rule, status, detail='', where=None, nontrivial=True, sample=None):
        self.obs.append({'id': oid, 'rule': rule, 'status': status, 'detail': detail, 'where': where, 'nontrivial': nontrivial})
        if sample is not None and len(self.samples) < 12:
            self.samples.append({'obligation': oid, 'rule': rule, 'normal_form': sample})
        return status == HOLDS

    def floor(self, what, count, minimum):
        self.floors.append({'what': what, 'count': count, 'floor': minimum})
        if count < minimum:
            self.incomplete.append('instance count for %s fell to %d (floor %d)' % (what, count, minimum))

    def fail_incomplete(self, msg):
        self.incomplete.append(msg)

    def known_open(self, oid):
        for k in self.known:
            if k.get('property') == self.pid and k.get('obligation') == oid and k.get('status') == 'open':
                return k
        return None

    def finish(self):
        wall = time.time() - self.t0
        viol = [o for o in self.obs if o['status'] == VIOLATED]
        known = [o for o in viol if self.known_open(o['id'])]
        new = [o for o in viol if not self.known_open(o['id'])]
        und = [o for o in self.obs if o['status'] == UNDECIDED]
        for o in und:
            self.incomplete.append('obligation %s (%s) is UNDECIDED: %s' % (o['id'], o['rule'], o['detail']))
        held = [o for o in self.obs if o['status'] == HOLDS]
        nobs = len(self.obs) - len(known)
        distinct = len(set((o['id']) for o in self.obs if o['nontrivial']))
        if not self.samples:
            self.samples = [{'obligation': o['id'], 'rule': o['rule'], 'status': o['status']} for o in self.obs[:5]]
        rules = {}
        for o in self.obs:
            r = rules.setdefault(o['rule'], {'obligations': 0, 'holds': 0, 'violated': 0, 'undecided': 0})
            r['obligations'] += 1
            r[{'HOLDS': 'holds', 'VIOLATED': 'violated', 'UNDECIDED': 'undecided'}[o['status']]] += 1
        ev = {
            'property_id': self.pid, 'tier': self.tier, 'seed': self.seed, 'level': self.level,
            'coverage': {
                'obligations': nobs, 'discharged': len(held),
                'checker_cmd': './check %s --tier %s' % (self.pid, self.tier),
                'trusted_base': self.trusted,
                'evaluations': len(self.obs), 'distinct_nontrivial': distinct,
                'rule': 'one obligation per (rule, function instance, output slot or exit); non-trivial = the compared normal form has more than one node; distinct by obligation id',
                'samples': self.samples,
                'explanation': self.technique,
                'rules': rules, 'instance_floors': self.floors, 'units_analysed': self.units,
                'undecided_clauses_not_claimed': self.undecided_clauses,
                'known_findings_reported': [o['id'] for o in known],
                'exhaustive': False,
            },
            'assumptions': self.assumptions,
            'wall_s': round(wall, 3),
            'violations': len(new),
        }
        ev['coverage'].update(self.extra)
        if self.write_evidence:
            os.makedirs(os.path.join(VERIF, 'evidence'), exist_ok=True)
            with open(os.path.join(VERIF, 'evidence', self.pid + '.json'), 'w') as f:
                json.dump(ev, f, indent=1, default=str)
        print('%s [%s] obligations=%d holds=%d violated=%d (known %d) undecided=%d wall=%.1fs' %
              (self.pid, self.tier, len(self.obs), len(held), len(viol), len(known), len(und), wall))
        for r, c in sorted(rules.items()):
            print('  rule %-18s %s' % (r, c))
        for o in known:
            k = self.known_open(o['id'])
            print('KNOWN-FINDING: property=%s %s: %s' % (self.pid, o['id'], k.get('what', o['detail'])))
        if self.incomplete:
            for m in self.incomplete[:40]:
                print('ANALYSIS-INCOMPLETE property=%s %s' % (self.pid, m))
        if new:
            os.makedirs(os.path.join(VERIF, 'replay'), exist_ok=True)
            for i, o in enumerate(new):
                path = os.path.join(VERIF, 'replay', '%s-%d.json' % (self.pid, i))
                with open(path, 'w') as f:
                    json.dump(o, f, indent=1, default=str)
                print('VIOLATED %s rule=%s at %s: %s' % (o['id'], o['rule'], o['where'], o['detail']))
                print('VIOLATION property=%s replay=%s' % (self.pid, path))
            return 1
        if self.incomplete:
            return 2
        return 0
