"""Hash-consed term DAG (the value graph's node store) with IEEE-exact canonicalisation.

A Node is identified by (op, attr, args); structural equality == identity.  Smart constructors
apply only rewrites that are exact in IEEE-754 / two's complement (DESIGN 2.5, D-term):
commutativity of fadd/fmul/add/mul/and/or/xor, fsub(a,b)=fadd(a,fneg b), fneg fneg x = x,
comparison orientation, Ite normalisation.  No re-association, no distribution.
"""
from fractions import Fraction
import struct

class Node:
    __slots__ = ('op', 'attr', 'args', 'id', 'ty')
    def __repr__(self):
        return show(self)

_table = {}
_nodes = []

def mk(op, attr=None, args=(), ty=None):
    key = (op, attr, tuple(a.id for a in args), ty)
    n = _table.get(key)
    if n is None:
        n = Node()
        n.op = op; n.attr = attr; n.args = tuple(args); n.ty = ty
        n.id = len(_nodes)
        _nodes.append(n)
        _table[key] = n
    return n

def reset():
    _table.clear(); del _nodes[:]; _ite_memo.clear()

COMMUT = {'fadd', 'fmul', 'add', 'mul', 'and', 'or', 'xor'}

def const_int(w, v):
    return mk('const', ('i%d' % w, v & ((1 << w) - 1)), (), 'i%d' % w)

def const_fp(ty, bits):
    return mk('const', (ty, bits), (), ty)

def fp_from_value(ty, x):
    if ty == 'float':
        bits = struct.unpack('<I', struct.pack('<f', x))[0]
    elif ty == 'double':
        bits = struct.unpack('<Q', struct.pack('<d', x))[0]
    else:
        raise ValueError(ty)
    return const_fp(ty, bits)

def is_const(n):
    return n.op == 'const'

def const_value(n):
    """exact value of a constant as Fraction / int, or 'nan' / 'inf' / '-inf'"""
    ty, v = n.attr
    if ty.startswith('i'):
        return v
    if ty == 'float':
        x = struct.unpack('<f', struct.pack('<I', v))[0]
    elif ty == 'double':
        x = struct.unpack('<d', struct.pack('<Q', v))[0]
    elif ty == 'half':
        x = struct.unpack('<e', struct.pack('<H', v))[0]
    else:
        raise ValueError(ty)
    if x != x:
        return 'nan'
    if x in (float('inf'), float('-inf')):
        return 'inf' if x > 0 else '-inf'
    return Fraction(x)

def const_is_negzero(n):
    ty, v = n.attr
    return (ty == 'float' and v == 0x80000000) or (ty == 'double' and v == 1 << 63)

def signed(n):
    ty, v = n.attr
    w = int(ty[1:])
    return v - (1 << w) if v >> (w - 1) else v

TRUE = None
FALSE = None
def _init_bools():
    global TRUE, FALSE
    TRUE = const_int(1, 1)
    FALSE = const_int(1, 0)
_init_bools()

def _reinit():
    reset(); _init_bools()

# ---------------------------------------------------------------- arithmetic

def const_tree(n, limit=16):
    """n is an ite tree whose leaves are all constants (e.g. an index chosen by comparisons)"""
    if n.op == 'const': return True
    if n.op != 'ite' or limit <= 0: return False
    return const_tree(n.args[1], limit - 1) and const_tree(n.args[2], limit - 1)

def binop(op, a, b, ty):
    if ty.startswith('i') and ty != 'i1':
        # undef bits (padding of bit-fields): any value is a valid refinement; choose 0
        if a.op == 'undef': a = const_int(int(ty[1:]), 0)
        if b.op == 'undef': b = const_int(int(ty[1:]), 0)
    if op == 'fsub':
        return binop('fadd', a, fneg(b), ty)
    if ty.startswith('i') and ty != 'i1':
        if a.op == 'ite' and b.op == 'const' and const_tree(a):
            return ite(a.args[0], binop(op, a.args[1], b, ty), binop(op, a.args[2], b, ty))
        if b.op == 'ite' and a.op == 'const' and const_tree(b):
            return ite(b.args[0], binop(op, a, b.args[1], ty), binop(op, a, b.args[2], ty))
        if a.op == 'ite' and b.op == 'ite' and const_tree(a) and const_tree(b):
            return ite(a.args[0], binop(op, a.args[1], b, ty), binop(op, a.args[2], b, ty))
    if op in ('fmul', 'fdiv'):
        # sign extraction (exact in IEEE-754: the sign of a product/quotient is the xor of the
        # operand signs): (-a)*b = -(a*b), a*(-c) = -(a*c) for constants c with the sign bit set.
        # instcombine applies these opportunistically, so both shapes occur for one source.
        neg = False
        def strip(x):
            nonlocal neg
            if x.op == 'fneg':
                neg = not neg
                return x.args[0]
            if x.op == 'const' and x.attr[0] in ('float', 'double'):
                w = 31 if x.attr[0] == 'float' else 63
                if x.attr[1] >> w and const_value(x) != 'nan':
                    neg = not neg
                    return const_fp(x.attr[0], x.attr[1] ^ (1 << w))
            return x
        a = strip(a); b = strip(b)
        if neg:
            return fneg(binop(op, a, b, ty))
    if op in COMMUT and b.id < a.id:
        a, b = b, a
    if ty == 'i1':
        if op == 'and':
            return bool_and(a, b)
        if op == 'or':
            return bool_or(a, b)
        if op == 'xor':
            if a is TRUE: return bool_not(b)
            if b is TRUE: return bool_not(a)
            if a is FALSE: return b
            if b is FALSE: return a
    if op == 'fmul':
        # x * 1.0 == x exactly (the -1.0 case arrives here after sign extraction)
        for x, y in ((a, b), (b, a)):
            if is_const(y) and const_value(y) == 1:
                return x
    if is_const(a) and is_const(b) and ty.startswith('i') and ty != 'i1':
        w = int(ty[1:]); m = (1 << w) - 1
        x, y = a.attr[1], b.attr[1]
        r = None
        if op == 'add': r = x + y
        elif op == 'sub': r = x - y
        elif op == 'mul': r = x * y
        elif op == 'and': r = x & y
        elif op == 'or': r = x | y
        elif op == 'xor': r = x ^ y
        elif op == 'shl' and y < w: r = x << y
        elif op == 'lshr' and y < w: r = x >> y
        elif op == 'udiv' and y: r = x // y
        elif op == 'urem' and y: r = x % y
        elif op in ('sdiv', 'srem') and y:
            sx, sy = signed(a), signed(b)
            q = abs(sx) // abs(sy) * (1 if (sx < 0) == (sy < 0) else -1)
            r = q if op == 'sdiv' else sx - q * sy
        elif op == 'ashr' and y < w: r = signed(a) >> y
        if r is not None:
            return const_int(w, r & m)
    if ty.startswith('i') and ty != 'i1':
        # identities that are exact in two's complement
        if op in ('add', 'or', 'xor', 'shl', 'lshr', 'ashr', 'sub') and is_const(b) and b.attr[1] == 0:
            return a
        if op in ('add', 'or', 'xor') and is_const(a) and a.attr[1] == 0:
            return b
        if op == 'mul':
            for x, y in ((a, b), (b, a)):
                if is_const(y) and y.attr[1] == 1:
                    return x
    return mk(op, None, (a, b), ty)

def fneg(a):
    if a.op == 'fneg':
        return a.args[0]
    if is_const(a):
        ty, v = a.attr
        if ty == 'float': return const_fp(ty, v ^ 0x80000000)
        if ty == 'double': return const_fp(ty, v ^ (1 << 63))
    return mk('fneg', None, (a,), a.ty)

def cast(op, a, sty, dty):
    if a.op == 'ite' and op in ('zext', 'sext', 'trunc') and const_tree(a):
        return ite(a.args[0], cast(op, a.args[1], sty, dty), cast(op, a.args[2], sty, dty))
    if is_const(a):
        if op in ('zext', 'trunc') and dty.startswith('i'):
            return const_int(int(dty[1:]), a.attr[1])
        if op == 'sext':
            return const_int(int(dty[1:]), signed(a))
        if op == 'sitofp' and dty in ('float', 'double'):
            v = float(signed(a))
            if int(v) == signed(a):
                return fp_from_value(dty, v)
        if op == 'uitofp' and dty in ('float', 'double'):
            v = float(a.attr[1])
            if int(v) == a.attr[1]:
                return fp_from_value(dty, v)
        if op == 'fpext' and sty == 'float' and dty == 'double':
            x = struct.unpack('<f', struct.pack('<I', a.attr[1]))[0]
            return fp_from_value('double', x)
        if op == 'fptrunc' and sty == 'double' and dty == 'float':
            x = struct.unpack('<d', struct.pack('<Q', a.attr[1]))[0]
            try:
                y = struct.unpack('<f', struct.pack('<f', x))[0]
                if y == x or x != x:
                    return fp_from_value('float', x)
            except OverflowError:
                pass
        if op == 'bitcast':
            if sty == 'float' and dty == 'i32': return const_int(32, a.attr[1])
            if sty == 'i32' and dty == 'float': return const_fp('float', a.attr[1])
            if sty == 'double' and dty == 'i64': return const_int(64, a.attr[1])
            if sty == 'i64' and dty == 'double': return const_fp('double', a.attr[1])
    if op == 'bitcast':
        if sty == dty:
            return a
        if a.op == 'bitcast' and a.attr[0] == dty:
            return a.args[0]
    if op == 'zext' and sty == 'i1':
        pass
    return mk(op, (sty, dty), (a,), dty)

# ---------------------------------------------------------------- comparisons (boolean atoms)

_FCMP = {  # pred -> (base, swap, positive)
    'olt': ('olt', False, True), 'ogt': ('olt', True, True),
    'ole': ('ole', False, True), 'oge': ('ole', True, True),
    'oeq': ('oeq', False, True), 'one': ('one', False, True),
    'ord': ('ord', False, True), 'uno': ('ord', False, False),
    'uge': ('olt', False, False), 'ule': ('olt', True, False),
    'ugt': ('ole', False, False), 'ult': ('ole', True, False),
    'une': ('oeq', False, False), 'ueq': ('one', False, False),
}
_ICMP = {
    'slt': ('slt', False, True), 'sgt': ('slt', True, True),
    'sge': ('slt', False, False), 'sle': ('slt', True, False),
    'ult': ('ult', False, True), 'ugt': ('ult', True, True),
    'uge': ('ult', False, False), 'ule': ('ult', True, False),
    'eq': ('eq', False, True), 'ne': ('eq', False, False),
}

def cmp(kind, pred, a, b):
    tab = _FCMP if kind == 'fcmp' else _ICMP
    if kind == 'fcmp' and pred in ('true', 'false'):
        return TRUE if pred == 'true' else FALSE
    base, swap, pos = tab[pred]
    if swap:
        a, b = b, a
    if base in ('oeq', 'one', 'ord', 'eq') and b.id < a.id:
        a, b = b, a
    if kind == 'icmp' and is_const(a) and is_const(b):
        x, y = a.attr[1], b.attr[1]
        sx, sy = signed(a), signed(b)
        r = {'slt': sx < sy, 'ult': x < y, 'eq': x == y}[base]
        return TRUE if r == pos else FALSE
    if kind == 'icmp' and a is b:
        r = {'slt': False, 'ult': False, 'eq': True}[base]
        return TRUE if r == pos else FALSE
    if kind == 'icmp' and a.ty == 'i1' and base == 'eq':
        # eq(x, true) = x ; eq(x,false) = !x
        for x, y in ((a, b), (b, a)):
            if y is TRUE: return x if pos else bool_not(x)
            if y is FALSE: return bool_not(x) if pos else x
    if kind == 'fcmp' and is_const(a) and is_const(b):
        x, y = const_value(a), const_value(b)
        if x != 'nan' and y != 'nan':
            def num(v): return float('inf') if v == 'inf' else float('-inf') if v == '-inf' else v
            x, y = num(x), num(y)
            r = {'olt': x < y, 'ole': x <= y, 'oeq': x == y, 'one': x != y, 'ord': True}[base]
            return TRUE if r == pos else FALSE
    n = mk(kind, base, (a, b), 'i1')
    return n if pos else bool_not(n)

def bool_not(a):
    if a is TRUE: return FALSE
    if a is FALSE: return TRUE
    if a.op == 'not': return a.args[0]
    if a.op == 'ite':
        return ite(a.args[0], bool_not(a.args[1]), bool_not(a.args[2]))
    return mk('not', None, (a,), 'i1')

def bool_and(a, b):
    if a is FALSE or b is FALSE: return FALSE
    if a is TRUE: return b
    if b is TRUE: return a
    if a is b: return a
    if bool_not(a) is b: return FALSE
    return ite(a, b, FALSE)

def bool_or(a, b):
    if a is TRUE or b is TRUE: return TRUE
    if a is FALSE: return b
    if b is FALSE: return a
    if a is b: return a
    if bool_not(a) is b: return TRUE
    return ite(a, TRUE, b)

def _top(x):
    if x.op == 'ite':
        return x.args[0].id
    if x.ty == 'i1' and x.op != 'const':
        return x.args[0].id if x.op == 'not' else x.id
    return 1 << 62

def _cof(x, cid, val):
    if x.op == 'ite':
        if x.args[0].id == cid:
            return x.args[1] if val else x.args[2]
        return x
    if x.ty == 'i1':
        if x.id == cid:
            return TRUE if val else FALSE
        if x.op == 'not' and x.args[0].id == cid:
            return FALSE if val else TRUE
    return x

def ite(c, a, b):
    """if-then-else with c an i1 term.  Results are *ordered* decision DAGs (conditions sorted
    by node id from the root), i.e. the BDD normal form generalised to arbitrary leaves, so
    and/or/select/phi merges of the same function have one representation."""
    if c is TRUE: return a
    if c is FALSE: return b
    if a is b: return a
    if c.op == 'not':
        return ite(c.args[0], b, a)
    if c.op == 'fcmp' and c.attr in ('olt', 'ole') and (a.op == 'fneg' or b.op == 'fneg'):
        # the conditional-negation idiom (x >= 0 ? x : -x and its three siblings) is kept as one
        # named pure function of x, so that the global condition ordering does not interleave its
        # sign test with unrelated conditions.  IEEE-exact: it is just a name for the select.
        l, r_ = c.args
        def is0(x): return x.op == 'const' and x.attr[0] in ('float', 'double') and (x.attr[1] << 1) & ((1 << (64 if x.attr[0] == 'double' else 32)) - 1) == 0
        if is0(l) and a is r_ and b is fneg(r_):
            return mk('absi', 'pos_' + c.attr, (r_,), a.ty)        # 0 < x / 0 <= x  ? x : -x
        if is0(r_) and b is l and a is fneg(l):
            return mk('absi', 'neg_' + c.attr, (l,), a.ty)         # x < 0 / x <= 0  ? -x : x
    key = (c.id, a.id, b.id)
    r = _ite_memo.get(key)
    if r is None:
        r = _ite(c, a, b)
        _ite_memo[key] = r
    return r

_ite_memo = {}

def _ite(c, a, b):
    if c.op == 'ite':
        cid = c.args[0].id
        v = min(cid, _top(a), _top(b))
        vn = _nodes[v]
        hi = ite(_cof(c, v, True), _cof(a, v, True), _cof(b, v, True))
        lo = ite(_cof(c, v, False), _cof(a, v, False), _cof(b, v, False))
        return _mkite(vn, hi, lo)
    v = min(c.id, _top(a), _top(b))
    if v == c.id:
        return _mkite(c, _cof(a, v, True), _cof(b, v, False))
    vn = _nodes[v]
    hi = ite(c, _cof(a, v, True), _cof(b, v, True))
    lo = ite(c, _cof(a, v, False), _cof(b, v, False))
    return _mkite(vn, hi, lo)

def _mkite(c, a, b):
    if a is b: return a
    if a is TRUE and b is FALSE:
        return c
    if a is FALSE and b is TRUE:
        return mk('not', None, (c,), 'i1')
    return mk('ite', None, (c, a, b), a.ty if a.ty else b.ty)

def call(name, args, ty):
    # parity identities that LLVM's instcombine applies opportunistically (so both shapes occur
    # for the same source): cos(-x) = cos(x), fabs(-x) = fabs(x), sin(-x) = -sin(x), tan, atan, asin odd
    if len(args) == 1 and args[0].op == 'fneg':
        if name in ('cos', 'fabs', 'cosh'):
            return mk('call', name, (args[0].args[0],), ty)
        if name in ('sin', 'tan', 'atan', 'asin', 'sinh', 'tanh'):
            return fneg(mk('call', name, (args[0].args[0],), ty))
    if name == 'fabs' and len(args) == 1 and args[0].op == 'ite':
        # fabs(c ? -x : x) = fabs(x) (instcombine folds this when it sees it): distribute fabs over
        # the conditional; equal arms collapse
        c, a, b = args[0].args
        fa, fb = call('fabs', [a], ty), call('fabs', [b], ty)
        if fa is fb:
            return fa
    return mk('call', name, tuple(args), ty)

def inp(base, off, size, ty):
    return mk('in', (base, off, size), (), ty)

def arg(i, ty):
    return mk('arg', i, (), ty)

def undef(ty, tag=None):
    return mk('undef', tag, (), ty)

# ---------------------------------------------------------------- utilities

def atoms_of(n, acc=None, seen=None):
    """atomic conditions (non-ite i1 nodes used as ite conditions) in a term"""
    if acc is None: acc = []; seen = set()
    stack = [n]
    while stack:
        x = stack.pop()
        if x.id in seen: continue
        seen.add(x.id)
        if x.op == 'ite':
            c = x.args[0]
            if c.id not in seen and c not in acc:
                acc.append(c)
        stack.extend(x.args)
    return acc

def leaves(n, limit=4096):
    """flatten top-level ite structure: list of (literals tuple((cond,bool)...), leaf)"""
    out = []
    def rec(x, lits):
        if len(out) > limit:
            raise OverflowError('too many leaves')
        if x.op == 'ite':
            c, a, b = x.args
            d = dict(lits)
            if c in d:
                rec(a if d[c] else b, lits)
            else:
                rec(a, lits + ((c, True),))
                rec(b, lits + ((c, False),))
        else:
            out.append((lits, x))
    rec(n, ())
    return out

def resolve(n, asg, memo=None):
    """rebuild n with every ite whose condition is in asg resolved"""
    if memo is None: memo = {}
    def rec(x):
        r = memo.get(x.id)
        if r is not None: return r
        if not x.args:
            r = x
        elif x.op == 'ite':
            c0 = x.args[0]
            if c0 in asg:
                # conditions are identified by their original node: operands of a condition
                # may themselves contain conditionals that this very assignment resolves
                r = rec(x.args[1] if asg[c0] else x.args[2])
            else:
                c = rec(c0)
                if c in asg:
                    r = rec(x.args[1] if asg[c] else x.args[2])
                elif c.op == 'not' and c.args[0] in asg:
                    r = rec(x.args[2] if asg[c.args[0]] else x.args[1])
                else:
                    r = ite(c, rec(x.args[1]), rec(x.args[2]))
        else:
            na = tuple(rec(a) for a in x.args)
            if all(p is q for p, q in zip(na, x.args)):
                r = x
            else:
                r = rebuild(x, na)
        memo[x.id] = r
        return r
    import sys
    sys.setrecursionlimit(max(sys.getrecursionlimit(), 100000))
    return rec(n)

def rebuild(x, na):
    op = x.op
    if op in ('fadd', 'fmul', 'fdiv', 'frem', 'add', 'sub', 'mul', 'and', 'or', 'xor', 'shl', 'lshr', 'ashr', 'sdiv', 'udiv', 'srem', 'urem'):
        return binop(op, na[0], na[1], x.ty)
    if op == 'fneg':
        return fneg(na[0])
    if op in ('fcmp', 'icmp'):
        # attr is canonical base predicate
        return cmp(op, x.attr, na[0], na[1])
    if op == 'not':
        return bool_not(na[0])
    if op == 'ite':
        return ite(*na)
    if op in ('zext', 'sext', 'trunc', 'fpext', 'fptrunc', 'sitofp', 'uitofp', 'fptosi', 'fptoui', 'bitcast', 'ptrtoint', 'inttoptr'):
        return cast(op, na[0], x.attr[0], x.attr[1])
    if op == 'call':
        return call(x.attr, na, x.ty)
    return mk(op, x.attr, na, x.ty)

def subst(n, mapping, memo=None):
    """replace nodes (by identity) according to mapping {node: node}"""
    if memo is None: memo = {}
    def rec(x):
        r = memo.get(x.id)
        if r is not None: return r
        if x in mapping:
            r = mapping[x]
        elif not x.args:
            r = x
        else:
            na = tuple(rec(a) for a in x.args)
            r = x if all(p is q for p, q in zip(na, x.args)) else rebuild(x, na)
        memo[x.id] = r
        return r
    import sys
    sys.setrecursionlimit(max(sys.getrecursionlimit(), 100000))
    return rec(n)

def size(n):
    seen = set(); stack = [n]
    while stack:
        x = stack.pop()
        if x.id in seen: continue
        seen.add(x.id); stack.extend(x.args)
    return len(seen)

def show(n, depth=6, names=None):
    def cv(x):
        ty, v = x.attr
        if ty.startswith('i'):
            return str(signed(x)) if ty != 'i1' else ('true' if v else 'false')
        val = const_value(x)
        if isinstance(val, Fraction):
            f = float(val)
            return repr(f) if Fraction(f) == val else str(val)
        return val
    def rec(x, d):
        if x.op == 'const': return cv(x)
        if x.op == 'in':
            if names and x in names: return names[x]
            return 'in(%s+%s)' % (x.attr[0], x.attr[1])
        if x.op == 'arg': return 'arg%s' % x.attr
        if d <= 0: return '...'
        a = [rec(y, d - 1) for y in x.args]
        if x.op in ('fadd', 'add'): return '(%s + %s)' % tuple(a)
        if x.op in ('fmul', 'mul'): return '(%s * %s)' % tuple(a)
        if x.op in ('fdiv', 'sdiv'): return '(%s / %s)' % tuple(a)
        if x.op == 'fneg': return '-%s' % a[0]
        if x.op == 'absi': return '|%s|' % a[0]
        if x.op == 'not': return '!%s' % a[0]
        if x.op in ('fcmp', 'icmp'):
            sym = {'olt': '<', 'ole': '<=', 'oeq': '==', 'one': '<>', 'slt': '<s', 'ult': '<u', 'eq': '==', 'ord': 'ord'}[x.attr]
            return '(%s %s %s)' % (a[0], sym, a[1])
        if x.op == 'ite': return 'ite(%s, %s, %s)' % tuple(a)
        if x.op == 'call': return '%s(%s)' % (x.attr, ', '.join(a))
        if x.op in ('fpext', 'fptrunc', 'sitofp', 'zext', 'sext', 'trunc', 'bitcast', 'uitofp', 'fptosi', 'fptoui'):
            return '%s<%s>(%s)' % (x.op, x.attr[1], a[0])
        return '%s%s(%s)' % (x.op, '' if x.attr is None else '[%s]' % (x.attr,), ', '.join(a))
    import sys
    sys.setrecursionlimit(max(sys.getrecursionlimit(), 100000))
    return rec(n, depth)

def equiv(x, y, budget=20000):
    """semantic equality of two terms modulo distribution of operations over conditionals:
    identical nodes, or same operator with pairwise equivalent operands, or - when a conditional
    is in the way - equivalent under both truth values of its condition."""
    memo = {}
    cnt = [0]
    def rec(a, b):
        if a is b:
            return True
        key = (a.id, b.id)
        r = memo.get(key)
        if r is not None:
            return r
        cnt[0] += 1
        if cnt[0] > budget:
            raise OverflowError('equivalence budget exhausted')
        memo[key] = False   # cycle guard (terms are DAGs; not needed, but keeps memo total)
        r = False
        if a.op == 'ite' and b.op == 'ite' and rec(a.args[0], b.args[0]) and rec(a.args[1], b.args[1]) and rec(a.args[2], b.args[2]):
            r = True
        elif a.op == 'ite' or b.op == 'ite':
            c = a.args[0] if a.op == 'ite' else b.args[0]
            if a.op == 'ite' and b.op == 'ite' and b.args[0].id < a.args[0].id:
                c = b.args[0]
            r = rec(resolve(a, {c: True}), resolve(b, {c: True})) and rec(resolve(a, {c: False}), resolve(b, {c: False}))
        elif a.op == b.op and a.attr == b.attr and a.ty == b.ty and len(a.args) == len(b.args) and a.args:
            r = all(rec(p, q) for p, q in zip(a.args, b.args))
            if not r and a.op in COMMUT and len(a.args) == 2:
                r = rec(a.args[0], b.args[1]) and rec(a.args[1], b.args[0])
        memo[key] = r
        return r
    return rec(x, y)
