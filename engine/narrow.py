"""Precision-narrowing scan (effect rule over the unoptimised IR).

A function template instantiated for double only may not round an intermediate to float: no
`fptrunc double -> float`, no conversion of a 32/64-bit integer to float, no call of a single-precision libm routine (`acosf`, `sqrtf`, ...), and no
`float`-returning callee whose result is widened back.  Instantiations that mention float in their own
signature (converting constructors, mixed-type operators) are conversions by contract and are not looked at.
The scan reads the -O0 IR of a wrapper translation unit generated for T = double, so the functions it sees
are exactly the library functions the property's wrappers reach."""
import os, re, subprocess
from . import build

LIBM_F = ('acosf', 'asinf', 'atanf', 'atan2f', 'sinf', 'cosf', 'tanf', 'sqrtf', 'expf', 'logf', 'log10f', 'powf', 'fabsf',
          'fmodf', 'floorf', 'ceilf', 'hypotf', 'sinhf', 'coshf', 'tanhf', 'cbrtf', 'truncf', 'roundf', 'ldexpf', 'frexpf')

_def = re.compile(r'^define\b.*?@("?)([\w.$]+)\1\(.*?(!dbg !(\d+))?\s*\{\s*$')
_trunc = re.compile(r'=\s*fptrunc double [^,]* to float\b.*?(?:!dbg !(\d+))?\s*$')
_itof = re.compile(r'=\s*[su]itofp i(?:32|64) [^,]* to float\b.*?(?:!dbg !(\d+))?\s*$')
_callf = re.compile(r'=\s*(?:tail |notail |musttail )?call\b[^@]*\bfloat @("?)([\w.$]+)\1\(.*?(?:!dbg !(\d+))?\s*$')
_md = re.compile(r'^!(\d+) = (?:distinct )?!(\w+)\((.*)\)\s*$')

def _fields(body):
    out = {}
    for m in re.finditer(r'(\w+): (!\d+|"(?:[^"\\]|\\.)*"|[\w.-]+)', body):
        out[m.group(1)] = m.group(2)
    return out

def demangle(names):
    if not names: return {}
    r = subprocess.run(['llvm-cxxfilt-14'], input='\n'.join(names) + '\n', stdout=subprocess.PIPE, text=True)
    return dict(zip(names, r.stdout.splitlines()))

def scan_ll(path):
    """-> (functions seen [(mangled, nfloat_sites)], sites [dict(fn, kind, what, line_md)])"""
    md = {}
    fns = []; sites = []
    cur = None
    with open(path) as f:
        for line in f:
            if line.startswith('define'):
                m = _def.match(line.rstrip('\n'))
                cur = m.group(2) if m else None
                if cur: fns.append(cur)
                continue
            if line.startswith('}'):
                cur = None; continue
            if line.startswith('!'):
                m = _md.match(line.rstrip('\n'))
                if m: md[m.group(1)] = (m.group(2), _fields(m.group(3)))
                continue
            if cur is None: continue
            m = _trunc.search(line)
            if m:
                sites.append(dict(fn=cur, kind='fptrunc', what='fptrunc double to float', md=m.group(1))); continue
            m = _itof.search(line)
            if m:
                sites.append(dict(fn=cur, kind='fptrunc', what='conversion of a 32/64-bit integer to float (24 significant bits)', md=m.group(1))); continue
            m = _callf.search(line)
            if m:
                sites.append(dict(fn=cur, kind='call', what=m.group(2), md=m.group(3)))
    def loc(mdid):
        line = None; fil = None
        seen = 0
        while mdid and seen < 50:
            seen += 1
            k = md.get(mdid)
            if not k: break
            kind, fl = k
            if kind == 'DILocation' and line is None: line = fl.get('line')
            if 'file' in fl and fil is None:
                ff = md.get(fl['file'].lstrip('!'))
                if ff: fil = ff[1].get('filename', '').strip('"')
            if kind == 'DISubprogram': break
            mdid = fl.get('scope', '').lstrip('!') or None
        return fil, line
    for s in sites:
        s['file'], s['line'] = loc(s['md'])
    return fns, sites

def only_double(dem):
    """an instantiation for double that mentions no float / half: `Vec3<double>::length() const`, `nextFrame<double>(...)`"""
    if 'double' not in dem: return False
    return not re.search(r'\bfloat\b|\bhalf\b|\blong double\b', dem)

def scan(ws, name, source, extra=()):
    """compile a (double) wrapper TU, -> dict(functions=[demangled...], sites=[...]) restricted to double-only instantiations
    of library functions (wrappers excluded)"""
    bc = ws.compile(name, source, extra=extra)
    ll = bc[:-3] + '.raw.ll'
    r = subprocess.run(['llvm-dis-14', bc, '-o', ll], stdout=subprocess.PIPE, stderr=subprocess.STDOUT, text=True)
    if r.returncode != 0:
        raise build.BuildError('llvm-dis failed: ' + r.stdout[-500:])
    fns, sites = scan_ll(ll)
    os.unlink(ll)
    dm = demangle(sorted(set(fns) | {s['what'] for s in sites if s['kind'] == 'call'}))
    lib = [f for f in fns if f.startswith('_Z') and 'Imath' in dm.get(f, '') and only_double(dm[f])]
    libset = set(lib)
    out = []
    for s in sites:
        if s['fn'] not in libset: continue
        if s['kind'] == 'call':
            callee = s['what']
            if callee in LIBM_F or callee.rstrip('f') + 'f' in LIBM_F and callee.endswith('f'):
                s = dict(s, what='call of single-precision %s' % callee)
            elif callee.startswith('_Z') and 'Imath' in dm.get(callee, '') and only_double(dm[callee]):
                s = dict(s, what='float-returning %s' % dm[callee])
            else:
                continue
        s['dem'] = dm[s['fn']]
        if s.get('file'): s['file'] = build.repo_rel(s['file'])
        out.append(s)
    return dict(functions=[dm[f] for f in lib], sites=out)
