"""D-poly: homomorphic image of value-graph terms in Q(atoms) (exact real semantics).

Poly  = dict {monomial: Fraction}, monomial = tuple of (atom key, exponent) sorted by key.
Rat   = (num Poly, den Poly).  Equality by cross-multiplication after reduction by rewrite rules
atom^2 -> Poly (sqrt(t)^2 -> t, sin^2 -> 1-cos^2, |t|^2 -> t^2, rule-supplied premises)."""
from fractions import Fraction
from . import term as T

class NotPoly(Exception):
    pass

MAX_MONOS = 400000
CANCEL = [0]   # number of monomials that cancelled in padd/pmul since last reset (R05.nocancel)

def pconst(c):
    c = Fraction(c)
    return {(): c} if c != 0 else {}

def patom(key):
    return {((key, 1),): Fraction(1)}

def padd(a, b):
    if len(a) < len(b): a, b = b, a
    r = dict(a)
    for m, c in b.items():
        v = r.get(m, 0) + c
        if v == 0:
            r.pop(m, None)
            CANCEL[0] += 1
        else:
            r[m] = v
    return r

def pneg(a):
    return {m: -c for m, c in a.items()}

def psub(a, b):
    return padd(a, pneg(b))

def mmul(m1, m2):
    if not m1: return m2
    if not m2: return m1
    d = dict(m1)
    for k, e in m2:
        d[k] = d.get(k, 0) + e
    return tuple(sorted(d.items()))

def pmul(a, b):
    if not a or not b: return {}
    if len(a) * len(b) > MAX_MONOS * 4:
        raise NotPoly('polynomial product too large (%d x %d)' % (len(a), len(b)))
    r = {}
    for m1, c1 in a.items():
        for m2, c2 in b.items():
            m = mmul(m1, m2)
            v = r.get(m, 0) + c1 * c2
            if v == 0:
                r.pop(m, None)
                CANCEL[0] += 1
            else:
                r[m] = v
    if len(r) > MAX_MONOS:
        raise NotPoly('polynomial too large')
    return r

def _lead(p):
    """leading monomial in a fixed (lexicographic on the sorted factor tuple) order"""
    return max(p.keys(), key=lambda m: (sum(e for _, e in m), tuple((-k, e) for k, e in m)))   # graded lex

def _mdiv(m1, m2):
    """m1 / m2 or None"""
    d = dict(m1)
    for k, e in m2:
        if d.get(k, 0) < e: return None
        d[k] -= e
        if d[k] == 0: del d[k]
    return tuple(sorted(d.items()))

def pdivexact(p, q, limit=200000):
    """exact multivariate division: r with p == q*r, or None"""
    if not q: return None
    if not p: return {}
    lq = _lead(q); cq = q[lq]
    r = {}
    rem = dict(p)
    steps = 0
    while rem:
        steps += 1
        if steps > limit: return None
        lr = _lead(rem)
        m = _mdiv(lr, lq)
        if m is None: return None
        c = rem[lr] / cq
        r[m] = r.get(m, 0) + c
        # rem -= c*m*q
        for mq, vq in q.items():
            mm = mmul(m, mq)
            v = rem.get(mm, 0) - c * vq
            if v == 0: rem.pop(mm, None)
            else: rem[mm] = v
    return r

def psqrt(p):
    """polynomial q with q*q == p, or None"""
    if not p: return {}
    lt = _lead(p); c = p[lt]
    rc = _rat_sqrt(c)
    if rc is None or any(e % 2 for _, e in lt): return None
    t0m = tuple((k, e // 2) for k, e in lt)
    q = {t0m: rc}
    rem = psub(p, pmul(q, q))
    steps = 0
    while rem:
        steps += 1
        if steps > len(p) + 8: return None
        lr = _lead(rem)
        m = _mdiv(lr, t0m)
        if m is None: return None
        q = padd(q, {m: rem[lr] / (2 * rc)})
        rem = psub(p, pmul(q, q))
    return q

def pscale(a, c):
    if c == 0: return {}
    return {m: v * c for m, v in a.items()}

def ppow(a, n):
    r = pconst(1)
    for _ in range(n):
        r = pmul(r, a)
    return r

def is_zero(a):
    return not a

def pderiv_count(a):
    return len(a)

class Ctx:
    """conversion context: atom naming, rewrite rules, premises"""
    def __init__(self, names=None):
        self.rules = {}       # atom key -> Poly for key^2
        self.rules3 = {}      # atom key -> Poly for key^3 (cube roots)
        self.lin = {}         # atom key -> Poly replacing key itself (substitution)
        self.memo = {}
        self.names = names or {}
        self.atom_nodes = {}  # key -> node
        self.cancelled = 0
        self.track_cancel = False
        self.polyatoms = {}
        self.cancel = False
        self.factors = []
        self.positive = set()     # atom keys known to be positive (premises): |a| = a
        self.prefer_sin = set()   # argument keys (canonical rational forms) whose sine is the kept atom
        self.poly_names = {}

    def key(self, node):
        k = node.id
        self.atom_nodes[k] = node
        return k

    def reduce(self, p):
        """apply rules atom^2 -> poly and atom -> poly until fixpoint"""
        if not self.rules and not self.lin and not self.rules3:
            return p
        changed = True
        guard = 0
        while changed:
            changed = False
            guard += 1
            if guard > 200:
                raise NotPoly('rule reduction does not terminate')
            out = {}
            for m, c in p.items():
                hit = None
                for k, e in m:
                    if k in self.lin or (e >= 2 and k in self.rules) or (e >= 3 and k in self.rules3):
                        hit = (k, e)
                        break
                if hit is None:
                    v = out.get(m, 0) + c
                    if v == 0: out.pop(m, None)
                    else: out[m] = v
                    continue
                changed = True
                k, e = hit
                rest = tuple((kk, ee) for kk, ee in m if kk != k)
                if k in self.lin:
                    rep = ppow(self.lin[k], e)
                elif k in self.rules3 and k not in self.rules:
                    rep = ppow(self.rules3[k], e // 3)
                    if e % 3:
                        rep = pmul(rep, ppow(patom(k), e % 3))
                else:
                    rep = ppow(self.rules[k], e // 2)
                    if e % 2:
                        rep = pmul(rep, patom(k))
                t = pmul({rest: c}, rep)
                for mm, cc in t.items():
                    v = out.get(mm, 0) + cc
                    if v == 0: out.pop(mm, None)
                    else: out[mm] = v
            p = out
        return p

    # -- rational functions
    def rat(self, node):
        r = self.memo.get(node.id)
        if r is None:
            r = self._rat(node)
            self.memo[node.id] = r
        return r

    def radd(self, a, b):
        if a[1] == b[1]:
            return self.simplify((self.reduce(padd(a[0], b[0])), a[1]))
        if self.cancel:
            q = pdivexact(a[1], b[1]) if len(b[1]) <= len(a[1]) else None
            if q is not None:
                return self.simplify((self.reduce(padd(a[0], pmul(b[0], q))), a[1]))
            q = pdivexact(b[1], a[1]) if len(a[1]) <= len(b[1]) else None
            if q is not None:
                return self.simplify((self.reduce(padd(pmul(a[0], q), b[0])), b[1]))
        return self.simplify((self.reduce(padd(pmul(a[0], b[1]), pmul(b[0], a[1]))), self.reduce(pmul(a[1], b[1]))))

    def rmul(self, a, b):
        return self.simplify((self.reduce(pmul(a[0], b[0])), self.reduce(pmul(a[1], b[1]))))

    def rdiv(self, a, b):
        if not b[0]:
            raise NotPoly('division by the zero polynomial')
        if self.cancel and len(b[0]) > 1 and b[0] not in self.factors:
            self.factors.append(b[0])
            self.factors.sort(key=len, reverse=True)
        return self.simplify((self.reduce(pmul(a[0], b[1])), self.reduce(pmul(a[1], b[0]))))

    def simplify(self, r):
        """cancel known factors (polynomials that occurred as divisors) common to num and den"""
        if not self.cancel:
            return r
        num, den = r
        if not num:
            return ({}, pconst(1))
        if len(den) == 1 and () in den:
            return r
        for f in self.factors:
            while len(f) <= len(den) or len(f) <= 2:
                qd = pdivexact(den, f)
                if qd is None: break
                qn = pdivexact(num, f)
                if qn is None: break
                num, den = qn, qd
        # common monomial content of numerator and denominator
        def content(p_):
            g = None
            for m in p_:
                d = dict(m)
                g = d if g is None else dict((k, min(e, d[k])) for k, e in g.items() if k in d)
                if not g: break
            return g or {}
        gn, gd = content(num), content(den)
        common = dict((k, min(e, gd[k])) for k, e in gn.items() if k in gd)
        if common:
            cm = tuple(sorted(common.items()))
            num = dict((_mdiv(m, cm), c) for m, c in num.items())
            den = dict((_mdiv(m, cm), c) for m, c in den.items())
        return (num, den)

    def requal(self, a, b):
        return not self.reduce(psub(pmul(a[0], b[1]), pmul(b[0], a[1])))

    def rzero(self, a):
        return not self.reduce(a[0])

    def _rat(self, n):
        op = n.op
        one = pconst(1)
        if op == 'const':
            v = T.const_value(n) if not n.attr[0].startswith('i') else T.signed(n)
            if isinstance(v, str):
                raise NotPoly('non-finite constant')
            return (pconst(v), one)
        if op in ('in', 'arg'):
            return (self.reduce(patom(self.key(n))), one)
        if op in ('fadd', 'add'):
            return self.radd(self.rat(n.args[0]), self.rat(n.args[1]))
        if op == 'sub':
            b = self.rat(n.args[1])
            return self.radd(self.rat(n.args[0]), (pneg(b[0]), b[1]))
        if op in ('fmul', 'mul'):
            return self.rmul(self.rat(n.args[0]), self.rat(n.args[1]))
        if op == 'fdiv':
            return self.rdiv(self.rat(n.args[0]), self.rat(n.args[1]))
        if op == 'fneg':
            a = self.rat(n.args[0])
            return (pneg(a[0]), a[1])
        if op in ('fpext', 'fptrunc', 'sitofp', 'sext'):
            return self.rat(n.args[0])
        if op == 'trunc' and getattr(self, 'int_exact', False):
            return self.rat(n.args[0])        # stated assumption of the caller: the integer fits the narrower type
        if op == 'call':
            return self.call(n)
        if op == 'absi':
            return self.absatom(n.args[0])
        if op == 'sel':
            # an element of memory written by an opaque call: an input-like atom
            return (self.reduce(patom(self.key(n))), one)
        if op == 'ite':
            a = abs_idiom(n)
            if a is not None:
                return self.absatom(a)
            raise NotPoly('unresolved conditional %s' % T.show(n, 3))
        raise NotPoly('no real-arithmetic image for %s' % op)

    def sqrt_poly(self, p):
        one = pconst(1)
        if not p:
            return ({}, one)
        # pull out the content (rational constant) if it is a perfect square
        if len(p) == 1 and () in p:
            c = p[()]
            r = _rat_sqrt(c)
            if r is not None:
                return (pconst(r), one)
        if len(p) == 1:
            # monomial radicand: sqrt(c * prod x_i^(2 k_i)) = sqrt(c) * prod |x_i|^k_i
            (m, c), = p.items()
            r = _rat_sqrt(c)
            if r is not None and all(e % 2 == 0 for _, e in m):
                out = pconst(r)
                for kk, e in m:
                    out = pmul(out, ppow(self.abs_of_atom(kk), e // 2))
                return (self.reduce(out), one)
        if len(p) > 1:
            q = psqrt(p)
            if q is not None:
                # sqrt(q^2) = |q| ; = q when q is visibly positive (positive coefficients over positive atoms)
                if all(c > 0 for c in q.values()) and all(k in self.positive or e % 2 == 0 for m in q for k, e in m):
                    return (q, one)
                # q (or -q) is itself the radicand of an existing root atom: it is non-negative wherever that root is real
                for qkey, qk in self.polyatoms.items():
                    if not qkey or qkey[0] in ('abs', 'absp', 'fn'): continue
                    if dict(qkey) == q: return (q, one)
                    if dict(qkey) == pneg(q): return (pneg(q), one)
                return self.abs_poly(q)
        key = tuple(sorted(p.items()))
        k = self.polyatoms.get(key)
        if k is None and len(p) > 1:
            # sqrt(q*r) = sqrt(q)*sqrt(r): split off the polynomial of an existing root atom
            # (both factors are non-negative wherever the roots are real)
            for qkey, qk in list(self.polyatoms.items()):
                if qkey and qkey[0] in ('abs', 'absp', 'fn'): continue
                q = dict(qkey)
                if len(q) < 2 or len(q) > len(p): continue
                r = pdivexact(p, q)
                if r is not None and r:
                    return self.rmul((patom(qk), one), self.sqrt_poly(r))
        if k is None and len(p) > 1 and self.cancel:
            # pull the square of a known divisor out of the radicand: sqrt(f^2 * r) = |f| * sqrt(r)
            for f in self.factors:
                if len(f) < 2 or 2 * len(f) > len(p) + 1: continue
                r = pdivexact(p, pmul(f, f))
                if r is not None and r:
                    vis = all(c > 0 for c in f.values()) and all(kk in self.positive or e % 2 == 0 for m in f for kk, e in m)
                    return self.rmul((f, one) if vis else self.abs_poly(f), self.sqrt_poly(r))
        if k is None:
            k = -(len(self.polyatoms) + 1)
            self.polyatoms[key] = k
            self.rules[k] = dict(p)
            self.atom_nodes[k] = None
            self.poly_names[k] = p
            self.positive.add(k)      # a square root is non-negative: |sqrt(p)| = sqrt(p)
            if len(p) > 1 and self.cancel:
                # an older root whose radicand is this one times a square: sqrt(p * g^2) = sqrt(p) * |g|
                for qkey, qk in list(self.polyatoms.items()):
                    if not qkey or qkey[0] in ('abs', 'absp', 'fn') or qk == k or qk in self.lin: continue
                    q = dict(qkey)
                    if len(q) <= len(p): continue
                    r = pdivexact(q, p)
                    if r is None: continue
                    g = psqrt(r)
                    if g is None: continue
                    vis = all(c > 0 for c in g.values()) and all(kk in self.positive or e % 2 == 0 for m in g for kk, e in m)
                    ag = g if vis else self.abs_poly(g)[0]
                    self.lin[qk] = pmul(patom(k), ag)
                    self.memo.clear()
        return (patom(k), one)

    def abs_of_atom(self, kk):
        """|x| for an atom x, with |x|^2 -> x^2"""
        if kk in self.positive:
            return patom(kk)
        key = ('abs', kk)
        k = self.polyatoms.get(key)
        if k is None:
            k = -(len(self.polyatoms) + 1)
            self.polyatoms[key] = k
            self.rules[k] = {((kk, 2),): Fraction(1)}
            self.atom_nodes[k] = None
            self.poly_names[k] = None
        return patom(k)

    def absatom(self, x):
        """|x| with |x|^2 -> x^2"""
        xr0 = self.rat(x)
        if not xr0[0]:
            return ({}, pconst(1))
        if len(xr0[0]) == 1 and () in xr0[0] and len(xr0[1]) == 1 and () in xr0[1]:
            return (pconst(abs(xr0[0][()] / xr0[1][()])), pconst(1))
        if not (len(xr0[1]) == 1 and () in xr0[1]):
            # |N/D| = |N| / |D|
            return self.rdiv(self.abs_poly(xr0[0]), self.abs_poly(xr0[1]))
        # keyed by the *value* of the argument (|1*a| and |a| are one atom; |c * x^e| = |c| * |x|^e)
        p = xr0[0]; dconst = abs(xr0[1][()])
        if len(p) == 1:
            (m, c), = p.items()
            out = pconst(abs(c) / dconst)
            for kk, e in m:
                out = pmul(out, ppow(self.abs_of_atom(kk), e) if e % 2 else ppow(patom(kk), e))
            return (self.reduce(out), pconst(1))
        r = self.abs_poly(p)
        return (pscale(r[0], Fraction(1) / dconst), r[1]) if dconst != 1 else r

    def abs_poly(self, p):
        """|p| for a polynomial p, as an atom a with a^2 -> p^2"""
        one = pconst(1)
        if len(p) == 1 and () in p:
            return (pconst(abs(p[()])), one)
        key = ('absp',) + tuple(sorted(p.items()))
        k = self.polyatoms.get(key)
        if k is None:
            nkey = ('absp',) + tuple(sorted(pneg(p).items()))
            k = self.polyatoms.get(nkey)
        if k is None and len(p) > 1:
            # |p| = |q| * r  or  |q| / r  for an existing atom |q| and a visibly positive cofactor r
            def vpos(r):
                return bool(r) and all(c > 0 for c in r.values()) and all(kk in self.positive or e % 2 == 0 for m in r for kk, e in m)
            for qkey, qk in list(self.polyatoms.items()):
                if not qkey or qkey[0] != 'absp': continue
                q = dict(qkey[1:])
                if len(q) < 2: continue
                for sgn in (1, -1):
                    qq = q if sgn == 1 else pneg(q)
                    if len(qq) <= len(p):
                        r = pdivexact(p, qq)
                        if r is not None and vpos(r): return (pmul(patom(qk), r), one)
                    else:
                        r = pdivexact(qq, p)
                        if r is not None and vpos(r): return (patom(qk), r)
        if k is None:
            k = -(len(self.polyatoms) + 1)
            self.polyatoms[key] = k
            self.rules[k] = ppow(p, 2)
            self.atom_nodes[k] = None
            self.poly_names[k] = None
        return (patom(k), one)

    def call(self, n):
        name = n.attr
        one = pconst(1)
        if name == 'fabs':
            return self.absatom(n.args[0])
        k = self.key(n)
        if name == 'ldexp' and len(n.args) == 2:
            # x * 2^k: the power of two is a positive atom keyed by the exponent expression (k and -k are reciprocal)
            kx = n.args[1]; negk = False
            if kx.op == 'sub' and kx.args[0].op == 'const' and T.const_value(kx.args[0]) == 0: kx = kx.args[1]; negk = True
            if kx.op == 'const':
                return self.rmul(self.rat(n.args[0]), (pconst(Fraction(2) ** T.signed(kx) if not negk else Fraction(2) ** (-T.signed(kx))), one))
            ak = self.key(T.call('pow2', [kx], n.ty))
            self.positive.add(ak)
            pw = (patom(ak), one)
            return self.rdiv(self.rat(n.args[0]), pw) if negk else self.rmul(self.rat(n.args[0]), pw)
        if name == 'sqrt':
            # sqrt(N/D) = sqrt(N)/sqrt(D) (arguments of sqrt are non-negative, denominators positive:
            # stated assumption); sqrt atoms are keyed by the *polynomial* under the root so that
            # sqrt(v.v) reached through different expressions is one atom
            xr = self.rat(n.args[0])
            return self.rdiv(self.sqrt_poly(xr[0]), self.sqrt_poly(xr[1]))
        # transcendental atoms are keyed by the *value* of their arguments (canonical rational form),
        # so that sin(1*a) and sin(a) are one atom
        try:
            argkeys = tuple((tuple(sorted(r[0].items())), tuple(sorted(r[1].items()))) for r in (self.rat(a) for a in n.args))
        except NotPoly:
            argkeys = None
        def fatom(nm):
            if argkeys is None:
                return self.key(T.call(nm, list(n.args), n.ty))
            kk = ('fn', nm) + argkeys
            v = self.polyatoms.get(kk)
            if v is None:
                v = -(len(self.polyatoms) + 1)
                self.polyatoms[kk] = v
                self.atom_nodes[v] = T.call(nm, list(n.args), n.ty)
            return v
        k = fatom(name)
        if name in ('sin', 'cos', 'tan', 'atan', 'asin') and argkeys is not None and len(n.args) == 1:
            # odd / even symmetry and f(0)
            r0 = self.rat(n.args[0])
            if not r0[0]:
                return (pconst(1), one) if name == 'cos' else ({}, one)
        flip = argkeys is not None and argkeys in self.prefer_sin
        if name == 'sin' and not flip:
            # sin(t)^2 -> 1 - cos(t)^2
            ck = fatom('cos')
            if k not in self.rules:
                self.rules[k] = psub(one, ppow(patom(ck), 2))
            return (patom(k), one)
        if name == 'cos' and flip:
            # for this angle the sine is the kept atom: cos(t)^2 -> 1 - sin(t)^2
            sk = fatom('sin')
            if k not in self.rules:
                self.rules[k] = psub(one, ppow(patom(sk), 2))
            return (patom(k), one)
        return (patom(k), one)

def install_trig_expansion(ctx):
    """sin / cos of a polynomial argument by the addition formulas over its monomials.  A term n * X with X an atan2 atom and
    n a small integer is expanded by the multiple-angle recursion from sin X = y/h, cos X = x/h (h = sqrt(x^2 + y^2)); every
    other term c * m gets a pair of atoms (S, C) with S^2 = 1 - C^2, shared by all occurrences of +-c * m."""
    orig = ctx.call
    one = pconst(1)
    pairs = {}
    def neg(r): return (pneg(r[0]), r[1])
    def atan_base(k):
        nd = ctx.atom_nodes.get(k)
        if nd is None or nd.op != 'call' or nd.attr != 'atan2': return None
        y, x = ctx.rat(nd.args[0]), ctx.rat(nd.args[1])
        h2 = ctx.radd(ctx.rmul(x, x), ctx.rmul(y, y))
        h = ctx.rdiv(ctx.sqrt_poly(h2[0]), ctx.sqrt_poly(h2[1]))
        return ctx.rdiv(y, h), ctx.rdiv(x, h)
    def add(a, b):
        (s1, c1), (s2, c2) = a, b
        return (ctx.radd(ctx.rmul(s1, c2), ctx.rmul(c1, s2)), ctx.radd(ctx.rmul(c1, c2), neg(ctx.rmul(s1, s2))))
    def term(m, q):
        """(sin, cos) of q * m"""
        if q < 0:
            s_, c_ = term(m, -q); return neg(s_), c_
        if len(m) == 1 and m[0][1] == 1 and q == int(q) and 1 <= q <= 8:
            b = atan_base(m[0][0])
            if b is not None:
                acc = b
                for _ in range(int(q) - 1): acc = add(acc, b)
                return acc
        if not m: raise NotPoly('sine / cosine of a non-zero constant')
        key = (m, q)
        pr = pairs.get(key)
        if pr is None:
            ks = -(len(ctx.polyatoms) + 1); ctx.polyatoms[('fn', 'trig-s', key)] = ks
            kc = -(len(ctx.polyatoms) + 1); ctx.polyatoms[('fn', 'trig-c', key)] = kc
            for k_ in (ks, kc): ctx.atom_nodes[k_] = None; ctx.poly_names[k_] = None
            ctx.rules[ks] = psub(one, ppow(patom(kc), 2))
            pr = pairs[key] = ((patom(ks), one), (patom(kc), one))
        return pr
    def call(n):
        if n.attr in ('sin', 'cos') and len(n.args) == 1:
            try: a = ctx.rat(n.args[0])
            except NotPoly: return orig(n)
            if not (len(a[1]) == 1 and () in a[1]): return orig(n)
            d0 = a[1][()]
            acc = (({}, one), (one, one))
            for m, c in sorted(a[0].items()):
                acc = add(acc, term(m, Fraction(c) / d0))
            return acc[0] if n.attr == 'sin' else acc[1]
        return orig(n)
    ctx.call = call
    return pairs

def _rat_sqrt(c):
    from math import isqrt
    if c < 0: return None
    n, d = c.numerator, c.denominator
    rn, rd = isqrt(n), isqrt(d)
    if rn * rn == n and rd * rd == d:
        return Fraction(rn, rd)
    return None

def abs_idiom(n):
    """ite(0 <= x, x, -x), ite(0 < x, x, -x), ite(x < 0, -x, x), ite(x <= 0, -x, x) -> x"""
    if n.op == 'absi': return n.args[0]
    if n.op != 'ite': return None
    c, a, b = n.args
    if c.op != 'fcmp' or c.attr not in ('olt', 'ole'): return None
    l, r = c.args
    def is0(x): return x.op == 'const' and T.const_value(x) == 0
    if is0(l):
        x = r     # 0 < x  or 0 <= x : then-branch should be x
        if a is x and b is T.fneg(x): return x
    if is0(r):
        x = l     # x < 0 : then-branch should be -x
        if a is T.fneg(x) and b is x: return x
    return None

def show_poly(p, ctx, limit=12):
    if not p: return '0'
    items = sorted(p.items(), key=lambda kv: kv[0])
    out = []
    for m, c in items[:limit]:
        fs = []
        for k, e in m:
            node = ctx.atom_nodes.get(k)
            nm = ctx.names.get(node) if node is not None else None
            if nm is None:
                if node is not None:
                    nm = T.show(node, 2, ctx.names)
                elif k in getattr(ctx, 'poly_names', {}):
                    nm = ('sqrt(%s)' % show_poly(ctx.poly_names[k], ctx, 4)) if ctx.poly_names[k] is not None else '|atom|'
                else:
                    nm = str(k)
            fs.append(nm if e == 1 else '%s^%d' % (nm, e))
        cs = str(c)
        if fs:
            if c == 1: cs = ''
            elif c == -1: cs = '-'
            out.append(cs + '*'.join(fs) if cs in ('', '-') else cs + '*' + '*'.join(fs))
        else:
            out.append(cs)
    s = ' + '.join(out).replace('+ -', '- ')
    if len(items) > limit: s += ' + ... (%d terms)' % len(items)
    return s

def show_rat(r, ctx):
    if r[1] == pconst(1): return show_poly(r[0], ctx)
    return '(%s) / (%s)' % (show_poly(r[0], ctx), show_poly(r[1], ctx))

def all_conds(n):
    """every atomic condition reachable anywhere in n (including inside operands)"""
    seen = set(); out = []
    stack = [n]
    while stack:
        x = stack.pop()
        if x.id in seen: continue
        seen.add(x.id)
        if x.op == 'ite':
            c = x.args[0]
            if c not in out: out.append(c)
        stack.extend(x.args)
    return sorted(out, key=lambda c: c.id)
