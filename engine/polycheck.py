"""Helpers that decide 'term == specification' in D-poly, case by case over the atomic
conditions that occur in the term (the leaves of the gated result)."""
import itertools
from fractions import Fraction
from . import term as T, poly as P

class Undecided(Exception):
    pass

def eq_subst(cond, truth):
    """if the literal (cond == truth) pins an input to a value, return (atom node, replacement node)"""
    if cond.op in ('fcmp', 'icmp') and ((cond.attr in ('oeq', 'eq') and truth) or (cond.attr == 'one' and not truth)):
        a, b = cond.args
        while a.op in ('fpext', 'fptrunc', 'sext'): a = a.args[0]
        while b.op in ('fpext', 'fptrunc', 'sext'): b = b.args[0]
        for x, y in ((a, b), (b, a)):
            if x.op in ('in', 'arg') and (y.op == 'const' or y.op in ('in', 'arg')):
                return (x, y)
    return None

def enumerate_cases(terms, premises=None, max_conds=14):
    """yield (assignment {cond: bool}, Ctx with the equalities of the assignment as substitutions).
    premises: {cond node: bool} fixed truth values."""
    conds = []
    for t in terms:
        for c in P.all_conds(t):
            if c not in conds: conds.append(c)
    premises = premises or {}
    free = [c for c in conds if c not in premises]
    if len(free) > max_conds:
        raise Undecided('%d independent conditions (limit %d)' % (len(free), max_conds))
    for bits in itertools.product((True, False), repeat=len(free)):
        asg = dict(premises)
        asg.update(zip(free, bits))
        yield asg

def resolve_all(term, asg):
    """resolve every ite in term under asg; conditions are re-evaluated after inner resolution, so
    nested conditions whose operands change are looked up by their *original* node"""
    return T.resolve(term, asg)

def ctx_for(asg, base_rules=None, names=None, cancel=False):
    ctx = P.Ctx(names)
    ctx.cancel = cancel
    contradictory = False
    for c, v in asg.items():
        s = eq_subst(c, v)
        if s is None: continue
        x, y = s
        k = ctx.key(x)
        if y.op == 'const':
            val = T.const_value(y) if not y.attr[0].startswith('i') else T.signed(y)
            if isinstance(val, str): continue
            rep = P.pconst(val)
        else:
            if y.id == x.id: continue
            rep = P.patom(ctx.key(y))
        if k in ctx.lin and ctx.lin[k] != rep:
            contradictory = True
        ctx.lin[k] = rep
    if base_rules:
        base_rules(ctx)
    return ctx, contradictory

def live_cases(terms, premises=None, max_conds=14, feasible=None):
    """cases that are actually distinguishable: group assignments by the resolved terms"""
    seen = {}
    for asg in enumerate_cases(terms, premises, max_conds):
        if feasible is not None and not feasible(asg):
            continue
        res = tuple(resolve_all(t, asg) for t in terms)
        left = [c for t in res for c in P.all_conds(t)]
        if left:
            raise Undecided('conditions remain after resolution: %s' % T.show(left[0], 3))
        yield asg, res

def show_asg(asg):
    return ', '.join('%s=%s' % (T.show(c, 2), 'T' if v else 'F') for c, v in sorted(asg.items(), key=lambda kv: kv[0].id))

class Spec:
    """symbolic inputs as Poly atoms tied to `in` nodes"""
    def __init__(self, ctx):
        self.ctx = ctx
    def atom(self, node):
        return self.ctx.reduce(P.patom(self.ctx.key(node)))

# ---------------------------------------------------------------- generic-point evaluation

def _ready(c):
    """condition whose operands contain no conditional"""
    return not any(P.all_conds(a) for a in c.args)

def generic_cases(terms, ctx, enumerate_cond=None, premise=None, max_enum=8, abs_pos=True):
    """Evaluate the conditionals of `terms` at a *generic point* of the scenario described by
    ctx (its substitutions ctx.lin pin inputs; everything else is an indeterminate):
      a == b   is true  iff rat(a) - rat(b) is the zero rational function (identically equal),
               false otherwise (a non-zero polynomial is non-zero at a generic point);
      premise(c) may fix a truth value (e.g. squared length < 2*min -> False, C08's domain);
      enumerate_cond(c) -> True marks order comparisons that are enumerated both ways.
    Yields (assignment, resolved terms)."""
    def step(cur, asg, depth):
        conds = []
        for t in cur:
            for c in P.all_conds(t):
                if c not in conds: conds.append(c)
        if not conds:
            yield asg, cur
            return
        ready = [c for c in conds if _ready(c)]
        if not ready:
            raise Undecided('conditions are mutually nested')
        c = min(ready, key=lambda x: x.id)
        v = premise(c) if premise else None
        why = ''
        if v is None and c.op in ('fcmp', 'icmp') and c.attr in ('oeq', 'eq', 'one'):
            try:
                a, b = ctx.rat(c.args[0]), ctx.rat(c.args[1])
                same = ctx.requal(a, b)
                v = same if c.attr in ('oeq', 'eq') else (not same)
            except P.NotPoly as e:
                v = None; why = ' (%s)' % e
        if v is None and c.op == 'fcmp' and c.attr in ('olt', 'ole'):
            # comparisons between constants fold in the term layer; sign tests of sqrt / fabs atoms:
            try:
                a, b = ctx.rat(c.args[0]), ctx.rat(c.args[1])
                if ctx.requal(a, b):
                    v = (c.attr == 'ole')
                else:
                    def cv(r):
                        n, d = r
                        if (not n or (len(n) == 1 and () in n)) and len(d) == 1 and () in d:
                            return (n.get((), 0)) / d[()]
                        return None
                    x, y = cv(a), cv(b)
                    if x is not None and y is not None:
                        v = (x < y) if c.attr == 'olt' else (x <= y)
            except P.NotPoly:
                pass
        if v is not None:
            a2 = dict(asg); a2[c] = v
            yield from step([T.resolve(t, {c: v}) for t in cur], a2, depth)
            return
        if enumerate_cond is None or not enumerate_cond(c) or depth >= max_enum:
            raise Undecided('condition %s cannot be decided at a generic point%s' % (T.show(c, 3)[:200], why))
        # conditions with the same meaning over the reals (equal rational operands) get the same truth value
        ck = None
        try:
            ra, rb = ctx.rat(c.args[0]), ctx.rat(c.args[1])
            ck = (c.attr,) + tuple(tuple(sorted(pp.items())) for pp in (ra[0], ra[1], rb[0], rb[1]))
        except P.NotPoly:
            pass
        known = asg.get(('key', ck)) if ck is not None else None
        for v in ((True, False) if known is None else (known,)):
            a2 = dict(asg); a2[c] = v
            if ck is not None: a2[('key', ck)] = v
            yield from step([T.resolve(t, {c: v}) for t in cur], a2, depth + (1 if known is None else 0))
    for asg, res in step(list(terms), {}, 0):
        yield dict((k, v) for k, v in asg.items() if not isinstance(k, tuple)), res
